"""Drivers and recorders for the content-negotiation area (C17).

Nothing here decides a verdict: the functions build header texts / offer lists, run the real
werkzeug classes and record what they returned (iteration order of the parsed Accept object,
quality(offer) per offer, best_match(offers)) as ndjson lines for spec/accept/AcceptTrace.tla.
"""
from __future__ import annotations

import codecs
import random

from .core import cps
from .tlc import MachineryError

FAMS = ("accept", "mime", "language", "charset")

# q texts: the property's set first (absent, 0, 0.001, 0.5, 1, 1.000, malformed, negative, > 1), then more
Q_TEXTS = ["", "0", "0.001", "0.5", "1", "1.000", "abc", "-1", "2",
           "0.50", "1.", ".5", "1.001", "0.5x", "1e0", "-0.5", "00.250", "0.9", "0.8", "0.7", "0.3", "0.0", "0.999", "1.0", "10", "+1"]
SEPS = [",", ", ", " ,", "\t, ", " , "]
QPRES = [";q=", "; q=", " ;Q=", ";\tq=", " ; q="]

POOL = {
    "mime": dict(
        ranges=["a/b", "a/*", "*/*", "a/b;p=1", "c/d", "A/b;P=1", "*/b", "a", "text/html", "text/*", "text/html;level=1",
                "text/html;level=2", "TEXT/HTML", "application/json", "application/xml", "application/*", "image/png",
                "text/plain;format=flowed;charset=utf-8", "text/plain;charset=utf-8;format=flowed", "text/plain", "a/b;p=1;r=2",
                "a/*;p=1", "*/*;p=1", "*"],
        offers=["a/b", "a/b;p=1", "c/d", "a/c", "a/*", "*/*", "A/B", "a/b; p=1", "text/html", "text/html;level=1", "text/plain",
                "application/json", "image/png", "text/html; level=2", "text/plain;charset=utf-8;format=flowed", "TEXT/html",
                "text/*", "a/b;r=2;p=1", "a/b;P=1", "application/xhtml+xml"],
    ),
    "language": dict(
        ranges=["en", "en-US", "en_gb", "de", "*", "EN", "fr-CA", "de-AT", "de_AT", "fr", "zh-Hans-CN", "zh", "fi", "fil", "es-419",
                "en-us", "aus-EN", "aus", "pt-BR", "pt"],
        offers=["en", "en-us", "EN-GB", "de-AT", "deu", "de", "fr", "en-US", "en_US", "fil-PH", "fi-FI", "fi", "zh-Hans", "zh-CN",
                "zh", "es", "es-ES", "aus", "aus-EN", "pt-PT", "english", "de_CH", "fr_CA"],
    ),
    "charset": dict(
        ranges=["utf-8", "UTF8", "latin1", "x-foo", "*", "us-ascii", "L1", "iso-8859-1", "ISO8859-1", "utf_8", "ascii", "X-Bar", "u8"],
        offers=["utf8", "iso-8859-1", "X-FOO", "ascii", "UTF_8", "x-bar", "utf-8", "latin-1", "Latin1", "US-ASCII", "646", "x-foo"],
    ),
    "accept": dict(
        ranges=["gzip", "GZIP", "br", "identity", "*", "x-gzip", "deflate", "compress", "Identity", "zstd"],
        offers=["gzip", "br", "deflate", "Identity", "BR", "identity", "x-gzip", "zstd", "Gzip", "compress"],
    ),
}

# alias classes the judge spec (Accept.tla: U8, L1, ASC) relies on
ALIAS = {"utf-8": ["utf8", "utf-8", "utf_8", "u8"], "iso8859-1": ["latin1", "latin-1", "iso-8859-1", "iso8859-1", "l1"],
         "ascii": ["ascii", "us-ascii", "646"]}

REALISTIC = {
    "mime": ["text/html,application/xhtml+xml,application/xml;q=0.9,image/avif,image/webp,*/*;q=0.8",
             "text/html, application/xhtml+xml, application/xml;q=0.9, */*;q=0.8",
             "application/json, text/plain, */*", "text/*;q=0.3, text/html;q=0.7, text/html;level=1, text/html;level=2;q=0.4, */*;q=0.5",
             "audio/*; q=0.2, audio/basic", "text/plain; q=0.5, text/html, text/x-dvi; q=0.8, text/x-c", "*/*;q=0",
             "text/html;q=0,*/*", "application/foo;quiet=no; bar=baz;q=0.6,text/html;q=0.9,text/plain;q=0.8,image/png,*/*;q=0.5"],
    "language": ["en-US,en;q=0.9,de;q=0.8", "de-AT,de;q=0.8,en;q=0.5", "da, en-gb;q=0.8, en;q=0.7", "en-us,ru;q=0.5", "*;q=0.5,fr",
                 "en-US;q=0, *", "en-US, *;q=0", "fi", "de", "en;q=0,en-GB", "zh-Hans-CN;q=0.9, zh;q=0.1", "fr-CA;q=0, fr-FR"],
    "charset": ["ISO-8859-1,utf-8;q=0.7,*;q=0.7", "iso-8859-5, unicode-1-1;q=0.8", "utf-8, iso-8859-1;q=0.5", "utf8;q=0,*", "*;q=0.1,latin1"],
    "accept": ["gzip, deflate, br", "compress, gzip", "*", "compress;q=0.5, gzip;q=1.0", "gzip;q=1.0, identity; q=0.5, *;q=0",
               "identity;q=0", "br;q=1.0, gzip;q=0.8, *;q=0.1"],
}


def selfcheck():
    """The charset alias table of the judge spec must agree with this python's codec registry."""
    for canon, names in ALIAS.items():
        for n in names:
            if codecs.lookup(n).name != canon:
                raise MachineryError(f"codec alias table: {n} is {codecs.lookup(n).name}, expected {canon}")
    known = {n for ns in ALIAS.values() for n in ns}
    for fam in ("charset",):
        for n in POOL[fam]["ranges"] + POOL[fam]["offers"]:
            if n == "*" or n.lower() in known:
                continue
            try:
                codecs.lookup(n)
            except LookupError:
                continue
            raise MachineryError(f"charset pool name {n} is a python codec outside the judge's alias table")


def _classes():
    from werkzeug import datastructures as ds

    return {"accept": ds.Accept, "mime": ds.MIMEAccept, "language": ds.LanguageAccept, "charset": ds.CharsetAccept}


_REQ = {"accept": ("HTTP_ACCEPT_ENCODING", "accept_encodings"), "mime": ("HTTP_ACCEPT", "accept_mimetypes"),
        "language": ("HTTP_ACCEPT_LANGUAGE", "accept_languages"), "charset": ("HTTP_ACCEPT_CHARSET", "accept_charsets")}


def _milli(q) -> int:
    m = int(round(float(q) * 1000))
    if abs(float(q) * 1000 - m) > 1e-6:
        return 999999  # not representable in thousandths: the judge rejects it (the domain has <= 3 decimals)
    return m


def negotiate(case):
    """case = (fam, api, header text, offers) -> recorded line (without t/i)."""
    fam, api, hdr, offers = case
    rec = {"op": "neg", "fam": fam, "api": api, "hdr": cps(hdr), "offers": [cps(o) for o in offers],
           "order": [], "quals": [], "best": [], "none": True, "exc": ""}
    try:
        if api == "request":
            from werkzeug.wrappers import Request

            key, attr = _REQ[fam]
            acc = getattr(Request({key: hdr, "REQUEST_METHOD": "GET", "wsgi.url_scheme": "http", "SERVER_NAME": "x",
                                   "SERVER_PORT": "80"}), attr)
        else:
            from werkzeug.http import parse_accept_header

            acc = parse_accept_header(hdr, _classes()[fam])
        rec["order"] = [{"v": cps(v), "q": _milli(q)} for v, q in acc]
        if api == "getitem":
            rec["quals"] = [_milli(acc[o]) for o in offers]
        else:
            rec["quals"] = [_milli(acc.quality(o)) for o in offers]
        if api == "default":
            best = acc.best_match(list(offers), default="\x00default")
            best = None if best == "\x00default" else best
        elif api == "iter":
            best = acc.best_match(tuple(offers))
        else:
            best = acc.best_match(list(offers))
        if best is not None:
            rec["best"] = cps(best)
            rec["none"] = False
    except Exception as e:  # recorded, judged by the spec (clause Raised)
        rec["exc"] = type(e).__name__
    return rec


def negotiate_all(cases):
    return [negotiate(c) for c in cases]


# ---------------------------------------------------------------------------- generators
def render(items, rng: random.Random | None = None):
    """items: list of (range text, q text); rng picks separators, else the plain ones."""
    out = []
    for r, q in items:
        qp = rng.choice(QPRES) if rng else ";q="
        main, *ps = r.split(";")
        if q != "" and ps and rng and rng.random() < 0.3:
            # q before the other parameters (accept-ext position)
            k = rng.randrange(len(ps) + 1)
            out.append(main + "".join(";" + p for p in ps[:k]) + qp + q + "".join(";" + p for p in ps[k:]))
        else:
            out.append(r + (qp + q if q != "" else ""))
    if not rng:
        return ",".join(out)
    s = out[0]
    for x in out[1:]:
        s += rng.choice(SEPS) + x
    return s


def _swapcase(rng, s):
    return "".join(c.upper() if rng.random() < 0.3 else c.lower() if rng.random() < 0.3 else c for c in s)


def random_case(rng: random.Random, fam: str):
    pool = POOL[fam]
    n = rng.choice([1, 1, 2, 2, 3, 3, 4, 5, 6])
    small = rng.random() < 0.5  # a small vocabulary makes ties and duplicates likely
    ranges = rng.sample(pool["ranges"], min(len(pool["ranges"]), rng.randint(2, 4))) if small else pool["ranges"]
    qtexts = rng.sample(Q_TEXTS, rng.randint(1, 3)) if rng.random() < 0.4 else Q_TEXTS
    items = []
    for _ in range(n):
        r = rng.choice(ranges)
        if rng.random() < 0.15:
            r = _swapcase(rng, r)
        items.append((r, rng.choice(qtexts) if rng.random() < 0.8 else ""))
    hdr = render(items, rng if rng.random() < 0.6 else None)
    k = rng.choice([1, 2, 2, 3, 3, 4, 5])
    offers = []
    for _ in range(k):
        x = rng.random()
        if x < 0.45:
            o = rng.choice(pool["offers"])
        elif x < 0.8:
            # derived from a range of the header, so that it matches something
            o = rng.choice(items)[0]
            if fam == "mime":
                o = o.replace("*", rng.choice(["b", "html", "x"])) if rng.random() < 0.8 else o
                if "/" not in o or o.startswith(("b/", "html/", "x/")) and rng.random() < 0.5:
                    o = rng.choice(pool["offers"])
            elif o == "*":
                o = rng.choice(pool["offers"])
            if fam == "language" and rng.random() < 0.4:
                o = rng.choice([o.split("-")[0].split("_")[0], o + "-XY", o.replace("-", "_"), o.replace("_", "-")])
        else:
            o = _swapcase(rng, rng.choice(pool["offers"]))
        offers.append(o)
    offers = [o for o in offers if valid_offer(fam, o)] or [pool["offers"][0]]
    api = rng.choice(["class", "class", "class", "request", "default", "getitem", "iter"])
    return (fam, api, hdr, offers)


def valid_offer(fam, o):
    if not o:
        return False
    if fam != "mime":
        return "/" not in o and "*" not in o and ";" not in o and " " not in o
    main = o.split(";")[0].strip()
    if main.count("/") != 1:
        return False
    t, s = main.split("/")
    if ("*" in t and t != "*") or ("*" in s and s != "*"):
        return False
    return bool(t) and bool(s) and not (t == "*" and s != "*")


def handmade_cases():
    """Small exhaustive-ish families around the tie-breaking rules, plus realistic headers."""
    cases = []
    for fam, hdrs in REALISTIC.items():
        offs = POOL[fam]["offers"]
        for h in hdrs:
            for i in range(len(offs)):
                cases.append((fam, "class", h, [offs[i]]))
                cases.append((fam, "request", h, [offs[i], offs[(i + 3) % len(offs)], offs[(i + 7) % len(offs)]]))
                cases.append((fam, "default", h, [offs[(i + 5) % len(offs)], offs[i]]))
    # language fallbacks: every ordered pair of offers against one- and two-range headers
    tags = ["en", "en-US", "en_GB", "de", "fi", "*"]
    loffers = ["en", "en-us", "en-GB", "de-AT", "deu", "fil-PH", "fi-FI", "english"]
    for a in tags:
        for qa in ("", "0", "0.5"):
            for b in tags:
                for qb in ("", "0"):
                    h = render([(a, qa), (b, qb)])
                    for i, o1 in enumerate(loffers):
                        cases.append(("language", "class", h, [o1, loffers[(i + 1) % len(loffers)], loffers[(i + 4) % len(loffers)]]))
    return cases


def universe_module() -> str:
    """Text of spec/accept/MCUniverse.tla (the committed file was generated by this function)."""

    def t(s):
        return "<<" + ",".join(str(ord(c)) for c in s) + ">>"

    def rng_(s):
        main, *ps = s.split(";")
        return f'[txt |-> {t(s)}, main |-> {t(main)}, params |-> <<{",".join(t(p.lower()) for p in ps)}>>]'

    uni = {
        "mime": (["a/b", "a/*", "*/*", "a/b;p=1", "c/d"], ["a/b", "a/b;p=1", "c/d", "a/c"], ["A/b;P=1", "*/b", "a"], ["a/*", "*/*", "A/B", "a/b; p=1"]),
        "language": (["en", "en-US", "en_gb", "de", "*"], ["en", "en-us", "EN-GB", "de-AT", "deu"], ["EN", "fr-CA"], ["de", "fr"]),
        "charset": (["utf-8", "UTF8", "latin1", "x-foo", "*"], ["utf8", "iso-8859-1", "X-FOO", "ascii"], ["us-ascii", "L1"], ["UTF_8", "x-bar"]),
        "accept": (["gzip", "GZIP", "br", "identity", "*"], ["gzip", "br", "deflate", "Identity"], ["x-gzip"], ["BR"]),
    }
    qs = [("", 1000), ("0", 0), ("0.001", 1), ("0.5", 500), ("1", 1000), ("1.000", 1000), ("abc", -1), ("-1", -1), ("2", -1),
          ("0.50", 500), ("1.", -1), (".5", -1), ("1.001", -1), ("0.5x", -1), ("1e0", -1), ("-0.5", -1), ("00.250", 250)]
    out = ["---- MODULE MCUniverse ----",
           "(* Generated once (harness/accept.py, universe_module()): the bounded universe of the C17 model as code",
           "   point sequences.  Ranges carry their intended parse (main, params), q texts their intended meaning",
           "   (thousandths, -1 = the item is ignored): the parser of Accept.tla is checked against these. *)",
           "EXTENDS Naturals, Sequences", ""]
    for f, (r, o, rw, ow) in uni.items():
        name = f.capitalize()
        out.append(f"\\* {f}: ranges {r} (wide: + {rw}); offers {o} (wide: + {ow})")
        out.append(f"Ranges{name} == {{{', '.join(rng_(x) for x in r)}}}")
        out.append(f"RangesWide{name} == Ranges{name} \\cup {{{', '.join(rng_(x) for x in rw)}}}")
        out.append(f"Offers{name} == {{{', '.join(t(x) for x in o)}}}")
        out.append(f"OffersWide{name} == Offers{name} \\cup {{{', '.join(t(x) for x in ow)}}}")
        out.append("")

    def qrec(q, m):
        return f'[txt |-> {t(q)}, absent |-> {"TRUE" if q == "" else "FALSE"}, val |-> {m if m >= 0 else "0 - 1"}]'

    out.append("\\* q texts: " + ", ".join(repr(q) for q, _ in qs))
    out.append("QProp == {" + ", ".join(qrec(q, m) for q, m in qs[:9]) + "}   \\* the set named by the property")
    out.append("QSmall == {" + ", ".join(qrec(q, m) for q, m in (qs[0], qs[1], qs[3], qs[6])) + "}")
    out.append("QAll == QProp \\cup {" + ", ".join(qrec(q, m) for q, m in qs[9:]) + "}")
    out.append("")
    out.append("\\* separators between list elements and before / inside the q parameter")
    out.append(f"SepPlain == {{{t(',')}}}")
    out.append(f"SepAll == {{{t(',')}, {t(', ')}, {t(' ,')}, {t(chr(9) + ', ')}}}")
    out.append(f"QPrePlain == {{{t(';q=')}}}")
    out.append(f"QPreAll == {{{t(';q=')}, {t('; q=')}, {t(' ;Q=')}, {t(';' + chr(9) + 'q=')}}}")
    out.append("====")
    return "\n".join(out) + "\n"


# ============================================================================ growth: wider domain
# (spec/accept/AcceptWide.tla, AcceptWideTrace.tla).  q values travel in millionths here.
def _micro(q) -> int:
    m = int(round(float(q) * 1000000))
    if abs(float(q) * 1000000 - m) > 1e-3:
        return -7  # not representable: the judge puts the line outside the domain
    return m


def _pairs(acc):
    return [{"v": cps(v), "q": _micro(q)} for v, q in acc]


_NOLOOK = {"on": False, "contains": [], "find": [], "html": False, "xhtml": False, "json": False}


def blank_line(op, fam, api):
    return {"op": op, "fam": fam, "api": api, "hdr": [], "items": [], "offers": [], "order": [], "hasq": False, "quals": [],
            "hasbest": False, "best": [], "none": True, "exc": "", "rt": False, "rtorder": [], "look": dict(_NOLOOK)}


def negotiate_wide(case):
    """case = (fam, api, header text, offers, prefix, tags) -> line for AcceptWideTrace (op "wide")."""
    fam, api, hdr, offers = case[:4]
    rec = blank_line("wide", fam, api)
    rec["hdr"], rec["offers"] = cps(hdr), [cps(o) for o in offers]
    try:
        from werkzeug.http import parse_accept_header

        if api == "request":
            from werkzeug.wrappers import Request

            key, attr = _REQ[fam]
            acc = getattr(Request({key: hdr, "REQUEST_METHOD": "GET", "wsgi.url_scheme": "http", "SERVER_NAME": "x",
                                   "SERVER_PORT": "80"}), attr)
        else:
            acc = parse_accept_header(hdr, _classes()[fam])
        if api == "roundtrip" and acc.to_header().strip(" ,\t"):
            rec["rt"], rec["rtorder"] = True, _pairs(acc)
            text = acc.to_header()
            rec["hdr"] = cps(text)
            acc = parse_accept_header(text, _classes()[fam])
        rec["order"] = _pairs(acc)
        rec["hasq"], rec["quals"] = True, [_micro(acc.quality(o)) for o in offers]
        best = acc.best_match(list(offers))
        rec["hasbest"] = True
        if best is not None:
            rec["best"], rec["none"] = cps(best), False
        finds = []
        for o in offers:
            f = acc.find(o)
            try:
                ix = acc.index(o)
            except ValueError:
                ix = -1
            finds.append(f if f == ix else -99 if f < 0 else -1)  # find and index must agree
        rec["look"] = {"on": True, "contains": [o in acc for o in offers], "find": finds,
                       "html": bool(getattr(acc, "accept_html", False)), "xhtml": bool(getattr(acc, "accept_xhtml", False)),
                       "json": bool(getattr(acc, "accept_json", False))}
    except Exception as e:
        rec["exc"] = type(e).__name__
    return rec


def negotiate_wide_all(cases):
    return [negotiate_wide(c) for c in cases]


Q_WIDE = ["0.5555", "0.12345", "1.0000", "1.00000", "0.0001", "1.", "0.", "00.5", "01", "000", "-0", "-0.0", "1.0001", "0.1234567"[:8],
          ".5", "abc", "1e0", "+1", "-1", "2", "0.5", "0", "1", "0.001", "1.000", "0.9", "0.75", "0.999999"]
MIME_PARAMS = ["level=1", "level=2", "charset=utf-8", "p=1", "format=flowed", "t=x"]
QUOTED_PARAMS = ['title="a,b;c"', 'title="a b"', 'level="1"', 'charset="utf-8"', 't="x;q=0"', 't=","', 't=""', 'p="1"', 't="a/b"']


def random_wide_case(rng: random.Random, fam: str):
    """A header using the wider forms; returns (fam, api, hdr, offers, "Wide", tags)."""
    pool = POOL[fam]
    tags = set()
    n = rng.choice([1, 2, 2, 3, 3, 4])
    budget = 5  # at most ~2^5 alternative parses
    parts = []
    mains = []
    for _ in range(n):
        r = rng.choice(pool["ranges"])
        main = r.split(";")[0]
        mains.append(r)
        segs = [] if fam != "mime" else ["" + p for p in r.split(";")[1:]]
        if fam == "mime" and rng.random() < 0.35:
            qp = rng.choice(QUOTED_PARAMS)
            if not any(x.lower().startswith(qp.split("=")[0] + "=") for x in segs):
                segs.append(qp)
                tags.add("quoted")
        # the q parameter(s)
        qsegs = []
        x = rng.random()
        if x < 0.75:
            qt = rng.choice(Q_WIDE if rng.random() < 0.7 else Q_TEXTS[1:])
            qn = "Q" if rng.random() < 0.15 else "q"
            eq = "="
            if budget > 0 and rng.random() < 0.1:
                eq = rng.choice([" =", "= ", " = "])
                tags.add("ws-eq")
                budget -= 2
            if budget > 0 and rng.random() < 0.06:
                qt = ""
                tags.add("empty-q")
                budget -= 1
            elif budget > 0 and rng.random() < 0.06 and eq == "=":
                qt = '"' + qt + '"'
                tags.add("quoted-q")
                budget -= 1
            if qt.strip('"') in ("1.", "0.", "00.5", "01", "000", "-0", "-0.0", "0.5555", "0.12345", "1.0000", "1.00000", "0.0001", "0.999999"):
                budget -= 1
                tags.add("undecided-q")
            qsegs.append(qn + eq + qt)
            if budget > 1 and rng.random() < 0.1:
                qsegs.append("q=" + rng.choice(["0.5", "0", "1", "abc", "0.25"]))
                tags.add("dup-q")
                budget -= 2
        if qsegs and segs and budget > 0 and rng.random() < 0.4:
            k = rng.randrange(len(segs) + 1)
            if k < len(segs):
                tags.add("accept-ext")
                budget -= 1
            segs = segs[:k] + qsegs + segs[k:]
        elif qsegs and fam == "mime" and budget > 0 and rng.random() < 0.1:
            segs = segs + qsegs + ["ext=1"]
            tags.add("accept-ext")
            budget -= 1
        else:
            segs = segs + qsegs
        if rng.random() < 0.08:
            segs.insert(rng.randrange(len(segs) + 1), "")
            tags.add("empty-param")
        sc = rng.choice([";", "; ", " ;", " ; ", ";\t"]) if rng.random() < 0.5 else ";"
        parts.append(main + "".join(sc + s for s in segs))
    if rng.random() < 0.2:
        parts.insert(rng.randrange(len(parts) + 1), rng.choice(["", " ", ""]))
        tags.add("empty-element")
    hdr = parts[0]
    for x in parts[1:]:
        hdr += rng.choice(SEPS) + x
    if not hdr.strip(" \t,"):
        hdr = "*" if fam != "mime" else "*/*"
    k = rng.choice([1, 2, 2, 3, 4])
    offers = []
    for _ in range(k):
        if rng.random() < 0.5:
            o = rng.choice(mains)
            if fam == "mime":
                o = o.replace("*", rng.choice(["b", "html"]))
            elif o == "*":
                o = rng.choice(pool["offers"])
        else:
            o = rng.choice(pool["offers"])
        offers.append(o)
    if fam == "mime" and rng.random() < 0.3:
        offers.append(rng.choice(["text/html", "application/json", "application/xhtml+xml", "application/xml"]))
    offers = [o for o in offers if valid_offer(fam, o)] or [pool["offers"][0]]
    api = rng.choice(["class", "class", "request", "roundtrip"])
    return (fam, api, hdr, offers, "Wide", sorted(tags))


WIDE_FIXED = [
    # regression: the same item text can be kept from different list elements under the undecided readings;
    # the order clause must hold for one of the candidate parses with the observed items, not for an arbitrary one
    ("charset", "latin1;q = 0.001; , X-Bar;q=1.0000 ,latin1;Q=1.;", ["latin-1", "latin1", "Latin1"]),
    ("accept", "x-gzip;q=1. ,identity;Q=\t, identity;\tQ=00.5 ,x-gzip;q= abc", ["x-gzip"]),
    ("charset", "X-Bar;;q=1. , x-foo;Q=1.00000,X-Bar;q=0.0001;q=1, utf-8;q=abc", ["utf-8", "iso-8859-1", "US-ASCII", "utf-8"]),
    ("mime", 'text/html;title="a,b;c";q=0.5', ["text/html", "text/plain"]),
    ("mime", 'text/html;title="a,b;c";q=0.5, text/plain;q=0.6', ["text/html", "text/plain"]),
    ("mime", 'text/html;level="1";q=0.5, text/html;q=0.4', ["text/html;level=1", "text/html"]),
    ("mime", "a/b,,c/d", ["c/d", "a/b"]), ("mime", ",a/b, ,", ["a/b"]),
    ("mime", "a/b;q=0.5;q=0.7, c/d;q=0.6", ["a/b", "c/d"]),
    ("mime", "a/b;q=0.5;ext=1, a/b;q=0.3", ["a/b", "a/b;ext=1"]),
    ("mime", "a/b;Q=0.2, c/d;q=0.1", ["c/d", "a/b"]),
    ("mime", "a/b;q=0.5555, c/d;q=0.5554", ["c/d", "a/b"]), ("mime", "a/b;q=1.0000, c/d;q=0.9", ["c/d", "a/b"]),
    ("mime", "a/b;q=.5, c/d;q=0.1", ["a/b", "c/d"]), ("mime", "a/b;q=1., c/d;q=0.1", ["a/b", "c/d"]),
    ("mime", "a/b ; q=0.5 , c/d\t;\tq=0.7", ["a/b", "c/d"]), ("mime", "a/b;q= 0.5, c/d;q =0.1", ["a/b", "c/d"]),
    ("mime", "a/b;q=, c/d;q=0.5", ["a/b", "c/d"]), ("mime", 'a/b;q="0.5", c/d;q=0.6', ["a/b", "c/d"]),
    ("mime", "a/b;;q=0.5;, c/d", ["a/b", "c/d"]), ("mime", "a/b;q=1.0001, c/d;q=0.1", ["a/b", "c/d"]),
    ("language", "en-US;Q=0.5, de ; q=0.7,,fr;q=1.", ["en-US", "de", "fr"]),
    ("charset", "utf-8;q=0.55555, latin1;q=00.6", ["UTF8", "iso-8859-1"]),
    ("accept", "gzip;q=-0, br;q=0.0001, *;q=.1", ["gzip", "br", "deflate"]),
]

CODING_HEADERS = ["gzip;q=0, identity, *;q=0.1", "gzip, deflate, br", "gzip, deflate, br, zstd", "compress, gzip", "*", "compress;q=0.5, gzip;q=1.0",
                  "gzip;q=1.0, identity; q=0.5, *;q=0", "identity;q=0", "*;q=0", "identity;q=0, *;q=0.5", "*;q=0, gzip", "gzip;q=0.8, *;q=0.8",
                  "br;q=1.0, gzip;q=0.8, *;q=0.1", "GZIP;q=0.5, Identity;q=0.5", "x-gzip, gzip;q=0", "deflate;q=0.001, identity;q=0.001",
                  "gzip;q=0.5, identity;q=0.5, br;q=0.5", "*;q=0.3, identity;q=0.2, gzip;q=0.1", "gzip;q=2, identity", "identity, identity;q=0"]
CODINGS = ["gzip", "br", "deflate", "identity", "zstd", "compress", "x-gzip", "Identity", "GZIP"]


def coding_cases(rng: random.Random, nrandom: int):
    """The codings family: plain Accept as used for Accept-Encoding (identity / '*' interplay)."""
    cases = []
    for h in CODING_HEADERS:
        for i, c in enumerate(CODINGS):
            cases.append(("accept", "request", h, [c], "Coding", []))
            cases.append(("accept", "class", h, [c, CODINGS[(i + 1) % len(CODINGS)], "identity"], "Coding", []))
            cases.append(("accept", "roundtrip", h, ["identity", c, CODINGS[(i + 4) % len(CODINGS)]], "Coding", []))
    names = ["gzip", "br", "deflate", "identity", "*", "zstd", "GZIP", "Identity", "compress"]
    for _ in range(nrandom):
        items = [(rng.choice(names), rng.choice(["", "", "0", "0.5", "1", "0.1", "0.001", "abc", "2", "0.8"])) for _ in range(rng.randint(1, 5))]
        h = render(items, rng if rng.random() < 0.5 else None)
        offers = [rng.choice(CODINGS) for _ in range(rng.randint(1, 4))]
        cases.append(("accept", rng.choice(["class", "request", "roundtrip"]), h, offers, "Coding", []))
    return cases


def both_sides_cases(rng: random.Random, n: int):
    """LanguageAccept with '_' / '-' and letter case varied on BOTH sides, through all three fallback stages;
    CharsetAccept with aliases on both sides.  Old line format (AcceptTrace.tla)."""

    def var(tag):
        sep = rng.choice(["-", "_"])
        t = tag.replace("-", sep).replace("_", sep)
        return rng.choice([t, t.upper(), t.lower(), t.title(), _swapcase(rng, t)])

    tags = ["en", "en-US", "en-GB", "de", "de-AT", "fr-CA", "zh-Hans-CN", "pt-BR", "fi", "fil-PH", "es-419"]
    cs = ["utf-8", "utf8", "utf_8", "u8", "latin1", "latin-1", "iso-8859-1", "iso8859-1", "l1", "ascii", "us-ascii", "646", "x-foo", "x-bar"]
    cases = []
    for _ in range(n):
        if rng.random() < 0.7:
            items = [(var(rng.choice(tags)) if rng.random() < 0.9 else "*", rng.choice(["", "", "0", "0.5", "0.8", "0.5"])) for _ in range(rng.randint(1, 3))]
            base = [it[0] for it in items if it[0] != "*"] or ["en"]
            offers = []
            for _ in range(rng.randint(1, 4)):
                b = rng.choice(base) if rng.random() < 0.7 else rng.choice(tags)
                x = rng.random()
                if x < 0.3:      # stage 2: the offer is the range's primary tag
                    b = b.replace("_", "-").split("-")[0]
                elif x < 0.6:    # stage 3: the offer extends the range's primary tag
                    b = b.replace("_", "-").split("-")[0] + rng.choice(["-XX", "_yy", "-Latn-ZZ"])
                offers.append(var(b))
            cases.append(("language", rng.choice(["class", "request", "default"]), render(items, rng), offers))
        else:
            items = [(_swapcase(rng, rng.choice(cs)) if rng.random() < 0.9 else "*", rng.choice(["", "0", "0.5", "0.8"])) for _ in range(rng.randint(1, 3))]
            offers = [_swapcase(rng, rng.choice(cs)) for _ in range(rng.randint(1, 4))]
            cases.append(("charset", rng.choice(["class", "request", "getitem"]), render(items, rng), offers))
    return cases
