"""Recorder and drivers for the multipart area (C01, C10, decoder half of C02).

Runs the *real* werkzeug decoder / form parser under a given arrival schedule and records what
it emitted, in the vocabulary of spec/multipart/MultipartTrace.tla.  No verdicts here.
"""
from __future__ import annotations

import io
import os
import random

from .core import REPO, cps


def _ev_part(e, kind):
    return {
        "k": "P",
        "kind": kind,
        "name": cps(e.name if e.name is not None else "\x00None"),
        "hasfn": kind == "file",
        "fname": cps(e.filename) if kind == "file" and e.filename is not None else [],
        "hdr": [[cps(k), cps(v)] for k, v in e.headers.items()],
    }


def _slice_or_lit(data: bytes, wire: bytes, cursor: int):
    """Encode payload bytes as a slice of the wire when they are one (pure compression)."""
    if not data:
        return {"off": max(cursor, 0), "len": 0, "lit": []}, cursor
    off = wire.find(data, max(cursor, 0))
    if off < 0:
        off = wire.find(data)
    if off >= 0:
        return {"off": off, "len": len(data), "lit": []}, off + len(data)
    return {"off": -1, "len": 0, "lit": list(data)}, cursor


def run_decoder(wire: bytes, bnd: bytes, chunks: list[int], maxmem=None, maxparts=None) -> dict:
    """Feed `wire` to a real MultipartDecoder in pieces of the given sizes (then EOF), draining
    events after every piece exactly like MultiPartParser.parse does."""
    from werkzeug.exceptions import RequestEntityTooLarge
    from werkzeug.sansio.multipart import Data, Epilogue, Field, File, MultipartDecoder, NeedData, Preamble

    try:
        d = MultipartDecoder(bnd, max_form_memory_size=maxmem, max_parts=maxparts)
    except Exception as ex:  # the code under test may fail already here: a recorded outcome, not a harness failure
        return {"steps": [{"fed": 0, "buflen": 0, "ev": []}], "err": "exc:" + type(ex).__name__}
    steps = []
    err = ""
    pos = 0
    cursor = 0
    pieces = []
    for k in chunks:
        pieces.append(wire[pos : pos + k])
        pos += k
    if pos < len(wire):
        pieces.append(wire[pos:])
    pieces.append(None)
    fed = 0
    done = False
    for piece in pieces:
        evs = []
        try:
            d.receive_data(piece)
            if piece is not None:
                fed += len(piece)
            buflen = len(d.buffer)
            guard = 0
            while True:
                e = d.next_event()
                guard += 1
                if guard > 10 * len(wire) + 100:
                    err = "hang"
                    break
                if isinstance(e, NeedData):
                    break
                if isinstance(e, Epilogue):
                    done = True
                    break
                if isinstance(e, Preamble):
                    continue
                if isinstance(e, File):
                    evs.append(_ev_part(e, "file"))
                elif isinstance(e, Field):
                    evs.append(_ev_part(e, "field"))
                elif isinstance(e, Data):
                    enc, cursor = _slice_or_lit(e.data, wire, cursor)
                    enc.update({"k": "D", "more": bool(e.more_data)})
                    evs.append(enc)
        except RequestEntityTooLarge:
            err = "too_large"
        except ValueError:
            err = "value"
        except Exception as ex:  # anything else is recorded by class name
            err = "exc:" + type(ex).__name__
        steps.append({"fed": fed, "buflen": buflen if err != "too_large" else len(d.buffer), "ev": evs})
        if err or done:
            break
    if not err and not done:
        err = "incomplete"
    return {"steps": steps, "err": err}


def ref_of(wire: bytes, bnd: bytes) -> dict:
    """The parts the real decoder yields when it sees the wire in one piece."""
    r = run_decoder(wire, bnd, [len(wire)] if wire else [])
    parts = []
    for s in r["steps"]:
        for e in s["ev"]:
            if e["k"] == "P":
                parts.append({"kind": e["kind"], "name": e["name"], "hasfn": e["hasfn"], "fname": e["fname"],
                              "hdr": e["hdr"], "chunks": []})
            elif parts:
                parts[-1]["chunks"].append(e)
    out = []
    for p in parts:
        data = b"".join(bytes(wire[c["off"] : c["off"] + c["len"]]) if c["off"] >= 0 else bytes(c["lit"]) for c in p["chunks"])
        enc, _ = _slice_or_lit(data, wire, 0)
        q = {k: p[k] for k in ("kind", "name", "hasfn", "fname", "hdr")}
        q.update(enc)
        out.append(q)
    return {"err": r["err"], "parts": out}


class PlanStream:
    """Input stream that returns at most plan[i] bytes on its i-th read (short reads)."""

    def __init__(self, data: bytes, plan: list[int] | None):
        self.data = data
        self.pos = 0
        self.plan = list(plan or [])
        self.i = 0

    def read(self, n=-1):
        if n is None or n < 0:
            n = len(self.data) - self.pos
        if self.plan:
            n = min(n, self.plan[self.i % len(self.plan)])
            self.i += 1
        out = self.data[self.pos : self.pos + n]
        self.pos += len(out)
        return out


def run_form(wire: bytes, bnd: bytes, buffer_size: int, plan=None, maxmem=None, maxparts=None) -> dict:
    """MultiPartParser.parse with the given buffer size over a stream with short reads."""
    from werkzeug.exceptions import RequestEntityTooLarge
    from werkzeug.formparser import MultiPartParser

    res = {"err": "", "fields": [], "files": []}
    try:
        p = MultiPartParser(buffer_size=buffer_size, max_form_memory_size=maxmem, max_form_parts=maxparts)
        form, files = p.parse(PlanStream(wire, plan), bnd, len(wire))
        res["fields"] = [[cps(k), cps(v)] for k, v in form.items(multi=True)]
        out = []
        for k, f in files.items(multi=True):
            data = f.stream.read()
            enc, _ = _slice_or_lit(data, wire, 0)
            out.append([cps(k), cps(f.filename or ""), cps(f.content_type or ""),
                        enc["off"], enc["len"], enc["lit"]])
            f.close()
        res["files"] = out
    except RequestEntityTooLarge:
        res["err"] = "too_large"
    except ValueError:
        res["err"] = "value"
    except Exception as ex:
        res["err"] = "exc:" + type(ex).__name__
    return res


# ------------------------------------------------------------------------------ corpus
HDR = b'Content-Disposition: form-data; name="a"'


def build_body(parts, bnd: bytes, lb=b"\r\n", pre=b"", epi=b"", lead=True) -> bytes:
    """parts: list of (name, filename|None, content_type|None, payload|None); payload None = body-less"""
    out = b""
    for name, fn, ct, payload in parts:
        out += lb + b"--" + bnd + lb
        out += b'Content-Disposition: form-data; name="' + name + b'"'
        if fn is not None:
            out += b'; filename="' + fn + b'"'
        out += lb
        if ct:
            out += b"Content-Type: " + ct + lb
        if payload is not None:
            out += lb + payload
    out += lb + b"--" + bnd + b"--" + lb + epi
    if not lead:
        out = out[len(lb):]
    return pre + out


def browser_corpus() -> list[tuple[bytes, bytes]]:
    root = os.path.join(REPO, "tests", "multipart")
    out = []
    reps = {
        "firefox3-2png1txt": "---------------------------186454651713519341951581030105",
        "firefox3-2pnglongtext": "---------------------------14904044739787191031754711748",
        "opera8-2png1txt": "----------zEO9jQKmLc2Cq88c23Dx19",
        "webkit3-2png1txt": "----WebKitFormBoundaryjdSFhcARk8fyGNy6",
        "ie6-2png1txt": "---------------------------7d91b03a20128",
    }
    for name, b in reps.items():
        p = os.path.join(root, name, "request.http")
        if os.path.exists(p):
            out.append((open(p, "rb").read(), b.encode()))
    return out


def handmade_corpus() -> list[tuple[bytes, bytes]]:
    """Bodies in the spirit of the quantifier: empty / body-less / payloads of CR, LF, dashes,
    boundary look-alikes, long lines, binary, preamble / epilogue, three line-break styles."""
    out = []
    for bnd in (b"b", b"foo", b"----WebKitFormBoundary7MA4YWxk", b"-", b"--"):
        look = b"--" + bnd
        payloads = [
            b"", b"x", b"\r", b"\n", b"\r\n", b"\r\n\r\n", b"-", b"--", look[:-1], look + b"x", b"\r\n" + look[:-1],
            b"\r\n" + look + b"x", b"a\nxxxxxxxxxxxx", b"a\r\nb\r", b"\n\r\n\r", b"a" * 40 + b"\r", b"\r" * 9,
            b"\n" * 9, b"--\r\n--", bytes(range(256)), b"tail\r\n-", b"tail\r\n--", b"x\r\n--" + bnd[:1] if bnd else b"",
            b"long" * 30 + b"\r\n" + b"y" * 35,
        ]
        for pl in payloads:
            out.append((build_body([(b"a", None, None, pl)], bnd, lead=False), bnd))
        out.append((build_body([(b"a", None, None, None)], bnd, lead=False), bnd))
        out.append((build_body([], bnd, lead=False), bnd))
        out.append((build_body([(b"a", None, None, None), (b"f", b"f.bin", b"application/octet-stream", b"\x00\r\n\xff--")], bnd), bnd))
        out.append((build_body([(b"a", None, None, b"v1"), (b"a", None, None, b""), (b"f", b"n.txt", b"text/plain", b"l1\r\nl2\r\n")],
                               bnd, pre=b"preamble\r\nmore", epi=b"epilogue"), bnd))
        out.append((build_body([(b"f", b"x", None, None), (b"g", b"y", None, b"\r\n")], bnd, lead=True), bnd))
        # long preamble (longer than a header block + boundary + the decoder's search window), text fields
        # with multi-byte UTF-8 (the form parser decodes fields), transport padding free
        utext = "h\u00e9llo w\u00f6rld \u20ac \U0001f600 \u4e2d\u6587".encode()
        out.append((build_body([(b"a", None, None, utext), (b"b", None, None, utext * 3), (b"f", b"n.txt", b"text/plain", utext)],
                               bnd, pre=b"This is a multi-part message in MIME format. " * 3 + b"\r\nsecond preamble line", epi=b""), bnd))
        out.append((build_body([(b"a", None, None, b"v"), (b"b", None, None, b"w")], bnd, pre=b"p" * (90 + len(bnd)), lead=True), bnd))
        out.append((build_body([(b"a", None, None, utext[:7])], bnd, pre=b"x\r\n" * 30, lead=True), bnd))
        for lb, other in ((b"\n", b"\r"), (b"\r", b"\n")):
            for pl in (b"", b"x", lb, lb + lb, b"--", look[:-1], b"ab" + lb + b"cd", b"q" * 20 + lb):
                out.append((build_body([(b"a", None, None, pl), (b"b", b"f", None, pl + b"z")], bnd, lb=lb, lead=False), bnd))
            out.append((build_body([(b"a", None, None, None)], bnd, lb=lb, lead=False), bnd))
    # boundaries over the whole RFC 2046 bchars alphabet (digits, letters and '()+_,-./:=? and inner spaces): the
    # boundary text reaches regular expressions in the decoder, so characters special there are a dimension of their own
    for bnd in (b"(a+b)?c.d", b"----=_NextPart+000_0012", b"a'b:c=d,e/f g", b"?", b"+"):
        look = b"--" + bnd
        for pl in (b"", b"first value", b"\r\n", look[:-1], look + b"x", b"\r\n" + look[:-1], b"a\r\nb\r", b"tail\r\n--", bytes(range(256))):
            out.append((build_body([(b"a", None, None, pl), (b"f", b"f.bin", None, pl + b"z")], bnd, lead=False), bnd))
        out.append((build_body([(b"a", None, None, b"v")], bnd, pre=b"preamble", epi=b"epilogue"), bnd))
        for lb in (b"\n", b"\r"):
            out.append((build_body([(b"a", None, None, b"x"), (b"b", b"f", None, b"yz")], bnd, lb=lb, lead=False), bnd))
    return out


def random_body(rng: random.Random) -> tuple[bytes, bytes]:
    bl = rng.choice([1, 2, 3, 5, 8, 20, 40, 70])
    bnd = bytes(rng.choice(b"abcdefXYZ0123456789-_" if rng.random() < 0.6 else b"abXY09-_'()+,./:=? ") for _ in range(bl))
    if bnd.endswith(b" "):
        bnd = bnd[:-1] + b"x"
    look = b"--" + bnd
    atoms = [b"\r", b"\n", b"\r\n", b"-", b"--", look[: max(1, len(look) - 1)], look + b"x", b"x", b"yy", b"\x00", b"\xff",
             "\u00e9".encode(), "\u20ac".encode(), "\U0001f600".encode(),
             b"z" * rng.randint(1, 2 * len(look) + 4), b" ", b"\t"]
    style = rng.choice([b"\r\n"] * 4 + [b"\n", b"\r"])
    parts = []
    for _ in range(rng.choice([0, 1, 1, 2, 2, 3, 5])):
        n = rng.choice([0, 0, 1, 2, 3, 5, 8])
        pl = b"".join(rng.choice(atoms) for _ in range(n))
        if style == b"\n":
            pl = pl.replace(b"\r", b"")
        elif style == b"\r":
            pl = pl.replace(b"\n", b"")
        payload = None if rng.random() < 0.12 else pl
        is_file = rng.random() < 0.4
        parts.append((rng.choice([b"a", b"b", b"field name", "é".encode()]),
                      rng.choice([b"f.txt", b"", "ü.bin".encode()]) if is_file else None,
                      rng.choice([None, b"text/plain", b"application/octet-stream"]) if is_file else None,
                      payload))
    pre = rng.choice([b"", b"", b"pre", b"pre\r\n", b"long preamble " * rng.randint(3, 12), b"l1\r\n" * rng.randint(5, 40)])
    epi = rng.choice([b"", b"", b"epi"])
    lead = True if pre else rng.random() < 0.5
    return build_body(parts, bnd, lb=style, pre=pre, epi=epi, lead=lead), bnd


def ctype_for(bnd: bytes) -> str:
    """Content-Type header value declaring the boundary (quoted when it is not an RFC 7230 token)."""
    t = bnd.decode("latin-1")
    if t and all(c.isalnum() or c in "!#$%&'*+-.^_`|~" for c in t):
        return "multipart/form-data; boundary=" + t
    return 'multipart/form-data; boundary="' + t + '"'


# ------------------------------------------------------------------------------ schedules
def splits2(n):
    return [[i] for i in range(1, n)]


def splits3(n):
    return [[i, j - i] for i in range(1, n) for j in range(i + 1, n)]


def random_splits(rng, n, count, kmax=8):
    out = []
    for _ in range(count):
        k = rng.randint(2, max(2, min(kmax, n)))
        cuts = sorted(rng.sample(range(1, n), min(k - 1, max(0, n - 1)))) if n > 1 else []
        sizes, prev = [], 0
        for c in cuts:
            sizes.append(c - prev)
            prev = c
        out.append(sizes)
    return out


# ------------------------------------------------------------------------------ request level (C10)
class CountingStream:
    """wsgi.input stand-in that counts the bytes handed out (what the server's input lost)."""

    def __init__(self, data: bytes):
        self._b = io.BytesIO(data)
        self.consumed = 0

    def read(self, n=-1):
        out = self._b.read(n)
        self.consumed += len(out)
        return out

    def readline(self, n=-1):
        out = self._b.readline(n)
        self.consumed += len(out)
        return out

    def readinto(self, b):
        n = self._b.readinto(b)
        self.consumed += n or 0
        return n


class Pep3333Stream:
    """wsgi.input with only what PEP 3333 requires (read/readline/readlines/__iter__, no readinto),
    as gunicorn's and mod_wsgi's input objects are; counts the bytes handed out."""

    def __init__(self, data: bytes, short: int = 0):
        self._b = io.BytesIO(data)
        self.consumed = 0
        self._short = short

    def read(self, n=-1):
        if self._short and (n is None or n < 0 or n > self._short):
            n = self._short if (n is not None and n >= 0) else n
        out = self._b.read(n)
        self.consumed += len(out)
        return out

    def readline(self, n=-1):
        out = self._b.readline(n)
        self.consumed += len(out)
        return out

    def readlines(self, hint=-1):
        out = self._b.readlines(hint)
        self.consumed += sum(len(x) for x in out)
        return out

    def __iter__(self):
        while True:
            ln = self.readline()
            if not ln:
                return
            yield ln


WARMUP_BODY = (b"--w\r\nContent-Disposition: form-data; name=\"a\"\r\n\r\n1\r\n--w\r\nContent-Disposition: form-data; "
               b"name=\"b\"\r\n\r\n22\r\n--w--\r\n")


def run_request(body: bytes, content_type: str, *, mcl=None, maxmem=None, maxparts=None, has_cl=True, term=False, stream_kind="full",
                entry="request") -> dict:
    """Form parsing under the three limits; returns result + bytes consumed from wsgi.input.
    entry: "request" (Request.form / .files), "parse_form_data" (the function, limits as arguments), "from_environ"
    (FormDataParser(...).parse_from_environ), "reused" (one FormDataParser that first parsed another multipart body
    under other limits, then had its public limit attributes assigned, then parses this one)."""
    from werkzeug.exceptions import RequestEntityTooLarge
    from werkzeug.test import EnvironBuilder
    from werkzeug.wrappers import Request

    env = EnvironBuilder(method="POST").get_environ()
    stream = CountingStream(body) if stream_kind == "full" else Pep3333Stream(body, short=7 if stream_kind == "short" else 0)
    env["wsgi.input"] = stream
    env["CONTENT_TYPE"] = content_type
    if has_cl:
        env["CONTENT_LENGTH"] = str(len(body))
    else:
        env.pop("CONTENT_LENGTH", None)
    if term:
        env["wsgi.input_terminated"] = True

    class R(Request):
        max_content_length = mcl
        max_form_memory_size = maxmem
        max_form_parts = maxparts

    res = {"err": "", "fields": [], "files": []}
    try:
        if entry in ("request", "cached-twice", "twice"):
            r = R(env)
            if entry != "request":
                # a history on one Request: the body cached with get_data() first ("cached-twice"), a first access
                # whose outcome is dropped, then the access that is recorded -- what it answers must still obey the limits
                try:
                    if entry == "cached-twice":
                        r.get_data()
                    r.form, r.files
                except RequestEntityTooLarge:
                    pass
            form, files = r.form, r.files
        elif entry == "parse_form_data":
            from werkzeug.formparser import parse_form_data
            _, form, files = parse_form_data(env, max_form_memory_size=maxmem, max_content_length=mcl, max_form_parts=maxparts)
        else:
            from werkzeug.formparser import FormDataParser
            if entry == "reused":
                p = FormDataParser(max_form_memory_size=None if maxmem is not None else 1, max_content_length=None,
                                   max_form_parts=None if maxparts is not None else 1)
                wenv = EnvironBuilder(method="POST").get_environ()
                wenv.update({"wsgi.input": io.BytesIO(WARMUP_BODY), "CONTENT_TYPE": "multipart/form-data; boundary=w",
                             "CONTENT_LENGTH": str(len(WARMUP_BODY))})
                try:
                    p.parse_from_environ(wenv)
                except RequestEntityTooLarge:
                    pass
                p.max_form_memory_size, p.max_form_parts, p.max_content_length = maxmem, maxparts, mcl
            else:
                p = FormDataParser(max_form_memory_size=maxmem, max_content_length=mcl, max_form_parts=maxparts)
            _, form, files = p.parse_from_environ(env)
        res["fields"] = [[cps(k), cps(v)] for k, v in form.items(multi=True)]
        out = []
        for k, f in files.items(multi=True):
            data = f.stream.read()
            enc, _ = _slice_or_lit(data, body, 0)
            out.append([cps(k), cps(f.filename or ""), cps(f.content_type or ""), enc["off"], enc["len"], enc["lit"]])
            f.close()
        res["files"] = out
    except RequestEntityTooLarge:
        res["err"] = "too_large"
    except ValueError:
        res["err"] = "value"
    except Exception as ex:
        res["err"] = "exc:" + type(ex).__name__
    return {"res": res, "consumed": stream.consumed}


def limit_bodies(rng: random.Random, quick: bool):
    """(ctype, boundary, body) around the limits: fields/files of various sizes, many small parts,
    a huge header block, no delimiter at all, long CR/LF runs, urlencoded bodies."""
    out = []
    b = b"LimitBoundary"
    sizes = [0, 1, 9, 10, 11, 40, 200] if quick else [0, 1, 9, 10, 11, 40, 63, 64, 65, 200, 1000, 5000]
    for n in sizes:
        out.append(("multipart", b, build_body([(b"f", None, None, b"v" * n)], b, lead=False)))
        out.append(("multipart", b, build_body([(b"up", b"u.bin", b"application/octet-stream", b"\x01" * n), (b"f", None, None, b"w" * (n // 2))], b)))
    # both orders of files and fields with sizes that let the header blocks fit below the field-size limits
    for fsz, usz in ([(300, 50), (300, 700)] if quick else [(300, 50), (300, 700), (1000, 100), (5000, 9000), (70000, 70000)]):
        out.append(("multipart", b, build_body([(b"up", b"u.bin", b"application/octet-stream", b"\x01" * usz), (b"f", None, None, b"w" * fsz)], b)))
        out.append(("multipart", b, build_body([(b"f", None, None, b"w" * fsz), (b"up", b"u.bin", b"application/octet-stream", b"\x01" * usz)], b)))
        out.append(("multipart", b, build_body([(b"f", None, None, b"a" * 3), (b"up", b"u.bin", None, b"\x02" * usz), (b"g", None, None, b"w" * fsz),
                                                (b"up2", b"v.bin", None, b"\x03" * 7), (b"h", None, None, b"z" * (fsz // 2))], b)))
    for k in ([1, 2, 3, 10] if quick else [1, 2, 3, 10, 50, 200]):
        out.append(("multipart", b, build_body([(b"p%d" % i, None, None, b"x") for i in range(k)], b, lead=False)))
        out.append(("multipart", b, build_body([(b"p", b"f%d" % i, None, None) for i in range(k)], b, lead=False)))
    out.append(("multipart", b, b"--" + b + b"\r\nContent-Disposition: form-data; name=\"h\"\r\nX-Pad: " + b"p" * 300 + b"\r\n\r\nv\r\n--" + b + b"--\r\n"))
    out.append(("multipart", b, b"no delimiter at all " * 20))
    out.append(("multipart", b, build_body([(b"f", None, None, b"\r\n" * 60)], b, lead=False)))
    out.append(("multipart", b, build_body([(b"f", None, None, b"\r" * 50 + b"\n" * 50)], b, lead=False)))
    out.append(("multipart", b, b"preamble " * 30 + build_body([(b"f", None, None, b"v")], b)))
    # undelimited input after the closing delimiter (epilogue), shorter and longer than the memory limits in use
    out.append(("multipart", b, build_body([(b"f", None, None, b"v")], b) + b"epilogue " * 30))
    out.append(("multipart", b, build_body([(b"f", None, None, b"v")], b) + b"z" * 5000))
    for n in ([0, 1, 10, 11, 100] if quick else [0, 1, 10, 11, 100, 1000, 70000]):
        pairs = []
        while sum(len(k) + len(v) + 2 for k, v in pairs) < n:
            pairs.append((b"k%d" % len(pairs), b"v" * rng.randint(0, 6)))
        out.append(("urlencoded", b"", b"&".join(k + b"=" + v for k, v in pairs)))
    out.append(("urlencoded", b"", b"a=1&b=2&c=3&d=4&e=5&f=6"))
    return out
