"""Recorder and drivers for the request body stream area (C09): werkzeug.wsgi.LimitedStream and
werkzeug.wsgi.get_input_stream.

The *environment* is a harness object (PlanStream): an underlying stream that serves `data`
following a plan (at most k bytes per call / raise OSError at this call), logs every call it
receives (requested size, bytes handed out) and raises HangGuard after too many calls inside one
application-level operation.  The recorder performs application-level calls on the real werkzeug
objects (optionally wrapped in io.BufferedReader / io.TextIOWrapper) and records arguments,
results, exception class names, the caller's buffer and tell().  No verdicts here: every line is
judged by spec/limitedstream/LimitedStreamTrace.tla.
"""
from __future__ import annotations

import io

FILL = 0xEE          # pattern pre-filled into caller buffers
ERR = "E"            # plan directive: raise OSError at this call
HUGE = 1 << 20
EMPTY_RUN = 12       # consecutive empty / failing underlying reads in one call = endless read


class HangGuard(BaseException):
    """Raised by the environment when one application call makes too many underlying calls."""


class PlanStream:
    """Underlying stream with `read` only.  plan: list of directives, one per call: int k >= 1
    (hand out at most k bytes) or ERR; when the plan is used up `default` applies to every
    further call."""

    def __init__(self, data: bytes, plan, default=HUGE, guard=10_000):
        self.data = data
        self.upos = 0
        self.plan = list(plan)
        self.ncall = 0
        self.default = default
        self.log: list[list[int]] = []   # [m, got] ; got = -1: raised OSError
        self.guard = guard
        self.plan_exhausted = False

    def _take(self, m: int) -> bytes:
        # hang sentinel: too many underlying calls, or EMPTY_RUN calls in a row that delivered
        # nothing, inside one application-level call -> recorded as an endless read
        if len(self.log) >= self.guard or (len(self.log) >= EMPTY_RUN and all(g <= 0 for _, g in self.log[-EMPTY_RUN:])):
            self.log.append([m if m is not None and m >= 0 else -1, -2])
            raise HangGuard()
        if self.ncall < len(self.plan):
            d = self.plan[self.ncall]
        else:
            d = self.default
            self.plan_exhausted = True
        self.ncall += 1
        req = -1 if (m is None or m < 0) else m
        if d == ERR:
            self.log.append([req, -1])
            raise OSError("injected")
        avail = len(self.data) - self.upos
        k = min(avail, d) if req < 0 else min(req, avail, d)
        out = self.data[self.upos:self.upos + k]
        self.upos += k
        self.log.append([req, k])
        return out

    def read(self, size=-1):
        return self._take(size)

    def drain_log(self):
        out, self.log = self.log, []
        return out


class PlanStreamRI(PlanStream):
    """Underlying stream that also has `readinto` (what LimitedStream prefers)."""

    def readinto(self, b):
        data = self._take(len(b))
        n = len(data)
        if n:
            memoryview(b)[:n] = data
        return n


def make_underlying(data: bytes, plan, hasri: bool, default=HUGE, guard=10_000):
    return (PlanStreamRI if hasri else PlanStream)(data, plan, default, guard)


def make_ls_class(dq: bool, ex: str, flavour: int = 0):
    """LimitedStream, or a subclass overriding its documented hooks: dq = on_disconnect returns
    normally (None or b"", both allowed by its docstring: 'any return value is ignored');
    ex = on_exhausted 'default' | 'quiet' (returns b"" / None) | 'raise' (own exception)."""
    from werkzeug.exceptions import BadRequest
    from werkzeug.wsgi import LimitedStream

    if not dq and ex == "default":
        return LimitedStream

    class HookExhausted(BadRequest):
        pass

    ns = {}
    if dq:
        def on_disconnect(self, error=None):
            return b"" if flavour else None
        ns["on_disconnect"] = on_disconnect
    if ex == "quiet":
        def on_exhausted(self):
            return None if flavour else b""
        ns["on_exhausted"] = on_exhausted
    elif ex == "raise":
        def on_exhausted(self):
            raise HookExhausted("input stream exhausted")
        ns["on_exhausted"] = on_exhausted
    return type("HookedLimitedStream", (LimitedStream,), ns)


def wrap(ls, wrapper: str, bufsize: int):
    if wrapper == "raw":
        return ls
    br = io.BufferedReader(ls, buffer_size=bufsize)
    if wrapper == "buffered":
        return br
    return io.TextIOWrapper(br, encoding="latin-1", newline="\n")


def _b(x) -> list[int]:
    if isinstance(x, str):
        return list(x.encode("latin-1"))
    return list(bytes(x))


def do_op(obj, op: str, n: int, wrapper: str):
    """Perform one application-level call; return the result fields of the trace line."""
    rec = {"rk": "bytes", "rb": [], "rx": "", "cuts": [], "bafter": [], "bn": -1}
    try:
        if op == "read":
            rec["rb"] = _b(obj.read(n))
        elif op == "readall":
            rec["rb"] = _b(obj.read())
        elif op == "read1":
            rec["rb"] = _b(obj.read1(n))
        elif op == "peek":
            rec["rb"] = _b(obj.peek(1))
        elif op == "readline":
            rec["rb"] = _b(obj.readline(n))
        elif op == "next":
            rec["rb"] = _b(next(obj))
        elif op == "readlines":
            ls = obj.readlines(n)
            rec["cuts"] = [len(x) for x in ls]
            rec["rb"] = [c for x in ls for c in _b(x)]
        elif op == "exhaust":
            rec["rb"] = _b(obj.exhaust())
        elif op in ("readinto", "readinto_mv", "readinto1"):
            buf = bytearray([FILL]) * n
            target = memoryview(buf) if op == "readinto_mv" else buf
            try:
                r = (obj.readinto1 if op == "readinto1" else obj.readinto)(target)
            finally:
                rec["bafter"] = list(buf)
            rec["bn"] = -1 if r is None else int(r)
            rec["rb"] = list(buf[: max(rec["bn"], 0)])
        else:
            raise AssertionError(op)
    except StopIteration:
        rec["rk"], rec["rx"] = "stop", "StopIteration"
    except HangGuard:
        rec["rk"], rec["rx"] = "exc", "HangGuard"
    except Exception as e:  # noqa: BLE001 - the class name is what is recorded
        rec["rk"], rec["rx"] = "exc", type(e).__name__
    return rec


def run_trace(case: dict) -> list[dict]:
    """case: {data, limit, is_max, hasri, wrapper, bufsize, plan, default, ops:[[op,n],..]}
    -> [cfg line, op lines...] (without "t")."""
    from werkzeug.wsgi import LimitedStream

    data = bytes(case["data"])
    guard = 4 * (len(data) + case["limit"]) + 64
    u = make_underlying(data, case["plan"], case["hasri"], case.get("default", HUGE), guard=10 ** 9)
    dq, ex = bool(case.get("dq", False)), case.get("ex", "default")
    ls = make_ls_class(dq, ex, len(data) % 2)(u, case["limit"], is_max=case["is_max"])
    obj = wrap(ls, case["wrapper"], case.get("bufsize", 8))
    lines = [{"op": "cfg", "data": list(data), "limit": case["limit"], "is_max": bool(case["is_max"]),
              "hasri": bool(case["hasri"]), "wrapper": case["wrapper"], "bufsize": case.get("bufsize", 8),
              "exp": case.get("exp", []), "dq": dq, "ex": ex}]
    for i, (op, n) in enumerate(case["ops"]):
        u.guard = len(u.log) + guard
        rec = do_op(obj, op, n, case["wrapper"])
        try:
            pos = int(ls.tell())
        except Exception:  # noqa: BLE001
            pos = -1
        rec.update({"i": i, "op": op, "n": n, "ev": u.drain_log(), "pos": pos})
        lines.append(rec)
    return lines


# ------------------------------------------------------------------ get_input_stream
class _Tagged(PlanStreamRI):
    pass


def run_choice(case: dict) -> dict:
    """case: {cl: text|None, te: text|None, terminated: bool, max: int|-1, safe_fallback: bool,
    data: bytes-list}.  Calls the real get_input_stream, then reads the returned stream twice and
    records what came out / what was consumed."""
    from werkzeug.wsgi import LimitedStream, get_input_stream

    data = bytes(case["data"])
    u = _Tagged(data, [], HUGE, guard=4 * len(data) + 64)
    env = {"wsgi.input": u, "REQUEST_METHOD": "POST"}
    if case["cl"] is not None:
        env["CONTENT_LENGTH"] = case["cl"]
    if case["te"] is not None:
        env["HTTP_TRANSFER_ENCODING"] = case["te"]
    if case["terminated"]:
        env["wsgi.input_terminated"] = True
    mx = None if case["max"] < 0 else case["max"]
    rec = {"op": "choice", "cl": [ord(c) for c in case["cl"]] if case["cl"] is not None else [],
           "has_cl": case["cl"] is not None, "chunked": case["te"] == "chunked",
           "te": [ord(c) for c in case["te"]] if case["te"] is not None else [],
           "terminated": bool(case["terminated"]), "max": case["max"],
           "safe": bool(case["safe_fallback"]), "data": list(data),
           "gx": "", "tag": "none", "r1k": "none", "r1": [], "r1x": "", "r2k": "none", "r2": [], "r2x": "",
           "consumed1": 0, "consumed2": 0, "maxreq": 0, "calls": 0}
    try:
        if case.get("api") == "request":
            # the same decision reached through Request.stream (safe_fallback is always on there)
            from werkzeug.wrappers import Request

            req = Request(env)
            req.max_content_length = mx
            s = req.stream
        else:
            s = get_input_stream(env, safe_fallback=case["safe_fallback"], max_content_length=mx)
    except Exception as e:  # noqa: BLE001
        rec["gx"] = type(e).__name__
        return rec
    rec["tag"] = ("same" if s is u else "limited" if isinstance(s, LimitedStream)
                  else "bytesio" if isinstance(s, io.BytesIO) else type(s).__name__)
    for k, call in (("1", lambda: s.read()), ("2", lambda: s.read(2))):
        try:
            rec["r" + k] = _b(call())
            rec["r" + k + "k"] = "bytes"
        except HangGuard:
            rec["r" + k + "k"], rec["r" + k + "x"] = "exc", "HangGuard"
        except Exception as e:  # noqa: BLE001
            rec["r" + k + "k"], rec["r" + k + "x"] = "exc", type(e).__name__
        rec["consumed" + k] = u.upos
    rec["calls"] = len(u.log)
    # largest cumulative demand on the server's input: position before the call + requested size
    pos = 0
    mr = 0
    for m, got in u.log:
        mr = max(mr, HUGE if m < 0 else pos + m)
        pos += max(got, 0)
    rec["maxreq"] = min(mr, HUGE)
    return rec


# ------------------------------------------------------------------ extra tool runs (growth round)
def tlc_temporal(area: str, module: str, cfg: str, tmp: str, workers: int = 4, timeout: int = 600) -> dict:
    """Run a liveness config that is EXPECTED to be refuted and report what TLC printed: whether
    the temporal property was violated and whether the counter-example is a lasso ('Back to
    state' / 'Stuttering').  (harness.tlc only recognises invariant violations.)"""
    import os
    import shutil
    import subprocess
    import time

    from . import tlc

    spec_dir = os.path.join(tlc.SPEC_ROOT, area)
    meta = os.path.join(tmp, f"tlcmeta-{module}-{cfg}-{time.time_ns()}")
    os.makedirs(os.path.join(tmp, "jtmp"), exist_ok=True)
    cmd = tlc._java_cmd("4g", [f"-Djava.io.tmpdir={os.path.join(tmp, 'jtmp')}"]) + ["-workers", str(workers), "-metadir", meta, "-noGenerateSpecTE", "-deadlock",
                                       "-config", os.path.join(spec_dir, cfg + ".cfg"),
                                       os.path.join(spec_dir, module + ".tla")]
    t0 = time.time()
    try:
        p = subprocess.run(cmd, cwd=spec_dir, capture_output=True, text=True, timeout=timeout)
    except subprocess.TimeoutExpired:
        raise tlc.MachineryError(f"TLC timeout on {area}/{module} cfg={cfg}")
    finally:
        shutil.rmtree(meta, ignore_errors=True)
    out = p.stdout + p.stderr
    m = tlc._GEN_RE.findall(out)
    return {"violated": "Temporal property" in out and "was violated" in out,
            "lasso": "Back to state" in out or "Stuttering" in out,
            "no_error": "No error has been found" in out,
            "distinct": int(m[-1][1]) if m else 0, "generated": int(m[-1][0]) if m else 0,
            "wall_s": round(time.time() - t0, 1), "tail": out[-1500:]}


APALACHE_OBLIGATIONS = [
    ("IndInv is inductive (IndInit /\\ Next => IndInv')", ["--init=IndInit", "--inv=IndInv", "--length=1"], "NoError"),
    ("Init => IndInv", ["--init=Init", "--inv=IndInv", "--length=0"], "NoError"),
    ("IndInv => Safety (upos <= limit, demand <= limit)", ["--init=IndInit", "--inv=Safety", "--length=0"], "NoError"),
    ("mutant NextOver (request = caller's size) breaks inductiveness", ["--init=IndInit", "--inv=IndInv", "--length=1", "--next=NextOver"], "Error"),
]


def apalache_obligations(tmp: str, timeout: int = 300) -> list[dict]:
    """Check spec/limitedstream/ApaLS.tla with Apalache (unbounded integers, inductive invariant).
    Returns one record per obligation: {name, args, outcome, expected, wall_s}; outcome is
    'NoError' / 'Error' / 'unavailable' / 'timeout' / 'unknown'."""
    import os
    import re
    import shutil
    import subprocess
    import time

    from . import tlc

    exe = shutil.which("apalache-mc")
    res = []
    work = os.path.join(tmp, "apalache")
    os.makedirs(work, exist_ok=True)
    shutil.copy(os.path.join(tlc.SPEC_ROOT, "limitedstream", "ApaLS.tla"), work)
    for name, args, expected in APALACHE_OBLIGATIONS:
        rec = {"name": name, "args": " ".join(args), "expected": expected, "outcome": "unavailable", "wall_s": 0.0}
        if exe:
            t0 = time.time()
            try:
                p = subprocess.run(["timeout", str(timeout), exe, "check", *args, f"--out-dir={work}/out",
                                    f"--run-dir={work}/run", "ApaLS.tla"], cwd=work, capture_output=True, text=True,
                                   timeout=timeout + 30)
                m = re.search(r"The outcome is: (\w+)", p.stdout + p.stderr)
                rec["outcome"] = m.group(1) if m else ("timeout" if p.returncode == 124 else "unknown")
            except subprocess.TimeoutExpired:
                rec["outcome"] = "timeout"
            rec["wall_s"] = round(time.time() - t0, 1)
        res.append(rec)
    shutil.rmtree(work, ignore_errors=True)
    return res


# ------------------------------------------------------------------ Request-level consumers
REQ_CONSUMERS = ["req_get_data", "req_get_data_nocache", "req_data", "req_get_data_text", "req_get_json", "req_form"]


def _req_consume(req, op):
    """Call one consumer of the body on a fresh Request and return the body bytes it delivered
    (decoded results are re-encoded: the scenario bodies are chosen so that this is exact)."""
    import json

    if op == "req_get_data":
        return req.get_data()
    if op == "req_get_data_nocache":
        return req.get_data(cache=False)
    if op == "req_data":
        return req.data
    if op == "req_get_data_text":
        return req.get_data(as_text=True).encode("utf-8")
    if op == "req_get_json":
        return json.dumps(req.get_json(force=True), separators=(",", ":")).encode("ascii")
    if op == "req_form":
        return "&".join(f"{k}={v}" for k, v in req.form.items(multi=True)).encode("ascii")
    if op == "req_stream_read":
        return req.stream.read()
    if op == "req_close":
        req.close()
        return b""
    raise AssertionError(op)


def run_request(case: dict) -> list[dict]:
    """case: {data, limit, is_max, hasri, plan, default, consumer, max (-1 = unset), send_cl}.
    is_max False: CONTENT_LENGTH = limit on an unterminated input; is_max True: wsgi.input_terminated
    with max_content_length = limit (CONTENT_LENGTH only when send_cl, = len(data)).  One fresh
    Request; lines: the consumer, then request.stream.read(), then Request.close()."""
    from werkzeug.wrappers import Request

    data = bytes(case["data"])
    u = make_underlying(data, case["plan"], case["hasri"], case.get("default", HUGE), guard=4 * (len(data) + case["limit"]) + 64)
    ctype = {"req_get_json": "application/json", "req_form": "application/x-www-form-urlencoded"}.get(case["consumer"], "text/plain")
    env = {"wsgi.input": u, "REQUEST_METHOD": "POST", "CONTENT_TYPE": ctype, "SERVER_NAME": "localhost",
           "SERVER_PORT": "80", "wsgi.url_scheme": "http", "PATH_INFO": "/", "SCRIPT_NAME": "", "QUERY_STRING": ""}
    if case["is_max"]:
        env["wsgi.input_terminated"] = True
        if case.get("send_cl"):
            env["CONTENT_LENGTH"] = str(len(data))
    else:
        env["CONTENT_LENGTH"] = str(case["limit"])
    req = Request(env)
    if case["is_max"]:
        req.max_content_length = case["limit"]
    elif case.get("max", -1) >= 0:
        req.max_content_length = case["max"]
    lines = [{"op": "cfg", "data": list(data), "limit": case["limit"], "is_max": bool(case["is_max"]),
              "hasri": bool(case["hasri"]), "wrapper": "raw", "bufsize": 0, "exp": []}]
    for i, op in enumerate([case["consumer"], "req_stream_read", "req_close"]):
        rec = {"rk": "bytes", "rb": [], "rx": "", "cuts": [], "bafter": [], "bn": -1}
        try:
            rec["rb"] = list(_req_consume(req, op))
        except HangGuard:
            rec["rk"], rec["rx"] = "exc", "HangGuard"
        except Exception as e:  # noqa: BLE001
            rec["rk"], rec["rx"] = "exc", type(e).__name__
        try:
            pos = int(req.stream.tell())
        except Exception:  # noqa: BLE001
            pos = -1
        rec.update({"i": i, "op": op, "n": -1, "ev": u.drain_log(), "pos": pos})
        lines.append(rec)
    return lines
