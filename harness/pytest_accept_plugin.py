"""pytest plugin (loaded with `-p harness.pytest_accept_plugin`) that records what the repository's own
tests do with the Accept classes: for every outermost `best_match` / `quality` call the (value, q) pairs
the object was constructed from, its iteration order, the arguments and the result.  The calls are
written as JSON to $VERIF_TRACE_OUT and judged by spec/accept/AcceptWideTrace.tla (op "obj"): the
contract is evaluated on calls whose own assertions only pin one expected string.  Nothing in /repo is
modified: the wrapping happens in the test process only."""
from __future__ import annotations

import json
import os
import threading

_lines: list = []
_skipped: dict = {}
_depth = threading.local()


def _skip(why):
    _skipped[why] = _skipped.get(why, 0) + 1


def pytest_configure(config):
    from werkzeug.datastructures import accept as A

    from harness.accept import _micro, blank_line, cps

    fams = {A.Accept: "accept", A.MIMEAccept: "mime", A.LanguageAccept: "language", A.CharsetAccept: "charset"}
    orig_init = A.Accept.__init__
    orig_quality = A.Accept.quality
    orig_best = {A.Accept: A.Accept.best_match, A.LanguageAccept: A.LanguageAccept.best_match}

    def pairs(vals):
        out = []
        for v, q in vals:
            if not isinstance(v, str) or isinstance(q, bool) or not isinstance(q, (int, float)):
                return None
            out.append({"v": cps(v), "q": _micro(q)})
        return out

    def init(self, values=()):
        given = None
        if values is not None and not isinstance(values, A.Accept):
            values = list(values)
            try:
                given = pairs(values)
            except Exception:
                given = None
        elif isinstance(values, A.Accept):
            given = getattr(values, "_verif_items", None)
        orig_init(self, values)
        self._verif_items = given if values is not None else []

    def line_for(self, api):
        fam = fams.get(type(self))
        items = getattr(self, "_verif_items", None)
        if fam is None:
            _skip("subclass outside the four families")
            return None
        if items is None:
            _skip("constructor values not (str, number) pairs")
            return None
        order = pairs(list.__iter__(self))
        if order is None:
            _skip("object holds non (str, number) pairs")
            return None
        ln = blank_line("obj", fam, api)
        ln["items"], ln["order"] = items, order
        ln["test"] = os.environ.get("PYTEST_CURRENT_TEST", "").encode("ascii", "replace").decode()[:120]
        return ln

    def outer():
        return getattr(_depth, "n", 0) == 0

    def quality(self, key):
        if not outer() or not isinstance(key, str):
            return orig_quality(self, key)
        _depth.n = 1
        try:
            ln = line_for(self, "quality")
            try:
                r = orig_quality(self, key)
            except Exception as e:
                if ln is not None:
                    ln["offers"], ln["exc"] = [cps(key)], type(e).__name__
                    _lines.append(ln)
                raise
            if ln is not None:
                ln["offers"], ln["hasq"], ln["quals"] = [cps(key)], True, [_micro(r)]
                _lines.append(ln)
            return r
        finally:
            _depth.n = 0

    def make_best(orig):
        def best_match(self, matches, default=None):
            if not outer():
                return orig(self, matches, default)
            _depth.n = 1
            try:
                matches = list(matches)
                ln = line_for(self, "best_match")
                if ln is not None and not all(isinstance(m, str) for m in matches):
                    _skip("offers are not strings")
                    ln = None
                try:
                    r = orig(self, matches, default)
                except Exception as e:
                    if ln is not None:
                        ln["offers"], ln["exc"] = [cps(m) for m in matches], type(e).__name__
                        _lines.append(ln)
                    raise
                if ln is not None:
                    if default is not None and default in matches:
                        _skip("default is one of the offers")
                    else:
                        ln["offers"], ln["hasbest"] = [cps(m) for m in matches], True
                        if r is not None and not (default is not None and r == default):
                            ln["best"], ln["none"] = cps(r), False
                        _lines.append(ln)
                return r
            finally:
                _depth.n = 0

        return best_match

    A.Accept.__init__ = init
    A.Accept.quality = quality
    A.Accept.best_match = make_best(orig_best[A.Accept])
    A.LanguageAccept.best_match = make_best(orig_best[A.LanguageAccept])


def pytest_sessionfinish(session, exitstatus):
    out = os.environ.get("VERIF_TRACE_OUT")
    if out:
        with open(out, "w") as f:
            json.dump({"lines": _lines, "skipped": _skipped}, f)
