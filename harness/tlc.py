"""Thin wrapper around TLC: run a model, parse statistics / coverage / printed JSON lines.

Everything that decides a verdict is evaluated by TLC; this module only starts it and reads
what it printed.  A TLC run that fails for any reason other than "the trace judge printed
REJECT lines" is a *machinery* failure (MachineryError -> exit code 2 in the runner).
"""
from __future__ import annotations

import json
import os
import re
import shutil
import subprocess
import tempfile
import time
from dataclasses import dataclass, field

SPEC_ROOT = os.path.join(os.path.dirname(os.path.dirname(os.path.abspath(__file__))), "spec")
# spec/lib goes on the class path: TLC resolves EXTENDS-ed modules from there
JAR = os.path.join(SPEC_ROOT, "lib") + ":/opt/veriftools/tla/tla2tools.jar:/opt/veriftools/tla/CommunityModules-deps.jar"


class MachineryError(Exception):
    pass


@dataclass
class TLCResult:
    ok: bool
    generated: int = 0
    distinct: int = 0
    depth: int = 0
    wall_s: float = 0.0
    printed: list = field(default_factory=list)  # decoded PrintT JSON values
    stdout: str = ""
    error: str = ""
    coverage: dict = field(default_factory=dict)
    invariant_violated: str | None = None


_GEN_RE = re.compile(r"(\d+) states generated, (\d+) distinct states found")
_DEPTH_RE = re.compile(r"depth of the complete state graph search is (\d+)")
_INV_RE = re.compile(r"Invariant (\S+) is violated|Action property (\S+) is violated|Temporal properties were violated"
                     r"|Temporal property (\S+) was violated")
_COV_RE = re.compile(r"^<(\w+) line (\d+), col (\d+) to line (\d+), col (\d+) of module (\w+)>: (\d+):(\d+)")


def _java_cmd(heap: str | None, extra_props: list[str] | None) -> list[str]:
    cmd = ["java", "-XX:+UseParallelGC", "-Xss256m"]
    if heap:
        cmd.append(f"-Xmx{heap}")
    for p in extra_props or []:
        cmd.append(p)
    cmd += ["-cp", JAR, "tlc2.TLC"]
    return cmd


def run_tlc(
    area: str,
    module: str,
    cfg: str | None = None,
    *,
    workers: int | str = 1,
    tmp: str,
    env: dict | None = None,
    timeout: float = 600,
    simulate: str | None = None,
    depth: int | None = None,
    seed: int | None = None,
    coverage: bool = False,
    heap: str | None = "6g",
    deadlock: bool = False,
    extra: list[str] | None = None,
    allow_violation: bool = False,
) -> TLCResult:
    """Run TLC on spec/<area>/<module>.tla with config <cfg>.cfg (default: module name)."""
    spec_dir = os.path.join(SPEC_ROOT, area)
    cfg = cfg or module
    meta = os.path.join(tmp, f"tlcmeta-{module}-{cfg}-{os.getpid()}-{time.time_ns()}")
    # TLC and SANY create scratch directories under java.io.tmpdir on every start: keep them inside the check's own
    # scratch directory (removed at the end of the run) instead of littering /tmp
    jtmp = os.path.join(tmp, "jtmp")
    os.makedirs(jtmp, exist_ok=True)
    cmd = _java_cmd(heap, [f"-Djava.io.tmpdir={jtmp}"]) + [
        "-workers", str(workers),
        "-metadir", meta,
        "-noGenerateSpecTE",
        "-config", os.path.join(spec_dir, cfg + ".cfg"),
    ]
    if not deadlock:
        cmd.append("-deadlock")  # "-deadlock" DISABLES deadlock checking in TLC
    if coverage:
        cmd += ["-coverage", "1"]
    if simulate:
        cmd += ["-simulate", simulate]
    if depth is not None:
        cmd += ["-depth", str(depth)]
    if seed is not None:
        cmd += ["-seed", str(seed)]
    cmd += extra or []
    cmd.append(os.path.join(spec_dir, module + ".tla"))
    e = dict(os.environ)
    e.update({k: str(v) for k, v in (env or {}).items()})
    t0 = time.time()
    try:
        p = subprocess.run(cmd, cwd=spec_dir, env=e, capture_output=True, text=True, timeout=timeout)
        out = p.stdout + p.stderr
        rc = p.returncode
    except subprocess.TimeoutExpired as ex:
        out = (ex.stdout or b"").decode("utf-8", "replace") if isinstance(ex.stdout, bytes) else (ex.stdout or "")
        shutil.rmtree(meta, ignore_errors=True)
        raise MachineryError(f"TLC timeout after {timeout}s on {area}/{module} cfg={cfg}\n{out[-2000:]}")
    finally:
        shutil.rmtree(meta, ignore_errors=True)
    res = TLCResult(ok=False, stdout=out, wall_s=time.time() - t0)
    for m in _GEN_RE.finditer(out):
        res.generated, res.distinct = int(m.group(1)), int(m.group(2))
    m = _DEPTH_RE.search(out)
    if m:
        res.depth = int(m.group(1))
    res.printed = parse_printed(out)
    if coverage:
        for line in out.splitlines():
            m = _COV_RE.match(line.strip())
            if m:
                res.coverage[f"{m.group(6)}!{m.group(1)}@{m.group(2)}"] = (int(m.group(7)), int(m.group(8)))
    m = _INV_RE.search(out)
    if m:
        res.invariant_violated = m.group(1) or m.group(2) or (m.group(3) if m.lastindex and m.lastindex >= 3 else None) or "temporal"
    finished = "Model checking completed. No error has been found." in out or (
        simulate is not None and "Error" not in out and rc == 0
    )
    if finished and rc == 0:
        res.ok = True
        return res
    res.error = _error_excerpt(out)
    if res.invariant_violated and allow_violation:
        return res
    raise MachineryError(f"TLC failed on {area}/{module} cfg={cfg} (rc={rc}):\n{res.error}")


def _error_excerpt(out: str) -> str:
    lines = out.splitlines()
    idx = [i for i, l in enumerate(lines) if l.startswith("Error:") or "Exception" in l]
    if not idx:
        return "\n".join(lines[-40:])
    a = max(0, idx[0] - 2)
    return "\n".join(lines[a : a + 60])


def parse_printed(out: str) -> list:
    """PrintT(ToJson(x)) prints a TLA+ string literal: a JSON string containing JSON."""
    vals = []
    for line in out.splitlines():
        line = line.strip()
        if len(line) >= 2 and line[0] == '"' and line[-1] == '"':
            try:
                inner = json.loads(line)
                vals.append(json.loads(inner))
            except Exception:
                continue
    return vals


def sany(area: str, module: str) -> None:
    spec_dir = os.path.join(SPEC_ROOT, area)
    e = dict(os.environ)
    p = subprocess.run(
        ["java", "-cp", JAR, "tla2sany.SANY", os.path.join(spec_dir, module + ".tla")],
        cwd=spec_dir, env=e, capture_output=True, text=True, timeout=120,
    )
    out = p.stdout + p.stderr
    if p.returncode != 0 or "*** Errors" in out or "Parse Error" in out or "Fatal errors" in out:
        raise MachineryError(f"SANY failed on {area}/{module}:\n{out[-3000:]}")


def run_apalache(area: str, module: str, *, init: str, inv: str, length: int, tmp: str, timeout: float = 600) -> str:
    """apalache-mc check on spec/<area>/<module>.tla -> "NoError" | "Error" | "unavailable".
    Used for inductive-invariant obligations (Init => IndInv, IndInv /\\ Next => IndInv', IndInv => Safety)."""
    exe = shutil.which("apalache-mc")
    if exe is None:
        return "unavailable"
    spec_dir = os.path.join(SPEC_ROOT, area)
    out_dir = tempfile.mkdtemp(prefix="apa-", dir=tmp)
    e = dict(os.environ)
    e["TMPDIR"] = out_dir
    cmd = [exe, "check", f"--init={init}", f"--inv={inv}", f"--length={length}", f"--out-dir={out_dir}",
           f"--run-dir={out_dir}/run", "--write-intermediate=false", os.path.join(spec_dir, module + ".tla")]
    try:
        p = subprocess.run(cmd, cwd=out_dir, env=e, capture_output=True, text=True, timeout=timeout)
    except subprocess.TimeoutExpired:
        shutil.rmtree(out_dir, ignore_errors=True)
        raise MachineryError(f"apalache timeout after {timeout}s on {area}/{module} init={init} inv={inv}")
    shutil.rmtree(out_dir, ignore_errors=True)
    out = p.stdout + p.stderr
    m = re.search(r"The outcome is: (\w+)", out)
    if not m or m.group(1) not in ("NoError", "Error"):
        raise MachineryError(f"apalache failed on {area}/{module} init={init} inv={inv}:\n{out[-1500:]}")
    return m.group(1)
