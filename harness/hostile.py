"""Drivers and recorders for the hostile-input area (C07).

Nothing here decides a verdict.  For a hostile text `s` (produced by spec/hostile: token sequences
and single-character sweeps enumerated by TLC, or drawn from the exported token tables with the
seeded rng) the recorder calls one "function" of the table below and records, per *position*
(position 1 = the call itself, the following positions = uses of the returned object: attribute
reads, membership, best_match, to_header, ...), an outcome

    kd = 0    a value was returned,           ty = its type signature (see `sig`)
    kd = 1    an exception that is not a werkzeug HTTPException escaped,  ty = its class name
    kd = 2    the CPU-time budget was exhausted (treated as non-termination), ty = "Timeout"
    kd = 3    the position was not executed because the call did not return an object to use
    kd = 4xx  (or any other status code) a werkzeug HTTPException escaped, ty = its class name

Function "RequestBody" (body family): slot = "<body>|<CONTENT_LENGTH variant>", text = CONTENT_TYPE; the bodies and
variants come from the spec's table export (set_body_table).  Positions = those of "Request" plus uses of fresh requests.

HostileTrace.tla holds the table `function -> position names -> documented result signatures` and
judges every position.  The order of the positions is checked against the spec by `schema` lines.
"""
from __future__ import annotations

import io
import signal

from .core import cps

BUDGET_S = 10.0         # CPU-time budget of one call including all its uses (inputs are <= ~8 KiB)

BODY_URL = b"a=1&b=%C3%A9&a=2"
BODY_MP = b'--b\r\nContent-Disposition: form-data; name="f"\r\n\r\nv\r\n--b\r\nContent-Disposition: form-data; name="u"; ' \
          b'filename="x.txt"\r\nContent-Type: text/plain\r\n\r\ndata\r\n--b--\r\n'
BODY_JSON = b'{"k": [1, "v"]}'


class _Timeout(BaseException):
    pass


def _alarm(signum, frame):
    raise _Timeout()


# ------------------------------------------------------------------------------ type signatures
def flat(v, depth=0) -> str:
    """Type signature of a value as one string: the type name, refined for short tuples and the
    builtin containers (`tuple[str,int]`, `list[int|str]`, `dict[str:str]`, `dict[]`)."""
    tp = type(v)
    name = tp.__name__
    if depth >= 3:
        return name
    if tp is tuple and len(v) <= 3:
        return f"tuple[{','.join(flat(x, depth + 1) for x in v)}]"
    if tp in (list, set, frozenset, tuple):
        return f"{name}[{'|'.join(sorted({flat(x, depth + 1) for x in v}))}]"
    if tp is dict:
        return f"{name}[{'|'.join(sorted({flat(k, depth + 1) + ':' + flat(x, depth + 1) for k, x in v.items()}))}]"
    return name


def sig(v) -> list:
    """[head, elem, ...]: the type name of the value and, for containers (lists, sets, long tuples,
    mappings and their subclasses such as Accept or MultiDict), the sorted distinct signatures of
    what they contain -- `k:v` for mappings, every value of every key for multi dicts."""
    tp = type(v)
    if isinstance(v, dict):
        if hasattr(v, "lists"):
            items = [(k, x) for k, xs in v.lists() for x in xs]
        else:
            items = list(dict.items(v))
        return [tp.__name__] + sorted({flat(k, 1) + ":" + flat(x, 1) for k, x in items})
    if isinstance(v, (list, set, frozenset)) or (isinstance(v, tuple) and (tp is not tuple or len(v) > 3)):
        return [tp.__name__] + sorted({flat(x, 1) for x in v})
    return [flat(v)]


# ------------------------------------------------------------------------------ offers derived from the header under test
_CUR_TEXT = [""]      # the hostile text of the call being executed (set by run_call)
_ALIASES = {"utf-8": ["utf8", "UTF-8", "u8"], "utf8": ["utf-8"], "latin1": ["iso-8859-1", "latin-1"], "iso-8859-1": ["latin1"],
            "ascii": ["us-ascii"], "us-ascii": ["ascii"]}
MAX_OFFERS = 7


def derive_offers(text: str, kind: str) -> list:
    """Offers for an Accept object parsed from `text` (kind: accept | mime | language | charset): every range occurring in
    the text (the part of each list element before ';'), its primary tag, regional variants x-YY / x_yy, for MIME the
    type/* and */* generalisations, charset aliases, and one unrelated offer.  Invalid mimetype offers are left out."""
    import re

    out: list = []

    def add(o):
        o = o.strip()
        if not o or len(o) > 40 or o in out:
            return
        if kind == "mime":
            if "/" not in o:
                return
            tp, _, sub = o.partition("/")
            if tp.strip() == "*" and sub.split(";")[0].strip() != "*":
                return
        out.append(o)

    tags = []
    for elem in text.split(",")[:4]:
        tag = elem.split(";")[0].strip().strip('"')
        if tag and tag not in tags:
            tags.append(tag)
    # round robin over the derivations, so that every range of the text is represented before the list is cut
    for tag in tags:
        add(tag)
    if kind == "mime":
        for elem in text.split(",")[:4]:
            if "q=" not in elem:
                add(elem)                       # the range with its parameters
        for tag in tags:
            if "/" in tag:
                add(tag.split("/")[0] + "/*")
        add("*/*")
    else:
        prim = [re.split(r"[-_]", tag, maxsplit=1)[0] for tag in tags]
        for p_ in prim:
            add(p_)
        for p_ in prim:
            add(p_ + "-YY")
        for tag in tags:
            for al in _ALIASES.get(tag.lower(), []):
                add(al)
        for p_ in prim:
            add(p_ + "_yy")
    out = out[: MAX_OFFERS - 1]
    unrelated = "x-unrelated/zz" if kind == "mime" else "zz-unrelated"
    if unrelated not in out:
        out.append(unrelated)
    return out


def derived_uses(kind: str, text=lambda: _CUR_TEXT[0]):
    def offers(a):
        o = derive_offers(text(), kind)
        # cost control for pumped headers (hundreds of items, every call is linear in them): first range + the unrelated offer
        return o if len(a) <= 40 else [o[0], o[-1]]

    def pairs(o):
        return [[x, y] for x in o for y in o if x != y]

    return [
        ("derived.contains", lambda a: [o in a for o in offers(a)]),
        ("derived.quality", lambda a: [a.quality(o) for o in offers(a)]),
        ("derived.best_match_singletons", lambda a: [a.best_match([o]) for o in offers(a)]),
        ("derived.best_match_pairs", lambda a: [a.best_match(p) for p in pairs(offers(a))]),
        ("derived.best_match_full", lambda a: a.best_match(offers(a))),
        ("derived.best_match_default", lambda a: [a.best_match(m, default="d") for m in [offers(a)] + [[o] for o in offers(a)]]),
    ]


def derived_all(attr: str, header: str, kind: str):
    """One Request position: all derived uses of the Accept object r.<attr>, offers derived from the header value."""
    def use(r):
        a = getattr(r, attr)
        uses = derived_uses(kind, text=lambda: r.headers.get(header, ""))
        out = []
        for _, f in uses:
            v = f(a)
            out.extend(v if isinstance(v, list) else [v])
        return out

    return (attr + ".derived", use)


# ------------------------------------------------------------------------------ the function table
_TABLE = None


def table():
    """fn -> (call(s, slot) -> value, [(position name, use(value))]) -- built lazily (werkzeug import)."""
    global _TABLE
    if _TABLE is not None:
        return _TABLE
    from werkzeug import datastructures as ds
    from werkzeug import http
    from werkzeug import wsgi

    def accept_uses(OFFERS=("text/html", "application/json", "en", "en-US", "utf-8", "gzip", "a/b;p=1", "*"), kind="accept"):
        OFFERS = list(OFFERS)
        return [
            ("iter", lambda a: [(v, q) for v, q in a]),
            ("contains", lambda a: [o in a for o in OFFERS]),
            ("quality", lambda a: [a.quality(o) for o in OFFERS]),
            ("getitem", lambda a: [a[o] for o in OFFERS] + [a[i] for i in range(len(a))]),
            ("find", lambda a: [a.find(o) for o in OFFERS]),
            ("best_match", lambda a: a.best_match(OFFERS)),
            ("best_match_default", lambda a: a.best_match(OFFERS[:2], default="d")),
            ("best", lambda a: a.best),
            ("values", lambda a: list(a.values())),
            ("to_header", lambda a: a.to_header()),
            ("str", lambda a: str(a)),
        ] + derived_uses(kind)

    def mime_uses():
        # offers of a MIMEAccept must be valid mimetypes (an invalid *offer* is a documented ValueError for the developer)
        return accept_uses(("text/html", "application/json", "a/b;p=1", "*/*", "text/*", "A/B; P=1"), kind="mime") + [("accept_flags", lambda a: (a.accept_html, a.accept_xhtml, a.accept_json))]

    cc_attrs = ["no_cache", "no_store", "max_age", "no_transform", "max_stale", "min_fresh", "only_if_cached"]
    auth_uses = [
        ("type", lambda a: a.type), ("token", lambda a: a.token), ("parameters", lambda a: a.parameters),
        ("username", lambda a: a.username), ("password", lambda a: a.password), ("realm", lambda a: a.realm),
        ("contains", lambda a: "realm" in a), ("to_header", lambda a: a.to_header()), ("str", lambda a: str(a)),
    ]
    T = {
        "parse_options_header": (lambda s: http.parse_options_header(s), []),
        "parse_list_header": (lambda s: http.parse_list_header(s), []),
        "parse_dict_header": (lambda s: http.parse_dict_header(s), []),
        "parse_set_header": (lambda s: http.parse_set_header(s), [
            ("iter", lambda h: list(h)), ("contains", lambda h: "a" in h), ("len", lambda h: len(h)),
            ("find", lambda h: h.find("A")), ("as_set", lambda h: h.as_set()), ("to_header", lambda h: h.to_header())]),
        "parse_accept_header": (lambda s: http.parse_accept_header(s), accept_uses()),
        "parse_accept_header[MIMEAccept]": (lambda s: http.parse_accept_header(s, ds.MIMEAccept), mime_uses()),
        "parse_accept_header[LanguageAccept]": (lambda s: http.parse_accept_header(s, ds.LanguageAccept), accept_uses(kind="language")),
        "parse_accept_header[CharsetAccept]": (lambda s: http.parse_accept_header(s, ds.CharsetAccept), accept_uses(kind="charset")),
        "parse_cache_control_header": (lambda s: http.parse_cache_control_header(s),
                                       [(a, (lambda a: lambda c: getattr(c, a))(a)) for a in cc_attrs]
                                       + [("to_header", lambda c: c.to_header()), ("str", lambda c: str(c))]),
        "parse_cache_control_header[ResponseCacheControl]": (
            lambda s: http.parse_cache_control_header(s, cls=ds.ResponseCacheControl),
            [(a, (lambda a: lambda c: getattr(c, a))(a)) for a in
             ["no_cache", "no_store", "max_age", "no_transform", "public", "private", "must_revalidate", "proxy_revalidate",
              "s_maxage", "immutable", "must_understand", "stale_while_revalidate", "stale_if_error"]]
            + [("to_header", lambda c: c.to_header())]),
        "parse_csp_header": (lambda s: http.parse_csp_header(s), [
            ("default_src", lambda c: c.default_src), ("script_src", lambda c: c.script_src),
            ("items", lambda c: dict(c)), ("to_header", lambda c: c.to_header())]),
        "parse_etags": (lambda s: http.parse_etags(s), [
            ("iter", lambda e: list(e)), ("contains", lambda e: "a" in e), ("contains_weak", lambda e: e.contains_weak("a")),
            ("contains_raw", lambda e: e.contains_raw('W/"a"')), ("is_weak", lambda e: e.is_weak("a")),
            ("is_strong", lambda e: e.is_strong("a")), ("as_set", lambda e: e.as_set(include_weak=True)),
            ("star_tag", lambda e: e.star_tag), ("bool", lambda e: bool(e)), ("to_header", lambda e: e.to_header())]),
        "parse_range_header": (lambda s: http.parse_range_header(s), [
            ("units", lambda r: r.units), ("ranges", lambda r: r.ranges), ("range_for_length", lambda r: r.range_for_length(100)),
            ("range_for_length_none", lambda r: r.range_for_length(None)),
            ("make_content_range", lambda r: r.make_content_range(100)),
            ("to_header", lambda r: r.to_header()), ("to_content_range_header", lambda r: r.to_content_range_header(100))]),
        "parse_content_range_header": (lambda s: http.parse_content_range_header(s), [
            ("units", lambda r: r.units), ("start", lambda r: r.start), ("stop", lambda r: r.stop),
            ("length", lambda r: r.length), ("to_header", lambda r: r.to_header())]),
        "parse_if_range_header": (lambda s: http.parse_if_range_header(s), [
            ("etag", lambda r: r.etag), ("date", lambda r: r.date), ("to_header", lambda r: r.to_header())]),
        "parse_date": (lambda s: http.parse_date(s), [
            ("utcoffset", lambda d: d.utcoffset()), ("http_date", lambda d: http.http_date(d))]),
        "parse_age": (lambda s: http.parse_age(s), [("dump_age", lambda a: http.dump_age(a))]),
        "parse_cookie": (lambda s: http.parse_cookie(s), [("to_dict", lambda c: c.to_dict())]),
        "parse_cookie[environ]": (lambda s: http.parse_cookie({"HTTP_COOKIE": s}), []),
        "Authorization.from_header": (lambda s: ds.Authorization.from_header(s), auth_uses),
        "WWWAuthenticate.from_header": (lambda s: ds.WWWAuthenticate.from_header(s), auth_uses[:3] + [
            ("realm", lambda a: a.realm), ("algorithm", lambda a: a.algorithm), ("qop", lambda a: a.qop),
            ("stale", lambda a: a.stale), ("nonce", lambda a: a.nonce), ("opaque", lambda a: a.opaque),
            ("domain", lambda a: a.domain), ("contains", lambda a: "realm" in a), ("get", lambda a: a.get("realm")),
            ("to_header", lambda a: a.to_header()), ("str", lambda a: str(a))]),
        "unquote_etag": (lambda s: http.unquote_etag(s), []),
        "unquote_header_value": (lambda s: http.unquote_header_value(s), []),
        "wsgi.get_host": (lambda s: wsgi.get_host(make_environ("HOST", s)), []),
        "wsgi.get_current_url": (lambda s: wsgi.get_current_url(make_environ("HOST", s)), []),
        "Request": (None, request_uses()),
        "RequestBody": (None, request_uses() + body_uses()),
        "RequestPart": (None, part_uses()),
    }
    _TABLE = T
    return T


PURE_FNS = [
    "parse_options_header", "parse_list_header", "parse_dict_header", "parse_set_header", "parse_accept_header",
    "parse_accept_header[MIMEAccept]", "parse_accept_header[LanguageAccept]", "parse_accept_header[CharsetAccept]",
    "parse_cache_control_header", "parse_cache_control_header[ResponseCacheControl]", "parse_csp_header", "parse_etags",
    "parse_range_header", "parse_content_range_header", "parse_if_range_header", "parse_date", "parse_age", "parse_cookie",
    "parse_cookie[environ]", "Authorization.from_header", "WWWAuthenticate.from_header", "unquote_etag", "unquote_header_value", "wsgi.get_host", "wsgi.get_current_url",
]

# ------------------------------------------------------------------------------ Request
# slot -> how the hostile text enters the environ (client-controlled variables only)
HEADER_SLOTS = {
    "HOST": "HTTP_HOST", "COOKIE": "HTTP_COOKIE", "AUTHORIZATION": "HTTP_AUTHORIZATION", "ACCEPT": "HTTP_ACCEPT",
    "ACCEPT_CHARSET": "HTTP_ACCEPT_CHARSET", "ACCEPT_ENCODING": "HTTP_ACCEPT_ENCODING", "ACCEPT_LANGUAGE": "HTTP_ACCEPT_LANGUAGE",
    "CACHE_CONTROL": "HTTP_CACHE_CONTROL", "PRAGMA": "HTTP_PRAGMA", "IF_MATCH": "HTTP_IF_MATCH",
    "IF_NONE_MATCH": "HTTP_IF_NONE_MATCH", "IF_MODIFIED_SINCE": "HTTP_IF_MODIFIED_SINCE",
    "IF_UNMODIFIED_SINCE": "HTTP_IF_UNMODIFIED_SINCE", "IF_RANGE": "HTTP_IF_RANGE", "RANGE": "HTTP_RANGE", "DATE": "HTTP_DATE",
    "MAX_FORWARDS": "HTTP_MAX_FORWARDS", "X_FORWARDED_FOR": "HTTP_X_FORWARDED_FOR", "USER_AGENT": "HTTP_USER_AGENT",
    "REFERER": "HTTP_REFERER", "ORIGIN": "HTTP_ORIGIN", "CONTENT_ENCODING": "HTTP_CONTENT_ENCODING",
    "CONTENT_MD5": "HTTP_CONTENT_MD5", "ACR_HEADERS": "HTTP_ACCESS_CONTROL_REQUEST_HEADERS",
    "ACR_METHOD": "HTTP_ACCESS_CONTROL_REQUEST_METHOD", "CONTENT_LENGTH": "CONTENT_LENGTH", "QUERY_STRING": "QUERY_STRING",
}
SLOTS = list(HEADER_SLOTS) + ["PATH_INFO", "CONTENT_TYPE_URL", "CONTENT_TYPE_MP", "CONTENT_TYPE_JSON", "CONTENT_TYPE_GET", "ALL_HEADERS"]


def make_environ(slot: str, s: str) -> dict:
    body, ctype, method = BODY_URL, "application/x-www-form-urlencoded", "POST"
    if slot == "CONTENT_TYPE_MP":
        body = BODY_MP
    elif slot == "CONTENT_TYPE_JSON":
        body = BODY_JSON
    elif slot == "CONTENT_TYPE_GET":
        body, method = b"", "GET"
    env = {
        "REQUEST_METHOD": method, "SCRIPT_NAME": "/app", "PATH_INFO": "/p", "QUERY_STRING": "x=1", "SERVER_NAME": "srv.test",
        "SERVER_PORT": "8080", "SERVER_PROTOCOL": "HTTP/1.1", "REMOTE_ADDR": "192.0.2.1", "wsgi.version": (1, 0),
        "wsgi.url_scheme": "http", "wsgi.input": io.BytesIO(body), "wsgi.errors": io.StringIO(), "wsgi.multithread": False,
        "wsgi.multiprocess": False, "wsgi.run_once": False, "CONTENT_TYPE": ctype, "CONTENT_LENGTH": str(len(body)),
        "HTTP_HOST": "srv.test:8080",
    }
    if slot in HEADER_SLOTS:
        env[HEADER_SLOTS[slot]] = s
    elif slot == "PATH_INFO":
        env["PATH_INFO"] = "/" + s
    elif slot.startswith("CONTENT_TYPE"):
        env["CONTENT_TYPE"] = s
    elif slot == "ALL_HEADERS":
        for k in HEADER_SLOTS.values():
            if k not in ("CONTENT_LENGTH", "QUERY_STRING"):
                env[k] = s
    else:
        raise ValueError(slot)
    return env


def request_uses():
    def a(name):
        return (name, lambda r: getattr(r, name))

    return [
        a("method"), a("scheme"), a("server"), a("root_path"), a("path"), a("query_string"), a("remote_addr"),
        ("headers", lambda r: list(r.headers)),
        a("args"), a("url"), a("base_url"), a("url_root"), a("host_url"), a("root_url"), a("host"), a("full_path"), a("script_root"),
        a("is_secure"), a("cookies"), a("content_type"), a("content_length"), a("content_encoding"), a("content_md5"),
        a("referrer"), a("date"), a("max_forwards"), a("origin"), a("mimetype"), a("mimetype_params"), a("is_json"),
        a("pragma"), ("pragma.to_header", lambda r: r.pragma.to_header()),
        a("accept_mimetypes"), ("accept_mimetypes.best_match", lambda r: r.accept_mimetypes.best_match(["text/html", "a/b;p=1"])),
        ("accept_mimetypes.to_header", lambda r: r.accept_mimetypes.to_header()),
        derived_all("accept_mimetypes", "Accept", "mime"),
        a("accept_charsets"), ("accept_charsets.best_match", lambda r: r.accept_charsets.best_match(["utf-8", "latin1"])),
        derived_all("accept_charsets", "Accept-Charset", "charset"),
        a("accept_encodings"), ("accept_encodings.best_match", lambda r: r.accept_encodings.best_match(["gzip", "br"])),
        derived_all("accept_encodings", "Accept-Encoding", "accept"),
        a("accept_languages"), ("accept_languages.best_match", lambda r: r.accept_languages.best_match(["en", "de-AT"])),
        derived_all("accept_languages", "Accept-Language", "language"),
        a("cache_control"), ("cache_control.max_age", lambda r: r.cache_control.max_age),
        ("cache_control.max_stale", lambda r: r.cache_control.max_stale),
        a("if_match"), ("if_match.to_header", lambda r: r.if_match.to_header()),
        a("if_none_match"), ("if_none_match.contains", lambda r: "a" in r.if_none_match),
        a("if_modified_since"), a("if_unmodified_since"),
        a("if_range"), ("if_range.to_header", lambda r: r.if_range.to_header()),
        a("range"), ("range.range_for_length", lambda r: r.range.range_for_length(100) if r.range is not None else None),
        ("range.to_header", lambda r: r.range.to_header() if r.range is not None else None),
        a("user_agent"), ("user_agent.string", lambda r: r.user_agent.string), ("user_agent.to_header", lambda r: r.user_agent.to_header()),
        a("authorization"), ("authorization.to_header", lambda r: r.authorization.to_header() if r.authorization is not None else None),
        ("authorization.username", lambda r: r.authorization.username if r.authorization is not None else None),
        a("access_route"), a("access_control_request_headers"), a("access_control_request_method"),
        a("want_form_data_parsed"), a("stream"), a("form"), a("files"), a("values"), a("data"),
        ("get_data", lambda r: r.get_data()), ("get_data_text", lambda r: r.get_data(as_text=True)),
        ("get_json_silent", lambda r: r.get_json(silent=True)), ("get_json", lambda r: r.get_json()), a("json"),
        ("make_form_data_parser", lambda r: r.make_form_data_parser()),
        ("repr", lambda r: repr(r)), ("close", lambda r: r.close()),
    ]


# ------------------------------------------------------------------------------ body family
# name -> (kind, body bytes, canonical content type, {variant name: (CONTENT_LENGTH present, text)}); exported from the spec
BODY_TABLE: dict = {}


def set_body_table(bodies) -> None:
    """bodies: the `bodies` value of MCHostile's table export for family "body"."""
    BODY_TABLE.clear()
    for b in bodies:
        BODY_TABLE[b["name"]] = (b["kind"], bytes(b["bytes"]), "".join(map(chr, b["canon"])),
                                 {c["name"]: (c["present"], "".join(map(chr, c["text"]))) for c in b["cls"]})


def make_body_environ(slot: str, s: str) -> dict:
    """slot = "<body name>|<CONTENT_LENGTH variant>", s = the CONTENT_TYPE text."""
    body_name, cl = slot.split("|")
    _kind, body, _canon, cls = BODY_TABLE[body_name]
    present, text = cls[cl]
    env = make_environ("CONTENT_TYPE_URL", s)
    env["wsgi.input"] = io.BytesIO(body)
    if present:
        env["CONTENT_LENGTH"] = text
    else:
        del env["CONTENT_LENGTH"]
        if cl == "terminated":
            env["wsgi.input_terminated"] = True
    return env


def body_uses():
    def fresh(r):
        from werkzeug.wrappers import Request

        return Request(make_body_environ(*r._c07))

    def read_then_form(r):
        f = fresh(r)
        f.stream.read()
        return f.form

    return [
        ("fresh.stream.read", lambda r: fresh(r).stream.read()),
        ("fresh.get_data", lambda r: fresh(r).get_data(cache=False)),
        ("fresh.get_data_text", lambda r: fresh(r).get_data(cache=False, as_text=True)),
        ("fresh.get_json_force", lambda r: fresh(r).get_json(force=True)),
        ("fresh.get_json_force_silent", lambda r: fresh(r).get_json(force=True, silent=True)),
        ("fresh.files", lambda r: fresh(r).files),
        ("fresh.values", lambda r: fresh(r).values),
        ("fresh.read_then_form", read_then_form),
        ("fresh.close", lambda r: fresh(r).close()),
        ("files.read", lambda r: [f.read() for f in fresh(r).files.values()]),
        ("files.names", lambda r: [x for f in fresh(r).files.values() for x in (f.filename, f.name, f.content_type, f.mimetype)]),
        ("files.mimetype_params", lambda r: [f.mimetype_params for f in fresh(r).files.values()]),
        ("files.content_length", lambda r: [f.content_length for f in fresh(r).files.values()]),
    ]


PART_SLOTS = ["DISPOSITION", "PART_TYPE"]


def make_part_environ(slot: str, s: str) -> dict:
    """A multipart/form-data request with one part; the hostile text is the value of the part's Content-Disposition
    (slot DISPOSITION) or, for a file part, of its Content-Type (slot PART_TYPE).  The text is latin-1 on the wire."""
    v = s.encode("latin-1")
    if slot == "DISPOSITION":
        part = b"Content-Disposition: " + v + b"\r\nContent-Type: text/plain\r\n\r\nv\r\n"
    elif slot == "PART_TYPE":
        part = b'Content-Disposition: form-data; name="u"; filename="x.txt"\r\nContent-Type: ' + v + b"\r\n\r\nv\r\n"
    else:
        raise ValueError(slot)
    body = b"--b\r\n" + part + b"--b--\r\n"
    env = make_environ("CONTENT_TYPE_URL", "multipart/form-data; boundary=b")
    env["wsgi.input"] = io.BytesIO(body)
    env["CONTENT_LENGTH"] = str(len(body))
    return env


def part_uses():
    return [
        ("files", lambda r: r.files), ("form", lambda r: r.form), ("values", lambda r: r.values),
        ("files.names", lambda r: [x for f in r.files.values() for x in (f.filename, f.name, f.content_type, f.mimetype)]),
        ("files.mimetype_params", lambda r: [f.mimetype_params for f in r.files.values()]),
        ("files.headers", lambda r: [h for f in r.files.values() for h in f.headers]),
    ]


def schema_lines():
    """One line per function: the recorder's position names, to be compared with the spec's."""
    out = []
    for fn, (_, uses) in table().items():
        out.append({"t": "schema", "i": len(out), "op": "schema", "fn": fn, "names": ["call"] + [n for n, _ in uses]})
    return out


# ------------------------------------------------------------------------------ running one call
def _outcome(thunk):
    """-> (kd, ty, value)"""
    from werkzeug.exceptions import HTTPException

    try:
        v = thunk()
    except _Timeout:
        raise
    except HTTPException as e:
        code = e.code if isinstance(e.code, int) else 599
        return code, [type(e).__name__], None
    except Exception as e:  # noqa: BLE001 -- the class name is recorded, the judge decides
        return 1, [type(e).__name__], None
    return 0, sig(v), v


def run_call(fn: str, slot: str, s: str, budget: float = BUDGET_S) -> dict:
    """Execute fn on s (for fn == 'Request': an environ with s in `slot`) and every use of the result."""
    call, uses = table()[fn]
    n = 1 + len(uses)
    kd, ty = [], []
    _CUR_TEXT[0] = s
    if signal.getsignal(signal.SIGVTALRM) is not _alarm:
        signal.signal(signal.SIGVTALRM, _alarm)
    signal.setitimer(signal.ITIMER_VIRTUAL, budget)
    try:
        if fn == "Request":
            from werkzeug.wrappers import Request

            k, t_, v = _outcome(lambda: Request(make_environ(slot, s)))
        elif fn == "RequestPart":
            from werkzeug.wrappers import Request

            k, t_, v = _outcome(lambda: Request(make_part_environ(slot, s)))
        elif fn == "RequestBody":
            from werkzeug.wrappers import Request

            def build():
                r = Request(make_body_environ(slot, s))
                r._c07 = (slot, s)
                return r

            k, t_, v = _outcome(build)
        else:
            k, t_, v = _outcome(lambda: call(s))
        kd.append(k)
        ty.append(t_)
        if k == 0 and v is not None:
            for _, use in uses:
                k, t_, _v = _outcome(lambda: use(v))  # noqa: B023
                kd.append(k)
                ty.append(t_)
    except _Timeout:
        while len(kd) < n:      # the budget covers the call and all its uses: everything not finished is a timeout
            kd.append(2)
            ty.append(["Timeout"])
    finally:
        signal.setitimer(signal.ITIMER_VIRTUAL, 0)
    while len(kd) < n:
        kd.append(3)
        ty.append(["-"])
    return {"op": "call", "fn": fn, "slot": slot, "s": s, "ty": ty, "kd": kd}


MAX_EX = 5


def run_batch(items):
    """items: list of (fn, slot, s) -> outcome classes {(fn, slot, kd, ty): [n, [shortest inputs]]}.
    Grouping identical outcome vectors is bookkeeping only: the judge sees every distinct vector."""
    classes: dict = {}
    for fn, slot, s in items:
        r = run_call(fn, slot, s)
        key = (fn, slot, tuple(r["kd"]), tuple(tuple(x) for x in r["ty"]))
        merge(classes, key, 1, [s])
    return classes


def merge(classes, key, n, exs):
    c = classes.get(key)
    if c is None:
        classes[key] = [n, sorted(set(exs), key=lambda x: (len(x), x))[:MAX_EX]]
    else:
        c[0] += n
        c[1] = sorted(set(c[1]) | set(exs), key=lambda x: (len(x), x))[:MAX_EX]


def class_lines(classes):
    lines = []
    for (fn, slot, kd, ty), (n, exs) in sorted(classes.items(), key=lambda kv: (kv[0][0], kv[0][1], str(kv[0][2:]))):
        lines.append({"t": len(lines), "i": 0, "op": "class", "fn": fn, "slot": slot, "kd": list(kd),
                      "ty": [list(x) for x in ty], "n": n, "ex": [cps(x) for x in exs]})
    return lines
