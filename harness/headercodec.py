"""Drivers and recorders for the header codec area (C06).

Nothing here decides a verdict.  A *case* is ``{"op": "rt"|"nf", "codec": name, "j": value, "variant": str}``
where ``j`` is the value in the JSON shape the TLA+ specs use (text = code point list, numbers = decimal
digit list, None = [-1]; see spec/headercodec/HeaderCodecTrace.tla) or, for ``nf``, the header text as
code points.  ``run_case`` builds the real werkzeug object, calls the real dump / parse functions twice
(dump, parse, re-dump, re-parse) and records everything as one ndjson line for the TLC judge.
"""
from __future__ import annotations

import random

from .core import cps, digits

NONE = [-1]
CODECS = ("quote", "quotent", "list", "set", "dict", "options", "etags", "range", "crange", "age", "csp", "date",
          "ifrange", "cc", "authz", "wwwauth")
CODECS2 = ("cachecontrol", "basic", "authparam")  # second layer (HeaderCodec2.tla); "options2231" is parse-side only (nf)
MODEL_CODECS = ("quote", "list", "dict", "options", "etags", "range", "crange", "age", "csp", "date")


# ------------------------------------------------------------------------------------------------ shapes
def T(j):
    return None if j == NONE else "".join(map(chr, j))


def N(j):
    return None if j == NONE else int("".join(map(str, j)))


def eT(s):
    if s is None:
        return list(NONE)
    if not isinstance(s, str):
        return [-2] + cps(repr(s))
    return cps(s)


def eN(n):
    return list(NONE) if n is None else digits(n)


def tv(x):
    """typed cache-control property value -> [k, t] (HeaderCodec2.tla: TV)"""
    if x is None:
        return {"k": "none", "t": []}
    if x is True or x is False:
        return {"k": "true" if x else "false", "t": []}
    if isinstance(x, int):
        return {"k": "int" if x >= 0 else "nint", "t": digits(abs(x))}
    if isinstance(x, str):
        return {"k": "str", "t": cps(x)}
    return {"k": "other", "t": cps(repr(x))}


def untv(a):
    k = a["k"]
    if k in ("none", "true", "false"):
        return {"none": None, "true": True, "false": False}[k]
    if k in ("int", "nint"):
        return N(a["t"]) * (1 if k == "int" else -1)
    return T(a["t"])


def _pairs(d):
    return [[eT(k), eT(v)] for k, v in d.items()]


def _date_proj(dt):
    if dt is None:
        return list(NONE)
    off = dt.utcoffset()
    return [dt.year, dt.month, dt.day, dt.hour, dt.minute, dt.second, 0 if off is None else int(off.total_seconds())]


def _mk_date(j, variant=""):
    from datetime import date, datetime, timedelta, timezone

    y, mo, d, h, mi, s, off = j
    if variant == "date" and (h, mi, s, off) == (0, 0, 0, 0):
        return date(y, mo, d)
    if variant == "naive" and off == 0:
        return datetime(y, mo, d, h, mi, s)
    return datetime(y, mo, d, h, mi, s, tzinfo=timezone(timedelta(seconds=off)))


CC_PROPS = {
    "resp": ["no_store", "max_age", "no_transform", "stale_if_error", "no_cache", "public", "private", "must_revalidate",
             "proxy_revalidate", "s_maxage", "immutable", "must_understand", "stale_while_revalidate"],
    "req": ["no_store", "max_age", "no_transform", "stale_if_error", "no_cache", "max_stale", "min_fresh", "only_if_cached"],
}


class Codec:
    """mk(j, variant) -> python value; dump(obj) -> str; parse(str) -> obj; proj(obj) -> JSON shape"""

    def __init__(self, name, variant=""):
        self.name = name
        self.variant = variant
        self.cls = variant if name in ("authparam", "cachecontrol") else ""

    # -- construction of the python value from the JSON shape
    def mk(self, j, variant=""):
        from werkzeug import datastructures as ds

        n = self.name
        if n in ("quote", "quotent"):
            return T(j)
        if n == "cookie":
            return ds.MultiDict([(T(k), T(v)) for k, v in j])
        if n == "accept":
            return ds.Accept([(T(x), q / 1000) for x, q in j])
        if n == "list":
            return [T(x) for x in j]
        if n in ("set", "setv"):
            return ds.HeaderSet([T(x) for x in j])
        if n == "dict":
            return {T(k): T(v) for k, v in j}
        if n == "options":
            return (T(j["main"]), {T(k): T(v) for k, v in j["opts"]})
        if n == "etags":
            return ds.ETags([T(x) for x in j["strong"]], [T(x) for x in j["weak"]], star_tag=j["star"])
        if n == "range":
            return ds.Range(T(j["units"]), [(-N(r["b"]) if r["neg"] else N(r["b"]), N(r["e"])) for r in j["ranges"]])
        if n == "crange":
            return ds.ContentRange(T(j["units"]), N(j["start"]), N(j["stop"]), N(j["length"]))
        if n == "age":
            from datetime import timedelta

            return timedelta(seconds=N(j)) if variant == "td" else N(j)
        if n == "csp":
            return ds.ContentSecurityPolicy([(T(k), T(v)) for k, v in j])
        if n == "date":
            return _mk_date(j, variant)
        if n == "ifrange":
            return ds.IfRange(T(j["etag"]), None if j["date"] == NONE else _mk_date(j["date"], variant))
        if n == "cc":
            if j["cls"] == "req":
                return ds.RequestCacheControl([(T(k), T(v)) for k, v in j["items"]])
            cc = ds.ResponseCacheControl()
            for name, kind, val in j["set"]:
                setattr(cc, name, {"bool": lambda: True, "int": lambda: N(val), "str": lambda: T(val)}[kind]())
            return cc
        if n == "cachecontrol":
            self.cls = j["cls"]
            if j["cls"] == "req":
                return ds.RequestCacheControl([(T(k), T(v)) for k, v in j["items"]])
            cc = ds.ResponseCacheControl()
            for attr, a in j["assigns"]:
                setattr(cc, T(attr), untv(a))
            return cc
        if n == "authparam":
            self.cls = j["cls"]
        if n in ("authz", "wwwauth", "basic", "authparam"):
            cls = ds.Authorization if n in ("authz", "basic") or (n == "authparam" and j["cls"] == "authz") else ds.WWWAuthenticate
            params = {T(k): T(v) for k, v in j["params"]}
            return cls(T(j["type"]), params, T(j["token"]))
        raise KeyError(n)

    def dump(self, o):
        from werkzeug import http

        n = self.name
        if n == "quote":
            return http.quote_header_value(o)
        if n == "quotent":
            return http.quote_header_value(o, allow_token=False)
        if n in ("list", "dict"):
            return http.dump_header(o)
        if n == "cookie":
            return "; ".join(http.dump_cookie(k, v, path=None) for k, v in o.items(multi=True))
        if n in ("options", "options2231"):
            return http.dump_options_header(o[0], o[1])
        if n == "age":
            return http.dump_age(o)
        if n == "date":
            return http.http_date(o)
        return o.to_header()

    def parse(self, s, like=None):
        from werkzeug import datastructures as ds
        from werkzeug import http

        n = self.name
        if n in ("quote", "quotent"):
            return http.unquote_header_value(s)
        if n == "cookie":
            return http.parse_cookie(s)
        if n == "accept":
            return http.parse_accept_header(s)
        if n == "list":
            return http.parse_list_header(s)
        if n in ("set", "setv"):
            return http.parse_set_header(s)
        if n == "dict":
            return http.parse_dict_header(s)
        if n in ("options", "options2231"):
            return http.parse_options_header(s)
        if n == "cachecontrol":
            return http.parse_cache_control_header(s, cls=ds.RequestCacheControl if self.cls == "req" else ds.ResponseCacheControl)
        if n == "basic" or (n == "authparam" and self.cls == "authz"):
            return ds.Authorization.from_header(s)
        if n == "authparam":
            return ds.WWWAuthenticate.from_header(s)
        if n == "etags":
            return http.parse_etags(s)
        if n == "range":
            return http.parse_range_header(s)
        if n == "crange":
            return http.parse_content_range_header(s)
        if n == "age":
            return http.parse_age(s)
        if n == "csp":
            return http.parse_csp_header(s)
        if n == "date":
            return http.parse_date(s)
        if n == "ifrange":
            return http.parse_if_range_header(s)
        if n == "cc":
            return http.parse_cache_control_header(s, cls=type(like) if like is not None else ds.ResponseCacheControl)
        if n == "authz":
            return ds.Authorization.from_header(s)
        if n == "wwwauth":
            return ds.WWWAuthenticate.from_header(s)
        raise KeyError(n)

    def proj(self, o):
        from werkzeug import datastructures as ds

        n = self.name
        if n in ("quote", "quotent"):
            return eT(o)
        if n == "setv":  # the value as its public reads describe it: iteration, len, membership
            return {"items": [eT(x) for x in o], "n": len(o), "members": [[cps(p), p in o] for p in getattr(self, "probes", [])]}
        if n == "cookie":
            return [[eT(k), eT(v)] for k, v in o.items(multi=True)]
        if n == "accept":
            return [[eT(x), int(round(q * 1000))] for x, q in o]
        if n in ("list", "set"):
            return [eT(x) for x in o]
        if n in ("dict", "csp"):
            return _pairs(o)
        if n in ("options", "options2231"):
            return {"main": eT(o[0]), "opts": _pairs(o[1])}
        if n == "cachecontrol":
            kind = "req" if isinstance(o, ds.RequestCacheControl) else "resp"
            return {"cls": kind, "assigns": [], "props": [[cps(p), tv(getattr(o, p))] for p in CC_PROPS[kind]], "items": _pairs(o)}
        if n in ("basic", "authparam"):
            if o is None:
                r = {"none": True, "type": [], "token": list(NONE), "params": []}
            else:
                r = {"none": False, "type": eT(o.type), "token": eT(o.token), "params": _pairs(o.parameters)}
            if n == "authparam":
                r["cls"] = self.cls
            return r
        if n == "etags":
            return {"star": bool(o.star_tag), "strong": sorted(eT(x) for x in o._strong), "weak": sorted(eT(x) for x in o._weak)}
        if n == "range":
            if o is None:
                return {"none": True, "units": [], "ranges": []}
            return {"none": False, "units": eT(o.units),
                    "ranges": [{"neg": b < 0, "b": digits(abs(b)), "e": eN(e)} for b, e in o.ranges]}
        if n == "crange":
            if o is None:
                return {"none": True, "units": [], "start": list(NONE), "stop": list(NONE), "length": list(NONE)}
            return {"none": False, "units": eT(o.units), "start": eN(o.start), "stop": eN(o.stop), "length": eN(o.length)}
        if n == "age":
            from datetime import timedelta

            if o is None:
                return list(NONE)
            return digits(o.days * 86400 + o.seconds) if isinstance(o, timedelta) else digits(o)
        if n == "date":
            from datetime import date, datetime

            if isinstance(o, date) and not isinstance(o, datetime):
                return [o.year, o.month, o.day, 0, 0, 0, 0]
            return _date_proj(o)
        if n == "ifrange":
            return {"etag": eT(o.etag), "date": _date_proj(o.date)}
        if n == "cc":
            kind = "req" if isinstance(o, ds.RequestCacheControl) else "resp"
            return {"props": [[cps(p), cps(repr(getattr(o, p)))] for p in CC_PROPS[kind]], "items": _pairs(o)}
        if n in ("authz", "wwwauth"):
            if o is None:
                return {"none": True, "type": [], "token": list(NONE), "params": []}
            return {"none": False, "type": eT(o.type), "token": eT(o.token), "params": _pairs(o.parameters)}
        raise KeyError(n)

    def placeholder(self):
        return []


def run_case(case):
    """Execute one case on the real code; returns the trace line (without t / i)."""
    c = Codec(case["codec"], case.get("variant", ""))
    ph = c.placeholder()
    rec = {"op": case["op"], "codec": case["codec"], "v": ph, "dumped": [], "parsed": ph, "redumped": [], "reparsed": ph,
           "err": "", "err2": ""}
    like = None
    if case["op"] == "rt":
        obj = c.mk(case["j"], case.get("variant", ""))  # an exception here is a harness error (value outside the constructor's domain)
        like = obj
        rec["v"] = c.proj(obj)
        if case["codec"] == "cachecontrol":
            rec["v"]["assigns"] = case["j"]["assigns"]
        try:
            dumped = c.dump(obj)
            rec["dumped"] = cps(dumped)
            parsed = c.parse(dumped, like)
            rec["parsed"] = c.proj(parsed)
        except Exception as e:  # noqa: BLE001 - recorded, judged by TLC
            rec["err"] = type(e).__name__
            return rec
    else:
        text = T(case["j"])
        rec["v"] = list(case["j"])
        try:
            parsed = c.parse(text, None)
            rec["parsed"] = c.proj(parsed)
        except Exception as e:  # noqa: BLE001
            rec["err"] = type(e).__name__
            return rec
    if parsed is None:
        return rec
    try:
        red = c.dump(parsed)
        rec["redumped"] = cps(red)
        rec["reparsed"] = c.proj(c.parse(red, like if like is not None else parsed))
    except Exception as e:  # noqa: BLE001
        rec["err2"] = type(e).__name__
    return rec


def run_cases(cases):
    return [run_case(c) for c in cases]


# ------------------------------------------------------------------------------------------------ generators
TOKEN_CHARS = "!#$%&'*+-.^_`|~0123456789ABCDEFGHIJKLMNOPQRSTUVWXYZabcdefghijklmnopqrstuvwxyz"
POOLS = ["abcXYZ019", " \t", ',;="\\', "'*%/:-_.~!#$&+^`|", "%22", "\x00\x01\x08\x0b\x0c\x0e\x1b\x1c\x1d\x1e\x1f\x7f", "\x80\x85\xa0\xad\xff",
         "éßĀ͸       　﻿￿", "\U00010000\U0001F600\U000E0001\U0010FFFF", "Ww/", "()<>@[]?{}"]


def rtext(rng: random.Random, maxlen=6, forbid="\r\n", lo=0):
    n = rng.choice([lo, 1, 1, 2, 3, maxlen]) if maxlen else 0
    n = max(n, lo)
    out = []
    for _ in range(n):
        pool = rng.choice(POOLS)
        ch = rng.choice(pool)
        if rng.random() < 0.06:
            ch = chr(rng.choice([rng.randrange(0, 0xD800), rng.randrange(0xE000, 0x110000)]))
        if ch in forbid:
            ch = "x"
        out.append(ch)
    return "".join(out)


def rtoken(rng, star=False, lower=False, maxlen=5):
    chars = TOKEN_CHARS if star else TOKEN_CHARS.replace("*", "")
    s = "".join(rng.choice(chars) for _ in range(rng.randint(1, maxlen)))
    return s.lower() if lower else s


def _keys(rng, n, lower=False):
    ks = []
    while len(ks) < n:
        k = rtoken(rng, lower=lower)
        if k not in ks:
            ks.append(k)
    return ks


def rnum(rng):
    return rng.choice([0, 1, 2, 9, 10, 99, 100, 499, 500, 2**31 - 1, 2**31, 2**32, 2**63, 10**20, rng.randrange(0, 1000), rng.randrange(0, 10**12)])


def _no_pct22(s):
    while "%22" in s:
        s = s.replace("%22", "%2 2")
    return s


DATELIKE = ["Mon, 01 Jan 2001 00:00:00 GMT", "Sun, 06 Nov 1994 08:49:37 GMT", "x, 1 jan 2001 0:0 +0100", "Sunday, 06-Nov-94 08:49:37 GMT",
            "Sun Nov  6 08:49:37 1994", "1 Jan 2001 00:00:00", "2001-01-01T00:00:00Z", "06 Nov 1994 08:49:37 GMT", "Mon, 1 Jan 01 0:0", "0"]


def rdate(rng):
    import calendar

    y = rng.choice([1000, 1001, 1582, 1899, 1900, 1969, 1970, 1999, 2000, 2001, 2024, 2038, 2100, 9998, 9999, rng.randint(1000, 9999)])
    mo = rng.choice([1, 2, 3, 12, rng.randint(1, 12)])
    d = rng.choice([1, 28, calendar.monthrange(y, mo)[1], rng.randint(1, calendar.monthrange(y, mo)[1])])
    h, mi, s = rng.choice([0, 23, rng.randint(0, 23)]), rng.choice([0, 59, rng.randint(0, 59)]), rng.choice([0, 59, rng.randint(0, 59)])
    off = rng.choice([0, 0, 60, -60, 3600, -3600, 19800, 50400, -43200, 86340, -86340, 1, -1, 30, rng.randint(-86399, 86399)])
    # the domain is stated on the UTC year (1000..9999): keep the instant inside it
    from datetime import datetime, timedelta

    try:
        utc = datetime(y, mo, d, h, mi, s) - timedelta(seconds=off)
    except OverflowError:
        off = 0
        utc = datetime(y, mo, d, h, mi, s)
    if not (1000 <= utc.year <= 9999):
        off = 0
    return [y, mo, d, h, mi, s, off]


def random_case(rng: random.Random, codec: str):
    """A seeded case inside the documented domain of `codec` (the judge re-checks the domain in TLA+)."""
    v = ""
    if codec in ("quote", "quotent"):
        j = cps(rtext(rng, 8))
    elif codec in ("list", "set"):
        j = [cps(rtext(rng)) for _ in range(rng.choice([0, 1, 2, 3, 5]))]
    elif codec == "dict":
        n = rng.choice([0, 1, 2, 3, 4])
        j = [[cps(k), cps(rtext(rng)) if rng.random() < 0.85 else list(NONE)] for k in _keys(rng, n)]
    elif codec == "options":
        n = rng.choice([0, 1, 2, 3])
        main = rng.choice(["text/html", "form-data", "attachment", "a", "x y", "multipart/form-data", rtoken(rng), "é/ü"])
        j = {"main": cps(main), "opts": [[cps(k), cps(_no_pct22(rtext(rng)))] for k in _keys(rng, n, lower=True)]}
    elif codec == "etags":
        if rng.random() < 0.05:
            j = {"star": True, "strong": [], "weak": []}
        else:
            tag = lambda: cps(rtext(rng, 5, forbid='\r\n"', lo=1))  # noqa: E731
            j = {"star": False, "strong": sorted({tuple(tag()) for _ in range(rng.choice([0, 1, 2, 3]))}),
                 "weak": sorted({tuple(tag()) for _ in range(rng.choice([0, 0, 1, 2]))})}
            j["strong"], j["weak"] = [list(x) for x in j["strong"]], [list(x) for x in j["weak"]]
    elif codec == "range":
        n = rng.choice([1, 1, 2, 3])
        ordered = rng.random() < 0.8
        rs, lo = [], 0
        for k in range(n):
            kind = rng.random()
            last = k == n - 1
            if kind < 0.2 and (last or not ordered):
                rs.append({"neg": True, "b": digits(rnum(rng) + 1), "e": list(NONE)})
            elif kind < 0.4 and (last or not ordered):
                rs.append({"neg": False, "b": digits(lo + rnum(rng) if ordered else rnum(rng)), "e": list(NONE)})
            else:
                b = lo + rng.choice([0, 0, 1, rnum(rng)]) if ordered else rnum(rng)
                e = b + 1 + rng.choice([0, 1, rnum(rng)])
                rs.append({"neg": False, "b": digits(b), "e": digits(e)})
                lo = e
        j = {"none": False, "units": cps(rng.choice(["bytes", "bytes", "items", rtoken(rng, lower=True)])), "ranges": rs}
    elif codec == "crange":
        units = cps(rng.choice(["bytes", "bytes", "items", rtoken(rng)]))
        if rng.random() < 0.2:
            j = {"none": False, "units": units, "start": list(NONE), "stop": list(NONE), "length": rng.choice([list(NONE), digits(rnum(rng))])}
        else:
            a = rnum(rng)
            b = a + 1 + rng.choice([0, 1, rnum(rng)])
            ln = rng.choice([None, a + 1, b, b + rnum(rng), a + 1 + rnum(rng)])
            j = {"none": False, "units": units, "start": digits(a), "stop": digits(b), "length": eN(ln)}
    elif codec == "age":
        j = digits(rng.choice([0, 1, 59, 60, 86399, 86400, 2**31 - 1, 2**31, 2**32, 86399999999999, 86399999999998, rnum(rng) % 86400000000000]))
        v = rng.choice(["int", "td"])
    elif codec == "csp":
        n = rng.choice([0, 1, 2, 3])
        vals = []
        for _ in range(n):
            s = rtext(rng, 8, forbid="\r\n;", lo=1).strip()
            vals.append(s or rng.choice(["'self'", "*", "https://é.example/ 'unsafe-inline'"]))
        names = rng.sample(["default-src", "script-src", "img-src", "report-uri", "sandbox", "frame-ancestors"], n) if rng.random() < 0.6 else _keys(rng, n)
        j = [[cps(k), cps(x)] for k, x in zip(names, vals)]
    elif codec == "date":
        j = rdate(rng)
        v = rng.choice(["aware", "naive", "date"])
    elif codec == "ifrange":
        k = rng.random()
        if k < 0.3:
            j = {"etag": list(NONE), "date": rdate(rng)}
            v = rng.choice(["aware", "naive"])
        elif k < 0.35:
            j = {"etag": list(NONE), "date": list(NONE)}
        elif k < 0.5:
            j = {"etag": cps(rng.choice(DATELIKE)), "date": list(NONE)}
        else:
            j = {"etag": cps(rtext(rng, 6, forbid='\r\n"')), "date": list(NONE)}
    elif codec == "cc":
        if rng.random() < 0.5:
            sets = []
            for name in rng.sample(CC_PROPS["resp"], rng.choice([0, 1, 2, 3, 5])):
                if name in ("max_age", "stale_if_error", "s_maxage", "stale_while_revalidate"):
                    sets.append([name, "int", digits(rnum(rng))])
                elif name in ("no_cache", "private"):
                    sets.append([name, "bool", []] if rng.random() < 0.4 else [name, "str", cps(rtext(rng, 5, lo=1))])
                else:
                    sets.append([name, "bool", []])
            j = {"cls": "resp", "set": sets, "items": []}
        else:
            items = []
            for key in rng.sample(["no-store", "max-age", "no-transform", "stale-if-error", "no-cache", "max-stale", "min-fresh", "only-if-cached", "x-ext"],
                                  rng.choice([0, 1, 2, 3, 5])):
                if key in ("max-age", "stale-if-error", "min-fresh"):
                    val = rng.choice([str(rnum(rng)), str(rnum(rng)), "abc", "-1", ""])
                elif key == "max-stale":
                    val = rng.choice([None, str(rnum(rng)), "x"])
                elif key == "x-ext":
                    val = rng.choice([None, rtext(rng)])
                else:
                    val = rng.choice([None, None, rtext(rng, 3)])
                items.append([cps(key), eT(val)])
            j = {"cls": "req", "set": [], "items": items}
    elif codec in ("authz", "wwwauth"):
        k = rng.random()
        if codec == "authz" and k < 0.35:
            user = rtext(rng, 6, forbid=":").replace(":", "")
            j = {"type": cps("basic"), "token": list(NONE), "params": [[cps("username"), cps(user)], [cps("password"), cps(rtext(rng, 6, forbid=""))]]}
        elif k < 0.6:
            tok = "".join(rng.choice("abcXYZ0189-._~+/") for _ in range(rng.randint(0, 12))) + "=" * rng.choice([0, 0, 1, 2])
            if rng.random() < 0.3:
                tok = rtext(rng, 6).replace("=", "").strip()
            j = {"type": cps(rng.choice(["bearer", "token", "negotiate", rtoken(rng, lower=True)])), "token": cps(tok), "params": []}
        else:
            n = rng.choice([1, 2, 3, 4])
            names = rng.sample(["realm", "nonce", "opaque", "qop", "domain", "algorithm", "stale", "uri", "response", "nc", "cnonce", "username"], n) \
                if rng.random() < 0.7 else _keys(rng, n)
            j = {"type": cps(rng.choice(["digest", "digest", "basic" if codec == "wwwauth" else "digest", "custom", rtoken(rng, lower=True)])),
                 "token": list(NONE), "params": [[cps(kk), cps(rtext(rng))] for kk in names]}
    else:
        raise KeyError(codec)
    return {"op": "rt", "codec": codec, "j": j, "variant": v}


def sweep_cases():
    """length-1/2 texts over every code point < 256, both sides of every class boundary of the spec's predicates and
    samples of all planes, through the text codecs (DESIGN section 5: 'every code point' claims)."""
    pts = set(range(0, 256)) | {0x1680, 0x167F, 0x1681, 0x2000, 0x1FFF, 0x200A, 0x200B, 0x2028, 0x2029, 0x202A, 0x202F, 0x205F,
                                 0x3000, 0x3001, 0xD7FF, 0xE000, 0xFFFD, 0xFFFF, 0x10000, 0x1F600, 0x10FFFF, 0x85, 0xA0, 0x378}
    pts -= {10, 13}
    cases = []
    for cp in sorted(pts):
        for text in ([cp], [cp, 97], [97, cp], [cp, cp]):
            cases.append({"op": "rt", "codec": "quote", "j": text, "variant": ""})
            cases.append({"op": "rt", "codec": "list", "j": [text, [98]], "variant": ""})
            cases.append({"op": "rt", "codec": "dict", "j": [[[107], text]], "variant": ""})
            cases.append({"op": "rt", "codec": "options", "j": {"main": [97, 47, 98], "opts": [[[107], text]]}, "variant": ""})
            if cp != 34:
                cases.append({"op": "rt", "codec": "etags", "j": {"star": False, "strong": [text], "weak": [[119]]}, "variant": ""})
                cases.append({"op": "rt", "codec": "ifrange", "j": {"etag": text, "date": list(NONE)}, "variant": ""})
    return cases


NF_ATOMS = {
    "list": ["a", "b c", ",", ", ", '"', '\\', '\\"', '"x, y"', " ", "=", "é", '""', "\t"],
    "dict": ["a", "k=", "=v", "=", ",", ", ", '"', '\\', '"x, y"', " ", "é", '""', "k*=", "UTF-8''%C3%A9", "b=c", "K"],
    "options": ["text/html", ";", "; ", "k=", "=", '"', '\\', '\\"', "%22", "%2", "v", " ", "é", "K=", "k*=", "k*0=", "a b", '""', ","],
    "etags": ['"a"', "W/", "w/", '"', ",", ", ", " ", "*", "a", '""', "é", 'W/"b"', "\t"],
    "range": ["bytes", "=", "-", ",", ", ", "0", "5", "9", "10", "499", " ", "B", "items", "-0", "x", "99999999999999999999"],
    "crange": ["bytes", " ", "-", "/", "*", "0", "5", "9", "10", "499", "  ", "x", "items", "\t", "99999999999999999999"],
    "age": ["0", "1", "59", " ", "+", "-", "_", "x", "86399999999999", "86400000000000", "\t", "٣", "00"],
    "csp": ["default-src", " ", ";", "; ", "'self'", "a", "  ", "é", "script-src", "*", "\t"],
    "quote": ['"', "\\", "a", " ", '\\"', "\\\\", "é"],
    "date": ["Sun, 06 Nov 1994 08:49:37 GMT", "Sun", ",", " ", "06", "Nov", "1994", "08:49:37", "GMT", "+0100", "-0000", "9999", "0999", '"'],
    "ifrange": ["Sun, 06 Nov 1994 08:49:37 GMT", '"', "W/", "a", " ", "1 Jan 2001 00:00", '"x"', "é"],
    "set": ["a", "A", ",", ", ", '"', '\\', "b c", " "],
    "cc": ["max-age", "=", "0", "5", ",", ", ", "no-cache", "private", '"', "x", "no-store", " ", "-1", "abc", "max-stale", "min-fresh"],
    "authz": ["Basic", "Bearer", "Digest", " ", "=", ",", '"', "a", "realm", "dXNlcjpwYXNz", "YTpi", "=="],
    "wwwauth": ["Basic", "Bearer", "Digest", " ", "=", ",", '"', "a", "realm", "nonce", "x y", "=="],
}
NF_REAL = {
    "list": ['token, "quoted value"', 'a, "b, c", d', ""], "set": ['Accept-Encoding, Cookie', 'a, A, b'],
    "dict": ['a=b, c="d, e", f', 'max-age=0, no-cache', 'realm="x y", nonce="abc==", qop=auth', "filename*=UTF-8''%E2%82%AC%20rates"],
    "options": ['text/html; charset=UTF-8', 'form-data; name="a b"; filename="x\\"y.txt"', 'attachment; filename="%22q%22.txt"',
                "attachment; filename*=UTF-8''%e2%82%ac.txt", 'multipart/form-data; boundary=----x', 'a/b; k="a;b"; K2=c', "text/plain;charset = x"],
    "etags": ['"a", W/"b"', '*', 'W/"x", "y" , z', '"a,b", "c"', ''],
    "range": ["bytes=0-499", "bytes=500-", "bytes=-500", "bytes=0-0,-1", "bytes=0-5,6-", "bytes = 1 - 100", "AWesomes=0-999", "bytes=5-1", "bytes=-"],
    "crange": ["bytes 0-499/1234", "bytes */1234", "bytes 0-499/*", "bytes */*", "bytes 0-9/5", "items 5-5/6"],
    "age": ["0", "60", " 60 ", "+5", "-0", "1_0", "abc", "99999999999999999999"],
    "csp": ["default-src 'self'; script-src 'self' https://x.example", "sandbox", "a b;c d; e  f "],
    "date": ["Sun, 06 Nov 1994 08:49:37 GMT", "Sunday, 06-Nov-94 08:49:37 GMT", "Sun Nov  6 08:49:37 1994", "Sun, 06 Nov 1994 08:49:37 +0100", "foo", ""],
    "ifrange": ['"Test"', 'W/"Test"', "bullshit", "Thu, 01 Jan 1970 00:00:00 GMT", '"Thu, 01 Jan 1970 00:00:00 GMT"', ""],
    "cc": ["max-age=0, no-cache", "private=\"set-cookie\", max-age=10", "no-store", "max-stale", "max-age=abc"],
    "authz": ["Basic dXNlcjpwYXNz", "Bearer abc.def==", 'Digest username="a", realm="b", nonce="c==", uri="/", response="d"', "Basic", "x"],
    "wwwauth": ['Basic realm="x y"', 'Digest realm="r", nonce="n==", qop="auth", stale=FALSE', "Bearer", "Negotiate abc=="],
    "quote": ['"a\\"b"', '"a\\\\"', 'a', '""', '"'],
}


def nf_cases(rng: random.Random, n_per_codec: int):
    cases = []
    for codec, atoms in NF_ATOMS.items():
        texts = list(NF_REAL.get(codec, []))
        for _ in range(n_per_codec):
            texts.append("".join(rng.choice(atoms) for _ in range(rng.choice([1, 2, 3, 4, 6, 9]))))
        for t in texts:
            t = t.replace("\r", "").replace("\n", "")
            cases.append({"op": "nf", "codec": codec, "j": cps(t), "variant": ""})
    return cases


def model_cases(printed):
    """cases from the values / texts TLC exported (MCX_inv / MCX_nf)"""
    cases = []
    for v in printed:
        if not isinstance(v, dict) or "codec" not in v:
            continue
        if v["law"] == "inv":
            cases.append({"op": "rt", "codec": v["codec"], "j": v["x"], "variant": ""})
            if v["codec"] == "quote":
                cases.append({"op": "rt", "codec": "quotent", "j": v["x"], "variant": ""})
            if v["codec"] == "list":
                cases.append({"op": "rt", "codec": "set", "j": v["x"], "variant": ""})
        else:
            cases.append({"op": "nf", "codec": v["codec"], "j": v["x"], "variant": ""})
    return cases


# ------------------------------------------------------------------------------------------------ second layer
INT_PROPS = ("max_age", "stale_if_error", "s_maxage", "stale_while_revalidate")
STR_PROPS = ("no_cache", "private")


def random_case2(rng: random.Random, codec: str):
    """seeded in-domain values for the second-layer codecs (HeaderCodec2.tla)"""
    v = ""
    if codec == "cachecontrol":
        if rng.random() < 0.65:
            assigns = []
            for _ in range(rng.choice([0, 1, 2, 3, 4, 6])):
                name = rng.choice(CC_PROPS["resp"])
                if name in INT_PROPS:
                    a = rng.choice([tv(0), tv(rnum(rng)), tv(-rnum(rng) - 1), tv(None), tv(True), tv(False), tv(1)])
                elif name in STR_PROPS:
                    a = rng.choice([tv(rtext(rng, 5)), tv(rtext(rng, 5)), tv(""), tv("set-cookie, x-a"), tv(True), tv(None), tv(False)])
                else:
                    a = rng.choice([tv(True), tv(True), tv(False), tv(None)])
                assigns.append([cps(name), a])
            j = {"cls": "resp", "assigns": assigns, "items": []}
        else:
            items = []
            keys = ["no-store", "max-age", "no-transform", "stale-if-error", "no-cache", "max-stale", "min-fresh", "only-if-cached", "x-ext", "Max-Age"]
            for key in rng.sample(keys, rng.choice([0, 1, 2, 3, 5])):
                if key in ("max-age", "stale-if-error", "min-fresh", "max-stale", "Max-Age"):
                    val = rng.choice([None, str(rnum(rng)), "0", "-1", " 7 ", "+5", "1_0", "007", "abc", "", "5x", "-0"])
                else:
                    val = rng.choice([None, None, rtext(rng, 4)])
                items.append([cps(key), eT(val)])
            j = {"cls": "req", "assigns": [], "items": items}
    elif codec == "basic":
        user = rtext(rng, 6, forbid=":").replace(":", "")
        pw = rng.choice([rtext(rng, 6, forbid=""), "", ":", "a:b", rtext(rng, 3, forbid="") + ":"])
        j = {"none": False, "type": cps("basic"), "token": list(NONE), "params": [[cps("username"), cps(user)], [cps("password"), cps(pw)]]}
    elif codec == "authparam":
        cls = rng.choice(["authz", "wwwauth"])
        ty = rng.choice(["bearer", "digest", "digest", "negotiate", "token", rtoken(rng, lower=True)])
        if cls == "authz" and ty == "basic":
            ty = "basic2"
        if rng.random() < 0.4:
            tok = "".join(rng.choice("abcXYZ0189-._~+/") for _ in range(rng.randint(0, 12))) + "=" * rng.choice([0, 0, 1, 2])
            if rng.random() < 0.3:
                tok = rtext(rng, 6).replace("=", "").strip()
            j = {"cls": cls, "none": False, "type": cps(ty), "token": cps(tok), "params": []}
        else:
            n = rng.choice([1, 2, 3, 4])
            names = rng.sample(["realm", "nonce", "opaque", "qop", "domain", "algorithm", "stale", "uri", "response", "nc", "cnonce", "username"], n) \
                if rng.random() < 0.7 else _keys(rng, n)
            j = {"cls": cls, "none": False, "type": cps(ty), "token": list(NONE), "params": [[cps(kk), cps(rtext(rng))] for kk in names]}
    else:
        raise KeyError(codec)
    return {"op": "rt", "codec": codec, "j": j, "variant": v}


NF_ATOMS2 = {
    ("cachecontrol", "req"): ["max-age", "max-stale", "min-fresh", "no-cache", "no-store", "only-if-cached", "=", ",", ", ", " ", "0", "5", "-1", "+3",
                              "1_0", "x", '"', "Max-Age", "007", "٣"],
    ("cachecontrol", "resp"): ["max-age", "s-maxage", "no-cache", "private", "public", "immutable", "stale-while-revalidate", "=", ",", ", ", " ", "0",
                               "60", "-1", "x", '"', '"set-cookie, x"', "No-Cache", "abc"],
    ("basic", ""): ["Basic ", "basic ", "BASIC  ", "dXNlcjpwYXNz", "YTpi", "Og==", "YTo=", "w7w6eA==", "8J+YgDo=", "=", "==", "Y", "/", "+", " ", "é", "!", "/w=="],
    ("authparam", "authz"): ["Bearer", "Digest", "digest", "X-a1", " ", "  ", "=", "==", ",", ", ", '"', "\\", "a", "realm", "nonce", "abc.def", "tok~+/"],
    ("authparam", "wwwauth"): ["Bearer", "Digest", "Basic", "X-a1", " ", "  ", "=", "==", ",", ", ", '"', "\\", "a", "realm", "nonce", "x y", "qop"],
    ("options2231", ""): ["a/b", "; ", ";", "k", "k2", "*", "=", "'", "%C3", "%A9", "%41", "%22", "%E2%82", "%FF", "utf-8", "UTF-8", "iso-8859-1", "us-ascii",
                          "big5", "0", "1", '"', "\\", "x", "en"],
}
NF_REAL2 = {
    ("cachecontrol", "req"): ["max-age=0", "max-stale", "max-stale=5, min-fresh=x", "no-cache, no-store, max-age= 7 ", "max-age=5, max-age=6", "MAX-AGE=5"],
    ("cachecontrol", "resp"): ['private="set-cookie", max-age=10', "no-cache", 'no-cache="a, b", public', "s-maxage=-1, immutable", "max-age"],
    ("basic", ""): ["Basic dXNlcjpwYXNz", "Basic Og==", "Basic", "Basic  YTpi ", "basic w7w6eDpwOnE=", "Basic dXNlcg=="],
    ("authparam", "authz"): ["Bearer abc.def==", 'Digest username="a", realm="b c", nonce="c==", uri="/", response="d"', "Token a=b", "X"],
    ("authparam", "wwwauth"): ['Basic realm="x y"', 'Digest realm="r", nonce="n==", qop="auth", stale=FALSE', "Bearer", "Negotiate abc==", 'Digest realm=r'],
    ("options2231", ""): ["attachment; filename*=UTF-8''%e2%82%ac%20rates.txt", "a/b; k*0=a; k*1=b", "a/b; k*0*=utf-8''%C3; k*1*=%A9", "a/b; k*=iso-8859-1'en'%E9",
                          "a/b; k*=big5''%41; j*=%41", "a/b; k*=utf-8''%41; j*=%C3%A9", "a/b; *=x; *0=y; k=v", 'a/b; k*="%41"', "a/b; k*=''x", "a/b; k*=us-ascii''%E9",
                          "a/b; k*=utf-8''%22", "a/b; k*1=b; k*0=a", "a/b; k=a; k*0=b", "a/b; k*=UTF-8''%FF"],
}


def nf_cases2(rng: random.Random, n_per_codec: int):
    cases = []
    for (codec, variant), atoms in NF_ATOMS2.items():
        texts = list(NF_REAL2.get((codec, variant), []))
        for _ in range(n_per_codec):
            t = "".join(rng.choice(atoms) for _ in range(rng.choice([1, 2, 3, 4, 6, 9])))
            if codec == "options2231" and rng.random() < 0.8:
                t = "a/b; " + t
            if codec == "basic" and rng.random() < 0.6:
                t = "Basic " + t
            texts.append(t)
        for t in texts:
            cases.append({"op": "nf", "codec": codec, "j": cps(t), "variant": variant})
    return cases


def model_cases2(printed):
    """cases from what MCHeaderCodec2 exported (MC2X_inv / MC2X_nf)"""
    cases = []
    for v in printed:
        if not isinstance(v, dict) or "codec" not in v:
            continue
        c, x = v["codec"], v["x"]
        if v["law"] == "nf":
            variants = {"cachecontrol": ["req", "resp"], "authparam": [v.get("cls", "authz")], "basic": [""], "options2231": [""]}[c]
            for var in variants:
                cases.append({"op": "nf", "codec": c, "j": x, "variant": var})
        elif c == "cachecontrol":
            cases.append({"op": "rt", "codec": c, "j": {"cls": "resp", "assigns": x["hist"], "items": []}, "variant": ""})
        elif c == "basic":
            cases.append({"op": "rt", "codec": c, "variant": "",
                          "j": {"none": False, "type": cps("basic"), "token": list(NONE), "params": [[cps("username"), x["user"]], [cps("password"), x["pw"]]]}})
        elif c == "authparam":
            cases.append({"op": "rt", "codec": c, "j": x, "variant": ""})
        elif c == "set":
            cases.append({"op": "rt", "codec": "set", "j": x, "variant": ""})
    return cases


# ------------------------------------------------------------------------------------------------ histories with aliasing
HIST_CODECS = ("list", "set", "dict", "options", "etags", "range", "crange", "csp", "ifrange", "cc", "authz", "wwwauth",
               "cachecontrol", "basic", "authparam", "cookie", "accept")
MUT_KINDS = ("add", "remove", "change", "clear")


def _mut_mapping(d, kind, val="x y"):
    """mutate a dict-like container in place"""
    if kind == "add":
        d["zz"] = val
    elif kind == "remove":
        if len(d):
            d.pop(next(iter(d)))
        else:
            d["zz"] = val
    elif kind == "change":
        if len(d):
            d[next(iter(d))] = val
        else:
            d["zz"] = val
    else:
        d.clear()
        d["cleared"] = val


def mutate(codec, o, kind):
    """Mutate, through its public mutable surface, a container a parser returned (or a value before it is dumped again).
    Returns False when the object offers nothing mutable (immutable types raise TypeError)."""
    from werkzeug import datastructures as ds

    try:
        if o is None:
            return False
        if codec == "list":
            {"add": lambda: o.append("zz"), "remove": lambda: o.pop(0) if o else o.append("zz"),
             "change": lambda: o.__setitem__(0, "x y") if o else o.append("x y"), "clear": lambda: (o.clear(), o.append("cleared"))}[kind]()
        elif codec == "set":
            {"add": lambda: o.add("zz"), "remove": lambda: o.discard(next(iter(o))) if len(o) else o.add("zz"),
             "change": lambda: o.update(["x y", "zz"]), "clear": lambda: (o.clear(), o.add("cleared"))}[kind]()
        elif codec in ("dict", "csp", "cc", "cachecontrol"):
            _mut_mapping(o, kind)
        elif codec == "cookie":
            _mut_mapping(o, kind, "q1")
        elif codec in ("options", "options2231"):
            _mut_mapping(o[1], kind)
        elif codec == "etags":
            o.star_tag = not o.star_tag
        elif codec == "range":
            if kind == "clear":
                o.units, o.ranges = "items", [(3, 8)]
            elif kind == "remove" and len(o.ranges) > 1:
                o.ranges.pop()
            elif isinstance(o.ranges, list):
                o.ranges[:] = [(1, 2), (4, None)]
            else:
                o.ranges = [(1, 2), (4, None)]
        elif codec == "crange":
            if kind == "clear":
                o.set(None, None, 7, "items")
            else:
                o.set(0, 1, 2)
        elif codec == "ifrange":
            o.etag, o.date = ("zz", None) if kind != "clear" else (None, None)
        elif codec in ("authz", "wwwauth", "basic", "authparam"):
            if o.type == "basic" and isinstance(o, ds.Authorization):
                o.parameters["password"] = "p:q" if kind != "clear" else ""
            elif o.token is not None:
                o.token = "tok=" if kind != "clear" else "t"
            else:
                _mut_mapping(o.parameters, kind)
        elif codec == "accept":
            o.append(("zz", 0.1))
        else:
            return False
        return True
    except TypeError:
        return False


def run_history(case):
    """A history on ONE text: parse twice, mutate the first result and parse again, parse other texts (and mutate their
    results) and parse again, dump the value twice, mutate the value and dump again.  One "hist" line per judged parse."""
    name, variant = case["codec"], case.get("variant", "")
    c = Codec(name, variant)
    lines = []

    def line(hk, v, text, parsed, err=""):
        lines.append({"op": "hist", "codec": name, "hk": hk, "v": v, "dumped": cps(text), "parsed": parsed, "redumped": [], "reparsed": [],
                      "err": err, "err2": ""})

    def step(hk, v, text, like, before=None):
        try:
            if before is not None:
                before()
            line(hk, v, text, c.proj(c.parse(text, like)))
        except Exception as e:  # noqa: BLE001 - recorded, judged by TLC
            line(hk, v, text, [], type(e).__name__)

    obj = c.mk(case["j"], variant)
    v = c.proj(obj)
    if name == "cachecontrol":
        v["assigns"] = []
    s = c.dump(obj)
    kind = case.get("kind", "change")
    p0 = c.parse(s, obj)  # never mutated by the history: it must not change when other results are mutated / other texts parsed
    p1 = c.parse(s, obj)
    step("parse-twice", v, s, obj)
    def stable(hk):
        try:
            line(hk, v, s, c.proj(p0))
        except Exception as e:  # noqa: BLE001
            line(hk, v, s, [], type(e).__name__)

    mutate(name, p1, kind)
    stable("first-result-after-mutation")
    step("parse-mutate-parse", v, s, obj)
    p1b = c.parse(s, obj)
    step("parse-clear-parse", v, s, obj, lambda: mutate(name, p1b, "clear"))

    def others():
        for k, oj in enumerate(case.get("others", [])):
            oc = Codec(name, variant)
            oo = oc.mk(oj, variant)
            mutate(name, oc.parse(oc.dump(oo), oo), MUT_KINDS[k % 4])

    others()
    stable("first-result-after-others")
    step("parse-after-others", v, s, obj)
    s2 = c.dump(obj)
    step("dump-twice", v, s2, obj)
    if name not in ("etags", "accept") and mutate(name, obj, "change" if name not in ("range", "crange", "ifrange") else kind):
        v2 = c.proj(obj)
        if name == "cachecontrol":
            v2["assigns"] = []
        try:
            s3 = c.dump(obj)
            step("dump-mutate-dump", v2, s3, obj)
        except Exception as e:  # noqa: BLE001
            line("dump-mutate-dump", v2, "", [], type(e).__name__)
    return lines


def run_histories(cases):
    return [run_history(c) for c in cases]


def history_case(rng: random.Random, codec: str):
    """a seeded history: an in-domain value of `codec`, two other values parsed in between, a mutation kind"""
    def val():
        if codec == "cookie":
            n = rng.choice([1, 2, 3])
            return {"j": [[cps(k), cps("".join(rng.choice("abcXYZ019") for _ in range(rng.randint(1, 5))))] for k in _keys(rng, n)], "variant": ""}
        if codec == "accept":
            qs = sorted(rng.sample([1000, 900, 800, 500, 300, 100, 1], rng.choice([1, 2, 3])), reverse=True)
            return {"j": [[cps(rng.choice(["text/html", "a/b", "*/*", "gzip", "en", rtoken(rng, lower=True)])), q] for q in qs], "variant": ""}
        if codec in CODECS2:
            return random_case2(rng, codec)
        return random_case(rng, codec)

    a, b, d = val(), val(), val()
    if codec in ("cachecontrol", "authparam") and (b["j"]["cls"] != a["j"]["cls"] or d["j"]["cls"] != a["j"]["cls"]):
        b, d = a, a  # one class per history
    if codec == "cc":
        b["j"] = d["j"] = a["j"]
    return {"op": "hist", "codec": codec, "j": a["j"], "variant": a.get("variant", ""), "others": [b["j"], d["j"]], "kind": rng.choice(MUT_KINDS)}


# ------------------------------------------------------------------------------------------------ value histories
VH_CODECS = ("setv", "list", "dict", "options", "etags", "cc", "cachecontrol", "csp", "crange", "range", "wwwauth", "authz", "accept")
SET_NAMES = ["a", "A", "b", "B", "Cc", "cC", "vary", "Cookie", "accept-encoding", "x y", "q,r", 'w"', ""]


def _set_muts(rng, init):
    """mutations of a HeaderSet; arguments are drawn from the current members, their case variants, other members' names
    and new names, so that every collision class of item assignment occurs"""
    cur = list(dict.fromkeys(init))
    muts = []
    for _ in range(rng.choice([1, 2, 3, 4, 6])):
        pool = list(SET_NAMES[:7])
        for x in cur:
            pool += [x, x.swapcase(), x.upper()]
        a = rng.choice(pool)
        op = rng.choice(["add", "add", "remove", "discard", "update", "clear", "setitem", "setitem", "setitem", "delitem"])
        i = rng.choice([0, 0, 1, 2, -1, len(cur) - 1 if cur else 0, 5])
        m = {"op": op, "a": cps(a) if op in ("add", "remove", "discard", "setitem") else [], "l": [], "i": i if op in ("setitem", "delitem") else 0}
        if op == "update":
            m["l"] = [cps(rng.choice(pool)) for _ in range(rng.choice([0, 1, 2, 3]))]
        muts.append(m)
        cur.append(a)
    return muts


def _apply_set_mut(o, m):
    a, i = T(m["a"]) if m["a"] != NONE else "", m["i"]
    op = m["op"]
    if op == "add":
        o.add(a)
    elif op == "remove":
        o.remove(a)
    elif op == "discard":
        o.discard(a)
    elif op == "update":
        o.update([T(x) for x in m["l"]])
    elif op == "clear":
        o.clear()
    elif op == "setitem":
        o[i] = a
    elif op == "delitem":
        del o[i]


def _set_label(init, muts):
    """generator-side class of the history (used for the violation key only): does an item assignment name a header that
    is a member at ANOTHER position (in any letter case)?  Tracks the lower-cased member list under set semantics."""
    ref = list(dict.fromkeys(x.lower() for x in init))
    label = "plain"
    for m in muts:
        a = T(m["a"]).lower() if m["a"] else ""
        op, i = m["op"], m["i"]
        try:
            if op == "add":
                if a not in ref:
                    ref.append(a)
            elif op == "update":
                for x in m["l"]:
                    if T(x).lower() not in ref:
                        ref.append(T(x).lower())
            elif op in ("remove", "discard"):
                if a in ref:
                    ref.remove(a)
            elif op == "clear":
                ref = []
            elif op == "delitem":
                del ref[i]
            elif op == "setitem":
                k = range(len(ref))[i]
                if a in ref and ref.index(a) != k:
                    label = "setitem-names-another-member"
                    other = ref.index(a)
                    ref[k] = a
                    del ref[other]
                else:
                    ref[k] = a
        except (IndexError, ValueError, KeyError):
            pass
    return label


def _mapping_muts(rng, keys, val, n=None):
    muts = []
    for _ in range(n or rng.choice([1, 2, 3, 5])):
        op = rng.choice(["set", "set", "del", "pop", "update", "setdefault", "clear"])
        muts.append([op, rng.choice(keys), val()])
    return muts


def _apply_mapping_mut(d, m):
    op, k, v = m
    if op == "set":
        d[k] = v
    elif op == "del":
        del d[k]
    elif op == "pop":
        d.pop(k, None)
    elif op == "update":
        d.update({k: v})
    elif op == "setdefault":
        d.setdefault(k, v)
    elif op == "clear":
        d.clear()


def value_history_case(rng: random.Random, codec: str):
    """an initial value of `codec` (JSON shape) and a history of public mutators applied to it before it is dumped"""
    base = (random_case2 if codec in CODECS2 else random_case)(rng, "set" if codec == "setv" else codec) if codec not in ("accept",) else None
    if codec == "setv":
        init = [rng.choice(SET_NAMES) for _ in range(rng.choice([0, 1, 2, 3, 4]))]
        return {"op": "vh", "codec": codec, "j": [cps(x) for x in init], "variant": "", "muts": _set_muts(rng, init)}
    if codec == "accept":
        qs = rng.sample([1000, 900, 800, 500, 300, 100, 1], rng.choice([1, 2, 3, 4]))  # unsorted input: Accept orders it
        j = [[cps(rng.choice(["text/html", "a/b", "*/*", "gzip", "en", rtoken(rng, lower=True)])), q] for q in qs]
        return {"op": "vh", "codec": codec, "j": j, "variant": "", "muts": []}
    tval = lambda: rtext(rng, 5)  # noqa: E731
    keys = ["k", "zz", "a-b", rtoken(rng).replace("*", "x") or "k2"]
    if codec == "list":
        muts = [[rng.choice(["append", "insert", "pop", "setitem", "extend", "clear"]), rng.choice([0, 0, 1, -1]), tval()] for _ in range(rng.choice([1, 2, 4]))]
    elif codec == "dict":
        muts = _mapping_muts(rng, keys + [T(k) for k, _ in base["j"]], lambda: rng.choice([tval(), tval(), None]))
    elif codec == "options":
        muts = _mapping_muts(rng, [k.lower() for k in keys] + [T(k) for k, _ in base["j"]["opts"]], lambda: _no_pct22(tval()))
    elif codec == "etags":
        muts = [["input", rng.choice(["list-with-duplicates", "tuple", "generator", "set", "dict-keys"]), ""]]
    elif codec in ("cc", "cachecontrol"):
        base = random_case2(rng, "cachecontrol")
        while base["j"]["cls"] != "resp":
            base = random_case2(rng, "cachecontrol")
        muts = []
        for _ in range(rng.choice([1, 2, 3, 5])):
            k = rng.random()
            if k < 0.4:
                muts.append(["delattr", rng.choice(CC_PROPS["resp"]), ""])
            elif k < 0.6:
                a = random_case2(rng, "cachecontrol")["j"]["assigns"]
                muts.append(["setattr", T(a[0][0]), a[0][1]] if a else ["clear", "", ""])
            else:
                muts += _mapping_muts(rng, ["max-age", "no-cache", "private", "x-ext", "public"], lambda: rng.choice([None, "5", tval()]), 1)
        codec = "cachecontrol"
    elif codec == "csp":
        props = ["default_src", "script_src", "img_src", "report_uri", "sandbox"]
        cval = lambda: (rtext(rng, 6, forbid="\r\n;", lo=1).strip() or "'self'")  # noqa: E731
        muts = []
        for _ in range(rng.choice([1, 2, 3, 5])):
            k = rng.random()
            if k < 0.35:
                muts.append(["setattr", rng.choice(props), cval()])
            elif k < 0.55:
                muts.append(["delattr", rng.choice(props), ""])
            elif k < 0.65:
                muts.append(["setattr", rng.choice(props), None])
            else:
                muts += _mapping_muts(rng, ["default-src", "script-src", "x-dir", "img-src"], cval, 1)
    elif codec == "crange":
        a = rnum(rng)
        b = a + 1 + rng.choice([0, 1, rnum(rng)])
        muts = [rng.choice([["unset"], ["set", a, b, rng.choice([None, b, b + rnum(rng)]), rng.choice(["bytes", "items"])]])]
        muts += rng.choice([[], [["attr", "units", "items"]], [["set", a, b, None, "bytes"], ["attr", "length", b + 3]],
                            [["set", a, b, None, "bytes"], ["attr", "stop", b + 1], ["attr", "units", "x-unit"]], [["set", None, None, rnum(rng), "bytes"]]])
        if muts[-1] == ["unset"]:
            muts.append(["set", a, b, None, "bytes"])
    elif codec == "range":
        muts = rng.choice([[["units", "items"]], [["replace", [[0, 5], [7, None]]]], [["append-after", 3, 4]], [["set0", [0, 1]]], [["units", "x"], ["replace", [[2, 9]]]]])
    elif codec in ("wwwauth", "authz"):
        k = rng.random()
        pv = lambda: rtext(rng, 5)  # noqa: E731
        if k < 0.5:
            muts = [["params", rng.choice(["realm", "nonce", "zz", "qop"]), pv()] for _ in range(rng.choice([1, 2, 3]))]
            muts = [["drop-token"]] + muts
            if codec == "wwwauth":
                muts += rng.choice([[], [["setitem", "zz2", pv()]], [["attr", "realm", pv()]], [["delitem", "zz"], ["setitem", "k", pv()]], [["type", "digest"]],
                                    [["replace-params", [["realm", pv()], ["k", pv()]]]]])
        else:
            muts = [["token", "".join(rng.choice("abcXYZ019-._~+/") for _ in range(rng.randint(1, 9))) + "=" * rng.choice([0, 1, 2])]]
            if rng.random() < 0.5:
                muts.append(["type", rng.choice(["bearer", "negotiate", "x-tok"])])
        if T(base["j"]["type"]) == "basic":
            base["j"]["type"] = cps("custom")
    else:
        raise KeyError(codec)
    return {"op": "vh", "codec": codec, "j": base["j"], "variant": base.get("variant", ""), "muts": muts}


def _apply_mut(codec, o, m):
    """apply one public mutator; returns the (possibly new) value object"""
    from werkzeug import datastructures as ds

    if codec == "setv":
        _apply_set_mut(o, m)
    elif codec == "list":
        op, i, v = m
        {"append": lambda: o.append(v), "insert": lambda: o.insert(i, v), "pop": lambda: o.pop(i), "setitem": lambda: o.__setitem__(i, v),
         "extend": lambda: o.extend([v, "zz"]), "clear": lambda: o.clear()}[op]()
    elif codec == "dict":
        _apply_mapping_mut(o, m)
    elif codec == "options":
        if m[2] is not None:
            _apply_mapping_mut(o[1], m)
    elif codec == "etags":
        st, wk = sorted(o._strong), sorted(o._weak)
        kind = m[1]
        if kind == "list-with-duplicates":
            o = ds.ETags(st + st[::-1], wk + wk)
        elif kind == "tuple":
            o = ds.ETags(tuple(st), tuple(wk))
        elif kind == "generator":
            o = ds.ETags((x for x in st), (x for x in wk))
        elif kind == "set":
            o = ds.ETags(set(st), frozenset(wk))
        else:
            o = ds.ETags(dict.fromkeys(st).keys(), dict.fromkeys(wk).keys())
    elif codec in ("cachecontrol", "csp"):
        if m[0] == "setattr":
            setattr(o, m[1], untv(m[2]) if isinstance(m[2], dict) else m[2])
        elif m[0] == "delattr":
            delattr(o, m[1])
        else:
            _apply_mapping_mut(o, m)
    elif codec == "crange":
        if m[0] == "unset":
            o.unset()
        elif m[0] == "set":
            o.set(m[1], m[2], m[3], m[4])
        else:
            setattr(o, m[1], m[2])
    elif codec == "range":
        if m[0] == "units":
            o.units = m[1]
        elif m[0] == "replace":
            o.ranges = [(a, b) for a, b in m[1]]
        elif m[0] == "set0":
            o.ranges = list(o.ranges)
            o.ranges[0] = tuple(m[1])
            del o.ranges[1:]
        elif m[0] == "append-after":
            o.ranges = list(o.ranges)
            last = o.ranges[-1]
            if last[1] is not None and last[0] >= 0:
                o.ranges.append((last[1] + m[1], last[1] + m[1] + m[2]))
    elif codec in ("wwwauth", "authz"):
        if m[0] == "drop-token":
            o.token = None
        elif m[0] == "params":
            o.parameters[m[1]] = m[2]
        elif m[0] == "setitem":
            o[m[1]] = m[2]
        elif m[0] == "delitem":
            del o[m[1]]
        elif m[0] == "attr":
            setattr(o, m[1], m[2])
        elif m[0] == "replace-params":
            o.parameters = {k: v for k, v in m[1]}
        elif m[0] == "token":
            if codec == "wwwauth":
                o.parameters = {}
            else:
                o.parameters.clear()
            o.token = m[1]
        elif m[0] == "type":
            o.type = m[1]
    return o


def run_value_history(case):
    """build the value through its public mutators, then the usual dump / parse / re-dump / re-parse; one "vh" line"""
    name, variant = case["codec"], case.get("variant", "")
    c = Codec(name, variant)
    rec = {"op": "vh", "codec": name, "hk": "history", "v": [], "dumped": [], "parsed": [], "redumped": [], "reparsed": [], "err": "", "err2": "",
           "init": case["j"] if name == "setv" else [], "muts": case["muts"] if name == "setv" else []}
    obj = c.mk(case["j"], variant)
    for m in case["muts"]:
        try:
            obj = _apply_mut(name, obj, m)
        except (KeyError, IndexError, TypeError, ValueError, AttributeError):
            pass  # a mutator that refuses (missing member, index out of range): the history goes on
    if name == "setv":
        init = [T(x) for x in case["j"]]
        names = list(dict.fromkeys(init + [T(m["a"]) for m in case["muts"] if m["a"]] + [T(x) for m in case["muts"] for x in m["l"]]))
        c.probes = list(dict.fromkeys(names + [x.lower() for x in names] + [x.upper() for x in names] + SET_NAMES[:7]))
        rec["hk"] = _set_label(init, case["muts"])
    rec["v"] = c.proj(obj)
    if name == "cachecontrol":
        rec["v"]["assigns"] = []
    try:
        dumped = c.dump(obj)
        rec["dumped"] = cps(dumped)
        parsed = c.parse(dumped, obj)
        rec["parsed"] = c.proj(parsed)
    except Exception as e:  # noqa: BLE001 - recorded, judged by TLC
        rec["err"] = type(e).__name__
        return [rec]
    if parsed is None:
        return [rec]
    try:
        red = c.dump(parsed)
        rec["redumped"] = cps(red)
        rec["reparsed"] = c.proj(c.parse(red, obj))
    except Exception as e:  # noqa: BLE001
        rec["err2"] = type(e).__name__
    return [rec]


# ---- HTTP dates by tzinfo kind -------------------------------------------------------------------
TZ_KINDS = ("naive", "utc", "tz-zero-new-object", "tz+0530", "tz-0800", "tz+1400", "tz-1200", "tz+30s", "zoneinfo-utc", "zoneinfo-london",
            "zoneinfo-kolkata", "custom-zero", "custom+0530", "custom-0330")
DATE_PATHS = ("http_date", "if_range", "cookie_expires", "response.last_modified", "response.expires", "response.date", "response.retry_after")


def _tz(kind):
    from datetime import timedelta, timezone, tzinfo
    from zoneinfo import ZoneInfo

    class Fixed(tzinfo):
        def __init__(self, minutes):
            self.minutes = minutes

        def utcoffset(self, dt):
            return timedelta(minutes=self.minutes)

        def dst(self, dt):
            return timedelta(0)

        def tzname(self, dt):
            return "X"

    return {"naive": lambda: None, "utc": lambda: timezone.utc, "tz-zero-new-object": lambda: timezone(timedelta(0)),
            "tz+0530": lambda: timezone(timedelta(hours=5, minutes=30)), "tz-0800": lambda: timezone(timedelta(hours=-8)),
            "tz+1400": lambda: timezone(timedelta(hours=14)), "tz-1200": lambda: timezone(timedelta(hours=-12)),
            "tz+30s": lambda: timezone(timedelta(seconds=30)), "zoneinfo-utc": lambda: ZoneInfo("UTC"), "zoneinfo-london": lambda: ZoneInfo("Europe/London"),
            "zoneinfo-kolkata": lambda: ZoneInfo("Asia/Kolkata"), "custom-zero": lambda: Fixed(0), "custom+0530": lambda: Fixed(330),
            "custom-0330": lambda: Fixed(-210)}[kind]()


def date_cases(rng: random.Random, n_random: int):
    """datetimes of every tzinfo kind (winter / summer, with and without microseconds) through every formatting path"""
    stamps = [[2024, 1, 15, 12, 30, 45, 0], [2024, 7, 15, 12, 30, 45, 999999], [1999, 12, 31, 23, 59, 59, 1], [2000, 2, 29, 0, 0, 0, 0],
              [2038, 1, 19, 3, 14, 8, 500000], [1970, 1, 1, 0, 0, 0, 0], [2024, 3, 31, 1, 30, 0, 0], [2024, 10, 27, 1, 30, 0, 250000]]
    cases = []
    for kind in TZ_KINDS:
        for st in stamps:
            for path in DATE_PATHS:
                cases.append({"op": "vhdate", "codec": "date", "tz": kind, "path": path, "dt": st})
    for _ in range(n_random):
        d = rdate(rng)
        y = min(max(d[0], 1001), 9998)
        cases.append({"op": "vhdate", "codec": "date", "tz": rng.choice(TZ_KINDS), "path": rng.choice(DATE_PATHS),
                      "dt": [y, d[1], min(d[2], 28), d[3], d[4], d[5], rng.choice([0, 1, 999999, rng.randrange(0, 1000000)])]})
    for secs, us in ((5, 999999), (0, 1), (86400 * 2, 1), (59, 500000)):
        cases.append({"op": "vhdate", "codec": "age", "tz": "timedelta-with-microseconds", "path": "dump_age", "dt": [secs, us]})
    return cases


def run_date_case(case):
    from datetime import datetime, timedelta

    from werkzeug import http
    from werkzeug.datastructures import IfRange
    from werkzeug.wrappers import Response

    rec = {"op": "vh", "codec": case["codec"], "hk": f"{case['path']}/{case['tz']}", "v": [], "dumped": [], "parsed": [], "redumped": [], "reparsed": [],
           "err": "", "err2": "", "init": [], "muts": []}
    if case["codec"] == "age":
        td = timedelta(seconds=case["dt"][0], microseconds=case["dt"][1])
        rec["v"] = digits(td.days * 86400 + td.seconds)
        c = Codec("age")
        try:
            text = http.dump_age(td)
            rec["dumped"] = cps(text)
            parsed = http.parse_age(text)
            rec["parsed"] = c.proj(parsed)
            rec["redumped"] = cps(http.dump_age(parsed))
            rec["reparsed"] = c.proj(http.parse_age(http.dump_age(parsed)))
        except Exception as e:  # noqa: BLE001
            rec["err"] = type(e).__name__
        return [rec]
    y, mo, d, h, mi, s, us = case["dt"]
    dt = datetime(y, mo, d, h, mi, s, us, tzinfo=_tz(case["tz"]))
    rec["v"] = _date_proj(dt)
    path = case["path"]
    try:
        if path == "http_date":
            text = http.http_date(dt)
            parsed = http.parse_date(text)
        elif path == "if_range":
            text = IfRange(date=dt).to_header()
            parsed = http.parse_if_range_header(text).date
        elif path == "cookie_expires":
            text = [p for p in http.dump_cookie("k", "v", expires=dt).split("; ") if p.startswith("Expires=")][0][len("Expires="):]
            parsed = http.parse_date(text)
        else:
            attr = path.split(".")[1]
            r = Response()
            setattr(r, attr, dt)
            text = r.headers[{"last_modified": "Last-Modified", "expires": "Expires", "date": "Date", "retry_after": "Retry-After"}[attr]]
            parsed = getattr(r, attr)
        rec["dumped"] = cps(text)
        rec["parsed"] = _date_proj(parsed)
    except Exception as e:  # noqa: BLE001
        rec["err"] = type(e).__name__
        return [rec]
    if parsed is None:
        return [rec]
    try:
        red = http.http_date(parsed)
        rec["redumped"] = cps(red)
        rec["reparsed"] = _date_proj(http.parse_date(red))
    except Exception as e:  # noqa: BLE001
        rec["err2"] = type(e).__name__
    return [rec]


def run_vh(case):
    return run_date_case(case) if case["op"] == "vhdate" else run_value_history(case)


def run_vhs(cases):
    return [run_vh(c) for c in cases]


# ------------------------------------------------------------------------------------------------ structure look-alikes
LA_ALPHA = ["\\", '"', "a", " ", ";", "=", ","]
LA_VALUES = ["a.txt; size=1", "x; name=evil", ";a=a", "a;b", 'a; b="c"', "\\\\server\\share", 'a\\"b', "a\\", "\\", "\\\\", '\\"', '"', '""', ", k=v", '", x="',
             'x", name="y', 'x"; name="y', "a, size=2", 'a="b"', "k=v; k=w", " ; name=x", "; name=x", ";name=x;", "a,b", "a=b", "=", ",", ";", "a; size=1; name=q",
             'a\\\\"; name=x', 'a\\"; name="x', "name=x", "size=2, k=w", "k=w, x=y", ' "a" ', '"a"', "'a'", "a\\\\", 'a\\\\"', '\\\\\\"', "a\tb; name=x"]


def _la_strings(maxlen=4):
    out = [""]
    level = [""]
    for _ in range(maxlen):
        level = [s + ch for s in level for ch in LA_ALPHA]
        out += level
    return out


def lookalike_cases():
    """Deterministic: every string of length <= 4 over \\ " a SP ; = , as a value of the options, dict and list codecs (next to
    another parameter whose key the text may mention), and hand-written look-alikes of each codec's own syntax for every
    codec that quotes on demand (options, dict, list, set, cache-control, auth parameters, CSP)."""
    cases = []

    def add(codec, j, variant=""):
        cases.append({"op": "la", "codec": codec, "j": j, "variant": variant})

    for s in _la_strings(4):
        v = cps(s)
        add("options", {"main": cps("a/b"), "opts": [[cps("name"), v], [cps("size"), cps("1")]]})
        add("dict", [[cps("k"), v], [cps("x"), cps("1")]])
        add("list", [v, cps("b")])
    for s in LA_VALUES:
        v = cps(s)
        add("options", {"main": cps("attachment"), "opts": [[cps("filename"), v], [cps("name"), cps("n")], [cps("size"), cps("1")]]})
        add("options", {"main": cps("form-data"), "opts": [[cps("name"), cps("n")], [cps("b"), cps("0")], [cps("a"), v]]})
        add("dict", [[cps("k"), v], [cps("x"), cps("1")], [cps("size"), list(NONE)]])
        add("dict", [[cps("name"), cps("n")], [cps("k"), v]])
        add("list", [cps("b"), v, cps("k=v")])
        add("set", [v, cps("k=v"), cps("b")])
        add("cachecontrol", {"cls": "resp", "items": [], "assigns": [[cps("private"), tv(s)], [cps("max_age"), tv(5)], [cps("no_cache"), tv(s)]]})
        add("cachecontrol", {"cls": "req", "assigns": [], "items": [[cps("max-age"), cps("5")], [cps("x-ext"), v], [cps("k"), cps("1")]]})
        for cls in ("authz", "wwwauth"):
            for ty in ("digest", "custom"):
                add("authparam", {"cls": cls, "none": False, "type": cps(ty), "token": list(NONE),
                                  "params": [[cps("realm"), v], [cps("nonce"), cps("n")], [cps("k"), v], [cps("x"), cps("1")]]})
        if ";" not in s and s.strip() == s and s:
            add("csp", [[cps("default-src"), v], [cps("script-src"), cps("'self'")]])
    return cases


def run_la(case):
    rec = run_case(dict(case, op="rt"))
    rec["op"] = "la"
    return rec


def run_las(cases):
    return [run_la(c) for c in cases]
