"""X02 -- werkzeug.test.Client as a stateful user agent: drivers and recorders.

A *history* is {"allow": bool, "script": {...}, "steps": [...]} executed on ONE werkzeug.test.Client against a
scripted WSGI application that logs every request it receives (method, scheme, host, path, query, body, content
type, X-Tag header, Cookie pairs) and answers from a script:

  step {"op": "open", "q": {m, sch, host, path, qs, body, ct, tag}, "follow": bool, "queue": [plan..], "mdl": [..]}
  step {"op": "cset" | "cdel" | "cget", "c": {name, val, dom, path, oo, ma}}
  plan {"code": int, "loc": {form, sch, host, path, qs} | None, "scs": [{name, val, dom, path, ma, exp, secure}], "read": bool}
  script "host|path" -> plan | {"if": cookie-name, "then": plan, "else": plan}    (a pure function of the request)

Text is str here and becomes code point arrays in the recorded lines (spec/client/ClientTrace.tla describes them).
This module records only; every verdict is ClientTrace.tla's.
"""
from __future__ import annotations

import random
import warnings

from .core import cps

HOP_CAP = 40  # the scripted application refuses to be called more often than this within one Client.open

LOC0 = {"form": "none", "sch": "", "host": [], "path": [], "qs": []}
Q0 = {"m": "", "sch": "", "host": [], "path": [], "qs": [], "body": [], "ct": "", "tag": ""}
R0 = {"code": 0, "loc": LOC0, "scs": [], "read": False}
E0 = {"exc": "", "status": 0, "hist": [], "hlens": [], "fm": "", "fsch": "", "fhost": [], "fpath": [], "fqs": []}
C0 = {"name": [], "val": [], "dom": [], "path": [], "oo": True, "ma": "none"}
G0 = {"val": [], "ho": False}
M0 = {"has": False, "sent": [], "out": ""}
DEFAULT_PLAN = {"code": 200, "loc": None, "scs": [], "read": False}

EXPIRES = {"epoch": "Thu, 01 Jan 1970 00:00:00 GMT", "past": "Wed, 01 Jan 2020 00:00:00 GMT", "future": "Fri, 01 Jan 2100 00:00:00 GMT"}
MAXAGE = {"zero": "0", "neg": "-1", "pos": "3600"}


class HopCap(Exception):
    """raised by the scripted application when a single Client.open keeps sending requests (it would never end)"""


def line(op, **kw):
    ln = {"op": op, "allow": False, "follow": False, "q": Q0, "cookies": [], "r": R0, "mdl": M0, "e": E0, "c": C0, "found": False,
          "got": G0, "proj": []}
    ln.update(kw)
    return ln


# ---------------------------------------------------------------------- encoders str -> line form
def enc_q(q):
    return {"m": q["m"], "sch": q["sch"], "host": cps(q["host"]), "path": cps(q["path"]), "qs": cps(q.get("qs", "")), "body": cps(q.get("body", "")),
            "ct": q.get("ct", ""), "tag": q.get("tag", "")}


def enc_loc(loc):
    if not loc:
        return LOC0
    return {"form": loc["form"], "sch": loc.get("sch", ""), "host": cps(loc.get("host", "")), "path": cps(loc.get("path", "")), "qs": cps(loc.get("qs", ""))}


def enc_sc(sc):
    return {"name": cps(sc["name"]), "val": cps(sc["val"]), "dom": cps(sc.get("dom", "")), "path": cps(sc.get("path", "")), "ma": sc.get("ma", "none"),
            "exp": sc.get("exp", "none"), "secure": bool(sc.get("secure", False))}


def enc_plan(p):
    return {"code": p["code"], "loc": enc_loc(p.get("loc")), "scs": [enc_sc(s) for s in p.get("scs", [])], "read": bool(p.get("read", False))}


def enc_c(c):
    return {"name": cps(c["name"]), "val": cps(c.get("val", "")), "dom": cps(c["dom"]), "path": cps(c["path"]), "oo": bool(c.get("oo", True)), "ma": c.get("ma", "none")}


def render_loc(loc):
    q = ("?" + loc["qs"]) if loc.get("qs") else ""
    f = loc["form"]
    if f == "abs":
        return f"{loc['sch']}://{loc['host']}{loc['path']}{q}"
    if f == "net":
        return f"//{loc['host']}{loc['path']}{q}"
    if f == "query":
        return q or "?"
    return loc["path"] + q  # "path" (leading slash) and "rel" (none)


def render_sc(sc):
    out = f"{sc['name']}={sc['val']}"
    if sc.get("dom"):
        out += f"; Domain={sc['dom']}"
    if sc.get("path"):
        out += f"; Path={sc['path']}"
    if sc.get("ma", "none") != "none":
        out += f"; Max-Age={MAXAGE[sc['ma']]}"
    if sc.get("exp", "none") != "none":
        out += f"; Expires={EXPIRES[sc['exp']]}"
    if sc.get("secure"):
        out += "; Secure"
    return out


def _pairs(header):
    if not header:
        return []
    out = []
    for item in header.split("; "):
        k, _, v = item.partition("=")
        out.append([cps(k), cps(v)])
    return out


class ScriptedApp:
    def __init__(self, script):
        self.script = script or {}
        self.queue: list = []
        self.log: list = []
        self.hops = 0

    def plan_for(self, host, path, cookie_names):
        if self.queue:
            return self.queue.pop(0)
        p = self.script.get(f"{host}|{path}")
        if p is None:
            return DEFAULT_PLAN
        if "if" in p:
            return p["then"] if p["if"] in cookie_names else p["else"]
        return p

    def __call__(self, environ, start_response):
        self.hops += 1
        if self.hops > HOP_CAP:
            raise HopCap()
        stream = environ["wsgi.input"]
        pos = stream.tell()  # look at the body without consuming it (the test client's stream is seekable)
        body = stream.read()
        stream.seek(pos)
        host = environ.get("HTTP_HOST", "")
        path = environ.get("PATH_INFO", "")
        header = environ.get("HTTP_COOKIE")
        seen = {"m": environ["REQUEST_METHOD"], "sch": environ.get("wsgi.url_scheme", ""), "host": cps(host), "path": cps(path),
                "qs": cps(environ.get("QUERY_STRING", "")), "body": list(body), "ct": environ.get("CONTENT_TYPE", "") or "", "tag": environ.get("HTTP_X_TAG", "") or ""}
        pairs = _pairs(header)
        plan = self.plan_for(host, path, {"".join(map(chr, p[0])) for p in pairs})
        if plan.get("read"):
            stream.read()
        self.log.append((seen, pairs, plan))
        headers = [("Content-Type", "text/plain")]
        if plan.get("loc"):
            headers.append(("Location", render_loc(plan["loc"])))
        for sc in plan.get("scs", []):
            headers.append(("Set-Cookie", render_sc(sc)))
        start_response(f"{plan['code']} X", headers)
        return [b"ok"]


def _prefixes(p):
    out = {"/", p}
    for i, c in enumerate(p):
        if c == "/" and i > 0:
            out.add(p[:i])
            out.add(p[: i + 1])
    return out


def _universe(history):
    """candidate (domain, path, name) keys for reading the jar back with Client.get_cookie"""
    doms, paths, names = set(), {"/"}, set()

    def plan(p):
        for sc in p.get("scs", []):
            names.add(sc["name"])
            if sc.get("dom"):
                doms.update({sc["dom"], sc["dom"].lstrip(".")})
            if sc.get("path"):
                paths.update(_prefixes(sc["path"]))
        if p.get("loc"):
            if p["loc"].get("host"):
                doms.add(p["loc"]["host"])
            if p["loc"].get("path", "").startswith("/"):
                paths.update(_prefixes(p["loc"]["path"]))

    for key, p in (history.get("script") or {}).items():
        h, _, pa = key.partition("|")
        doms.add(h)
        paths.update(_prefixes(pa))
        for q in ([p["then"], p["else"]] if "if" in p else [p]):
            plan(q)
    for s in history["steps"]:
        if s["op"] == "open":
            doms.add(s["q"]["host"])
            paths.update(_prefixes(s["q"]["path"]))
            for p in s.get("queue", []):
                plan(p)
        else:
            doms.add(s["c"]["dom"])
            paths.update(_prefixes(s["c"]["path"]))
            names.add(s["c"]["name"])
    return sorted(doms), sorted(paths), sorted(names)


def run_history(history):
    """Execute a history on a fresh Client; returns the recorded lines (without t / i)."""
    from werkzeug.test import Client

    app = ScriptedApp(history.get("script"))
    doms, paths, names = _universe(history)
    lines = [line("init", allow=bool(history.get("allow")))]

    def proj(client):
        out = []
        for d in doms:
            for p in paths:
                for n in names:
                    ck = client.get_cookie(n, domain=d, path=p)
                    if ck is not None:
                        out.append({"dom": cps(ck.domain), "path": cps(ck.path), "name": cps(ck.decoded_key), "val": cps(ck.decoded_value), "ho": bool(ck.origin_only)})
        return out

    with warnings.catch_warnings():
        warnings.simplefilter("ignore")
        client = Client(app, allow_subdomain_redirects=bool(history.get("allow")))
        for s in history["steps"]:
            op = s["op"]
            if op == "open":
                q = s["q"]
                app.hops, app.log, app.queue = 0, [], [dict(p) for p in s.get("queue", [])]
                lines.append(line("open", q=enc_q(q), follow=bool(s.get("follow", True))))
                e = dict(E0)
                resp = None
                try:
                    resp = client.open(path=q["path"], base_url=f"{q['sch']}://{q['host']}/", method=q["m"], query_string=q.get("qs", "") or None,
                                       data=q["body"].encode("latin-1") if q.get("body") else None, content_type=q.get("ct") or None,
                                       headers={"X-Tag": q["tag"]} if q.get("tag") else None, follow_redirects=bool(s.get("follow", True)))
                except BaseException as ex:  # noqa: BLE001 - the class name is the observation
                    e["exc"] = type(ex).__name__
                mdl = s.get("mdl", [])
                for k, (seen, pairs, plan) in enumerate(app.log):
                    lines.append(line("hop", q=seen, cookies=pairs, r=enc_plan(plan), mdl=mdl[k] if k < len(mdl) else M0))
                if resp is not None:
                    back = {render_loc(p["loc"]): enc_loc(p["loc"]) for _, _, p in app.log if p.get("loc")}
                    rq = resp.request
                    e.update(status=resp.status_code,
                             hist=[{"code": h.status_code, "loc": back.get(h.headers.get("Location", ""), dict(LOC0, form="unknown"))} for h in resp.history],
                             hlens=[len(h.history) for h in resp.history], fm=rq.method, fsch=rq.scheme, fhost=cps(rq.host), fpath=cps(rq.path),
                             fqs=cps(rq.query_string.decode("latin-1")))
                    resp.close()
                lines.append(line("end", e=e, proj=proj(client)))
            else:
                c = s["c"]
                ln = line(op, c=enc_c(c))
                e = dict(E0)
                try:
                    if op == "cset":
                        kw = {"max_age": 0} if c.get("ma") == "zero" else {}
                        client.set_cookie(c["name"], c.get("val", ""), domain=c["dom"], origin_only=bool(c.get("oo", True)), path=c["path"], **kw)
                    elif op == "cdel":
                        client.delete_cookie(c["name"], domain=c["dom"], path=c["path"])
                    else:
                        ck = client.get_cookie(c["name"], domain=c["dom"], path=c["path"])
                        if ck is not None:
                            ln["found"], ln["got"] = True, {"val": cps(ck.decoded_value), "ho": bool(ck.origin_only)}
                except Exception as ex:  # noqa: BLE001
                    e["exc"] = type(ex).__name__
                ln["e"] = e
                ln["proj"] = proj(client)
                lines.append(ln)
    return lines


# ---------------------------------------------------------------------- spec -> code: behaviours exported by MCClient
def _txt(cp):
    return "".join(map(chr, cp))


def _dec_loc(loc):
    if loc["form"] == "none":
        return None
    return {"form": loc["form"], "sch": loc["sch"], "host": _txt(loc["host"]), "path": _txt(loc["path"]), "qs": _txt(loc["qs"])}


def _dec_sc(sc):
    return {"name": _txt(sc["name"]), "val": _txt(sc["val"]), "dom": _txt(sc["dom"]), "path": _txt(sc["path"]), "ma": sc["ma"], "exp": sc["exp"], "secure": sc["secure"]}


def history_from_model(allow, acts):
    """a path of transition labels of MCClient (act records) -> a history whose application answers from a queue"""
    steps = []
    for a in acts:
        if a["op"] == "open":
            r = a["req"]
            body = _txt(r["body"])
            steps.append({"op": "open", "follow": True, "queue": [],
                          "q": {"m": r["m"], "sch": r["sch"], "host": _txt(r["host"]), "path": _txt(r["path"]), "qs": _txt(r["qs"]), "body": body,
                                "ct": "text/x" if body else "", "tag": "t1"},
                          "mdl": [{"has": True, "sent": sorted(a["sent"]), "out": ""}]})
        elif a["op"] == "resp":
            s = steps[-1]
            r = a["resp"]
            s["queue"].append({"code": r["code"], "loc": _dec_loc(r["loc"]), "scs": [_dec_sc(x) for x in r["scs"]], "read": r["read"]})
            s["mdl"][-1]["out"] = a["out"]
            if a["out"] == "follow":
                s["mdl"].append({"has": True, "sent": sorted(a["sent"]), "out": ""})
    return {"allow": bool(allow), "script": {}, "steps": steps}


# ---------------------------------------------------------------------- code -> spec: seeded random histories
HOSTS = ["example.com", "sub.example.com", "deep.sub.example.com", "evil-example.com", "xample.com", "other.test", "localhost"]
PATHS = ["/", "/foo", "/foo/", "/foo/bar", "/foobar", "/foo/bar/baz", "/fo", "/bar"]
NAMES = ["a", "b", "c"]
VALUES = ["1", "2", "3", "4", "5", "6", "7", "8", "9", "x", "yz"]
METHODS = ["GET", "GET", "GET", "POST", "POST", "PUT", "HEAD", "DELETE"]
CODES = [200, 200, 200, 301, 302, 302, 303, 305, 307, 308, 404]


def _parents(host):
    return [host] + [host[i + 1:] for i, c in enumerate(host) if c == "." and "." in host[i + 1:]]


def rand_sc(rng, host):
    sc = {"name": rng.choice(NAMES), "val": rng.choice(VALUES), "dom": "", "path": "", "ma": "none", "exp": "none", "secure": rng.random() < 0.2}
    r = rng.random()
    if r < 0.30:
        sc["dom"] = rng.choice(_parents(host))
    elif r < 0.42:
        sc["dom"] = "." + rng.choice(_parents(host))  # RFC 6265 5.2.3: the leading dot is ignored
    elif r < 0.46:
        sc["dom"] = rng.choice(HOSTS)  # may not cover the host: outside the contract
    if rng.random() < 0.45:
        sc["path"] = rng.choice(PATHS)
    r = rng.random()
    if r < 0.12:
        sc["ma"] = "zero"
    elif r < 0.20:
        sc["exp"] = "epoch"
    elif r < 0.24:
        sc["ma"], sc["exp"] = "zero", "epoch"  # what Response.delete_cookie emits
    elif r < 0.28:
        sc["ma"] = "neg"
    elif r < 0.32:
        sc["exp"] = "past"
    elif r < 0.40:
        sc["ma"] = "pos"
    elif r < 0.46:
        sc["exp"] = "future"
    elif r < 0.49:
        sc["ma"], sc["exp"] = rng.choice([("pos", "epoch"), ("zero", "future"), ("neg", "epoch"), ("pos", "past")])
    return sc


def rand_loc(rng, host, hosts):
    r = rng.random()
    qs = rng.choice(["", "", "", "x=1", "n=2&m=3"])
    if r < 0.62:
        return {"form": "path", "sch": "", "host": "", "path": rng.choice(PATHS), "qs": qs}
    if r < 0.74:
        return {"form": "abs", "sch": rng.choice(["http", "https"]), "host": host, "path": rng.choice(PATHS), "qs": qs}
    if r < 0.90:
        return {"form": "abs", "sch": rng.choice(["http", "http", "https"]), "host": rng.choice(hosts), "path": rng.choice(PATHS), "qs": qs}
    if r < 0.93:
        return {"form": "abs", "sch": "http", "host": rng.choice(HOSTS), "path": rng.choice(PATHS), "qs": ""}
    if r < 0.955:
        return {"form": "net", "sch": "", "host": rng.choice(hosts), "path": rng.choice(PATHS), "qs": ""}
    if r < 0.98:
        return {"form": "rel", "sch": "", "host": "", "path": rng.choice(["bar", "foo", "x/y"]), "qs": ""}
    return {"form": "query", "sch": "", "host": "", "path": "", "qs": "k=v"}


def rand_plan(rng, host, hosts, redirect_bias=0.5):
    code = rng.choice(CODES) if rng.random() < redirect_bias else 200
    p = {"code": code, "loc": None, "scs": [rand_sc(rng, host) for _ in range(rng.choice([0, 0, 1, 1, 1, 2, 3]))], "read": rng.random() < 0.4}
    if code in (301, 302, 303, 305, 307, 308):
        p["loc"] = rand_loc(rng, host, hosts)
    return p


def rand_history(seed):
    rng = random.Random(seed)
    flavour = rng.choice(["cookies", "redirects", "mixed", "mixed"])
    hosts = rng.sample(HOSTS[:4], rng.choice([1, 2, 3])) if rng.random() < 0.8 else rng.sample(HOSTS, 3)
    if "example.com" not in hosts and rng.random() < 0.7:
        hosts.append("example.com")
    paths = rng.sample(PATHS, rng.choice([3, 4, 6]))
    bias = {"cookies": 0.15, "redirects": 0.75, "mixed": 0.5}[flavour]
    script = {}
    for h in hosts:
        for p in paths:
            if rng.random() < 0.75:
                if rng.random() < 0.15:
                    script[f"{h}|{p}"] = {"if": rng.choice(NAMES), "then": rand_plan(rng, h, hosts, bias), "else": rand_plan(rng, h, hosts, bias)}
                else:
                    script[f"{h}|{p}"] = rand_plan(rng, h, hosts, bias)
    steps, known = [], []
    for _ in range(rng.choice([2, 3, 5, 8])):
        r = rng.random()
        if r < 0.72 or flavour == "redirects":
            m = rng.choice(METHODS)
            body = rng.choice(["xy", "k=v", "xy", ""]) if m in ("POST", "PUT", "DELETE") else ""
            steps.append({"op": "open", "follow": rng.random() < 0.85,
                          "q": {"m": m, "sch": rng.choice(["http", "http", "https"]), "host": rng.choice(hosts), "path": rng.choice(paths if rng.random() < 0.8 else PATHS),
                                "qs": rng.choice(["", "", "q=1"]), "body": body, "ct": rng.choice(["text/x", "application/x-www-form-urlencoded"]) if body else "",
                                "tag": rng.choice(["", "t1", "t2"])}})
        else:
            c = {"name": rng.choice(NAMES), "val": rng.choice(VALUES), "dom": rng.choice(hosts), "path": rng.choice(PATHS), "oo": rng.random() < 0.6,
                 "ma": "zero" if rng.random() < 0.15 else "none"}
            if known and rng.random() < 0.5:
                c.update(rng.choice(known))
            op = "cset" if r < 0.82 else ("cdel" if r < 0.91 else "cget")
            steps.append({"op": op, "c": c})
            if op == "cset":
                known.append({"name": c["name"], "dom": c["dom"], "path": c["path"]})
    return {"allow": rng.random() < 0.5, "script": script, "steps": steps}


# ---------------------------------------------------------------------- directed histories (the look-alikes and the documented rules, by hand)
def _open(host, path, m="GET", sch="http", body="", follow=True, **kw):
    return {"op": "open", "follow": follow, "q": dict({"m": m, "sch": sch, "host": host, "path": path, "qs": "", "body": body, "ct": "text/x" if body else "", "tag": "t1"}, **kw)}


def _sc(name, val, **kw):
    return dict({"name": name, "val": val, "dom": "", "path": "", "ma": "none", "exp": "none", "secure": False}, **kw)


def _p(code=200, loc=None, scs=(), read=False):
    if isinstance(loc, str):
        loc = {"form": "path", "sch": "", "host": "", "path": loc, "qs": ""}
    return {"code": code, "loc": loc, "scs": list(scs), "read": read}


def _abs(host, path, sch="http"):
    return {"form": "abs", "sch": sch, "host": host, "path": path, "qs": ""}


def directed_histories():
    E, S, V = "example.com", "sub.example.com", "evil-example.com"
    out = []
    # domain look-alike: a Domain=example.com cookie goes to sub.example.com and never to evil-example.com
    out.append({"allow": False, "script": {f"{E}|/": _p(scs=[_sc("a", "1", dom=E), _sc("b", "2")])},
                "steps": [_open(E, "/"), _open(S, "/"), _open(V, "/"), _open(E, "/foo")]})
    # path look-alike: a Path=/foo cookie goes to /foo, /foo/bar and never to /foobar
    out.append({"allow": False, "script": {f"{E}|/": _p(scs=[_sc("a", "1", path="/foo"), _sc("b", "2", path="/foo/")])},
                "steps": [_open(E, "/"), _open(E, "/foo"), _open(E, "/foo/"), _open(E, "/foo/bar"), _open(E, "/foobar"), _open(E, "/fo")]})
    # default path, replacement, deletion (what Response.delete_cookie emits)
    out.append({"allow": False, "script": {f"{E}|/foo/bar": _p(scs=[_sc("a", "1")]), f"{E}|/foo/x": _p(scs=[_sc("a", "2")]),
                                           f"{E}|/foo/del": _p(scs=[_sc("a", "", ma="zero", exp="epoch")])},
                "steps": [_open(E, "/foo/bar"), _open(E, "/foo/baz"), _open(E, "/foobar"), _open(E, "/foo/x"), _open(E, "/foo/baz"), _open(E, "/foo/del"), _open(E, "/foo/baz")]})
    # a leading dot of the Domain attribute is ignored (RFC 6265 5.2.3)
    out.append({"allow": False, "script": {f"{E}|/": _p(scs=[_sc("a", "1", dom="." + E)])}, "steps": [_open(E, "/"), _open(E, "/foo"), _open(S, "/"), _open(V, "/")]})
    # Secure is ignored by the test client (documented): http and https see the same cookies
    out.append({"allow": False, "script": {f"{E}|/": _p(scs=[_sc("a", "1", secure=True)])}, "steps": [_open(E, "/", sch="https"), _open(E, "/"), _open(E, "/", sch="https")]})
    # method / body rule for every redirect code, application reading the body or not
    for code in (301, 302, 303, 305, 307, 308):
        for m in ("POST", "HEAD", "GET", "PUT"):
            for read in (False, True):
                out.append({"allow": False, "script": {f"{E}|/foo": _p(code, "/bar", read=read)}, "steps": [_open(E, "/foo", m=m, body="xy" if m in ("POST", "PUT") else "")]})
    # cookies set on a redirect response travel on the next hop; deleting on a redirect (logout) works too
    out.append({"allow": False, "script": {f"{E}|/login": _p(302, "/home", scs=[_sc("a", "1")]), f"{E}|/logout": _p(303, "/home", scs=[_sc("a", "", ma="zero", exp="epoch")])},
                "steps": [_open(E, "/login", m="POST", body="xy"), _open(E, "/home"), _open(E, "/logout"), _open(E, "/home")]})
    # loops: self loop, two-cycle, longer chain that ends
    out.append({"allow": False, "script": {f"{E}|/a": _p(302, "/a")}, "steps": [_open(E, "/a")]})
    out.append({"allow": False, "script": {f"{E}|/a": _p(302, "/b"), f"{E}|/b": _p(301, "/a")}, "steps": [_open(E, "/a"), _open(E, "/b", follow=False)]})
    out.append({"allow": False, "script": {f"{E}|/a": _p(302, "/b"), f"{E}|/b": _p(302, "/c"), f"{E}|/c": _p(307, "/d"), f"{E}|/d": _p(308, "/e")}, "steps": [_open(E, "/a", m="POST", body="xy")]})
    # cookie-dependent chain that ends once the cookie is set
    out.append({"allow": False, "script": {f"{E}|/": {"if": "a", "then": _p(200), "else": _p(302, "/set")}, f"{E}|/set": _p(302, "/", scs=[_sc("a", "1")])}, "steps": [_open(E, "/"), _open(E, "/")]})
    # hosts: same host absolute, subdomain allowed / refused, external and look-alike refused, scheme change
    for allow in (False, True):
        for tgt in (E, S, V, "other.test"):
            out.append({"allow": allow, "script": {f"{E}|/go": _p(302, _abs(tgt, "/foo"), scs=[_sc("a", "1", dom=E)])}, "steps": [_open(E, "/go"), _open(E, "/foo")]})
        out.append({"allow": allow, "script": {f"{E}|/go": _p(301, _abs(E, "/foo", "https"))}, "steps": [_open(E, "/go")]})
        out.append({"allow": allow, "script": {f"{E}|/go": _p(302, _abs(S, "/x")), f"{S}|/x": _p(302, _abs(E, "/y"))}, "steps": [_open(E, "/go")]})
    # the undocumented Location forms (drift only)
    out.append({"allow": True, "script": {f"{E}|/foo/p": _p(302, {"form": "rel", "sch": "", "host": "", "path": "q", "qs": ""})}, "steps": [_open(E, "/foo/p")]})
    out.append({"allow": True, "script": {f"{E}|/foo/p": _p(302, {"form": "net", "sch": "", "host": S, "path": "/q", "qs": ""})}, "steps": [_open(E, "/foo/p")]})
    out.append({"allow": True, "script": {f"{E}|/foo/p": _p(302, {"form": "query", "sch": "", "host": "", "path": "", "qs": "k=v"})}, "steps": [_open(E, "/foo/p")]})
    # Client.set_cookie / get_cookie / delete_cookie
    out.append({"allow": False, "script": {}, "steps": [
        {"op": "cset", "c": {"name": "a", "val": "1", "dom": E, "path": "/", "oo": False}}, {"op": "cset", "c": {"name": "b", "val": "2", "dom": E, "path": "/foo", "oo": True}},
        _open(E, "/"), _open(S, "/foo/bar"), _open(V, "/foo"), _open(E, "/foobar"), {"op": "cget", "c": {"name": "a", "dom": E, "path": "/"}},
        {"op": "cdel", "c": {"name": "a", "dom": E, "path": "/"}}, {"op": "cget", "c": {"name": "a", "dom": E, "path": "/"}}, _open(S, "/foo/bar"),
        {"op": "cset", "c": {"name": "b", "val": "", "dom": E, "path": "/foo", "ma": "zero"}}, _open(E, "/foo")]})
    return out


def number(lines_per_history, flows):
    """attach t / i / flow; returns (flat lines, index t -> history position)"""
    flat = []
    for t, (lines, flow) in enumerate(zip(lines_per_history, flows)):
        for i, ln in enumerate(lines):
            ln = dict(ln)
            ln.update(t=t, i=i, flow=flow)
            flat.append(ln)
    return flat
