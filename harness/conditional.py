"""Drivers and recorders for conditional / range responses (C11).

Nothing here decides a verdict.  A *case* (a JSON dict) describes a request (method and the
texts of If-None-Match, If-Match, If-Modified-Since, If-Range, Range -- None = header absent) and
a representation (ETag opaque text + weakness or none, last-modified instant with microseconds or
none, resource length, body shape and block size).  `run_case` builds the real `Response` /
environ, calls `make_conditional` (api "mc"), `send_file` (api "sf") or the plain function
`is_resource_modified` (api "irm", keeps the sub-second last-modified value), runs the WSGI
response and records status, Content-Range, Content-Length, the ETag / Last-Modified header texts
the response carries and the body bytes as one ndjson line for spec/conditional/ConditionalTrace.tla.

The resource bytes are data[i] = 33 + (i % 90): the judge only needs the length (it recomputes the
bytes), so every slice is identifiable up to 90 bytes.
"""
from __future__ import annotations

import io
import random
from datetime import datetime, timedelta, timezone

from .core import cps

APIS = ("mc", "sf", "irm")
SHAPES = ("list", "gen", "file", "pipe")   # file = wrap_file over BytesIO (seekable), pipe = non-seekable reader
HDRS = ("inm", "im", "ims", "ifr", "range")
ENV = {"inm": "HTTP_IF_NONE_MATCH", "im": "HTTP_IF_MATCH", "ims": "HTTP_IF_MODIFIED_SINCE", "ifr": "HTTP_IF_RANGE",
       "range": "HTTP_RANGE"}

DAYS = ["Mon", "Tue", "Wed", "Thu", "Fri", "Sat", "Sun"]
MONTHS = ["Jan", "Feb", "Mar", "Apr", "May", "Jun", "Jul", "Aug", "Sep", "Oct", "Nov", "Dec"]


def data_of(n: int) -> bytes:
    return bytes(33 + (i % 90) for i in range(n))


def blocks_of(case) -> list[bytes]:
    """The body as the list of blocks the case describes: `blocks` (explicit lengths, zeros allowed)
    or equal blocks of size `block`."""
    d = data_of(case["length"])
    if case.get("blocks"):
        out, p = [], 0
        for n in case["blocks"]:
            out.append(d[p:p + n])
            p += n
        assert p == len(d), case
        return out
    b = max(1, case.get("block") or 1)
    return [d[i:i + b] for i in range(0, len(d), b)]


class Pipe:
    """A binary reader without seek/tell (a pipe or socket file)."""

    def __init__(self, data: bytes):
        self._b = io.BytesIO(data)
        self.closed_called = False

    def read(self, n=-1):
        return self._b.read(n)

    def close(self):
        self.closed_called = True


def fmt_date(dt: datetime, offset_min: int | None = None) -> str:
    """IMF-fixdate (offset None) or the RFC 2822 numeric-zone form of the same instant."""
    dt = dt.replace(microsecond=0)
    if offset_min is None:
        zone = "GMT"
    else:
        dt = dt + timedelta(minutes=offset_min)
        zone = ("+" if offset_min >= 0 else "-") + f"{abs(offset_min) // 60:02d}{abs(offset_min) % 60:02d}"
    return f"{DAYS[dt.weekday()]}, {dt.day:02d} {MONTHS[dt.month - 1]} {dt.year:04d} {dt.hour:02d}:{dt.minute:02d}:{dt.second:02d} {zone}"


def lm_datetime(lm) -> datetime:
    y, mo, d, h, mi, s, us = lm
    return datetime(y, mo, d, h, mi, s, us, tzinfo=timezone.utc)


def norm(case) -> dict:
    c = {"api": "mc", "method": "GET", "inm": None, "im": None, "ims": None, "ifr": None, "range": None,
         "etag": None, "lm": None, "length": 4, "shape": "list", "block": 2, "blocks": None}
    c.update(case)
    return c


def _environ(case):
    from werkzeug.test import create_environ

    env = create_environ("/", method=case["method"])
    for h in HDRS:
        if case[h] is not None:
            env[ENV[h]] = case[h]
    return env


def _body(case, env):
    from werkzeug.wsgi import wrap_file

    shape = case["shape"]
    blocks = blocks_of(case)
    if shape == "list":
        return blocks
    if shape == "gen":
        return (b for b in blocks)
    size = max(1, case.get("block") or 1)
    if shape == "file":
        return wrap_file(env, io.BytesIO(data_of(case["length"])), size)
    if shape == "pipe":
        return wrap_file(env, Pipe(data_of(case["length"])), size)
    if shape in STREAM_KINDS:
        return wrap_file(env, open_stream(shape, data_of(case["length"])), size)
    raise ValueError(shape)


# ---------------------------------------------------------------------------------- body stream kinds (seekability)
class _RawNoSeek(io.RawIOBase):
    """A raw stream like a pipe / socket: readable, seekable() False; io.RawIOBase still HAS seek / tell attributes
    (they raise io.UnsupportedOperation)."""

    def __init__(self, data: bytes):
        self._d, self._p = data, 0

    def readable(self):
        return True

    def seekable(self):
        return False

    def readinto(self, b):
        n = min(len(b), len(self._d) - self._p)
        b[:n] = self._d[self._p:self._p + n]
        self._p += n
        return n


class _SeekAttrNotSeekable:
    """seek / tell exist, seekable() says False, seeking raises."""

    def __init__(self, data: bytes):
        self._b = io.BytesIO(data)

    def read(self, n=-1):
        return self._b.read(n)

    def seekable(self):
        return False

    def seek(self, *a):
        raise io.UnsupportedOperation("seek")

    def tell(self):
        raise io.UnsupportedOperation("tell")

    def close(self):
        self._b.close()


class _SeekNoSeekableMethod:
    """read / seek / tell that work, but no seekable() method (an old-style file object)."""

    def __init__(self, data: bytes):
        self._b = io.BytesIO(data)

    def read(self, n=-1):
        return self._b.read(n)

    def seek(self, *a):
        return self._b.seek(*a)

    def tell(self):
        return self._b.tell()

    def close(self):
        self._b.close()


STREAM_KINDS = ("bytesio", "realfile", "bufraw", "ospipe", "readonly", "seekattr", "seeknomethod")


def open_stream(kind: str, data: bytes):
    """An io object of the given seekability kind positioned at the start of `data` (closed by FileWrapper.close)."""
    import tempfile

    if kind == "bytesio":
        return io.BytesIO(data)
    if kind == "realfile":
        f = tempfile.TemporaryFile(prefix="verif-c11-body-", dir=os.environ.get("VERIF_TMP", "/var/tmp"))
        f.write(data)
        f.flush()
        f.seek(0)
        return f
    if kind == "bufraw":
        return io.BufferedReader(_RawNoSeek(data), buffer_size=16)
    if kind == "ospipe":
        assert len(data) < 60000
        r, w = os.pipe()
        with os.fdopen(w, "wb") as wf:
            wf.write(data)
        return os.fdopen(r, "rb")
    if kind == "readonly":
        return Pipe(data)
    if kind == "seekattr":
        return _SeekAttrNotSeekable(data)
    if kind == "seeknomethod":
        return _SeekNoSeekableMethod(data)
    raise ValueError(kind)


def _run_wsgi(resp, env):
    from werkzeug.test import run_wsgi_app

    app_iter, status, headers = run_wsgi_app(resp, env, buffered=False)
    try:
        body = b"".join(app_iter)
    finally:
        close = getattr(app_iter, "close", None)
        if close:
            close()
    return int(status.split(" ", 1)[0]), headers, body


def _hdr(headers, name):
    vals = headers.getlist(name) if hasattr(headers, "getlist") else [v for k, v in headers if k.lower() == name.lower()]
    return vals


def run_case(case) -> dict:
    """Execute one case on the real code; returns the trace line (without t / i)."""
    from werkzeug.exceptions import HTTPException
    from werkzeug.http import is_resource_modified
    from werkzeug.utils import send_file
    from werkzeug.wrappers import Response

    if case.get("op") in ("filesc", "filerange", "etag"):
        return {"filesc": file_case, "filerange": filerange_case, "etag": etag_case}[case["op"]](case)
    c = norm(case)
    rec = {"op": c.get("op") or "call", "api": c["api"], "method": c["method"], "shape": c["shape"], "length": c["length"]}
    for h in HDRS:
        rec[h + "_p"] = c[h] is not None
        rec[h] = cps(c[h] or "")
    rec["etag_p"] = c["etag"] is not None
    rec["etag_opaque"] = cps(c["etag"][0]) if c["etag"] else []
    rec["etag_weak"] = bool(c["etag"][1]) if c["etag"] else False
    rec["lm_p"] = c["lm"] is not None
    rec["lm"] = list(c["lm"]) if c["lm"] else [1970, 1, 1, 0, 0, 0, 0]
    # send_file over a reader that is neither a path nor a BytesIO does not know the length
    rec["len_known"] = not (c["api"] == "sf" and c["shape"] == "pipe")
    rec["pre_cr"] = bool((c.get("pre") or {}).get("cr"))
    out = {"status": 0, "exc": "", "cr_n": 0, "cr": [], "cl_n": 0, "cl": [], "r_etag_n": 0, "r_etag": [], "r_lm_n": 0, "r_lm": [],
           "body": [], "modified": False}
    env = _environ(c)
    try:
        if c["api"] == "irm":
            from werkzeug.http import quote_etag

            etag = quote_etag(*c["etag"]) if c["etag"] else None
            lm = lm_datetime(c["lm"]) if c["lm"] else None
            if lm is not None and c.get("lm_naive"):
                lm = lm.replace(tzinfo=None)
            out["modified"] = bool(is_resource_modified(env, etag, None, lm))
            out["status"] = 1
        else:
            if c["api"] == "sf":
                if c["shape"] == "pipe":
                    fobj = Pipe(data_of(c["length"]))
                else:
                    fobj = io.BytesIO(data_of(c["length"]))
                kw = {}
                if c["lm"]:
                    kw["last_modified"] = lm_datetime(c["lm"])
                if c["etag"]:
                    kw["etag"] = c["etag"][0]     # send_file only sets strong tags
                if c.get("cls") is not None:
                    kw["response_class"] = _response_class(c["cls"])   # send_file pre-sets Content-Length of the whole file
                resp = send_file(fobj, env, mimetype="application/octet-stream", conditional=True, **kw)
                if c["shape"] == "pipe":
                    # size unknown: send_file cannot serve ranges; recorded like every other case
                    pass
            else:
                pre = c.get("pre") or {}
                cls = _response_class(c["cls"]) if c.get("cls") is not None else Response
                kwargs = {"direct_passthrough": c["shape"] in ("file", "pipe") + STREAM_KINDS}
                if not (c.get("cls") or {}).get("default_mimetype"):
                    kwargs["mimetype"] = "application/octet-stream"
                if pre.get("via") == "ctor":         # validators handed to the constructor as plain headers by the app
                    from werkzeug.http import http_date, quote_etag

                    hs = []
                    if c["etag"]:
                        hs.append(("ETag", quote_etag(c["etag"][0], c["etag"][1])))
                    if c["lm"]:
                        hs.append(("Last-Modified", http_date(lm_datetime(c["lm"]))))
                    kwargs["headers"] = hs
                resp = cls(_body(c, env), **kwargs)
                if pre.get("via") != "ctor":
                    if c["etag"]:
                        resp.set_etag(c["etag"][0], weak=c["etag"][1])
                    if c["lm"]:
                        resp.last_modified = lm_datetime(c["lm"])
                if pre.get("cl"):                    # Content-Length of the complete representation
                    resp.headers["Content-Length"] = str(c["length"])
                if pre.get("cr"):                    # an own Content-Range
                    resp.headers["Content-Range"] = pre["cr"]
                if pre.get("ar"):
                    resp.headers["Accept-Ranges"] = pre["ar"]
                resp.make_conditional(env, accept_ranges=True, complete_length=c["length"])
            status, headers, body = _run_wsgi(resp, env)
            out["status"] = status
            out["body"] = list(body)
            for key, name in (("cr", "Content-Range"), ("cl", "Content-Length"), ("r_etag", "ETag"), ("r_lm", "Last-Modified")):
                vals = _hdr(headers, name)
                out[key + "_n"] = len(vals)
                out[key] = cps(vals[0]) if vals else []
    except HTTPException as e:
        out["status"] = int(e.code or 0)
        out["exc"] = type(e).__name__
        try:
            hs = e.get_response(env).headers
            vals = hs.getlist("Content-Range")
            out["cr_n"] = len(vals)
            out["cr"] = cps(vals[0]) if vals else []
        except Exception:     # recorded, judged as "no Content-Range"
            pass
    except Exception as e:    # any other exception is recorded; the judge rejects it (clause Raised)
        out["status"] = 0
        out["exc"] = type(e).__name__
    rec.update(out)
    return rec


def run_cases(cases):
    return [run_case(c) for c in cases]


# ---------------------------------------------------------------------------------- generators
BASE = datetime(2024, 2, 29, 23, 59, 58, tzinfo=timezone.utc)   # leap day, close to a day boundary
OPAQUES = ["abc", "xyz", "a,b", "v1.0-7", "0"]
OFFSETS = [None, 0, 60, -330, 845, -720]


def tag_text(opaque, weak):
    return ('W/' if weak else '') + '"' + opaque + '"'


def etag_lists(cur):
    """If-None-Match / If-Match texts relative to the current (opaque, weak) or None."""
    o = cur[0] if cur else "abc"
    other = "xyz" if o != "xyz" else "abc"
    return [
        "*", tag_text(o, False), tag_text(o, True), tag_text(other, False), tag_text(other, True),
        f'{tag_text(other, False)}, {tag_text(o, False)}', f'{tag_text(other, True)},{tag_text(o, True)}',
        f'{tag_text(other, False)} ,\t{tag_text(other, True)}', f'w/"{o}"', f'{tag_text(o, False)},',
        tag_text(o + "x", False), tag_text(o[:-1], False) if len(o) > 1 else '"q"', tag_text(o.upper(), False) if o.upper() != o else '"Q"',
        f'"{other}", W/"{o}", "{other}2"',
        '"*"', 'W/"*"', f'"*", {tag_text(other, False)}',      # a quoted star is an ordinary entity-tag, not the wildcard
    ]


GARBAGE_TAGS = ['"unterminated', "W/", ",", '"a" "b"', "W/*", "**", '" "']
GARBAGE_DATES = ["yesterday", "12345", "Thu, 99 Foo 2024 00:00:00 GMT", "GMT", "0"]

RANGES_FIXED = [
    "bytes=0-0", "bytes=0-", "bytes=-1", "bytes=1-2", "bytes=2-", "bytes=-3", "bytes=0-99", "bytes=3-3", "bytes=-99", "bytes=-0",
    "bytes=99-", "bytes=5-2", "bytes=0-0,2-2", "bytes=0-1, 3-", "bytes=-1,-2", "bytes=1-,0-0", " bytes = 1 - 2 ", "bytes=\t1-\t", "bytes= -2",
    "BYTES=0-1", "Bytes=1-", "items=0-1", "seconds=1-", "bytes", "bytes=", "bytes=a-b", "bytes=1", "bytes=1-2-3", "bytes=--1", "bytes=+1-2",
    "bytes=1-+2", "bytes=0x1-2", "bytes=1_0-", "=0-1", "bytes=0-1,", "bytes=,0-1", "bytes=4-", "bytes=3-", "bytes=-4", "bytes=-5",
    "bytes=0-3", "bytes=0-4", "bytes=1-1", "bytes=2-3,", "bytes=١-", "bytes=1-٢", "bytes=00-01", "bytes=-007",
    "bytes=18446744073709551616-", "bytes=0-18446744073709551616", "bytes=-18446744073709551616",
]


def range_texts(length):
    """Every first-last / first- / -suffix spec around the resource length, plus the fixed list."""
    out = list(RANGES_FIXED)
    hi = length + 2
    for a in range(0, hi + 1):
        out.append(f"bytes={a}-")
        out.append(f"bytes=-{a}")
        for b in range(0, hi + 1):
            out.append(f"bytes={a}-{b}")
    seen, res = set(), []
    for r in out:
        if r not in seen:
            seen.add(r)
            res.append(r)
    return res


def random_range(rng: random.Random, length: int) -> str:
    def num():
        k = rng.random()
        if k < 0.75:
            return str(rng.randint(0, length + 3))
        if k < 0.85:
            return "0" * rng.randint(1, 2) + str(rng.randint(0, length + 3))
        if k < 0.9:
            return str(rng.choice([10 ** 9, 2 ** 31, 2 ** 64]))
        return rng.choice(["", "a", "-1", "+1", "1.0", " "])

    def ws():
        return rng.choice(["", "", "", " ", "\t", "  "])

    def spec():
        k = rng.random()
        if k < 0.4:
            return f"{num()}{ws()}-{ws()}{num()}"
        if k < 0.65:
            return f"{num()}{ws()}-"
        if k < 0.9:
            return f"-{ws()}{num()}"
        return rng.choice(["", "-", "1", "a-b", "1-2-3"])

    n = 1 if rng.random() < 0.75 else rng.randint(2, 3)
    unit = rng.choice(["bytes"] * 8 + ["Bytes", "items", " bytes", "bytes ", ""])
    return unit + ws() + "=" + ws() + (ws() + "," + ws()).join(spec() for _ in range(n))


def validator_cases(apis=("mc", "irm"), methods=("GET", "HEAD", "POST"), wide=True):
    """The product of the property's validator classes (hand-enumerated texts)."""
    cases = []
    lm0 = BASE
    etags = [None, ("abc", False), ("abc", True), ("a,b", False)]
    lms = [None, (0,), (500000,), (999999,)]
    for api in apis:
        for method in (methods if api != "irm" else ("GET",)):
            for et in etags:
                for lmk in lms:
                    lm = None if lmk is None else [lm0.year, lm0.month, lm0.day, lm0.hour, lm0.minute, lm0.second, lmk[0]]
                    cond = [("inm", None)]
                    cond += [("inm", t) for t in etag_lists(et) + GARBAGE_TAGS]
                    if et is not None:
                        cond += [("im", t) for t in etag_lists(et) + GARBAGE_TAGS]
                    ims = [None]
                    for delta in (-1, 0, 1, 86400, -86400) if wide else (-1, 0, 1):
                        ims.append(fmt_date(lm0 + timedelta(seconds=delta)))
                    for off in (60, -330, 845):
                        for delta in (-1, 0, 1) if wide else (0, -1 if off < 0 else 1):
                            ims.append(fmt_date(lm0 + timedelta(seconds=delta), off))
                    ims += GARBAGE_DATES[:2] if wide else GARBAGE_DATES[:1]
                    for (h, t) in cond:
                        for d in ims:
                            c = {"api": api, "method": method, "etag": list(et) if et else None, "lm": lm, "ims": d,
                                 "length": 3, "shape": "list", "block": 2}
                            c[h] = t
                            cases.append(c)
    return cases


def ifrange_cases(lengths=(0, 1, 4), shapes=("list", "file")):
    cases = []
    lm0 = BASE
    for et in [None, ("abc", False), ("abc", True)]:
        for lmk in [None, 0, 500000]:
            lm = None if lmk is None else [lm0.year, lm0.month, lm0.day, lm0.hour, lm0.minute, lm0.second, lmk]
            ifr = [tag_text("abc", False), tag_text("abc", True), tag_text("xyz", False), tag_text("xyz", True), '"abcx"', '"ab"']
            for delta in (-86400, -1, 0, 1, 86400):
                ifr.append(fmt_date(lm0 + timedelta(seconds=delta)))
            for off in (60, -330):
                for delta in (-1, 0, 1):
                    ifr.append(fmt_date(lm0 + timedelta(seconds=delta), off))
            for v in ifr:
                for rg in (None, "bytes=1-2", "bytes=0-", "bytes=-1", "bytes=9-", "bytes=0-0,2-2", "bytes=x"):
                    for n in lengths:
                        for method in ("GET", "POST"):
                            for shape in shapes:
                                cases.append({"api": "mc", "method": method, "etag": list(et) if et else None, "lm": lm,
                                              "ifr": v, "range": rg, "length": n, "shape": shape, "block": 3})
    return cases


def range_cases(max_len, blocks, shapes=SHAPES, methods=("GET",), apis=("mc",)):
    cases = []
    for n in range(0, max_len + 1):
        for rg in [None] + range_texts(n):
            for shape in shapes:
                for b in blocks:
                    if b > max(1, n) and b != blocks[0]:
                        continue
                    for method in methods:
                        for api in apis:
                            if api == "sf" and shape in ("list", "gen"):
                                continue
                            cases.append({"api": api, "method": method, "range": rg, "length": n, "shape": shape, "block": b})
    return cases


def compositions(n, with_zero_slots=1):
    """All ways to cut n bytes into blocks, with up to `with_zero_slots` empty blocks inserted."""
    res = []

    def rec(rest, cur):
        if rest == 0:
            res.append(list(cur))
            return
        for k in range(1, rest + 1):
            cur.append(k)
            rec(rest - k, cur)
            cur.pop()

    rec(n, [])
    out = list(res)
    if with_zero_slots:
        for comp in res:
            for p in range(len(comp) + 1):
                out.append(comp[:p] + [0] + comp[p:])
    return out


def random_case(rng: random.Random, max_len=40) -> dict:
    n = rng.choice([0, 1, 2, 3, 5, 8, 13, rng.randint(0, max_len)])
    shape = rng.choice(SHAPES)
    c = {"api": "mc", "method": rng.choice(["GET"] * 6 + ["HEAD", "POST"]), "length": n, "shape": shape,
         "block": rng.randint(1, max(1, n + 1))}
    if shape in ("list", "gen") and rng.random() < 0.5:
        cuts, rest = [], n
        while rest > 0:
            k = rng.randint(0 if rng.random() < 0.2 else 1, rest)
            cuts.append(k)
            rest -= k
        if rng.random() < 0.3:
            cuts.append(0)
        c["blocks"] = cuts
    if shape in ("file", "pipe") and rng.random() < 0.3:
        c["api"] = "sf"
    k = rng.random()
    c["range"] = rng.choice(range_texts(n)) if k < 0.45 else random_range(rng, n) if k < 0.9 else None
    if rng.random() < 0.35:
        et = rng.choice([None, (rng.choice(OPAQUES), rng.random() < 0.4)])
        if c["api"] == "sf" and et:
            et = (et[0], False)
        c["etag"] = list(et) if et else None
        lm0 = BASE + timedelta(seconds=rng.randint(-5, 5) * rng.choice([1, 3600, 86400 * 31]))
        c["lm"] = rng.choice([None, [lm0.year, lm0.month, lm0.day, lm0.hour, lm0.minute, lm0.second, rng.choice([0, 1, 999999])]])
        cur = c["etag"]
        kind = rng.random()
        d = fmt_date(lm0 + timedelta(seconds=rng.choice([-86400, -1, 0, 0, 1, 86400])), rng.choice(OFFSETS))
        if kind < 0.5:
            c["ifr"] = rng.choice([d, tag_text(cur[0] if cur else "abc", rng.random() < 0.3), tag_text("zzz", False)])
        else:
            c["range"] = None
            if rng.random() < 0.6:
                c["ims"] = rng.choice([d, d, rng.choice(GARBAGE_DATES)])
            if rng.random() < 0.7:
                h = "im" if (cur and rng.random() < 0.3) else "inm"
                c[h] = rng.choice(etag_lists(tuple(cur) if cur else None) + GARBAGE_TAGS)
    return c


def case_of_model(v) -> dict:
    """A (req, rep) pair exported by MCConditional -> case."""
    req, rep = v["req"], v["rep"]
    txt = lambda cp: "".join(map(chr, cp))
    c = {"api": "mc", "method": req["method"], "length": rep["length"], "shape": "list", "block": 2,
         "etag": [txt(rep["etag_opaque"]), rep["etag_weak"]] if rep["etag_p"] else None,
         "lm": list(rep["lm"]) if rep["lm_p"] else None}
    for h in HDRS:
        c[h] = txt(req[h]) if req[h + "_p"] else None
    if c["range"] is not None and (c["inm"] is not None or c["im"] is not None or c["ims"] is not None):
        c["op"] = "rc"
    return c


def case_of_rangebody(v) -> dict:
    """An initial state exported by MCRangeBody -> case (Range: bytes=start-(stop-1))."""
    c = {"api": "mc", "method": "GET", "length": v["n"], "range": f"bytes={v['start']}-{v['stop'] - 1}"}
    if v["src"] == "list":
        c.update(shape="list" if (v["start"] + v["stop"]) % 2 else "gen", blocks=list(v["blocks"]), block=1)
    else:
        c.update(shape="file" if v["seekable"] else "pipe", block=v["bsize"])
    return c


# ---------------------------------------------------------------------------------- growth: Range + validators
def rangecond_cases(lengths=(0, 1, 4), wide=True):
    """Range combined with If-None-Match / If-Modified-Since / If-Match (op "rc", clauses RangeCond/..)."""
    cases = []
    lm0 = BASE
    ranges = ["bytes=0-0", "bytes=1-", "bytes=-1", "bytes=9-", "bytes=-0", "bytes=0-9", "bytes=0-0,2-2", "bytes=a-", "items=1-2", "bytes"]
    if not wide:
        ranges = ranges[:4] + ranges[6:8]
    for method in ("GET", "HEAD", "POST") if wide else ("GET", "HEAD"):
        for et in [None, ("abc", False), ("abc", True)]:
            for lmk in ([None, 0, 500000] if wide else [None, 500000]):
                lm = None if lmk is None else [lm0.year, lm0.month, lm0.day, lm0.hour, lm0.minute, lm0.second, lmk]
                conds = [("inm", t) for t in ["*", '"abc"', 'W/"abc"', '"xyz"', '"xyz", W/"abc"', "abc"]]
                if et:
                    conds += [("im", t) for t in ["*", '"abc"', '"xyz"']]
                ims = [None, fmt_date(lm0 + timedelta(seconds=-1)), fmt_date(lm0), fmt_date(lm0 + timedelta(seconds=1), 60)]
                for h, t in [(None, None)] + conds:
                    for d in ims:
                        if h is None and d is None:
                            continue
                        for rg in ranges:
                            for n in lengths:
                                for shape, api in (("list", "mc"), ("file", "sf")) if wide else (("list", "mc"),):
                                    if api == "sf" and et and et[1]:
                                        continue
                                    c = {"op": "rc", "api": api, "method": method, "etag": list(et) if et else None, "lm": lm,
                                         "ims": d, "range": rg, "length": n, "shape": shape, "block": 2}
                                    if h:
                                        c[h] = t
                                    cases.append(c)
    return cases


# ---------------------------------------------------------------------------------- growth: validators from real files
import os
import time as _time

FILE_T0 = 1709251198            # 2024-02-29 23:59:58 UTC
_FILE_DEFAULTS = {"op": "file", "api": "sf", "method": "GET", "inm": None, "im": None, "ims": None, "ifr": None, "range": None}


def _utc_tuple(sec: int, us: int):
    dt = datetime.fromtimestamp(sec, tz=timezone.utc)
    return [dt.year, dt.month, dt.day, dt.hour, dt.minute, dt.second, us]


def _set_file(path, size, mtime_s, mtime_us):
    with open(path, "wb") as f:
        f.write(data_of(size))
    ns = mtime_s * 10 ** 9 + mtime_us * 1000
    os.utime(path, ns=(ns, ns))


def _max_age_arg(mode, n):
    if mode == "none":
        return None
    if mode == "int":
        return n
    return lambda path: n


def _file_request(root, name, cfg, state, req, prev):
    """One request against the file root/name in `state` (size, mtime_s, mtime_us); returns the trace line."""
    from werkzeug.exceptions import HTTPException
    from werkzeug.middleware.shared_data import SharedDataMiddleware
    from werkzeug.test import create_environ, run_wsgi_app
    from werkzeug.utils import send_file, send_from_directory

    path = os.path.join(root, name)
    size, mtime_s, mtime_us = state
    r = dict(_FILE_DEFAULTS)
    r.update(req)
    api = cfg["api"]
    env = create_environ("/static/" + name if api == "sdm" else "/", method=r["method"])
    for h in HDRS:
        if r[h] is not None:
            env[ENV[h]] = r[h]
    given_lm = cfg.get("lm_given")            # (sec, us) or None
    eff = given_lm if given_lm else (mtime_s, mtime_us)
    rec = {"op": "file", "api": api, "method": r["method"], "shape": "path", "length": size,
           "etag_mode": cfg["etag_mode"], "etag_given": cps(cfg.get("etag_given") or ""), "lm_mode": "given" if given_lm else "stat",
           "lm": _utc_tuple(*eff), "lm_p": True, "len_known": True, "etag_p": False, "etag_opaque": [], "etag_weak": False,
           "mtime_s": mtime_s, "mtime_us": mtime_us, "max_age_mode": cfg["max_age_mode"], "max_age": cfg.get("max_age") or 0,
           "conditional": bool(cfg.get("conditional", True)), "xsf": bool(cfg.get("xsf")), "path": cps(path),
           "prev_p": prev is not None}
    p = prev or {"etag": [], "etag_n": 0, "lm": [], "size": 0, "mtime_s": 0, "mtime_us": 0}
    rec.update(prev_etag=p["etag"], prev_etag_n=p["etag_n"], prev_lm=p["lm"], prev_size=p["size"], prev_mtime_s=p["mtime_s"],
               prev_mtime_us=p["mtime_us"])
    for h in HDRS:
        rec[h + "_p"] = r[h] is not None
        rec[h] = cps(r[h] or "")
    out = {"status": 0, "exc": "", "body": [], "modified": False}
    names = (("cr", "Content-Range"), ("cl", "Content-Length"), ("r_etag", "ETag"), ("r_lm", "Last-Modified"), ("cc", "Cache-Control"),
             ("exp", "Expires"), ("xsf", "X-Sendfile"))
    for key, _ in names:
        out[key + "_n"] = 0
        out[key if key != "xsf" else "xsf_v"] = []
    rec["t_before"] = int(_time.time())
    try:
        if api == "sdm":
            app = SharedDataMiddleware(lambda e, s: (s("404 NOT FOUND", []), [b""])[1], {"/static": root},
                                       cache=True, cache_timeout=cfg.get("max_age") or 0)
            target = app
        else:
            kw = {"etag": {"auto": True, "off": False, "given": cfg.get("etag_given")}[cfg["etag_mode"]],
                  "max_age": _max_age_arg(cfg["max_age_mode"], cfg.get("max_age") or 0),
                  "conditional": rec["conditional"], "use_x_sendfile": rec["xsf"]}
            if given_lm:
                kw["last_modified"] = given_lm[0] + given_lm[1] / 1e6
            if api == "sfd":
                target = send_from_directory(root, name, env, **kw)
            else:
                target = send_file(path, env, **kw)
        app_iter, status, headers = run_wsgi_app(target, env, buffered=False)
        try:
            body = b"".join(app_iter)
        finally:
            close = getattr(app_iter, "close", None)
            if close:
                close()
        out["status"] = int(status.split(" ", 1)[0])
        out["body"] = list(body)
        for key, hname in names:
            vals = headers.getlist(hname)
            out[key + "_n"] = len(vals)
            out[key if key != "xsf" else "xsf_v"] = cps(vals[0]) if vals else []
    except HTTPException as e:
        out["status"] = int(e.code or 0)
        out["exc"] = type(e).__name__
    except Exception as e:
        out["exc"] = type(e).__name__
    rec["t_after"] = int(_time.time()) + 1
    rec.update(out)
    return rec


CHANGES = ("none", "size", "mtime+1s", "mtime+0.5s-same-second", "mtime+0.5s-next-second", "size+mtime")


def _changed(state, change):
    size, s, us = state
    if change == "none":
        return state
    if change == "size":
        return (size + 1, s, us)
    if change == "mtime+1s":
        return (size, s + 1, us)
    if change == "mtime+0.5s-same-second":      # half a second inside the same second (backwards if necessary)
        return (size, s, us + 500000) if us < 500000 else (size, s, us - 500000)
    if change == "mtime+0.5s-next-second":      # at most half a second later, across the second boundary
        return (size, s + 1, us - 500000) if us >= 500000 else (size, s + 1, 0)
    return (size + 2, s + 3600, us)


def file_scenario(sc, root):
    """sc = {cfg, size, us, change, sent ('inm'|'ims'|'both'), method}: first response, then the request carrying
    its validators against the (possibly changed) file.  Returns the trace lines."""
    cfg = sc["cfg"]
    name = sc.get("name", "data.bin")
    path = os.path.join(root, name)
    st0 = (sc["size"], FILE_T0, sc["us"])
    _set_file(path, *st0)
    l1 = _file_request(root, name, cfg, st0, {"method": "GET"}, None)
    prev = {"etag": l1["r_etag"], "etag_n": l1["r_etag_n"], "lm": l1["r_lm"], "size": st0[0], "mtime_s": st0[1], "mtime_us": st0[2]}
    st1 = _changed(st0, sc["change"])
    _set_file(path, *st1)
    req = {"method": sc.get("method", "GET")}
    txt = lambda cp: "".join(map(chr, cp))
    if sc["sent"] in ("inm", "both") and l1["r_etag_n"]:
        req["inm"] = txt(l1["r_etag"])
    if sc["sent"] in ("ims", "both") and l1["r_lm_n"]:
        req["ims"] = txt(l1["r_lm"])
    if sc.get("range"):
        req["range"] = sc["range"]
    l2 = _file_request(root, name, cfg, st1, req, prev)
    return [l1, l2]


def file_range_lines(root, max_len, apis=("sf", "sfd")):
    """Every range spec of the grammar against real files of length 0..max_len (send_file / send_from_directory)."""
    lines = []
    cfg0 = {"etag_mode": "auto", "max_age_mode": "none"}
    for n in range(0, max_len + 1):
        name = f"r{n}.bin"
        st = (n, FILE_T0, 250000)
        _set_file(os.path.join(root, name), *st)
        for k, rg in enumerate([None] + range_texts(n)):
            api = apis[k % len(apis)]
            method = "HEAD" if k % 7 == 3 else "POST" if k % 11 == 5 else "GET"
            lines.append(_file_request(root, name, dict(cfg0, api=api), st, {"method": method, "range": rg}, None))
    return lines


def file_scenarios(wide=True):
    scs = []
    cfgs = []
    for api in ("sf", "sfd", "sdm"):
        for etag_mode in (("auto", "off", "given") if api != "sdm" else ("auto",)):
            for mam, ma in (("none", 0), ("int", 60), ("int", 0), ("callable", 3600)) if api != "sdm" else (("int", 43200), ("int", 0)):
                for lm_given in ((None, (FILE_T0 - 86400, 500000)) if api != "sdm" and wide else (None,)):
                    cfgs.append({"api": api, "etag_mode": etag_mode, "etag_given": "v-1", "max_age_mode": mam, "max_age": ma,
                                 "lm_given": lm_given})
    for cfg in cfgs:
        for change in CHANGES:
            for sent in ("inm", "ims", "both"):
                if sent == "inm" and cfg["etag_mode"] == "off":
                    continue
                for us in ((250000, 750000, 0) if wide else (750000,)):
                    for method in (("GET", "HEAD") if wide else ("GET",)):
                        scs.append({"cfg": cfg, "size": 3, "us": us, "change": change, "sent": sent, "method": method})
    # conditional off / x-sendfile / range carried with validators
    for api in ("sf", "sfd"):
        base = {"api": api, "etag_mode": "auto", "max_age_mode": "none"}
        for change in ("none", "mtime+1s"):
            for sent in ("inm", "ims", "both"):
                scs.append({"cfg": dict(base, conditional=False), "size": 4, "us": 0, "change": change, "sent": sent, "range": "bytes=1-2"})
                scs.append({"cfg": dict(base, xsf=True), "size": 4, "us": 0, "change": change, "sent": sent})
                for rg in ("bytes=1-2", "bytes=-1", "bytes=9-", "bytes=0-0,2-2"):
                    scs.append({"cfg": base, "size": 4, "us": 250000, "change": change, "sent": sent, "range": rg})
    return scs


def run_file_scenarios(scs):
    """Execute scenarios in a private temporary tree; returns lists of lines (one list per scenario)."""
    import tempfile

    out = []
    with tempfile.TemporaryDirectory(prefix="verif-c11-files-", dir=os.environ.get("VERIF_TMP", "/var/tmp")) as root:
        for sc in scs:
            out.append(file_scenario(sc, root))
    return out


def run_file_ranges(max_len):
    import tempfile

    with tempfile.TemporaryDirectory(prefix="verif-c11-files-", dir=os.environ.get("VERIF_TMP", "/var/tmp")) as root:
        return file_range_lines(root, max_len)


def file_case(sc):
    """One judged line per scenario: the request that carries the first response's validators
    (or, with first=True, the first response itself)."""
    import tempfile

    with tempfile.TemporaryDirectory(prefix="verif-c11-files-", dir=os.environ.get("VERIF_TMP", "/var/tmp")) as root:
        l1, l2 = file_scenario(sc, root)
    return l1 if sc.get("first") else l2


def filerange_case(c):
    import tempfile

    with tempfile.TemporaryDirectory(prefix="verif-c11-files-", dir=os.environ.get("VERIF_TMP", "/var/tmp")) as root:
        st = (c["length"], FILE_T0, 250000)
        _set_file(os.path.join(root, "r.bin"), *st)
        return _file_request(root, "r.bin", {"api": c["api"], "etag_mode": "auto", "max_age_mode": "none"}, st,
                             {"method": c["method"], "range": c["range"]}, None)


def filerange_cases(max_len, apis=("sf", "sfd")):
    cases = []
    for n in range(0, max_len + 1):
        for k, rg in enumerate([None] + range_texts(n)):
            cases.append({"op": "filerange", "api": apis[k % len(apis)], "length": n, "range": rg,
                          "method": "HEAD" if k % 7 == 3 else "POST" if k % 11 == 5 else "GET"})
    return cases


def filesc_cases(wide=True):
    scs = file_scenarios(wide)
    out = [dict(sc, op="filesc") for sc in scs]
    seen = set()
    for sc in scs:                     # the first responses, once per configuration
        k = repr((sorted(sc["cfg"].items(), key=str), sc["us"]))
        if k not in seen:
            seen.add(k)
            out.append(dict(sc, op="filesc", first=True, change="none"))
    return out


# ---------------------------------------------------------------------------------- growth: add_etag / set_etag / get_etag / freeze
def _chunks(data: bytes, cuts):
    out, p = [], 0
    for n in cuts:
        out.append(data[p:p + n])
        p += n
    out.append(data[p:])
    return out


def etag_case(c):
    """c = {via, weak, overwrite, preset, body1, body2 (lists of ints), cuts1, cuts2, given1, given2, gen}."""
    from werkzeug.test import create_environ, run_wsgi_app
    from werkzeug.wrappers import Response

    rec = {"op": "etag", "api": "mc", "via": c["via"], "weak": bool(c.get("weak")), "overwrite": bool(c.get("overwrite")),
           "preset": bool(c.get("preset")), "body1": list(c["body1"]), "body2": list(c["body2"]),
           "given1": cps(c.get("given1") or ""), "given2": cps(c.get("given2") or ""),
           "tag1": [], "tag2": [], "get1_none": True, "get1_opaque": [], "get1_weak": False, "status_inm": 0, "status_im": 0,
           "out_inm": [], "exc": "", "status": 0}

    def build(body, cuts, given):
        parts = _chunks(bytes(body), cuts)
        r = Response((p for p in parts) if c.get("gen") else parts, mimetype="application/octet-stream")
        if c.get("preset"):
            r.set_etag("preset")
        if c["via"] == "add_etag":
            r.add_etag(overwrite=bool(c.get("overwrite")), weak=bool(c.get("weak")))
        elif c["via"] == "freeze":
            r.freeze()
        else:
            r.set_etag(given, weak=bool(c.get("weak")))
        return r

    try:
        r1 = build(c["body1"], c.get("cuts1") or [], c.get("given1") or "")
        rec["tag1"] = cps(r1.headers.get("ETag", ""))
        g = r1.get_etag()
        rec["get1_none"] = g[0] is None
        rec["get1_opaque"] = cps(g[0] or "")
        rec["get1_weak"] = bool(g[1])
        for hdr, key in (("HTTP_IF_NONE_MATCH", "status_inm"), ("HTTP_IF_MATCH", "status_im")):
            r2 = build(c["body2"], c.get("cuts2") or [], c.get("given2") or "")
            rec["tag2"] = cps(r2.headers.get("ETag", ""))
            env = create_environ("/", method="GET")
            env[hdr] = r1.headers.get("ETag", "")
            r2.make_conditional(env)
            app_iter, status, headers = run_wsgi_app(r2, env, buffered=False)
            body = b"".join(app_iter)
            getattr(app_iter, "close", lambda: None)()
            rec[key] = int(status.split(" ", 1)[0])
            if key == "status_inm":
                rec["out_inm"] = list(body)
        rec["status"] = rec["status_inm"]
    except Exception as e:
        rec["exc"] = type(e).__name__
    return rec


def etag_cases(wide=True, rng=None):
    bodies = [[], [97], [97, 98], [98, 97], [97, 98, 99, 100], [97, 98, 99, 101], [0], [0, 0], [255, 254, 10, 13]]
    if not wide:
        bodies = bodies[:6]
    cases = []
    for via in ("add_etag", "freeze", "set_etag"):
        for weak in (False, True):
            if via == "freeze" and weak:
                continue
            for preset in (False, True):
                for overwrite in ((False, True) if via == "add_etag" and preset else (False,)):
                    if via == "set_etag" and preset and not wide:
                        continue
                    for b1 in bodies:
                        for b2 in bodies:
                            if not wide and b1 != b2 and (len(b1) + len(b2)) % 2:
                                continue
                            for cuts in ([[], [1], [0, 1]] if wide else [[1]]):
                                for g1, g2 in ((("v1", "v1"), ("v1", "v2"), ("a,b", "a,b")) if via == "set_etag" else ((None, None),)):
                                    cases.append({"op": "etag", "via": via, "weak": weak, "preset": preset, "overwrite": overwrite,
                                                  "body1": b1, "body2": b2, "cuts1": [], "cuts2": [k for k in cuts if k <= len(b2)],
                                                  "given1": g1, "given2": g2, "gen": len(cuts) == 2})
    if rng is not None:
        for _ in range(2000 if wide else 200):
            n = rng.randint(0, 12)
            b1 = [rng.randint(0, 255) for _ in range(n)]
            b2 = list(b1)
            if rng.random() < 0.5 and n:
                b2[rng.randrange(n)] ^= 1 << rng.randrange(8)
            cases.append({"op": "etag", "via": rng.choice(["add_etag", "freeze"]), "weak": False, "preset": False, "overwrite": False,
                          "body1": b1, "body2": b2, "cuts1": sorted(rng.sample(range(n + 1), min(2, n + 1)))[:1],
                          "cuts2": [rng.randint(0, n)], "gen": rng.random() < 0.5})
    return cases


# ---------------------------------------------------------------------------------- response classes / pre-set headers
def _response_class(flags):
    """A Response subclass that sets the documented class attributes as `flags` says."""
    from werkzeug.wrappers import Response

    attrs = {}
    if "ascl" in flags:
        attrs["automatically_set_content_length"] = bool(flags["ascl"])
    if "isc" in flags:
        attrs["implicit_sequence_conversion"] = bool(flags["isc"])
    if flags.get("default_mimetype"):
        attrs["default_mimetype"] = flags["default_mimetype"]
    if flags.get("default_status"):
        attrs["default_status"] = 200
    return type("VerifResponse", (Response,), attrs)


CLS_VARIANTS = [{}, {"ascl": False}, {"isc": False}, {"ascl": False, "isc": False}, {"default_mimetype": "text/html"},
                {"ascl": False, "default_mimetype": "application/json"}, {"isc": False, "default_mimetype": "text/plain"}]


def preset_cases(lengths=(1, 3), wide=True, rng=None):
    """make_conditional / send_file(response_class=..) with Response subclasses (class attributes set differently) and with
    responses that already carry Content-Length (complete representation), Content-Range, Accept-Ranges, ETag /
    Last-Modified before the call (op "pre", clauses Preset/..)."""
    cases = []
    lm0 = BASE
    lm = [lm0.year, lm0.month, lm0.day, lm0.hour, lm0.minute, lm0.second, 0]
    for n in lengths:
        ranges = [None, "bytes=0-0", "bytes=1-", "bytes=-1", f"bytes=0-{n + 3}", f"bytes={n - 1}-{n - 1}", "bytes=9-", "bytes=0-0,2-2", "bytes=x"]
        if not wide:
            ranges = ranges[:5] + ranges[6:7]
        pres = [{"cl": True}, {"cr": f"bytes 0-{n - 1}/{n}"}, {"cl": True, "cr": "bytes */%d" % n, "ar": "none"}, {"ar": "bytes"},
                {"cl": True, "ar": "bytes", "via": "ctor"}, {}]
        if wide:
            pres += [{"cr": "bytes 0-0/99"}, {"cl": True, "cr": f"bytes 0-{n - 1}/{n}", "ar": "bytes"}, {"via": "ctor"}]
        variants = CLS_VARIANTS if wide else CLS_VARIANTS[:4] + CLS_VARIANTS[5:6]
        for ci, cls in enumerate(variants):
            for pi, pre in enumerate(pres):
                if not cls and not pre:
                    continue
                for shape in SHAPES:
                    for ri, rg in enumerate(ranges):
                        for method in (("GET", "HEAD", "POST") if wide and ri in (1, 2) else ("GET",)):
                            c = {"op": "pre", "api": "mc", "method": method, "range": rg, "length": n, "shape": shape, "block": 2,
                                 "cls": dict(cls), "pre": dict(pre)}
                            k = (ci + pi + ri) % 4
                            if k == 1 or pre.get("via") == "ctor":
                                c.update(etag=["abc", False], lm=lm)
                                if ri % 3 == 0 and rg is not None:
                                    c["ifr"] = tag_text("abc", False) if ri % 2 else tag_text("xyz", False)
                                elif ri % 3 == 1:
                                    c["inm"] = tag_text("abc", ri % 2 == 0) if (ci + pi) % 2 else tag_text("xyz", False)
                            cases.append(c)
        # send_file(response_class=..): Content-Length of the whole file is set before make_conditional
        for cls in variants:
            for shape in ("file",):
                for rg in ranges:
                    for method in ("GET", "HEAD"):
                        cases.append({"op": "pre", "api": "sf", "method": method, "range": rg, "length": n, "shape": shape, "block": 2,
                                      "cls": dict(cls), "pre": {}})
    if rng is not None:
        for _ in range(3000 if wide else 300):
            c = random_case(rng, max_len=12)
            if c["api"] == "sf" and c["shape"] == "pipe":
                c["api"] = "mc"
            n = c["length"]
            c.update(op="pre", cls=dict(rng.choice(CLS_VARIANTS)),
                     pre={} if c["api"] == "sf" else rng.choice([{"cl": True}, {"cl": True, "ar": "bytes"}, {"cr": f"bytes 0-{max(n, 1) - 1}/{n}"},
                                                                 {"cl": True, "cr": "bytes */7"}, {"via": "ctor"}, {}]))
            cases.append(c)
    return cases


def stream_cases(lengths=(1, 4, 9), blocks=(1, 3, 8192), wide=True):
    """206 (and 200 / 416) responses over wrap_file() around io objects of every seekability kind (op "stream",
    clauses Stream/..): make_conditional with the true length, and send_file over the same objects."""
    cases = []
    for n in lengths:
        ranges = ["bytes=0-0", "bytes=1-", "bytes=-1", f"bytes=0-{n + 3}", f"bytes={n - 1}-", f"bytes={max(n - 2, 0)}-{n - 1}", "bytes=-2",
                  f"bytes=0-{n - 1}", None, "bytes=99-", "bytes=0-0,2-2"]
        if n > 3:
            ranges += ["bytes=2-3", "bytes=3-", f"bytes=1-{n - 2}", "bytes=-3"]
        if not wide:
            ranges = ranges[:7] + ranges[11:13]
        for kind in STREAM_KINDS:
            for b in blocks:
                for rg in ranges:
                    cases.append({"op": "stream", "api": "mc", "method": "GET", "range": rg, "length": n, "shape": kind, "block": b})
    return cases
