"""Drivers / recorders for C04 (URL building and matching are mutually inverse).

A *case* is a JSON value {map, bind, ep, vals, ext} in the vocabulary of spec/routing/RoutingBuild.tla
(texts as code point lists, values as typed texts).  `run_case` builds the real werkzeug Map from it,
calls MapAdapter.build, delivers the URL the way a WSGI server would (own host for relative URLs, script
root stripped, path percent-decoded, latin-1 "WSGI dance"), matches it (same adapter and through
Map.bind_to_environ), rebuilds, and then walks mutated neighbours of the delivered path for the
converse law.  It only records; RoutingBuildTrace.tla judges.
"""
from __future__ import annotations

import random
import uuid as _uuid
import warnings

from .core import cps


def txt(a) -> str:
    return "".join(chr(c) for c in a)


# ------------------------------------------------------------------ case -> real objects
def to_py(x):
    t = x["ty"]
    if t == "str":
        return txt(x["v"])
    if t == "int":
        return int(txt(x["v"]))
    if t == "float":
        return float(txt(x["v"]))
    if t == "uuid":
        return _uuid.UUID(txt(x["v"]))
    if t == "list":
        return [txt(i) for i in x["items"]]
    raise ValueError(t)


def enc_val(name: str, v) -> dict:
    if type(v) is str:
        ty, s = "str", v
    elif type(v) is int:
        ty, s = "int", str(v)
    elif type(v) is float:
        ty, s = "float", repr(v)
    elif isinstance(v, _uuid.UUID):
        ty, s = "uuid", str(v)
    else:
        ty, s = "other", type(v).__name__ + ":" + repr(v)
    return {"name": cps(name), "ty": ty, "v": cps(s), "items": []}


def conv_spec(c) -> str:
    k = c["k"]
    if k == "string":
        if c["c"]:
            return f"string(length={c['c']})"
        args = []
        if c["a"] != 1:
            args.append(f"minlength={c['a']}")
        if c["b"]:
            args.append(f"maxlength={c['b']}")
        return "string" + (f"({', '.join(args)})" if args else "")
    if k in ("int", "float"):
        args = []
        if k == "int" and c["a"]:
            args.append(f"fixed_digits={c['a']}")
        if c["signed"]:
            args.append("signed=True")
        return k + (f"({', '.join(args)})" if args else "")
    if k == "any":
        return "any(" + ", ".join('"' + txt(i) + '"' for i in c["items"]) + ")"
    return k


def rule_string(r, skip=0) -> str:
    out = []
    for s in r["segs"][skip:]:
        if s["k"] == "lit":
            out.append("/" + txt(s["t"]))
        else:
            out.append("/" + txt(s["pre"]) + f"<{conv_spec(s['conv'])}:{txt(s['name'])}>" + txt(s["post"]))
    return "".join(out) + ("/" if r["branch"] else "")


def mk_map(m):
    from werkzeug.routing import Map, Rule, Subdomain, Submount

    facs = []
    for r in m["rules"]:
        kw = {"endpoint": f"e{r['ep']}"}
        if r["defaults"]:
            kw["defaults"] = {txt(d["name"]): to_py(d) for d in r["defaults"]}
        dom = txt(r["dom"])
        via = r.get("via", "plain")
        if m["host_matching"]:
            kw["host"] = dom
        elif dom and via != "subdomain":
            kw["subdomain"] = dom
        if via == "submount" and len(r["segs"]) > 1 and r["segs"][0]["k"] == "lit":
            f = Submount("/" + txt(r["segs"][0]["t"]), [Rule(rule_string(r, 1) or "/", **kw)])
        else:
            f = Rule(rule_string(r), **kw)
        if via == "subdomain" and not m["host_matching"]:
            f = Subdomain(dom, [f])
        facs.append(f)
    return Map(facs, host_matching=m["host_matching"], redirect_defaults=m["redirect_defaults"])


def bind(mp, m, b):
    return mp.bind(txt(b["server"]), txt(b["script"]), None if m["host_matching"] else (txt(b["sub"]) or None), txt(b["scheme"]))


def observe_match(fn):
    from werkzeug.exceptions import MethodNotAllowed, NotFound
    from werkzeug.routing import RequestRedirect

    try:
        with warnings.catch_warnings():
            warnings.simplefilter("ignore")
            ep, vals = fn()
    except RequestRedirect:
        return {"kind": "redirect", "ep": -1, "vals": []}
    except NotFound:
        return {"kind": "notfound", "ep": -1, "vals": []}
    except MethodNotAllowed:
        return {"kind": "mna", "ep": -1, "vals": []}
    except Exception as e:  # noqa: BLE001 - recorded, judged
        return {"kind": "exc:" + type(e).__name__, "ep": -1, "vals": []}
    epn = int(ep[1:]) if isinstance(ep, str) and ep[1:].isdigit() else -2
    return {"kind": "match", "ep": epn, "vals": [enc_val(k, v) for k, v in sorted(vals.items())], "_py": (ep, vals)}


def deliver(url: str, own_host: str, script: str):
    """What a server hands to the application: (host, PATH_INFO text or None, QUERY_STRING, scheme)."""
    from urllib.parse import unquote_to_bytes

    scheme = ""
    host = own_host
    rest = url
    for sch in ("http://", "https://"):
        if url.startswith(sch):
            scheme = sch[:-3]
            host, _, tail = url[len(sch):].partition("/")
            rest = url[len(sch) + len(host):]
    rest = rest.split("#", 1)[0]
    rawpath, _, query = rest.partition("?")
    root = script[:-1] if script.endswith("/") else script
    if not rawpath.startswith(root + "/"):
        return host, None, query, scheme, root
    raw = unquote_to_bytes(rawpath[len(root):])
    return host, raw, query, scheme, root


def _dec(raw: bytes) -> str:
    return raw.decode("utf-8", "replace")


def environ_for(host, raw: bytes, query: str, scheme: str, root: str):
    name, _, port = host.partition(":")
    return {"REQUEST_METHOD": "GET", "SCRIPT_NAME": root, "PATH_INFO": raw.decode("latin-1"), "QUERY_STRING": query,
            "SERVER_NAME": name, "SERVER_PORT": port or ("443" if scheme == "https" else "80"), "HTTP_HOST": host,
            "wsgi.url_scheme": scheme or "http", "SERVER_PROTOCOL": "HTTP/1.1"}


NOMATCH = {"kind": "skip", "ep": -1, "vals": []}


def _pub(o):
    return {k: v for k, v in o.items() if not k.startswith("_")}


def mutate_paths(rng: random.Random, p: str, n: int):
    out = [p, p + "/", p.rstrip("/") or "/"]
    for _ in range(n):
        q = list(p)
        how = rng.randrange(7)
        i = rng.randrange(len(q) + 1)
        if how == 0:
            q.insert(i, "0")
        elif how == 1 and q:
            del q[min(i, len(q) - 1)]
        elif how == 2:
            q = list(p.upper())
        elif how == 3:
            q.insert(i, rng.choice("a-/.% é\n1"))
        elif how == 4:  # leading zero in front of a digit run
            ds = [j for j, c in enumerate(q) if c.isdigit() and (j == 0 or not q[j - 1].isdigit())]
            if ds:
                q.insert(rng.choice(ds), "0")
        elif how == 5:
            q.append("0")
        else:
            ds = [j for j, c in enumerate(q) if c == "/"]
            if ds:
                q.insert(rng.choice(ds), "/")
        out.append("".join(q))
    seen, res = set(), []
    for x in out:
        if x not in seen and x.startswith("/"):
            seen.add(x)
            res.append(x)
    return res


def run_case(case) -> list[dict]:
    """Execute one case on the real code; returns trace lines (without t / i)."""
    from werkzeug.wrappers import Request

    m, b = case["map"], case["bind"]
    base = {"map": m, "bind": b}
    mp = mk_map(m)
    ad = bind(mp, m, b)
    ep = f"e{case['ep']}"
    values = {txt(x["name"]): to_py(x) for x in case["vals"]}
    ext = bool(case["ext"])
    line = dict(base, op="rt", ep=case["ep"], vals=case["vals"], ext=ext, url=[], exc="", under=False, dhost=[], dpath=[], dquery=[],
                m=_pub(NOMATCH), e=_pub(NOMATCH), qargs=[], rebuilt=[], rb_exc="")
    lines = [line]
    try:
        url = ad.build(ep, values, force_external=ext)
    except Exception as e:  # noqa: BLE001
        line["exc"] = type(e).__name__
        return lines
    line["url"] = cps(url)
    own = ad.get_host(None)
    host, raw, query, scheme, root = deliver(url, own, ad.script_name)
    line["dhost"], line["dquery"] = cps(host), cps(query)
    if raw is None:
        return lines
    line["under"] = True
    dpath = _dec(raw)
    line["dpath"] = cps(dpath)
    if not scheme:
        line["m"] = _pub(observe_match(lambda: ad.match(dpath)))
    env = environ_for(host, raw, query, scheme or txt(b["scheme"]), root)

    def via_environ():
        with warnings.catch_warnings():
            warnings.simplefilter("ignore")
            a2 = mp.bind_to_environ(env, server_name=None if m["host_matching"] else txt(b["server"]))
        return a2.match()

    eobs = observe_match(via_environ)
    line["e"] = _pub(eobs)
    try:
        line["qargs"] = [[cps(k), cps(v)] for k, v in Request(env).args.items(multi=True)]
    except Exception as e:  # noqa: BLE001
        line["qargs"] = [[cps("!exc"), cps(type(e).__name__)]]
    if eobs["kind"] == "match":
        try:
            line["rebuilt"] = cps(ad.build(eobs["_py"][0], eobs["_py"][1], force_external=ext))
        except Exception as e:  # noqa: BLE001
            line["rb_exc"] = type(e).__name__
    # ---- converse: neighbours of the delivered path, on an adapter bound where the URL lives
    npaths = case.get("npaths", 0)
    if npaths and eobs["kind"] == "match":
        rng = random.Random(case.get("pseed", 0))
        if m["host_matching"]:
            b2 = dict(b, server=cps(host), sub=[])
        else:
            srv = txt(b["server"])
            sub = host[: -len(srv) - 1] if host.endswith("." + srv) else ""
            b2 = dict(b, sub=cps(sub))
        ad2 = bind(mp, m, b2)
        for p in mutate_paths(rng, dpath, npaths):
            ln = dict(map=m, bind=b2, op="conv", path=cps(p), m=_pub(NOMATCH), rebuilt=[], rb_exc="", under=False, d2path=[], rm=_pub(NOMATCH))
            lines.append(ln)
            o = observe_match(lambda: ad2.match(p))
            ln["m"] = _pub(o)
            if o["kind"] != "match":
                continue
            try:
                u2 = ad2.build(o["_py"][0], o["_py"][1])
            except Exception as e:  # noqa: BLE001
                ln["rb_exc"] = type(e).__name__
                continue
            ln["rebuilt"] = cps(u2)
            h2, raw2, _q2, sch2, _root = deliver(u2, ad2.get_host(None), ad2.script_name)
            if raw2 is None or sch2:
                continue
            ln["under"] = True
            ln["d2path"] = cps(_dec(raw2))
            ln["rm"] = _pub(observe_match(lambda: ad2.match(_dec(raw2))))
    return lines


# ------------------------------------------------------------------ random cases
POOLS = ["abcXYZ", "019", " ", ";?#%&+=", "%41%2F%", "!$'()*,:@", "éß€ÿ", "\U00010000😀", "\n\r\t\x00\x7f", "-_.~", "|\\^`{}[]\"<>", " \xa0"]
LITPOOLS = ["abcxyz", "AB019", " ", ";%&+=", "!$'*,:@()", "é€", "-_.~", "😀"]


TOKENS = ["%41", "%2F", "%0a", "%25", "%C3%A9", "%zz", "+", "%20"]


def gen_text(rng, lo=1, hi=6, pools=POOLS, banned="/"):
    n = rng.randint(lo, hi)
    out = []
    while len(out) < n:
        if pools is POOLS and rng.random() < 0.08:
            out.extend(c for c in rng.choice(TOKENS) if c not in banned)
            continue
        c = rng.choice(rng.choice(pools))
        if rng.random() < 0.05:
            c = chr(rng.choice([rng.randrange(0, 0xD800), rng.randrange(0xE000, 0x110000)]))
        if c not in banned:
            out.append(c)
    return "".join(out[:n])


def V(ty, s):
    return {"ty": ty, "v": cps(s), "items": []}


def gen_conv(rng, allow_path=True):
    k = rng.choice(["string", "string", "int", "int", "float", "any", "uuid"] + (["path", "path"] if allow_path else []))
    c = {"k": k, "a": 0, "b": 0, "c": 0, "signed": False, "items": []}
    if k == "string":
        c["a"] = 1
        o = rng.randrange(4)
        if o == 1:
            c["c"] = rng.randint(1, 4)
        elif o == 2:
            c["a"] = rng.randint(1, 3)
            c["b"] = c["a"] + rng.randint(0, 3)
        elif o == 3:
            c["a"] = rng.randint(2, 3)
    elif k == "int":
        c["a"] = rng.choice([0, 0, 2, 3, 5])
        c["signed"] = rng.random() < 0.4
    elif k == "float":
        c["signed"] = rng.random() < 0.4
    elif k == "any":
        items = []
        while len(items) < rng.randint(1, 3):
            t = gen_text(rng, 1, 4, banned='/")\\<>\n')
            if t not in items:
                items.append(t)
        c["items"] = [cps(t) for t in items]
    return c


def gen_value(rng, c):
    k = c["k"]
    if k == "string":
        if c["c"]:
            lo = hi = c["c"]
        else:
            lo, hi = c["a"], (c["b"] or c["a"] + 5)
        return V("str", gen_text(rng, lo, hi))
    if k == "path":
        segs = [gen_text(rng, 1, 4) for _ in range(rng.randint(1, 3))]
        return V("str", rng.choice(["/", "/", "/", "//"]).join(segs) if rng.random() < 0.15 else "/".join(segs))
    if k == "any":
        return V("str", txt(rng.choice(c["items"])))
    if k == "int":
        w = c["a"] or rng.choice([1, 1, 2, 4, 9, 12, 20])
        neg = c["signed"] and rng.random() < 0.5
        w = max(1, w - (1 if neg and c["a"] else 0))
        n = rng.randrange(10 ** rng.randint(1, w)) if rng.random() < 0.9 else 0
        return V("int", str(-n if neg else n))
    if k == "float":
        s = f"{rng.randrange(10 ** rng.randint(1, 6))}.{rng.randrange(10 ** rng.randint(1, 5))}"
        f = float(s)
        if c["signed"] and rng.random() < 0.5:
            f = -f
        return V("float", repr(f))
    return V("uuid", str(_uuid.UUID(int=rng.getrandbits(128))))


DUMMY = {"k": "string", "a": 1, "b": 0, "c": 0, "signed": False, "items": []}
NAMES = ["x", "y", "page", "lang_code", "id2"]
EXTRA_NAMES = ["q", "z", "sort", "é", "a b"]


PERMS = [(0, 1, 2), (0, 2, 1), (1, 0, 2), (1, 2, 0), (2, 0, 1), (2, 1, 0)]


def gen_group_case(rng, seed: int) -> dict:
    """One endpoint served by three rules that share two arguments and carry 2, 1 and 0 defaults
    (/A {x, y}; /B/<x> {y}; /C/<y>/<x>), declared in the order PERMS[seed % 6] among unrelated rules;
    built with each argument absent / equal to the default / different."""
    hm = rng.random() < 0.15
    server = rng.choice(["example.com", "example.com:8080", "localhost"])
    dom = rng.choice([server, "o.example"]) if hm else rng.choice(["", "api", "www"])
    nx, ny = rng.sample(NAMES, 2)
    cx, cy = gen_conv(rng, True), gen_conv(rng, False)
    dx, dy = gen_value(rng, cx), gen_value(rng, cy)
    firsts = []
    while len(firsts) < 4:
        f = gen_text(rng, 1, 4, pools=LITPOOLS, banned="/<>|")
        if f not in firsts and f not in (".", ".."):
            firsts.append(f)

    def lit(t):
        return {"k": "lit", "t": cps(t), "pre": [], "name": [], "conv": DUMMY, "post": []}

    def var(n, c):
        return {"k": "var", "t": [], "pre": [], "name": cps(n), "conv": c, "post": []}

    def rule(ep, segs, defaults, via="plain"):
        return {"ep": ep, "segs": segs, "branch": rng.random() < 0.4, "defaults": defaults, "dom": cps(dom), "via": via}

    group = [rule(1, [lit(firsts[0])], [dict(dx, name=cps(nx)), dict(dy, name=cps(ny))]),
             rule(1, [lit(firsts[1]), var(nx, cx)], [dict(dy, name=cps(ny))], rng.choice(["plain", "submount"])),
             rule(1, [lit(firsts[2]), var(ny, cy), var(nx, cx)], [], rng.choice(["plain", "submount", "subdomain"]))]
    if rng.random() < 0.3:   # the middle rule keeps the other argument instead
        group[1] = rule(1, [lit(firsts[1]), var(ny, cy)], [dict(dx, name=cps(nx))])
    rules = [group[i] for i in PERMS[seed % 6]]
    if rng.random() < 0.4:
        rules.insert(rng.randrange(4), rule(2, [lit(firsts[3]), var(nx, gen_conv(rng, True))], []))
    other_x, other_y = gen_value(rng, cx), gen_value(rng, cy)
    mx, my = rng.choice([(0, 0), (0, 1), (1, 0), (1, 1), (1, 2), (2, 0), (2, 1), (2, 2), (2, 2)])   # 0 absent, 1 default, 2 other
    if group[1]["segs"][1]["name"] == cps(ny) and (mx, my) in ((1, 0), (2, 0)):
        mx, my = my, mx   # only the argument in the middle rule's URL may be given alone
        if mx == 0 and my == 2:
            pass
    vals = []
    if mx:
        vals.append(dict(dx if mx == 1 else other_x, name=cps(nx)))
    if my:
        vals.append(dict(dy if my == 1 else other_y, name=cps(ny)))
    rng.shuffle(vals)
    if rng.random() < 0.2:
        vals.append(dict(V("str", gen_text(rng, 0, 4, banned="")), name=cps("q")))
    m = {"rules": rules, "host_matching": hm, "redirect_defaults": True}
    b = {"server": cps(server), "script": cps(rng.choice(["/", "/app", "/app/"])), "sub": cps("" if hm else rng.choice(["", dom])),
         "scheme": cps(rng.choice(["http", "https"]))}
    return {"map": m, "bind": b, "ep": 1, "vals": vals, "ext": rng.random() < 0.2, "npaths": 4, "pseed": seed}


def gen_case(seed: int) -> dict:
    rng = random.Random(seed)
    if rng.random() < 0.25:
        return gen_group_case(rng, seed)
    hm = rng.random() < 0.2
    server = rng.choice(["example.com", "example.com", "example.com:8080", "localhost"])
    subs = ["", "api", "www", "a.b"]
    hosts = [server, "o.example", "h2.example:81"]
    nrules = rng.choice([1, 1, 2, 3, 4])
    rules, firsts = [], set()
    ep_of = []
    while len(rules) < nrules:
        first = gen_text(rng, 1, 4, pools=LITPOOLS, banned="/<>|")
        dom = rng.choice(hosts) if hm else rng.choice(subs)
        if (dom, first) in firsts or first in (".", ".."):
            continue
        firsts.add((dom, first))
        segs = [{"k": "lit", "t": cps(first), "pre": [], "name": [], "conv": DUMMY, "post": []}]
        names = rng.sample(NAMES, 3)
        have_path = False
        for j in range(rng.choice([0, 1, 1, 1, 2, 3])):
            if have_path or rng.random() < 0.25:
                segs.append(dict(segs[0], t=cps(gen_text(rng, 1, 3, pools=LITPOOLS, banned="/<>|"))))
            else:
                c = gen_conv(rng, True)
                have_path = c["k"] == "path"
                pre = gen_text(rng, 1, 2, pools=LITPOOLS, banned="/<>|") if rng.random() < 0.2 else ""
                post = gen_text(rng, 1, 2, pools=LITPOOLS, banned="/<>|") if rng.random() < 0.2 else ""
                segs.append({"k": "var", "t": [], "pre": cps(pre), "name": cps(names[len([s for s in segs if s['k'] == 'var'])]), "conv": c, "post": cps(post)})
        rule = {"ep": len(rules) + 1, "segs": segs, "branch": rng.random() < 0.4, "defaults": [], "dom": cps(dom),
                "via": rng.choice(["plain", "plain", "submount", "subdomain"])}
        if rng.random() < 0.2:  # an extra default that is not part of the URL
            rule["defaults"].append(dict(V(rng.choice(["str", "int"]), "7"), name=cps("kind")))
        rules.append(rule)
        # the classic defaults pair: a short rule carrying the default of the last variable of a long one
        vs = [s for s in segs if s["k"] == "var"]
        if vs and vs[-1] is segs[-1] and not rule["defaults"] and rng.random() < 0.35 and len(rules) < 5:
            f2 = first + "d"
            if (dom, f2) not in firsts:
                firsts.add((dom, f2))
                dv = gen_value(rng, vs[-1]["conv"])
                short = {"ep": rule["ep"], "segs": [dict(segs[0], t=cps(f2))] + segs[1:-1], "branch": True,
                         "defaults": [dict(dv, name=vs[-1]["name"])], "dom": cps(dom), "via": "plain"}
                if rng.random() < 0.5:
                    rules.insert(len(rules) - 1, short)
                else:
                    rules.append(short)
    m = {"rules": rules, "host_matching": hm, "redirect_defaults": True}
    b = {"server": cps(server), "script": cps(rng.choice(["/", "/app", "/app/"]) if rng.random() < 0.9 else "/a/b"),
         "sub": cps("" if hm else rng.choice(subs)), "scheme": cps(rng.choice(["http", "http", "https"]))}
    target = rng.choice(rules)
    vals = []
    given_default = rng.random() < 0.5
    pair = [r for r in rules if r["ep"] == target["ep"]]
    long = max(pair, key=lambda r: len([s for s in r["segs"] if s["k"] == "var"]))
    short = [r for r in pair if r is not long]
    for s in long["segs"]:
        if s["k"] == "var":
            vals.append(dict(gen_value(rng, s["conv"]), name=s["name"]))
    if short and vals:
        d = short[0]["defaults"][0]
        mode = rng.randrange(3)
        if mode == 0:
            vals = vals[:-1]            # not given: the short rule supplies the default
        elif mode == 1:
            vals[-1] = dict(d)          # given, equal to the default
    if long["defaults"] and long["defaults"][0]["name"] == cps("kind") and given_default:
        vals.append(dict(long["defaults"][0]))
    rng.shuffle(vals)
    for _ in range(rng.choice([0, 0, 0, 1, 2])):
        n = rng.choice(EXTRA_NAMES)
        if any(txt(v["name"]) == n for v in vals):
            continue
        o = rng.randrange(3)
        if o == 0:
            vals.append({"name": cps(n), "ty": "list", "v": [], "items": [cps(gen_text(rng, 0, 4, banned="")) for _ in range(rng.randint(0, 3))]})
        elif o == 1:
            vals.append(dict(V("int", str(rng.randrange(-50, 5000))), name=cps(n)))
        else:
            vals.append(dict(V("str", gen_text(rng, 0, 5, banned="")), name=cps(n)))
    return {"map": m, "bind": b, "ep": target["ep"], "vals": vals, "ext": rng.random() < 0.3, "npaths": 4, "pseed": seed}


def sweep_cases(points) -> list[dict]:
    """length-1..2 values around every code point of interest, for string / path / any converters"""
    out = []
    for cp in points:
        ch = chr(cp)
        for k in ("string", "path", "any"):
            for text in (ch, "a" + ch + "b"):
                if k != "path" and "/" in text:
                    continue
                if k == "path" and (text.startswith("/") or text.endswith("/")):
                    continue
                if k == "any" and ch in '"\\\n)<>':
                    continue
                c = {"k": k, "a": 1 if k == "string" else 0, "b": 0, "c": 0, "signed": False, "items": [cps(text)] if k == "any" else []}
                seg0 = {"k": "lit", "t": cps("s"), "pre": [], "name": [], "conv": DUMMY, "post": []}
                seg1 = {"k": "var", "t": [], "pre": [], "name": cps("x"), "conv": c, "post": []}
                rule = {"ep": 1, "segs": [seg0, seg1], "branch": False, "defaults": [], "dom": [], "via": "plain"}
                out.append({"map": {"rules": [rule], "host_matching": False, "redirect_defaults": True},
                            "bind": {"server": cps("example.com"), "script": cps("/"), "sub": [], "scheme": cps("http")},
                            "ep": 1, "vals": [dict(V("str", text), name=cps("x"))], "ext": False, "npaths": 0, "pseed": 0})
    return out
