"""Drivers / recorders for C04 (URL building and matching are mutually inverse).

A *case* is a JSON value {map, bind, ep, vals, ext} in the vocabulary of spec/routing/RoutingBuild.tla
(texts as code point lists, values as typed texts).  `run_case` builds the real werkzeug Map from it,
calls MapAdapter.build, delivers the URL the way a WSGI server would (own host for relative URLs, script
root stripped, path percent-decoded, latin-1 "WSGI dance"), matches it (same adapter and through
Map.bind_to_environ), rebuilds, and then walks mutated neighbours of the delivered path for the
converse law.  It only records; RoutingBuildTrace.tla judges.
"""
from __future__ import annotations

import random
import uuid as _uuid
import warnings

from .core import cps


def txt(a) -> str:
    return "".join(chr(c) for c in a)


# ------------------------------------------------------------------ case -> real objects
def to_py(x):
    t = x["ty"]
    if t == "str":
        return txt(x["v"])
    if t == "int":
        return int(txt(x["v"]))
    if t == "float":
        return float(txt(x["v"]))
    if t == "uuid":
        return _uuid.UUID(txt(x["v"]))
    if t == "list":
        return [txt(i) for i in x["items"]]
    if t == "none":
        return None
    raise ValueError(t)


def enc_val(name: str, v) -> dict:
    if type(v) is str:
        ty, s = "str", v
    elif type(v) is int:
        ty, s = "int", str(v)
    elif type(v) is float:
        ty, s = "float", repr(v)
    elif isinstance(v, _uuid.UUID):
        ty, s = "uuid", str(v)
    else:
        ty, s = "other", type(v).__name__ + ":" + repr(v)
    return {"name": cps(name), "ty": ty, "v": cps(s), "items": []}


def conv_spec(c) -> str:
    k = c["k"]
    if k == "string":
        if c["c"]:
            return f"string(length={c['c']})"
        args = []
        if c["a"] != 1:
            args.append(f"minlength={c['a']}")
        if c["b"]:
            args.append(f"maxlength={c['b']}")
        return "string" + (f"({', '.join(args)})" if args else "")
    if k in ("int", "float"):
        args = []
        if k == "int" and c["a"]:
            args.append(f"fixed_digits={c['a']}")
        if c.get("hasmin"):
            args.append(f"min={c['min'] if k == 'int' else c['min'] / 1000!r}")
        if c.get("hasmax"):
            args.append(f"max={c['max'] if k == 'int' else c['max'] / 1000!r}")
        if c["signed"]:
            args.append("signed=True")
        return k + (f"({', '.join(args)})" if args else "")
    if k == "any":
        return "any(" + ", ".join('"' + txt(i) + '"' for i in c["items"]) + ")"
    return k


def seg_string(s) -> str:
    out = txt(s["pre"]) + f"<{conv_spec(s['conv'])}:{txt(s['name'])}>" + txt(s["post"])
    for v in s.get("more", []):
        out += f"<{conv_spec(v['conv'])}:{txt(v['name'])}>" + txt(v["post"])
    return out


CONV_DEFAULTS = {"hasmin": False, "min": 0, "hasmax": False, "max": 0}


def norm_case(case) -> dict:
    """fill in the fields added by later rounds so that every recorded line carries every field"""
    m = case["map"]
    m.setdefault("sort", 0)
    m.setdefault("dsub", [])
    case.setdefault("au", True)
    if case.get("bind") is not None:
        case["bind"].setdefault("subnone", False)
    for r in m["rules"]:
        r.setdefault("dsegs", [])
        r.setdefault("domnone", False)
        for s in r["segs"] + r["dsegs"]:
            s.setdefault("more", [])
            for c in [s["conv"]] + [v["conv"] for v in s["more"]]:
                for k, v in CONV_DEFAULTS.items():
                    c.setdefault(k, v)
    return case


def rule_string(r, skip=0) -> str:
    out = []
    for s in r["segs"][skip:]:
        if s["k"] == "lit":
            out.append("/" + txt(s["t"]))
        elif s.get("more"):
            out.append("/" + seg_string(s))
        else:
            out.append("/" + txt(s["pre"]) + f"<{conv_spec(s['conv'])}:{txt(s['name'])}>" + txt(s["post"]))
    return "".join(out) + ("/" if r["branch"] else "")


def mk_map(m):
    from werkzeug.routing import Map, Rule, Subdomain, Submount

    facs = []
    for r in m["rules"]:
        kw = {"endpoint": f"e{r['ep']}"}
        if r["defaults"]:
            kw["defaults"] = {txt(d["name"]): to_py(d) for d in r["defaults"]}
        dom = seg_string(r["dsegs"][0]) if r.get("dsegs") else txt(r["dom"])
        via = r.get("via", "plain")
        if m["host_matching"]:
            kw["host"] = dom
        elif r.get("domnone") and not r.get("dsegs"):
            pass                        # subdomain=None: the rule lives on Map.default_subdomain
        elif via != "subdomain" and (dom or txt(m.get("dsub", []))):
            kw["subdomain"] = dom       # explicit, also when empty
        if via == "submount" and len(r["segs"]) > 1 and r["segs"][0]["k"] == "lit":
            f = Submount("/" + txt(r["segs"][0]["t"]), [Rule(rule_string(r, 1) or "/", **kw)])
        else:
            f = Rule(rule_string(r), **kw)
        if via == "subdomain" and not m["host_matching"] and not (r.get("domnone") and not r.get("dsegs")):
            f = Subdomain(dom, [f])
        facs.append(f)
    kw = {}
    if m.get("sort"):
        kw["sort_parameters"] = True
        if m["sort"] == 2:
            kw["sort_key"] = lambda kv: kv[1]
    if txt(m.get("dsub", [])):
        kw["default_subdomain"] = txt(m["dsub"])
    return Map(facs, host_matching=m["host_matching"], redirect_defaults=m["redirect_defaults"], **kw)


def bind(mp, m, b):
    if m["host_matching"] or b.get("subnone"):
        sub = None
    elif txt(m.get("dsub", [])):
        sub = txt(b["sub"])             # explicit, also when empty: bind(subdomain="") is not bind(subdomain=None)
    else:
        sub = txt(b["sub"]) or None
    return mp.bind(txt(b["server"]), txt(b["script"]), sub, txt(b["scheme"]))


def configured_host(m, b) -> str:
    """the host the application is configured to be served on (where a relative URL is requested): server_name
    prefixed by the configured subdomain; judged against AdapterHost by the trace spec (HarnessDeliver)"""
    if m["host_matching"]:
        return txt(b["server"])
    sub = txt(m.get("dsub", [])) if b.get("subnone") else txt(b["sub"])
    return f"{sub}.{txt(b['server'])}" if sub else txt(b["server"])


def observe_match(fn):
    from werkzeug.exceptions import MethodNotAllowed, NotFound
    from werkzeug.routing import RequestRedirect

    try:
        with warnings.catch_warnings():
            warnings.simplefilter("ignore")
            ep, vals = fn()
    except RequestRedirect:
        return {"kind": "redirect", "ep": -1, "vals": []}
    except NotFound:
        return {"kind": "notfound", "ep": -1, "vals": []}
    except MethodNotAllowed:
        return {"kind": "mna", "ep": -1, "vals": []}
    except Exception as e:  # noqa: BLE001 - recorded, judged
        return {"kind": "exc:" + type(e).__name__, "ep": -1, "vals": []}
    epn = int(ep[1:]) if isinstance(ep, str) and ep[1:].isdigit() else -2
    return {"kind": "match", "ep": epn, "vals": [enc_val(k, v) for k, v in sorted(vals.items())], "_py": (ep, vals)}


def deliver(url: str, own_host: str, script: str, own_scheme: str = "http"):
    """What a server hands to the application: (host, PATH_INFO text or None, QUERY_STRING, scheme)."""
    from urllib.parse import unquote_to_bytes

    scheme = ""
    host = own_host
    rest = url
    for sch in ("http://", "https://"):
        if url.startswith(sch):
            scheme = sch[:-3]
            host, _, tail = url[len(sch):].partition("/")
            rest = url[len(sch) + len(host):]
    # a client lower-cases the host and drops the default port of the scheme
    host = host.lower()
    dport = ":443" if (scheme or own_scheme) == "https" else ":80"
    if host.endswith(dport) and len(host) > len(dport):
        host = host[: -len(dport)]
    rest = rest.split("#", 1)[0]
    rawpath, _, query = rest.partition("?")
    root = script[:-1] if script.endswith("/") else script
    if not rawpath.startswith(root + "/"):
        return host, None, query, scheme, root
    raw = unquote_to_bytes(rawpath[len(root):])
    return host, raw, query, scheme, root


def _dec(raw: bytes) -> str:
    return raw.decode("utf-8", "replace")


def environ_for(host, raw: bytes, query: str, scheme: str, root: str):
    name, _, port = host.partition(":")
    return {"REQUEST_METHOD": "GET", "SCRIPT_NAME": root, "PATH_INFO": raw.decode("latin-1"), "QUERY_STRING": query,
            "SERVER_NAME": name, "SERVER_PORT": port or ("443" if scheme == "https" else "80"), "HTTP_HOST": host,
            "wsgi.url_scheme": scheme or "http", "SERVER_PROTOCOL": "HTTP/1.1"}


NOMATCH = {"kind": "skip", "ep": -1, "vals": []}


def _pub(o):
    return {k: v for k, v in o.items() if not k.startswith("_")}


def mutate_paths(rng: random.Random, p: str, n: int):
    out = [p, p + "/", p.rstrip("/") or "/"]
    for _ in range(n):
        q = list(p)
        how = rng.randrange(7)
        i = rng.randrange(len(q) + 1)
        if how == 0:
            q.insert(i, "0")
        elif how == 1 and q:
            del q[min(i, len(q) - 1)]
        elif how == 2:
            q = list(p.upper())
        elif how == 3:
            q.insert(i, rng.choice("a-/.% é\n1"))
        elif how == 4:  # leading zero in front of a digit run
            ds = [j for j, c in enumerate(q) if c.isdigit() and (j == 0 or not q[j - 1].isdigit())]
            if ds:
                q.insert(rng.choice(ds), "0")
        elif how == 5:
            q.append("0")
        else:
            ds = [j for j, c in enumerate(q) if c == "/"]
            if ds:
                q.insert(rng.choice(ds), "/")
        out.append("".join(q))
    seen, res = set(), []
    for x in out:
        if x not in seen and x.startswith("/"):
            seen.add(x)
            res.append(x)
    return res


def run_case(case, _st=None) -> list[dict]:
    """Execute one case on the real code; returns trace lines (without t / i).  _st (run_history): reuse the Map, the
    adapter and the values object of an earlier round and collect the dicts match() handed out."""
    from werkzeug.wrappers import Request

    norm_case(case)
    st = _st if _st is not None else {}
    m, b = case["map"], case["bind"]
    base = {"map": m, "bind": b, "au": case["au"], "hist": st.get("hist", 0)}
    mp = st.get("mp") or mk_map(m)
    st["mp"] = mp
    st.setdefault("returned", [])
    ep = f"e{case['ep']}"
    values = st["values"] if "values" in st else {txt(x["name"]): to_py(x) for x in case["vals"]}
    st["values"] = values
    ext = bool(case["ext"])
    line = dict(base, op="rt", ep=case["ep"], vals=case["vals"], ext=ext, url=[], exc="", under=False, dhost=[], dpath=[], dquery=[],
                m=_pub(NOMATCH), e=_pub(NOMATCH), qargs=[], rebuilt=[], rb_exc="")
    lines = [line]
    try:
        ad = st.get("ad") or bind(mp, m, b)   # a server name that is no valid IDNA host raises BadHost: recorded like a failed build
        st["ad"] = ad
        url = ad.build(ep, values, force_external=ext, append_unknown=case["au"])
    except Exception as e:  # noqa: BLE001
        line["exc"] = type(e).__name__
        return lines
    line["url"] = cps(url)
    own = configured_host(m, b)
    host, raw, query, scheme, root = deliver(url, own, ad.script_name, txt(b["scheme"]))
    line["dhost"], line["dquery"] = cps(host), cps(query)
    if raw is None:
        return lines
    line["under"] = True
    dpath = _dec(raw)
    line["dpath"] = cps(dpath)
    if not scheme:
        mobs = observe_match(lambda: ad.match(dpath))
        line["m"] = _pub(mobs)
        if mobs["kind"] == "match":
            st["returned"].append(mobs["_py"][1])
    env = environ_for(host, raw, query, scheme or txt(b["scheme"]), root)

    def via_environ():
        with warnings.catch_warnings():
            warnings.simplefilter("ignore")
            a2 = mp.bind_to_environ(env, server_name=None if m["host_matching"] else txt(b["server"]))
        return a2.match()

    eobs = observe_match(via_environ)
    line["e"] = _pub(eobs)
    if eobs["kind"] == "match":
        st["returned"].append(eobs["_py"][1])
    try:
        line["qargs"] = [[cps(k), cps(v)] for k, v in Request(env).args.items(multi=True)]
    except Exception as e:  # noqa: BLE001
        line["qargs"] = [[cps("!exc"), cps(type(e).__name__)]]
    if eobs["kind"] == "match":
        try:
            line["rebuilt"] = cps(ad.build(eobs["_py"][0], eobs["_py"][1], force_external=ext))
        except Exception as e:  # noqa: BLE001
            line["rb_exc"] = type(e).__name__
    # ---- converse: neighbours of the delivered path, on an adapter bound where the URL lives
    npaths = case.get("npaths", 0)
    if npaths and eobs["kind"] == "match":
        rng = random.Random(case.get("pseed", 0))
        if m["host_matching"]:
            b2 = dict(b, server=cps(host), sub=[], subnone=False)
        else:
            srv = txt(b["server"])
            sub = host[: -len(srv) - 1] if host.endswith("." + srv) else ""
            b2 = dict(b, sub=cps(sub), subnone=False)
        try:
            ad2 = bind(mp, m, b2)
        except Exception:  # noqa: BLE001  -- the delivered host is not bindable: no neighbours to walk
            return lines
        for p in ([dpath] if npaths < 0 else mutate_paths(rng, dpath, npaths)):   # npaths -1: only the delivered path itself
            ln = dict(map=m, bind=b2, op="conv", path=cps(p), m=_pub(NOMATCH), rebuilt=[], rb_exc="", under=False, d2path=[], rm=_pub(NOMATCH))
            lines.append(ln)
            o = observe_match(lambda: ad2.match(p))
            ln["m"] = _pub(o)
            if o["kind"] != "match":
                continue
            try:
                u2 = ad2.build(o["_py"][0], o["_py"][1])
            except Exception as e:  # noqa: BLE001
                ln["rb_exc"] = type(e).__name__
                continue
            ln["rebuilt"] = cps(u2)
            h2, raw2, _q2, sch2, _root = deliver(u2, configured_host(m, b2), ad2.script_name, txt(b["scheme"]))
            if raw2 is None or sch2:
                continue
            ln["under"] = True
            ln["d2path"] = cps(_dec(raw2))
            ln["rm"] = _pub(observe_match(lambda: ad2.match(_dec(raw2))))
    return lines


# ------------------------------------------------------------------ random cases
POOLS = ["abcXYZ", "019", " ", ";?#%&+=", "%41%2F%", "!$'()*,:@", "éß€ÿ", "\U00010000😀", "\n\r\t\x00\x7f", "-_.~", "|\\^`{}[]\"<>", " \xa0"]
LITPOOLS = ["abcxyz", "AB019", " ", ";%&+=", "!$'*,:@()", "é€", "-_.~", "😀"]


TOKENS = ["%41", "%2F", "%0a", "%25", "%C3%A9", "%zz", "+", "%20"]


def gen_text(rng, lo=1, hi=6, pools=POOLS, banned="/"):
    n = rng.randint(lo, hi)
    out = []
    while len(out) < n:
        if pools is POOLS and rng.random() < 0.08:
            out.extend(c for c in rng.choice(TOKENS) if c not in banned)
            continue
        c = rng.choice(rng.choice(pools))
        if rng.random() < 0.05:
            c = chr(rng.choice([rng.randrange(0, 0xD800), rng.randrange(0xE000, 0x110000)]))
        if c not in banned:
            out.append(c)
    return "".join(out[:n])


def V(ty, s):
    return {"ty": ty, "v": cps(s), "items": []}


def gen_conv(rng, allow_path=True):
    k = rng.choice(["string", "string", "int", "int", "float", "any", "uuid"] + (["path", "path"] if allow_path else []))
    c = {"k": k, "a": 0, "b": 0, "c": 0, "signed": False, "items": []}
    if k == "string":
        c["a"] = 1
        o = rng.randrange(4)
        if o == 1:
            c["c"] = rng.randint(1, 4)
        elif o == 2:
            c["a"] = rng.randint(1, 3)
            c["b"] = c["a"] + rng.randint(0, 3)
        elif o == 3:
            c["a"] = rng.randint(2, 3)
    elif k == "int":
        c["a"] = rng.choice([0, 0, 2, 3, 5])
        c["signed"] = rng.random() < 0.4
    elif k == "float":
        c["signed"] = rng.random() < 0.4
    elif k == "any":
        items = []
        while len(items) < rng.randint(1, 3):
            t = gen_text(rng, 1, 4, banned='/")\\<>\n')
            if t not in items:
                items.append(t)
        c["items"] = [cps(t) for t in items]
    return c


def gen_value(rng, c):
    k = c["k"]
    if k == "string":
        if c["c"]:
            lo = hi = c["c"]
        else:
            lo, hi = c["a"], (c["b"] or c["a"] + 5)
        return V("str", gen_text(rng, lo, hi))
    if k == "path":
        segs = [gen_text(rng, 1, 4) for _ in range(rng.randint(1, 3))]
        return V("str", rng.choice(["/", "/", "/", "//"]).join(segs) if rng.random() < 0.15 else "/".join(segs))
    if k == "any":
        return V("str", txt(rng.choice(c["items"])))
    if k == "int":
        w = c["a"] or rng.choice([1, 1, 2, 4, 9, 12, 20])
        neg = c["signed"] and rng.random() < 0.5
        w = max(1, w - (1 if neg and c["a"] else 0))
        n = rng.randrange(10 ** rng.randint(1, w)) if rng.random() < 0.9 else 0
        return V("int", str(-n if neg else n))
    if k == "float":
        s = f"{rng.randrange(10 ** rng.randint(1, 6))}.{rng.randrange(10 ** rng.randint(1, 5))}"
        f = float(s)
        if c["signed"] and rng.random() < 0.5:
            f = -f
        return V("float", repr(f))
    return V("uuid", str(_uuid.UUID(int=rng.getrandbits(128))))


DUMMY = {"k": "string", "a": 1, "b": 0, "c": 0, "signed": False, "items": []}
NAMES = ["x", "y", "page", "lang_code", "id2"]
EXTRA_NAMES = ["q", "z", "sort", "é", "a b"]


PERMS = [(0, 1, 2), (0, 2, 1), (1, 0, 2), (1, 2, 0), (2, 0, 1), (2, 1, 0)]


def gen_group_case(rng, seed: int) -> dict:
    """One endpoint served by three rules that share two arguments and carry 2, 1 and 0 defaults
    (/A {x, y}; /B/<x> {y}; /C/<y>/<x>), declared in the order PERMS[seed % 6] among unrelated rules;
    built with each argument absent / equal to the default / different."""
    hm = rng.random() < 0.15
    server = rng.choice(["example.com", "example.com:8080", "localhost"])
    dom = rng.choice([server, "o.example"]) if hm else rng.choice(["", "api", "www"])
    nx, ny = rng.sample(NAMES, 2)
    cx, cy = gen_conv(rng, True), gen_conv(rng, False)
    dx, dy = gen_value(rng, cx), gen_value(rng, cy)
    firsts = []
    while len(firsts) < 4:
        f = gen_text(rng, 1, 4, pools=LITPOOLS, banned="/<>|")
        if f not in firsts and f not in (".", ".."):
            firsts.append(f)

    def lit(t):
        return {"k": "lit", "t": cps(t), "pre": [], "name": [], "conv": DUMMY, "post": []}

    def var(n, c):
        return {"k": "var", "t": [], "pre": [], "name": cps(n), "conv": c, "post": []}

    def rule(ep, segs, defaults, via="plain"):
        return {"ep": ep, "segs": segs, "branch": rng.random() < 0.4, "defaults": defaults, "dom": cps(dom), "via": via}

    group = [rule(1, [lit(firsts[0])], [dict(dx, name=cps(nx)), dict(dy, name=cps(ny))]),
             rule(1, [lit(firsts[1]), var(nx, cx)], [dict(dy, name=cps(ny))], rng.choice(["plain", "submount"])),
             rule(1, [lit(firsts[2]), var(ny, cy), var(nx, cx)], [], rng.choice(["plain", "submount", "subdomain"]))]
    if rng.random() < 0.3:   # the middle rule keeps the other argument instead
        group[1] = rule(1, [lit(firsts[1]), var(ny, cy)], [dict(dx, name=cps(nx))])
    rules = [group[i] for i in PERMS[seed % 6]]
    if rng.random() < 0.4:
        rules.insert(rng.randrange(4), rule(2, [lit(firsts[3]), var(nx, gen_conv(rng, True))], []))
    other_x, other_y = gen_value(rng, cx), gen_value(rng, cy)
    mx, my = rng.choice([(0, 0), (0, 1), (1, 0), (1, 1), (1, 2), (2, 0), (2, 1), (2, 2), (2, 2)])   # 0 absent, 1 default, 2 other
    if group[1]["segs"][1]["name"] == cps(ny) and (mx, my) in ((1, 0), (2, 0)):
        mx, my = my, mx   # only the argument in the middle rule's URL may be given alone
        if mx == 0 and my == 2:
            pass
    vals = []
    if mx:
        vals.append(dict(dx if mx == 1 else other_x, name=cps(nx)))
    if my:
        vals.append(dict(dy if my == 1 else other_y, name=cps(ny)))
    rng.shuffle(vals)
    if rng.random() < 0.2:
        vals.append(dict(V("str", gen_text(rng, 0, 4, banned="")), name=cps("q")))
    m = {"rules": rules, "host_matching": hm, "redirect_defaults": True}
    b = {"server": cps(server), "script": cps(rng.choice(["/", "/app", "/app/"])), "sub": cps("" if hm else rng.choice(["", dom])),
         "scheme": cps(rng.choice(["http", "https"]))}
    return {"map": m, "bind": b, "ep": 1, "vals": vals, "ext": rng.random() < 0.2, "npaths": 4, "pseed": seed}


# ------------------------------------------------------------------ growth round: domain variables, several
# variables per segment, min / max / maxlength options, dotted paths, query sorting / append_unknown / None
def _conv(k, **kw):
    return dict({"k": k, "a": 1 if k == "string" else 0, "b": 0, "c": 0, "signed": False, "items": [], **CONV_DEFAULTS}, **kw)


def _lit(t):
    return {"k": "lit", "t": cps(t), "pre": [], "name": [], "conv": _conv("string"), "post": [], "more": []}


def _var(n, c, pre="", post="", more=()):
    return {"k": "var", "t": [], "pre": cps(pre), "name": cps(n), "conv": c, "post": cps(post), "more": list(more)}


def _rule(ep, segs, branch=False, dom="", dsegs=(), via="plain", defaults=()):
    return {"ep": ep, "segs": segs, "branch": branch, "defaults": list(defaults), "dom": cps(dom), "dsegs": list(dsegs), "via": via}


def _first(rng, taken):
    while True:
        f = gen_text(rng, 1, 4, pools=LITPOOLS, banned="/<>|")
        if f not in taken and f not in (".", ".."):
            taken.append(f)
            return f


def _ldh(rng):
    labels = ["".join(rng.choice("abcxyz0189-") for _ in range(rng.randint(1, 5))).strip("-") or "a" for _ in range(rng.choice([1, 1, 1, 2, 3]))]
    return ".".join(labels)


def gen_dom_case(rng, seed):
    hm = rng.random() < 0.5
    server = rng.choice(["example.com", "example.com:8080", "localhost"])
    taken = []
    pathsegs = [_lit(_first(rng, taken))] + ([_var("x", gen_conv_g(rng))] if rng.random() < 0.6 else [])
    shape = rng.randrange(4)
    if shape == 0:      # <u>  (subdomain, or the whole host under host matching)
        dconv = rng.choice([_conv("string"), _conv("string", a=2), _conv("any", items=[cps(_ldh(rng)) for _ in range(2)])])
        dseg = _var("u", dconv)
    elif shape == 1:    # <u>.example.com  /  lit-<u>
        dseg = _var("u", _conv("string"), post=".example.com" if hm else rng.choice(["-x", ".int"]))
    elif shape == 2:    # example.com:<int:port>  /  n<int:k>
        dseg = _var("port", _conv("int"), pre="example.com:" if hm else "n")
    else:               # <lang>.<region> in one domain part
        dseg = _var("u", _conv("string", c=2), post=".", more=[{"name": cps("reg"), "conv": _conv("any", items=[cps("eu"), cps("us1")]), "post": cps(".example.com" if hm else "")}])
    rules = [_rule(1, pathsegs, rng.random() < 0.4, dsegs=[dseg], via=rng.choice(["plain", "subdomain", "submount"]))]
    if rng.random() < 0.4:
        rules.insert(rng.randrange(2), _rule(2, [_lit(_first(rng, taken))], dom=(server if hm else rng.choice(["", "api"]))))
    vals = []
    for v in [dseg] + dseg["more"]:
        c = v["conv"]
        if c["k"] == "int":
            val = V("int", str(rng.choice([81, 8080, 8443, 5000, 7, 80, 443, 65535])))
        elif c["k"] == "any":
            val = V("str", txt(rng.choice(c["items"])))
        elif c["c"]:
            val = V("str", "".join(rng.choice("abxy01") for _ in range(c["c"])))
        else:
            val = V("str", _ldh(rng) if rng.random() < 0.8 else rng.choice(["ABC", "Alice.b", "münchen", "a_b", "a%41", "a b", "x..y", "-a"]))
        vals.append(dict(val, name=v["name"]))
    for sg in pathsegs[1:]:
        vals.append(dict(gen_value_g(rng, sg["conv"]), name=sg["name"]))
    rng.shuffle(vals)
    m = {"rules": rules, "host_matching": hm, "redirect_defaults": True, "sort": 0}
    case = norm_case({"map": m, "bind": None, "ep": 1, "vals": vals, "ext": rng.random() < 0.25, "npaths": 4, "pseed": seed, "au": True})
    # bind where the URL will live (relative URL) half of the time, elsewhere otherwise
    built = "".join((txt(v["pre"]) if i == 0 else "") + txt(next(x for x in vals if x["name"] == w["name"])["v"]) + txt(w["post"])
                    for i, (v, w) in enumerate([(dseg, dseg)] + [(dseg, w) for w in dseg["more"]]))
    same = rng.random() < 0.5
    if hm:
        b = {"server": cps(built if same else server), "sub": []}
    else:
        b = {"server": cps(server), "sub": cps(built if same else rng.choice(["", "www"]))}
    case["bind"] = dict(b, script=cps(rng.choice(["/", "/app", "/app/"])), scheme=cps(rng.choice(["http", "https"])))
    return case


def gen_conv_g(rng, kinds=("string", "int", "float", "uuid", "any", "path")):
    k = rng.choice(kinds)
    if k == "string":
        return rng.choice([_conv("string"), _conv("string", b=rng.randint(1, 4)), _conv("string", a=2, b=4), _conv("string", c=3)])
    if k == "int":
        signed = rng.random() < 0.4
        c = _conv("int", signed=signed, a=rng.choice([0, 0, 3]))
        if rng.random() < 0.6:
            lo = rng.choice([None, 0, 5, 1])   # the rule syntax cannot spell a negative converter argument
            hi = rng.choice([None, 100, 99999])
            if lo is not None:
                c.update(hasmin=True, min=lo)
            if hi is not None:
                c.update(hasmax=True, max=hi)
        return c
    if k == "float":
        signed = rng.random() < 0.4
        c = _conv("float", signed=signed)
        if rng.random() < 0.6:
            c.update(hasmin=True, min=rng.choice([0, 500]))
            c.update(hasmax=True, max=rng.choice([10500, 1000000]))
        return c
    if k == "any":
        return _conv("any", items=[cps(t) for t in {gen_text(rng, 1, 4, banned='/")\\<>\n') for _ in range(2)}])
    return _conv(k)


def gen_value_g(rng, c, avoid=""):
    """a value of the converter's domain (85 %: inside min/max) whose URL spelling avoids the characters in `avoid`"""
    for _ in range(30):
        k = c["k"]
        if k == "int" and (c["hasmin"] or c["hasmax"]):
            lo = c["min"] if c["hasmin"] else (-500 if c["signed"] else 0)
            hi = c["max"] if c["hasmax"] else 10 ** 11
            n = rng.randint(lo, hi) if rng.random() < 0.85 else rng.choice([lo - 1, hi + 1])
            if c["a"] and len(str(n)) > c["a"]:
                n = lo
            v = V("int", str(n))
        elif k == "float" and (c["hasmin"] or c["hasmax"]):
            n = rng.randint(c["min"], c["max"]) if rng.random() < 0.85 else rng.choice([c["min"] - 1, c["max"] + 1])
            v = V("float", repr(float(f"{'-' if n < 0 else ''}{abs(n) // 1000}.{abs(n) % 1000:03d}")))
        elif k == "path" and rng.random() < 0.6:
            segs = [rng.choice([".", "..", "...", ".a", "a.", "a", gen_text(rng, 1, 3)]) for _ in range(rng.randint(1, 4))]
            v = V("str", rng.choice(["/", "/", "//"]).join(segs))
        else:
            v = gen_value(rng, c)
            if k == "string" and avoid:
                t = "".join(ch for ch in txt(v["v"]) if ch not in avoid)
                lo = c["c"] or c["a"]
                v = V("str", (t + "k" * lo)[: max(lo, len(t))] if len(t) < lo else t)
        spelled = txt(v["v"]).zfill(c["a"]) if k == "int" and c["a"] else txt(v["v"])
        if not any(ch in avoid for ch in spelled) or rng.random() < 0.03:
            return v
    return v


def gen_multi_case(rng, seed):
    taken = []
    seps = "-._~,;:@"
    nv = rng.choice([2, 2, 3])
    names = rng.sample(NAMES, nv)
    convs = [gen_conv_g(rng, ("string", "string", "int", "int", "float", "uuid")) for _ in range(nv)]
    posts = [rng.choice(seps) + (rng.choice(seps + "ab") if rng.random() < 0.2 else "") for _ in range(nv - 1)] + [rng.choice(["", "", ".html", "~"])]
    pre = rng.choice(["", "", "v", "id-"])
    seg = _var(names[0], convs[0], pre, posts[0], [{"name": cps(n), "conv": c, "post": cps(p)} for n, c, p in zip(names[1:], convs[1:], posts[1:])])
    segs = [_lit(_first(rng, taken)), seg] + ([_lit(_first(rng, taken))] if rng.random() < 0.3 else [])
    avoid = pre + "".join(posts)
    vals = [dict(gen_value_g(rng, c, avoid), name=cps(n)) for n, c in zip(names, convs)]
    rng.shuffle(vals)
    rules = [_rule(1, segs, rng.random() < 0.4, dom=rng.choice(["", "", "api"]), via=rng.choice(["plain", "submount"]))]
    m = {"rules": rules, "host_matching": False, "redirect_defaults": True, "sort": 0}
    b = {"server": cps("example.com"), "script": cps(rng.choice(["/", "/app"])), "sub": cps(rng.choice(["", "api"])), "scheme": cps("http")}
    return {"map": m, "bind": b, "ep": 1, "vals": vals, "ext": rng.random() < 0.2, "npaths": 5, "pseed": seed, "au": True}


def gen_opt_case(rng, seed, qry=False):
    taken = []
    segs = [_lit(_first(rng, taken))]
    names = rng.sample(NAMES, 2)
    nvar = rng.choice([1, 1, 2])
    for j in range(nvar):
        last = j == nvar - 1
        segs.append(_var(names[j], gen_conv_g(rng, ("string", "int", "int", "float", "float", "uuid") + (("path", "path") if last else ()))))
    vals = [dict(gen_value_g(rng, sg["conv"]), name=sg["name"]) for sg in segs[1:]]
    m = {"rules": [_rule(1, segs, rng.random() < 0.4)], "host_matching": False, "redirect_defaults": True, "sort": 0}
    au = True
    if qry:
        m["sort"] = rng.choice([0, 1, 1, 2])
        au = rng.random() < 0.75
        for n in rng.sample(EXTRA_NAMES + ["b", "A"], rng.randint(1, 4)):
            o = rng.randrange(4)
            if o == 0:
                vals.append({"name": cps(n), "ty": "none", "v": [], "items": []})
            elif o == 1:
                vals.append({"name": cps(n), "ty": "list", "v": [], "items": [cps(gen_text(rng, 0, 3, banned="")) for _ in range(rng.randint(0, 3))]})
            else:
                vals.append(dict(V("str", gen_text(rng, 0, 4, banned="")), name=cps(n)))
    rng.shuffle(vals)
    b = {"server": cps("example.com"), "script": cps(rng.choice(["/", "/app/"])), "sub": [], "scheme": cps(rng.choice(["http", "https"]))}
    return {"map": m, "bind": b, "ep": 1, "vals": vals, "ext": rng.random() < 0.2, "npaths": 3, "pseed": seed, "au": au}


QUOTED_DEFAULTS = ["a b", "é", "x%41", "q?r", "h#i", "%2F", "a+b&c=d", "100%"]


def gen_defph_case(rng, seed):
    """A rule whose default belongs to one of its own placeholders (path or domain part): the builder resolves it
    through to_url at compile time.  Built without the value, with the value equal to the default, and with another
    value (served by a sibling rule without defaults when there is one)."""
    taken = []
    kind = rng.randrange(4)
    dom, dsegs, hm = rng.choice(["", "", "api"]), [], False
    if kind == 0:
        conv = _conv("float", signed=rng.random() < 0.4)
        d = V("int", str(rng.randint(0, 300))) if rng.random() < 0.7 else V("float", repr(rng.randint(0, 3000) / 8))
        if conv["signed"] and rng.random() < 0.5:
            d = V(d["ty"], "-" + txt(d["v"])) if txt(d["v"]) not in ("0", "0.0") else d
    elif kind == 1:
        conv = _conv("int", a=rng.choice([2, 3, 4, 6]), signed=rng.random() < 0.4)
        n = rng.randrange(10 ** rng.randint(1, conv["a"] - 1))
        d = V("int", str(-n if conv["signed"] and n and rng.random() < 0.5 else n))
    elif kind == 2:
        k = rng.choice(["string", "any", "path"])
        if k == "any":
            items = rng.sample(QUOTED_DEFAULTS, 3)
            conv, d = _conv("any", items=[cps(i) for i in items]), V("str", items[0])
        elif k == "path":
            conv, d = _conv("path"), V("str", "/".join(rng.sample(QUOTED_DEFAULTS, 2)))
        else:
            conv, d = _conv("string"), V("str", rng.choice(QUOTED_DEFAULTS))
    else:   # the default sits in the subdomain / host placeholder
        hm = rng.random() < 0.4
        dconv = rng.choice([_conv("int", a=rng.choice([2, 3])), _conv("string"), _conv("int")])
        dd = V("int", str(rng.randint(1, 9))) if dconv["k"] == "int" else V("str", rng.choice(["eu", "a.b", "x-1"]))
        dsegs = [_var("k", dconv, post=(".example.org" if hm else ""))]
        conv, d, dom = gen_conv_g(rng, ("string", "int", "uuid")), None, ""
    segs = [_lit(_first(rng, taken)), _var("x", conv, pre=rng.choice(["", "", "p-"]))]
    if conv["k"] != "path" and rng.random() < 0.3:
        segs.append(_var("y", gen_conv_g(rng, ("string", "int", "uuid", "path"))))
    defaults = [dict(d, name=cps("x"))] if d is not None else [dict(dd, name=cps("k"))]
    via = rng.choice(["plain", "submount", "subdomain"]) if (dom or dsegs) else rng.choice(["plain", "submount"])
    rules = [_rule(1, segs, rng.random() < 0.4, dom=dom, dsegs=dsegs, via=via, defaults=defaults)]
    sibling = d is not None and rng.random() < 0.5
    if sibling:
        sib = _rule(1, [_lit(_first(rng, taken))] + segs[1:], rng.random() < 0.4, dom=dom)
        rules.insert(rng.randrange(2), sib)
    mode = rng.randrange(3) if (sibling or d is None) else rng.randrange(2)     # 0 absent, 1 equal to the default, 2 another value
    vals = []
    if d is not None:
        if mode == 1:
            vals.append(dict(d, name=cps("x")))
        elif mode == 2:
            for _ in range(20):
                o = gen_value_g(rng, conv)
                try:
                    same = o["v"] == d["v"] or (conv["k"] == "float" and float(txt(o["v"])) == float(txt(d["v"])))
                except ValueError:
                    same = False
                if not same:
                    break
            vals.append(dict(o, name=cps("x")))
    else:
        vals.append(dict(gen_value_g(rng, conv), name=cps("x")))
        if mode == 1:
            vals.append(dict(dd, name=cps("k")))
    for sg in segs[2:]:
        vals.append(dict(gen_value_g(rng, sg["conv"]), name=sg["name"]))
    rng.shuffle(vals)
    if rng.random() < 0.2:
        vals.append(dict(V("str", gen_text(rng, 0, 4, banned="")), name=cps("q")))
    server = "example.org" if hm else rng.choice(["example.com", "example.com:8080"])
    if dsegs:
        built = (txt(dd["v"]).zfill(dsegs[0]["conv"]["a"]) if dsegs[0]["conv"]["k"] == "int" else txt(dd["v"])) + txt(dsegs[0]["post"])
        same = rng.random() < 0.5
        b = {"server": cps(built if same else server), "sub": []} if hm else {"server": cps(server), "sub": cps(built if same else rng.choice(["", "www"]))}
    else:
        b = {"server": cps(server), "sub": cps(rng.choice(["", dom]))}
    m = {"rules": rules, "host_matching": hm, "redirect_defaults": True, "sort": 0}
    return {"map": m, "bind": dict(b, script=cps(rng.choice(["/", "/app", "/app/"])), scheme=cps(rng.choice(["http", "https"]))),
            "ep": 1, "vals": vals, "ext": rng.random() < 0.2, "npaths": 4, "pseed": seed, "au": True}


def gen_subdom_case(rng, seed):
    """Map(default_subdomain=...) x rule subdomain None / "" / explicit x bind(subdomain=None / "" / "x" / the default):
    None means the default, an explicitly empty subdomain stays empty."""
    taken = []
    hm = rng.random() < 0.1
    dsub = rng.choice(["www", "www", "api", "m.eu", ""])
    server = rng.choice(["example.com", "example.com:8080", "localhost"])
    rules = []
    for ep in range(1, rng.choice([2, 3, 4])):
        segs = [_lit(_first(rng, taken))] + ([_var("x", gen_conv_g(rng))] if rng.random() < 0.6 else [])
        o = rng.randrange(4)
        dom, domnone = [("", True), ("", False), ("api", False), (dsub, False)][o]
        if hm:
            dom, domnone = rng.choice([server, "o.example"]), False
        rules.append(dict(_rule(ep, segs, rng.random() < 0.4, dom=dom, via=rng.choice(["plain", "plain", "submount", "subdomain"])), domnone=domnone))
    target = rng.choice(rules)
    vals = [dict(gen_value_g(rng, sg["conv"]), name=sg["name"]) for sg in target["segs"][1:]]
    o = rng.randrange(5)
    sub, subnone = [("", True), ("", False), ("x", False), (dsub, False), ("api", False)][o]
    if hm:
        sub, subnone = "", True
    m = {"rules": rules, "host_matching": hm, "redirect_defaults": True, "sort": 0, "dsub": cps("" if hm else dsub)}
    b = {"server": cps(server), "script": cps(rng.choice(["/", "/app", "/app/"])), "sub": cps(sub), "subnone": subnone,
         "scheme": cps(rng.choice(["http", "https"]))}
    return {"map": m, "bind": b, "ep": target["ep"], "vals": vals, "ext": rng.random() < 0.3, "npaths": 3, "pseed": seed, "au": True}


def gen_growth_case(rng, seed):
    k = seed % 4
    if k == 0:
        return gen_dom_case(rng, seed)
    if k == 1:
        return gen_multi_case(rng, seed)
    return gen_opt_case(rng, seed, qry=(k == 3))


def gen_case(seed: int) -> dict:
    rng = random.Random(seed)
    if rng.random() < 0.25:
        return gen_group_case(rng, seed)
    if rng.random() < 0.3:
        return norm_case(gen_growth_case(rng, seed))
    if rng.random() < 0.15:
        return norm_case(gen_defph_case(rng, seed))
    if rng.random() < 0.12:
        return norm_case(gen_subdom_case(rng, seed))
    hm = rng.random() < 0.2
    server = rng.choice(["example.com", "example.com", "example.com:8080", "localhost"])
    subs = ["", "api", "www", "a.b"]
    hosts = [server, "o.example", "h2.example:81"]
    nrules = rng.choice([1, 1, 2, 3, 4])
    rules, firsts = [], set()
    ep_of = []
    while len(rules) < nrules:
        first = gen_text(rng, 1, 4, pools=LITPOOLS, banned="/<>|")
        dom = rng.choice(hosts) if hm else rng.choice(subs)
        if (dom, first) in firsts or first in (".", ".."):
            continue
        firsts.add((dom, first))
        segs = [{"k": "lit", "t": cps(first), "pre": [], "name": [], "conv": DUMMY, "post": []}]
        names = rng.sample(NAMES, 3)
        have_path = False
        for j in range(rng.choice([0, 1, 1, 1, 2, 3])):
            if have_path or rng.random() < 0.25:
                segs.append(dict(segs[0], t=cps(gen_text(rng, 1, 3, pools=LITPOOLS, banned="/<>|"))))
            else:
                c = gen_conv(rng, True)
                have_path = c["k"] == "path"
                pre = gen_text(rng, 1, 2, pools=LITPOOLS, banned="/<>|") if rng.random() < 0.2 else ""
                post = gen_text(rng, 1, 2, pools=LITPOOLS, banned="/<>|") if rng.random() < 0.2 else ""
                segs.append({"k": "var", "t": [], "pre": cps(pre), "name": cps(names[len([s for s in segs if s['k'] == 'var'])]), "conv": c, "post": cps(post)})
        rule = {"ep": len(rules) + 1, "segs": segs, "branch": rng.random() < 0.4, "defaults": [], "dom": cps(dom),
                "via": rng.choice(["plain", "plain", "submount", "subdomain"])}
        if rng.random() < 0.2:  # an extra default that is not part of the URL
            rule["defaults"].append(dict(V(rng.choice(["str", "int"]), "7"), name=cps("kind")))
        rules.append(rule)
        # the classic defaults pair: a short rule carrying the default of the last variable of a long one
        vs = [s for s in segs if s["k"] == "var"]
        if vs and vs[-1] is segs[-1] and not rule["defaults"] and rng.random() < 0.35 and len(rules) < 5:
            f2 = first + "d"
            if (dom, f2) not in firsts:
                firsts.add((dom, f2))
                dv = gen_value(rng, vs[-1]["conv"])
                short = {"ep": rule["ep"], "segs": [dict(segs[0], t=cps(f2))] + segs[1:-1], "branch": True,
                         "defaults": [dict(dv, name=vs[-1]["name"])], "dom": cps(dom), "via": "plain"}
                if rng.random() < 0.5:
                    rules.insert(len(rules) - 1, short)
                else:
                    rules.append(short)
    m = {"rules": rules, "host_matching": hm, "redirect_defaults": True}
    b = {"server": cps(server), "script": cps(rng.choice(["/", "/app", "/app/"]) if rng.random() < 0.9 else "/a/b"),
         "sub": cps("" if hm else rng.choice(subs)), "scheme": cps(rng.choice(["http", "http", "https"]))}
    target = rng.choice(rules)
    vals = []
    given_default = rng.random() < 0.5
    pair = [r for r in rules if r["ep"] == target["ep"]]
    long = max(pair, key=lambda r: len([s for s in r["segs"] if s["k"] == "var"]))
    short = [r for r in pair if r is not long]
    for s in long["segs"]:
        if s["k"] == "var":
            vals.append(dict(gen_value(rng, s["conv"]), name=s["name"]))
    if short and vals:
        d = short[0]["defaults"][0]
        mode = rng.randrange(3)
        if mode == 0:
            vals = vals[:-1]            # not given: the short rule supplies the default
        elif mode == 1:
            vals[-1] = dict(d)          # given, equal to the default
    if long["defaults"] and long["defaults"][0]["name"] == cps("kind") and given_default:
        vals.append(dict(long["defaults"][0]))
    rng.shuffle(vals)
    for _ in range(rng.choice([0, 0, 0, 1, 2])):
        n = rng.choice(EXTRA_NAMES)
        if any(txt(v["name"]) == n for v in vals):
            continue
        o = rng.randrange(3)
        if o == 0:
            vals.append({"name": cps(n), "ty": "list", "v": [], "items": [cps(gen_text(rng, 0, 4, banned="")) for _ in range(rng.randint(0, 3))]})
        elif o == 1:
            vals.append(dict(V("int", str(rng.randrange(-50, 5000))), name=cps(n)))
        else:
            vals.append(dict(V("str", gen_text(rng, 0, 5, banned="")), name=cps(n)))
    return {"map": m, "bind": b, "ep": target["ep"], "vals": vals, "ext": rng.random() < 0.3, "npaths": 4, "pseed": seed}


def sweep_cases(points) -> list[dict]:
    """length-1..2 values around every code point of interest, for string / path / any converters"""
    out = []
    for cp in points:
        ch = chr(cp)
        for k in ("string", "path", "any"):
            for text in (ch, "a" + ch + "b"):
                if k != "path" and "/" in text:
                    continue
                if k == "path" and (text.startswith("/") or text.endswith("/")):
                    continue
                if k == "any" and ch in '"\\\n)<>':
                    continue
                c = {"k": k, "a": 1 if k == "string" else 0, "b": 0, "c": 0, "signed": False, "items": [cps(text)] if k == "any" else []}
                seg0 = {"k": "lit", "t": cps("s"), "pre": [], "name": [], "conv": DUMMY, "post": []}
                seg1 = {"k": "var", "t": [], "pre": [], "name": cps("x"), "conv": c, "post": []}
                rule = {"ep": 1, "segs": [seg0, seg1], "branch": False, "defaults": [], "dom": [], "via": "plain"}
                out.append({"map": {"rules": [rule], "host_matching": False, "redirect_defaults": True},
                            "bind": {"server": cps("example.com"), "script": cps("/"), "sub": [], "scheme": cps("http")},
                            "ep": 1, "vals": [dict(V("str", text), name=cps("x"))], "ext": False, "npaths": 0, "pseed": 0})
    return out


# ------------------------------------------------------------------ deterministic boundary values (no random draw)
TEXT_EDGES = ["\n", "\r", " ", ".", "%", "%0A", "+", "?", "#", "é"]


def _edge_texts(kind):
    out = []
    for e in TEXT_EDGES:
        out += ["a" + e, e + "a", e, "a" + e + "b"]
    if kind == "path":
        for e in TEXT_EDGES + ["/"]:
            out += ["d/a" + e, e + "a/d", "d/" + e + "/d", "a" + e + "/d"]
        out += ["a//b", "./a", "a/..", "..", ".", "a/./b"]
        out = [t for t in out if not t.startswith("/") and not t.endswith("/")]
    seen, res = set(), []
    for t in out:
        if t and t not in seen and ("/" not in t or kind == "path"):
            seen.add(t)
            res.append(t)
    return res


def edge_cases() -> list[dict]:
    """Every converter kind x position of the variable in the rule (last element of a leaf rule, last before a trailing
    slash, followed by another segment, prefix and suffix in the same segment, below Submount, below Subdomain) x a fixed
    set of boundary values: texts ending / starting with LF, CR, space, '.', '%', a literal '%0A', '+', '?', '#', ...,
    single characters; numbers 0, -0, min / max, fixed_digits padding, widest value, huge ints, floats with 16-17
    significant digits, -0.0."""
    convs = []
    for k in ("string", "path"):
        convs.append((_conv(k), [V("str", t) for t in _edge_texts(k)]))
    any_items = [t for t in _edge_texts("any") if not any(ch in t for ch in '"\\\n)<>')]
    for i in range(0, len(any_items), 6):
        chunk = any_items[i:i + 6]
        convs.append((_conv("any", items=[cps(t) for t in chunk]), [V("str", t) for t in chunk]))
    convs.append((_conv("string", c=2), [V("str", t) for t in ("a\n", "\na", " %", "%0", "..")]))
    convs.append((_conv("string", b=3), [V("str", t) for t in ("a", "ab\n", "%0A", "\n")]))
    convs.append((_conv("int"), [V("int", t) for t in ("0", "7", "10", "4294967296", "18446744073709551616", "100000000000000000000")]))
    convs.append((_conv("int", signed=True), [V("int", t) for t in ("0", "-1", "-10", "7", "-9223372036854775809")]))
    convs.append((_conv("int", a=3), [V("int", t) for t in ("0", "7", "42", "999", "100")]))
    convs.append((_conv("int", a=3, signed=True), [V("int", t) for t in ("0", "-5", "-42", "7", "999")]))
    convs.append((_conv("int", hasmin=True, min=5, hasmax=True, max=100), [V("int", t) for t in ("5", "100", "6", "99")]))
    convs.append((_conv("float"), [V("float", t) for t in ("0.0", "1.0", "0.1", "0.30000000000000004", "0.3333333333333333", "123456789.12345679",
                                                         "1234567890123456.0", "0.0001", "2.5", "100.0")]))
    convs.append((_conv("float", signed=True), [V("float", t) for t in ("-0.0", "0.0", "-1.5", "-0.30000000000000004", "-0.0001")]))
    convs.append((_conv("float", hasmin=True, min=500, hasmax=True, max=10500), [V("float", t) for t in ("0.5", "10.5", "0.501", "10.499")]))
    convs.append((_conv("uuid"), [V("uuid", t) for t in ("00000000-0000-0000-0000-000000000000", "ffffffff-ffff-ffff-ffff-ffffffffffff")]))
    positions = ["leaf-last", "branch-last", "then-segment", "affixes", "submount", "subdomain"]
    out = []
    for conv, values in convs:
        for pos in positions:
            segs = [_lit("s"), _var("x", conv, pre="p-" if pos == "affixes" else "", post="~s" if pos == "affixes" else "")]
            if pos in ("then-segment",):
                segs.append(_lit("edit"))
            if pos == "submount":
                segs.insert(1, _lit("m"))
            rule = _rule(1, segs, branch=(pos == "branch-last"), dom="api" if pos == "subdomain" else "",
                         via={"submount": "submount", "subdomain": "subdomain"}.get(pos, "plain"))
            for v in values:
                m = {"rules": [rule], "host_matching": False, "redirect_defaults": True, "sort": 0}
                b = {"server": cps("example.com"), "script": cps("/app" if pos in ("affixes", "submount") else "/"), "sub": [], "scheme": cps("http")}
                out.append(norm_case({"map": m, "bind": b, "ep": 1, "vals": [dict(v, name=cps("x"))], "ext": False, "npaths": -1, "pseed": 0, "au": True}))
    return out


# ------------------------------------------------------------------ result aliasing histories
def _mutate(d, mode):
    """what an application does to the dict match() returned (the url_value_preprocessor idiom)"""
    try:
        if mode == "clear":
            d.clear()
        elif mode == "pop":
            for k in list(d)[:1]:
                d.pop(k)
        else:
            for k in list(d):
                d[k] = "mutated!"
            d["extra_key"] = 1
    except Exception:  # noqa: BLE001  -- an immutable result is fine
        pass


def run_history(case) -> list[dict]:
    """Three round trips on ONE Map and ONE adapter.  Round 2 passes the very dict object of round 1 into build()
    again after the application mutated every dict match() had returned; before round 3 the application also
    clears the dict it had passed into build() and passes fresh values (a MultiDict when case['multidict'])."""
    from werkzeug.datastructures import MultiDict

    mode = case["hist_mode"]
    st = {}
    lines = run_case(case, st)
    for d in st["returned"]:
        _mutate(d, mode)
    st["returned"] = []
    st["hist"] = 1
    lines += run_case(dict(case, npaths=0), st)
    for d in st["returned"]:
        _mutate(d, mode)
    st["returned"] = []
    if isinstance(st.get("values"), dict):
        _mutate(st["values"], "clear" if mode == "clear" else "set")
    fresh = {txt(x["name"]): to_py(x) for x in case["vals"]}
    st["values"] = MultiDict(fresh) if case.get("multidict") else fresh
    st["hist"] = 2
    lines += run_case(dict(case, npaths=-1), st)
    return lines


def alias_cases() -> list[dict]:
    """deterministic: rules with defaults and no converters ('/' with {'lang': 'en'}), with converters, a defaults pair,
    a placeholder default, below Submount; every script root; pop / set / clear; dict and MultiDict"""
    en, one = dict(V("str", "en"), name=cps("lang")), dict(V("int", "1"), name=cps("page"))
    shapes = [
        ([_rule(1, [], branch=True, defaults=[en])], []),
        ([_rule(1, [_lit("s")], defaults=[en, one])], []),
        ([_rule(1, [_lit("s"), _var("x", _conv("int"))], defaults=[en])], [dict(V("int", "42"), name=cps("x"))]),
        ([_rule(1, [_lit("s")], branch=True, defaults=[dict(V("int", "1"), name=cps("x"))]), _rule(1, [_lit("t"), _var("x", _conv("int"))])], []),
        ([_rule(1, [_lit("m"), _lit("s"), _var("x", _conv("string"))], defaults=[en], via="submount")], [dict(V("str", "a b"), name=cps("x"))]),
        ([_rule(1, [_lit("z"), _var("x", _conv("float"))], defaults=[dict(V("int", "1"), name=cps("x"))])], []),
        ([_rule(1, [_lit("q"), _var("x", _conv("path"))], branch=True, defaults=[en, one], dom="api", via="subdomain")], [dict(V("str", "a/b"), name=cps("x"))]),
    ]
    out = []
    for rules, vals in shapes:
        for script in ("/", "/app", "/app/"):
            for mode in ("pop", "set", "clear"):
                for md in (False, True):
                    m = {"rules": [dict(r) for r in rules], "host_matching": False, "redirect_defaults": True, "sort": 0}
                    b = {"server": cps("example.com"), "script": cps(script), "sub": [], "scheme": cps("http")}
                    out.append(norm_case({"map": m, "bind": b, "ep": 1, "vals": [dict(v) for v in vals], "ext": False, "npaths": -1, "pseed": 0,
                                          "au": True, "hist_mode": mode, "multidict": md}))
    return out


# ------------------------------------------------------------------ concurrent first use of one Map
def run_concurrent(case) -> list[dict]:
    """Deterministic two-thread schedule on the real Map.  Thread A makes the first use: Map.update() takes its lock and
    sorts the rule lists; the sort key reads len(rule.defaults), where a dict subclass parks A on an Event.  While A is
    parked inside the sort, thread B performs a complete round trip (build, deliver, match, rebuild) of valid values on
    the same Map.  B either waits for A or gets a correct result; its lines are judged by the ordinary clauses."""
    import threading

    parked, release = threading.Event(), threading.Event()
    state = {"armed": False, "fired": False}

    class ParkingDict(dict):
        def __len__(self):
            if state["armed"] and not state["fired"]:
                state["fired"] = True
                parked.set()
                release.wait(5)
            return dict.__len__(self)

    norm_case(case)
    m = case["map"]
    mp = mk_map(m)
    for r in mp._rules:             # public attribute Rule.defaults: swap in the parking subclass (same content)
        if r.defaults:
            r.defaults = ParkingDict(r.defaults)
    state["armed"] = True
    a_err = []

    def thread_a():
        try:
            bind(mp, m, case["bind"]).build(f"e{case['ep']}", {txt(x["name"]): to_py(x) for x in case["vals"]})
        except Exception as e:  # noqa: BLE001
            a_err.append(type(e).__name__)

    out = {}

    def thread_b():
        out["lines"] = run_case(dict(case, npaths=0), {"mp": mp, "hist": -1})

    ta = threading.Thread(target=thread_a, daemon=True)
    ta.start()
    was_parked = parked.wait(5)
    tb = threading.Thread(target=thread_b, daemon=True)
    tb.start()
    tb.join(0.25)
    b_waited = tb.is_alive()
    release.set()
    ta.join(10)
    tb.join(20)
    lines = out.get("lines") or [{"op": "harness_error", "err": "thread B did not finish", "case": case}]
    for ln in lines:
        ln["sched"] = {"a_parked": bool(was_parked), "b_waited": bool(b_waited), "a_err": "".join(a_err)}
    if not was_parked:
        lines.append({"op": "harness_error", "err": "thread A never reached the sort key hook", "case": case})
    return lines


def concurrent_cases() -> list[dict]:
    en = dict(V("str", "en"), name=cps("lang"))
    shapes = [
        # the rule with defaults is declared last and must be sorted first: an unsorted list builds a URL that redirects
        ([_rule(1, [_lit("t"), _var("x", _conv("int"))]), _rule(1, [_lit("s")], branch=True, defaults=[dict(V("int", "1"), name=cps("x"))])],
         [dict(V("int", "1"), name=cps("x"))]),
        ([_rule(2, [_lit("u")]), _rule(1, [_lit("s"), _var("x", _conv("string"))], defaults=[en])], [dict(V("str", "a b"), name=cps("x"))]),
        ([_rule(1, [_lit("k"), _var("y", _conv("int")), _var("x", _conv("path"))]), _rule(1, [_lit("p"), _var("x", _conv("path"))], defaults=[dict(V("int", "7"), name=cps("y"))]),
          _rule(1, [_lit("l")], defaults=[dict(V("int", "7"), name=cps("y")), dict(V("str", "a/b"), name=cps("x"))])], []),
    ]
    out = []
    for rules, vals in shapes:
        for script in ("/", "/app", "/app/"):
            m = {"rules": [dict(r) for r in rules], "host_matching": False, "redirect_defaults": True, "sort": 0}
            b = {"server": cps("example.com"), "script": cps(script), "sub": [], "scheme": cps("http")}
            out.append(norm_case({"map": m, "bind": b, "ep": 1, "vals": [dict(v) for v in vals], "ext": False, "npaths": 0, "pseed": 0, "au": True, "concurrent": True}))
    return out
