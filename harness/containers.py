"""Recorder and drivers for the containers area (C08).

Runs the *real* werkzeug containers (MultiDict / ImmutableMultiDict / CombinedMultiDict /
FileMultiDict, Headers / EnvironHeaders, HeaderSet) and records, per public call, the arguments,
the return value or exception class, and ALL public reads of every live object afterwards, in the
vocabulary of spec/containers/ContainersTrace.tla.  No verdicts here: the relation between the
recorded values and the documented model is evaluated by TLC.
"""
from __future__ import annotations

import copy
import io
import json
import operator
import pickle

from .core import cps

DFLT = "?"  # ContainersTrace!Dflt
MD_FAMILY = ("MultiDict", "ImmutableMultiDict", "FileMultiDict", "CombinedMultiDict")
# immutable dict variants without a container model of their own: only the ==/hash laws are judged
OPAQUE = ("ImmutableDict", "ImmutableTypeConversionDict", "ImmutableOrderedMultiDict")
DOCUMENTED_EXC = (KeyError, IndexError, TypeError, ValueError, AttributeError, NotImplementedError)


def dec(seq) -> str:
    return "".join(chr(c) for c in seq)


def A(k="", v="", vs=(), src=(), form="pairs", hasdef=False, idx=0, idx2=0) -> dict:
    """Argument record of the trace vocabulary (all fields always present)."""
    return {"k": cps(k), "v": cps(v), "vs": [cps(x) for x in vs],
            "src": [[cps(kk), [cps(x) for x in vv]] for kk, vv in src],
            "form": form, "hasdef": bool(hasdef), "idx": int(idx), "idx2": int(idx2)}


# ---------------------------------------------------------------------- encoding of results
SCALAR_MARK = 1114112      # first integer that is not a code point: tags the repr of a non-str scalar value


def _v(x):
    """a stored value -> code points (FileStorage values are named by their filename; int / float / bool
    values, which only the repository's tests store, by a marker + their type-qualified repr)"""
    if isinstance(x, str):
        return cps(x)
    if type(x) in (int, float, bool):
        return [SCALAR_MARK] + cps(type(x).__name__ + ":" + repr(x))
    fn = getattr(x, "filename", None)
    if isinstance(fn, str) and type(x).__name__ == "FileStorage":
        return cps(fn)
    raise TypeError(f"not a value: {x!r}")


def _pairs(it):
    out = []
    for p in it:
        k, v = p
        out.append([cps(k), _v(v)])
    return out


def enc(shape: str, x):
    """Encode a real return value in the shape the operation documents; anything that does not
    have that shape is recorded as tag "other" (which no model value matches)."""
    try:
        if shape == "none":
            if x is None:
                return {"tag": "none", "v": []}
        elif shape == "val":          # a value, or None for "no value"
            if x is None:
                return {"tag": "none", "v": []}
            return {"tag": "val", "v": _v(x)}
        elif shape == "int":
            if x is None:
                return {"tag": "none", "v": []}
            if type(x) is int and abs(x) < 2**31:
                return {"tag": "int", "v": x}
        elif shape == "int_or_val":   # get(k, default, type=int): the converted value or the (str) default
            if type(x) is int and abs(x) < 2**31:
                return {"tag": "int", "v": x}
            if type(x) is str:
                return {"tag": "val", "v": _v(x)}
        elif shape == "bool":
            if type(x) is bool:
                return {"tag": "bool", "v": x}
        elif shape == "list":
            if isinstance(x, (list, tuple)) or hasattr(x, "__next__"):
                return {"tag": "list", "v": [_v(e) for e in x]}
        elif shape == "ints":
            if isinstance(x, list) and all(type(e) is int for e in x):
                return {"tag": "ints", "v": list(x)}
        elif shape == "set":
            if isinstance(x, (set, frozenset)):
                return {"tag": "set", "v": sorted(_v(e) for e in x)}
        elif shape == "pair":
            if isinstance(x, tuple) and len(x) == 2:
                return {"tag": "pair", "v": [cps(x[0]), _v(x[1])]}
        elif shape == "pairs":
            return {"tag": "pairs", "v": _pairs(x)}
        elif shape == "kl":
            if isinstance(x, tuple) and len(x) == 2 and isinstance(x[1], list):
                return {"tag": "kl", "v": [cps(x[0]), [_v(e) for e in x[1]]]}
        elif shape == "kls":
            return {"tag": "kls", "v": [[cps(k), [_v(e) for e in vs]] for k, vs in x]}
        elif shape == "lists":
            return {"tag": "lists", "v": [[_v(e) for e in vs] for vs in x]}
        elif shape == "new":
            return {"tag": "new", "v": _pairs(x)}
        elif shape == "self":
            if x is True:
                return {"tag": "self", "v": []}
    except Exception:
        pass
    return {"tag": "other", "v": []}


def enc_exc(e: BaseException):
    for c in DOCUMENTED_EXC:        # BadRequestKeyError "is also a KeyError": the documented class
        if isinstance(e, c):
            return {"tag": "exc", "v": c.__name__}
    return {"tag": "exc", "v": type(e).__name__}


def attempt(shape, fn):
    try:
        return enc(shape, fn())
    except Exception as e:  # recorded, judged by TLC
        return enc_exc(e)


# ---------------------------------------------------------------------- building arguments
def build_src(a: dict):
    """The Python argument object described by a.form / a.src."""
    from werkzeug.datastructures import Headers, ImmutableMultiDict, MultiDict

    src = [(dec(k), [dec(x) for x in vs]) for k, vs in a["src"]]
    flat = [(k, v) for k, vs in src for v in vs]
    form = a["form"]
    if form == "pairs":
        return flat
    if form == "dict":
        return {k: vs[0] for k, vs in src}
    if form == "dictlist":
        return {k: list(vs) for k, vs in src}
    if form == "dicttuple":
        return {k: tuple(vs) for k, vs in src}
    if form == "dictset":
        return {k: set(vs) for k, vs in src}
    if form == "md":
        return MultiDict(flat)
    if form == "imd":
        return ImmutableMultiDict(flat)
    if form == "headers":
        return Headers(flat)
    raise ValueError(form)


def _fs(v: str):
    from werkzeug.datastructures import FileStorage

    return FileStorage(io.BytesIO(b""), filename=v)


# ---------------------------------------------------------------------- operations
RET_SHAPE = {
    "setdefault": "val", "pop": "val", "setlistdefault": "list", "poplist": "list", "popitem": "pair",
    "pop_idx": "pair", "pop_last": "pair", "popitemlist": "kl", "ior": "self", "or": "new", "copy": "none",
}


def perform(kind: str, o, name: str, a: dict):
    """Execute the public operation `name` on the real object; returns the raw result."""
    k, v, vs, i = dec(a["k"]), dec(a["v"]), [dec(x) for x in a["vs"]], a["idx"]
    val = (lambda s: _fs(s)) if kind == "FileMultiDict" else (lambda s: s)
    if kind == "Environ":
        if name == "env_set":
            o[k] = v
            return None
        if name == "env_del":
            del o[k]
            return None
    if name == "setitem":
        o[k] = val(v)
        return None
    if name == "delitem":
        del o[k]
        return None
    if name == "add":
        return o.add(k) if kind == "HeaderSet" else o.add(k, val(v))
    if name == "add_file":
        return o.add_file(k, _fs(v))
    if name == "set":
        return o.set(k, v)
    if name == "setlist":
        return o.setlist(k, [val(x) for x in vs])
    if name == "setdefault":
        return o.setdefault(k, val(v))
    if name == "setlistdefault":
        r = o.setlistdefault(k, [val(x) for x in vs])
        return list(r) if isinstance(r, list) else r
    if name in ("update", "extend"):
        if kind == "HeaderSet":
            return o.update(vs)
        return getattr(o, name)(build_src(a))
    if name == "ior":
        return operator.ior(o, build_src(a)) is o
    if name == "or":
        r = operator.or_(o, build_src(a))
        return list(r.items(multi=True)) if hasattr(r, "lists") else list(r)
    if name == "pop":
        return o.pop(k, v) if a["hasdef"] else o.pop(k)
    if name == "pop_idx":
        return o.pop(i)
    if name == "pop_last":
        return o.pop()
    if name in ("popitem", "popitemlist", "clear"):
        return getattr(o, name)()
    if name == "poplist":
        return o.poplist(k)
    if name in ("remove", "discard"):
        return getattr(o, name)(k)
    if name == "delitem_idx":
        del o[i]
        return None
    if name == "delitem_slice":
        del o[i:a["idx2"]]
        return None
    if name == "setitem_slice":
        o[i:a["idx2"]] = build_src(dict(a, form="pairs"))
        return None
    if name == "setitem_idx":
        o[i] = k if kind == "HeaderSet" else (k, v)
        return None
    if name == "copy":
        return o.copy()
    raise ValueError(f"unknown op {name}")


# ---------------------------------------------------------------------- reads
def _rd(o, n, r, k="", i=0, j=0):
    return {"o": o, "n": n, "k": cps(k), "i": i, "j": j, "r": r}


def _typed_reads(idx, o, k):
    """the type-converting variants of get / getlist (values failing the conversion are skipped / give the default)"""
    return [
        _rd(idx, "getlist_int", attempt("ints", lambda: o.getlist(k, type=int)), k),
        _rd(idx, "getlist_str", attempt("list", lambda: o.getlist(k, type=str)), k),
        _rd(idx, "get_int", attempt("int", lambda: o.get(k, type=int)), k),
        _rd(idx, "get_int_default", attempt("int_or_val", lambda: o.get(k, DFLT, type=int)), k),
    ]


def reads(idx: int, kind: str, o, keys, conv: bool = True) -> list:
    """ALL public reads of one object (idx = its number in the trace); conv=False leaves out the
    type=int conversion reads (for sessions whose values are not plain digit / non-numeric strings)."""
    out = []
    if kind == "Environ" or kind in OPAQUE:
        return out
    if kind in MD_FAMILY:
        comb = kind == "CombinedMultiDict"
        out += [
            _rd(idx, "items_multi", attempt("pairs", lambda: list(o.items(multi=True)))),
            _rd(idx, "items", attempt("pairs", lambda: list(o.items()))),
            _rd(idx, "to_dict", attempt("pairs", lambda: list(o.to_dict().items()))),
            _rd(idx, "values", attempt("list", lambda: list(o.values()))),
            _rd(idx, "keys", attempt("set" if comb else "list", lambda: set(o.keys()) if comb else list(o.keys()))),
            _rd(idx, "iter", attempt("set" if comb else "list", lambda: set(iter(o)) if comb else list(iter(o)))),
            _rd(idx, "lists", attempt("kls", lambda: list(o.lists()))),
            _rd(idx, "to_dict_lists", attempt("kls", lambda: list(o.to_dict(flat=False).items()))),
            _rd(idx, "listvalues", attempt("lists", lambda: list(o.listvalues()))),
            _rd(idx, "len", attempt("int", lambda: len(o))),
        ]
        for k in keys:
            out += [
                _rd(idx, "getlist", attempt("list", lambda: o.getlist(k)), k),
                _rd(idx, "get", attempt("val", lambda: o.get(k)), k),
                _rd(idx, "get_default", attempt("val", lambda: o.get(k, DFLT)), k),
                _rd(idx, "getitem", attempt("val", lambda: o[k]), k),
                _rd(idx, "contains", attempt("bool", lambda: k in o), k),
            ]
            if kind != "FileMultiDict" and conv:
                out += _typed_reads(idx, o, k)
        return out
    if kind in ("Headers", "EnvironHeaders"):
        eh = kind == "EnvironHeaders"
        out += [
            _rd(idx, "items", attempt("pairs", lambda: list(o.items()))),
            _rd(idx, "iter", attempt("pairs", lambda: list(iter(o)))),
            _rd(idx, "wsgi", attempt("pairs", lambda: o.to_wsgi_list())),
            _rd(idx, "keys", attempt("list", lambda: list(o.keys()))),
            _rd(idx, "values", attempt("list", lambda: list(o.values()))),
            _rd(idx, "len", attempt("int", lambda: len(o))),
        ]
        if not eh:
            out += [
                _rd(idx, "items_lower", attempt("pairs", lambda: list(o.items(lower=True)))),
                _rd(idx, "keys_lower", attempt("list", lambda: list(o.keys(lower=True)))),
                _rd(idx, "str", attempt("val", lambda: str(o))),
            ]
        for k in keys:
            out += [
                _rd(idx, "getlist", attempt("list", lambda: o.getlist(k)), k),
                _rd(idx, "get", attempt("val", lambda: o.get(k)), k),
                _rd(idx, "getitem", attempt("val", lambda: o[k]), k),
                _rd(idx, "contains", attempt("bool", lambda: k in o), k),
            ]
            out += [
                _rd(idx, "get_all", attempt("list", lambda: o.get_all(k)), k),
                _rd(idx, "get_default", attempt("val", lambda: o.get(k, DFLT)), k),
            ]
            if conv:
                out += _typed_reads(idx, o, k)
        if not eh:
            n = len(o)
            for i in range(-(n + 1), n + 1):
                out.append(_rd(idx, "getitem_idx", attempt("pair", lambda: o[i]), i=i))
            for i, j in ((0, 1), (1, n + 2), (-1, n), (0, -1), (-2, 2), (0, n), (n - 1, n), (-n - 1, 1), (n, n + 1)):
                out.append(_rd(idx, "slice", attempt("new", lambda: list(o[i:j])), i=i, j=j))
        return out
    if kind == "HeaderSet":
        out += [
            _rd(idx, "iter", attempt("list", lambda: list(o))),
            _rd(idx, "len", attempt("int", lambda: len(o))),
            _rd(idx, "bool", attempt("bool", lambda: bool(o))),
            _rd(idx, "str", attempt("val", lambda: str(o))),
            _rd(idx, "as_set", attempt("set", lambda: o.as_set())),
            _rd(idx, "as_set_case", attempt("set", lambda: o.as_set(preserve_casing=True))),
        ]
        for k in keys:
            out += [
                _rd(idx, "contains", attempt("bool", lambda: k in o), k),
                _rd(idx, "find", attempt("int", lambda: o.find(k)), k),
                _rd(idx, "index", attempt("int", lambda: o.index(k)), k),
            ]
        n = len(list(o))
        for i in range(-(n + 1), n + 1):
            out.append(_rd(idx, "getitem_idx", attempt("val", lambda: o[i]), i=i))
        return out
    raise ValueError(kind)


def _family(kind):
    return "md" if kind in MD_FAMILY or kind in OPAQUE else kind


def law_probe(x, y):
    """[x == y, y == x, hash relation, y in {x}, {x: 1}.get(y) == 1]; 2 = not applicable (unhashable)"""
    e1 = 1 if (x == y) is True else 0
    e2 = 1 if (y == x) is True else 0
    try:
        h = 1 if hash(x) == hash(y) else 0
        ins = 1 if y in {x} else 0
        dk = 1 if {x: 1}.get(y) == 1 else 0
    except TypeError:
        h = ins = dk = 2
    return [e1, e2, h, ins, dk]


def eq_probe(x, y):
    """[x == y, hash relation]: 1 equal, 0 differ, 2 at least one is unhashable"""
    e = 1 if (x == y) is True else 0
    try:
        h = 1 if hash(x) == hash(y) else 0
    except TypeError:
        h = 2
    return [e, h]


class Recorder:
    """One trace: a growing list of live real objects and the recorded lines."""

    def __init__(self, t, keys):
        self.t = t
        self.keys = list(keys)
        self.objs: list = []
        self.kinds: list[str] = []
        self.lines = [{"t": t, "i": 0, "op": "begin"}]
        self.dead = False

    # -- helpers
    def _snapshot(self):
        s = []
        for n, (kind, o) in enumerate(zip(self.kinds, self.objs), 1):
            # FileStorage values (named by filename in the trace) travel into copies and combined views:
            # no type-conversion reads in a trace that has a FileMultiDict
            s += reads(n, kind, o, self.keys, conv="FileMultiDict" not in self.kinds)
        for a in range(len(self.objs)):
            for b in range(a + 1, len(self.objs)):
                # FileStorage values compare by identity (the trace names them by filename): no == probes in a
                # trace that has a FileMultiDict (its values travel into copies and combined views)
                if (_family(self.kinds[a]) == _family(self.kinds[b]) and self.kinds[a] not in ("Environ", "EnvironHeaders")
                        and "FileMultiDict" not in self.kinds):
                    if self.kinds[a] not in OPAQUE and self.kinds[b] not in OPAQUE:
                        try:
                            r = {"tag": "ints", "v": eq_probe(self.objs[a], self.objs[b])}
                        except Exception as e:
                            r = enc_exc(e)
                        s.append({"o": a + 1, "n": "eq", "k": [], "i": b + 1, "j": 0, "r": r})
                    try:
                        r = {"tag": "ints", "v": law_probe(self.objs[a], self.objs[b])}
                    except Exception as e:
                        r = enc_exc(e)
                    s.append({"o": a + 1, "n": "eqlaw", "k": [], "i": b + 1, "j": 0, "r": r})
        return s

    def _emit(self, line, x=None):
        line.update({"t": self.t, "i": len(self.lines), "s": self._snapshot(),
                     "x": {"has": x is not None, "st": x if x is not None else []}})
        self.lines.append(line)

    # -- events
    def new(self, kind, a=None, over=(), x=None):
        from werkzeug import datastructures as ds

        a = a or A()
        r = {"tag": "none", "v": []}
        try:
            if kind == "CombinedMultiDict":
                o = ds.CombinedMultiDict([self.objs[i - 1] for i in over])
            elif kind == "EnvironHeaders":
                o = ds.EnvironHeaders(self.objs[over[0] - 1])
            elif kind == "Environ":
                o = dict(build_src(a))
            elif kind == "HeaderSet":
                o = ds.HeaderSet([dec(v) for v in a["vs"]])
            elif kind == "ImmutableOrderedMultiDict":
                import warnings

                from werkzeug.datastructures import structures as _st

                with warnings.catch_warnings():
                    warnings.simplefilter("ignore")
                    o = _st._ImmutableOrderedMultiDict(build_src(a))
            else:
                arg = build_src(a)
                if kind == "FileMultiDict":
                    o = ds.FileMultiDict()
                    for k, v in (arg if a["form"] == "pairs" else ds.MultiDict(arg).items(multi=True)):
                        o.add_file(k, _fs(v))
                else:
                    o = getattr(ds, kind)(arg)
        except Exception as e:
            r = enc_exc(e)
            o = None
        self.objs.append(o)
        self.kinds.append(kind)
        if o is None:  # constructor failed: record and stop this trace
            self.objs.pop(); self.kinds.pop()
            self.lines.append({"t": self.t, "i": len(self.lines), "op": "new", "o": len(self.objs) + 1, "kind": kind,
                               "over": list(over), "a": a, "r": r, "s": [], "x": {"has": False, "st": []}})
            self.dead = True
            return 0
        self._emit({"op": "new", "o": len(self.objs), "kind": kind, "over": list(over), "a": a, "r": r}, x)
        return len(self.objs)

    def call(self, o, name, a=None, x=None):
        a = a or A()
        kind = self.kinds[o - 1]
        try:
            r = enc(RET_SHAPE.get(name, "none"), perform(kind, self.objs[o - 1], name, a))
        except Exception as e:
            r = enc_exc(e)
        self._emit({"op": "call", "o": o, "name": name, "a": a, "r": r}, x)

    def derive(self, o, how):
        from werkzeug import datastructures as ds

        src = self.objs[o - 1]
        kind = self.kinds[o - 1]
        new = None
        try:
            if how == "copy":
                new = src.copy()
            elif how == "copy_copy":
                new = copy.copy(src)
            elif how == "deepcopy":
                new = copy.deepcopy(src)
            elif how == "deepcopy_m":
                new = src.deepcopy()
            elif how == "pickle":
                new = pickle.loads(pickle.dumps(src, pickle.HIGHEST_PROTOCOL))
            elif how == "ctor":
                new = {"Headers": ds.Headers, "HeaderSet": ds.HeaderSet}.get(kind, ds.MultiDict)(src)
            elif how == "ctor_imm":
                new = ds.ImmutableMultiDict(src)
            else:
                raise ValueError(how)
            if new is src:
                r = {"tag": "self", "v": []}
                new = None
            else:
                r = {"tag": "ints", "v": eq_probe(new, src)}
        except Exception as e:
            r = enc_exc(e)
            new = None
        if new is not None:
            self.objs.append(new)
            nk = type(new).__name__
            self.kinds.append(nk if nk in MD_FAMILY + ("Headers", "HeaderSet") else kind)
        elif r["tag"] != "self":
            self.dead = True
        self._emit({"op": "derive", "o": o, "how": how, "a": A(), "r": r})
        if self.dead:
            self.lines[-1]["s"] = []


# ---------------------------------------------------------------------- replay of TLC's transition system
def state_ctor_arg(kind: str, st):
    """Constructor input that builds the model state `st` directly (None if no constructor can)."""
    if kind == "HeaderSet":
        return A(vs=[dec(x) for x in st])
    if kind == "Headers":
        return A(src=[(dec(k), [dec(v)]) for k, v in st], form="pairs")
    if any(len(vs) == 0 for _, vs in st):
        return None
    return A(src=[(dec(k), [dec(v) for v in vs]) for k, vs in st], form="dictlist")


def cover_walks(kind: str, trans: list, maxlen: int, rng) -> list:
    """Walks (lists of transitions) through the exported graph that together contain every
    transition at least once.  Each walk starts in a state a constructor can build."""
    key = lambda st: json.dumps(st, separators=(",", ":"))
    out_edges: dict = {}
    states: dict = {}
    for tr in trans:
        p = key(tr["pre"])
        states[p] = tr["pre"]
        states.setdefault(key(tr["post"]), tr["post"])
        out_edges.setdefault(p, []).append(tr)
    todo = {p: list(es) for p, es in out_edges.items()}
    for es in todo.values():
        rng.shuffle(es)
    succ = {}
    for p, es in out_edges.items():
        d = {}
        for tr in es:
            d.setdefault(key(tr["post"]), tr)
        succ[p] = d
    startable = [p for p in states if state_ctor_arg(kind, states[p]) is not None]

    def path_to_work(src):
        """shortest path (list of transitions) from src to a state that still has uncovered edges"""
        seen = {src: None}
        queue = [src]
        while queue:
            nxt = []
            for u in queue:
                if todo.get(u):
                    path = []
                    while seen[u] is not None:
                        pu, tr = seen[u]
                        path.append(tr)
                        u = pu
                    return path[::-1]
                for w, tr in succ.get(u, {}).items():
                    if w not in seen:
                        seen[w] = (u, tr)
                        nxt.append(w)
            queue = nxt
        return None

    walks = []
    remaining = sum(len(v) for v in todo.values())
    while remaining:
        start = next((p for p in startable if todo.get(p)), None)
        pre_path = []
        if start is None:
            for p in startable:
                pp = path_to_work(p)
                if pp is not None:
                    start, pre_path = p, pp
                    break
            if start is None:
                break  # unreachable from any constructible state (cannot happen: Init states are)
        walk = list(pre_path)
        cur = key(walk[-1]["post"]) if walk else start
        while len(walk) < maxlen:
            if todo.get(cur):
                tr = todo[cur].pop()
                remaining -= 1
            else:
                pp = path_to_work(cur)
                if not pp or len(walk) + len(pp) >= maxlen + 8:
                    break
                walk += pp
                cur = key(walk[-1]["post"])
                continue
            walk.append(tr)
            cur = key(tr["post"])
        walks.append((states[start], walk))
    return walks


def probe_keys(kind, keys):
    ks = list(dict.fromkeys(keys))
    if kind in ("Headers", "HeaderSet", "EnvironHeaders"):
        for k in list(ks):          # one other-case spelling per name
            c = k.swapcase()
            if c not in ks:
                ks.append(c)
    ks.append("zz")
    return ks


def walk_script(kind, start, walk):
    steps = [{"op": "new", "kind": kind, "a": state_ctor_arg(kind, start), "over": [], "x": start}]
    steps += [{"op": "call", "o": 1, "name": tr["name"], "a": tr["a"], "x": tr["post"]} for tr in walk]
    return steps


def run_script(args):
    """Execute one script (list of steps) on real objects and record it (worker process)."""
    t, keys, steps = args
    rec = Recorder(t, keys)
    for st in steps:
        if rec.dead:
            break
        if st["op"] == "new":
            rec.new(st["kind"], st.get("a"), st.get("over", ()), x=st.get("x"))
        elif st["op"] == "call":
            rec.call(st["o"], st["name"], st.get("a"), x=st.get("x"))
        else:
            rec.derive(st["o"], st["how"])
    return rec.lines


# ---------------------------------------------------------------------- seeded random scripts (code -> spec)
MD_KEYS = ["a", "A", "b", "c", "key", "Key"]
VALS = ["1", "2", "10", "007", "x", "Xy", "", "1x"]
FILE_VALS = ["f.txt", "g", "x"]
HD_KEYS = ["a", "A", "b", "B", "Content-Type", "content-type", "X-Y", "x-y"]
HS_ITEMS = ["a", "A", "b", "B", "gzip", "GZIP", "Cookie", "cookie", "x-y"]
ENV_KEYS = ["HTTP_A", "HTTP_X_Y", "CONTENT_TYPE", "CONTENT_LENGTH", "HTTP_CONTENT_TYPE", "HTTP_CONTENT_LENGTH",
            "REQUEST_METHOD", "HTTP_", "HTTP_a_b", "HTTP_X_1Y", "HTTP_B"]
ENV_VALS = ["1", "text/plain", "", "x"]
ENV_PROBES = ["a", "A", "b", "x-y", "X_Y", "Content-Type", "content_type", "Content-Length", "zz", "", "x-1y", "a-b"]

MD_MUT = ["setitem", "add", "delitem", "setlist", "setdefault", "setlistdefault", "update", "ior", "or", "pop",
          "popitem", "poplist", "popitemlist", "clear"]
HD_MUT = ["set", "setitem", "add", "extend", "update", "ior", "or", "remove", "delitem", "delitem_idx", "setitem_idx",
          "delitem_slice", "setitem_slice",
          "pop", "pop_idx", "pop_last", "popitem", "setlist", "setdefault", "setlistdefault", "clear"]
HS_MUT = ["add", "remove", "discard", "update", "clear", "delitem_idx", "setitem_idx"]


def rand_src(rng, keys, vals, headers=False):
    form = rng.choice(["pairs", "pairs", "dict", "dictlist", "dicttuple", "dictset", "md", "imd", "headers"])
    n = rng.randint(0, 3)
    if form in ("pairs", "headers"):
        src = [(rng.choice(keys), [rng.choice(vals)]) for _ in range(n)]
    else:
        ks = rng.sample(keys, n)
        if headers:  # names of a mapping argument must differ by more than case to denote distinct headers
            seen, ks2 = set(), []
            for k in ks:
                if k.lower() not in seen:
                    seen.add(k.lower()); ks2.append(k)
            ks = ks2
        if form in ("dict", "dictset"):
            src = [(k, [rng.choice(vals)]) for k in ks]
        elif form in ("md", "imd"):
            src = [(k, [rng.choice(vals) for _ in range(rng.randint(1, 3))]) for k in ks]
        else:
            src = [(k, [rng.choice(vals) for _ in range(rng.randint(0, 3))]) for k in ks]
    return A(src=src, form=form)


def rand_args(rng, kind, name, keys, vals, nlen, fresh=None):
    fresh = fresh if fresh is not None else [0]
    k, v = rng.choice(keys), rng.choice(vals)
    if name in ("update", "ior", "or", "extend") and kind != "HeaderSet":
        return rand_src(rng, keys, vals, headers=kind in ("Headers", "EnvironHeaders"))
    if name == "update":
        return A(vs=[rng.choice(keys) for _ in range(rng.randint(0, 3))])
    if name in ("setlist", "setlistdefault"):
        return A(k=k, vs=[rng.choice(vals) for _ in range(rng.randint(0, 3))])
    if name == "pop":
        return A(k=k, v=DFLT, hasdef=True) if rng.random() < 0.4 else A(k=k)
    if kind == "HeaderSet" and name == "setitem_idx":
        # any item: a current member, a case variant, another member's name, a fresh one - the generator does
        # not know which; positional_jobs() below enumerates the classes deliberately
        x = rng.choice(keys)
        return A(k=x.swapcase() if rng.random() < 0.3 else x, idx=rng.randint(-(nlen + 1), nlen))
    if name in ("delitem_slice", "setitem_slice"):
        src = [(rng.choice(keys), [rng.choice(vals)]) for _ in range(rng.randint(0, 2))] if name == "setitem_slice" else []
        return A(src=src, form="pairs", idx=rng.randint(-(nlen + 1), nlen + 1), idx2=rng.randint(-(nlen + 1), nlen + 1))
    return A(k=k, v=v, idx=rng.randint(-(nlen + 1), nlen))


def positional_jobs(rng, limit=None):
    """Deliberate boundary cases of the positional operations, each on a freshly built object whose content
    the generator knows: HeaderSet item assignment hs[i] = x with x drawn from {the member at i, a case
    variant of it, another member's name, a case variant of that, a fresh name} at EVERY index including
    negative and out-of-range ones; Headers pop(i) / del h[i] / h[i] = (k, v) / pop() / del h[i:j] /
    h[i:j] = lines at 0, -1, len-1, len, -len, -len-1.  A follow-up call shows that the object is still
    coherent.  All reads are recorded after every step.  Returns [(probe keys, steps)]."""
    jobs = []
    for L in (["a", "B", "gzip"], ["x-y", "Cookie"], ["Vary"], []):
        n = len(L)
        for i in range(-(n + 1), n + 1):
            p = i + n if i < 0 else i
            ref = L[p] if 0 <= p < n else (L[0] if L else "a")
            others = [y for y in L if y != ref]
            cands = [ref, ref.swapcase(), "fresh"] + ([others[-1], others[-1].swapcase()] if others else [])
            for x in cands:
                steps = [{"op": "new", "kind": "HeaderSet", "a": A(vs=L), "over": []},
                         {"op": "call", "o": 1, "name": "setitem_idx", "a": A(k=x, idx=i)},
                         {"op": "call", "o": 1, "name": "discard", "a": A(k=x.swapcase())},
                         {"op": "call", "o": 1, "name": "add", "a": A(k=x)}]
                jobs.append((probe_keys("HeaderSet", L + [x]), steps))
    for P in ([], [("a", "1")], [("a", "1"), ("B", "2")], [("a", "1"), ("b", "2"), ("A", "3")]):
        n = len(P)
        new = lambda: {"op": "new", "kind": "Headers", "a": A(src=[(k, [v]) for k, v in P], form="pairs"), "over": []}
        after = {"op": "call", "o": 1, "name": "set", "a": A(k="a", v="z")}
        keys = probe_keys("Headers", [k for k, _ in P] + ["c", "new"])
        idxs = sorted({0, -1, n - 1, n, -n, -n - 1, 1})
        calls = [("pop_last", A())]
        for i in idxs:
            calls += [("pop_idx", A(idx=i)), ("delitem_idx", A(idx=i)),
                      ("setitem_idx", A(k="A", v="9", idx=i)), ("setitem_idx", A(k="new", v="9", idx=i))]
        for i, j in ((0, 1), (0, n), (n - 1, n), (-1, n), (1, 0), (n, n + 1), (-n - 1, 1), (0, -1)):
            calls.append(("delitem_slice", A(idx=i, idx2=j)))
            for src in ([], [("c", ["7"])], [("a", ["8"]), ("c", ["7"])]):
                calls.append(("setitem_slice", A(src=src, form="pairs", idx=i, idx2=j)))
        for name, a in calls:
            jobs.append((keys, [new(), {"op": "call", "o": 1, "name": name, "a": a}, after]))
    if limit is not None and len(jobs) > limit:
        jobs = rng.sample(jobs, limit)
    return jobs


def gen_twins(rng):
    """Immutable containers with EQUAL CONTENT BUT DIFFERENT KEY INSERTION ORDER, built from different
    constructor inputs / histories, plus pickled and deep-copied twins and one unequal sibling: every
    pair is probed for x == y, y == x, hash, set membership and dict lookup after every step."""
    kind = rng.choice(["ImmutableMultiDict"] * 3 + ["ImmutableDict", "ImmutableTypeConversionDict", "ImmutableOrderedMultiDict"])
    multi = kind in ("ImmutableMultiDict", "ImmutableOrderedMultiDict")
    keys = rng.sample(MD_KEYS, rng.randint(2, 3))
    vals = rng.sample(VALS, 4)
    ent = [(k, [rng.choice(vals) for _ in range(rng.randint(1, 2) if multi else 1)]) for k in keys]
    rev = ent[::-1] if rng.random() < 0.7 else rng.sample(ent, len(ent))
    steps = [{"op": "new", "kind": kind, "a": A(src=ent, form="pairs"), "over": []},
             {"op": "new", "kind": kind, "a": A(src=rev, form=rng.choice(["pairs", "dictlist"] if multi else ["pairs", "dict"])), "over": []}]
    n = 2
    if kind == "ImmutableMultiDict":
        # a MultiDict whose history inserted the keys in yet another order, then frozen
        steps.append({"op": "new", "kind": "MultiDict", "a": A(), "over": []})
        n += 1
        flat = [(k, v) for k, vs in rev for v in vs]
        if rng.random() < 0.5:   # interleave: all first values (reverse key order), then the rest
            flat = [(k, vs[0]) for k, vs in rev] + [(k, v) for k, vs in ent for v in vs[1:]]
        for k, v in flat:
            steps.append({"op": "call", "o": n, "name": "add", "a": A(k=k, v=v)})
        steps.append({"op": "derive", "o": n, "how": "ctor_imm"})
        n += 1
        steps.append({"op": "new", "kind": kind, "a": A(src=rev, form=rng.choice(["md", "imd", "headers"])), "over": []})
        n += 1
    steps.append({"op": "derive", "o": 1, "how": "pickle"})
    steps.append({"op": "derive", "o": 2, "how": "deepcopy"})
    if rng.random() < 0.5:
        steps.append({"op": "derive", "o": 2, "how": "copy_copy"})      # "a no-op for immutable types"
    other = [(k, list(vs)) for k, vs in ent]
    other[-1][1][0] = next(v for v in vals + ["q"] if v != other[-1][1][0])
    steps.append({"op": "new", "kind": kind, "a": A(src=other[::-1], form="pairs"), "over": []})
    return keys + ["zz"], steps


def gen_script(rng, family: str, nsteps: int):
    """A seeded random scenario for one container family: (probe keys, steps)."""
    if family == "twins":
        return gen_twins(rng)
    steps, kinds = [], []

    def new(kind, a=None, over=()):
        steps.append({"op": "new", "kind": kind, "a": a or A(), "over": list(over)})
        kinds.append(kind)
        return len(kinds)

    if family == "md":
        filed = rng.random() < 0.15
        keys, vals = rng.sample(MD_KEYS, 3), (FILE_VALS if filed else rng.sample(VALS, 4))
        base = "FileMultiDict" if filed else "MultiDict"
        new(base, rand_src(rng, keys, vals))
        if rng.random() < 0.6:
            new("MultiDict" if rng.random() < 0.8 or filed else "ImmutableMultiDict", rand_src(rng, keys, vals))
        if len(kinds) == 2 and rng.random() < 0.7:
            new("CombinedMultiDict", over=[1, 2] if rng.random() < 0.7 else [2, 1])
        if rng.random() < 0.4 and not filed:
            new("ImmutableMultiDict", rand_src(rng, keys, vals))
        muts, hows = MD_MUT + (["add_file"] if filed else []), ["copy", "copy_copy", "deepcopy", "deepcopy_m", "pickle", "ctor", "ctor_imm"]
        if filed:
            hows = ["copy", "copy_copy", "ctor"]      # FileStorage values are neither picklable nor deep-copyable
    elif family == "headers":
        keys, vals = rng.sample(HD_KEYS, 4), rng.sample(VALS, 4)
        new("Headers", rand_src(rng, keys, vals, headers=True))
        if rng.random() < 0.3:
            new("Headers", rand_src(rng, keys, vals, headers=True))
        muts, hows = HD_MUT, ["copy", "copy_copy", "deepcopy", "pickle", "ctor"]
    elif family == "headerset":
        keys, vals = rng.sample(HS_ITEMS, 5) + ["n0", "n1", "n2", "n3"], []
        new("HeaderSet", A(vs=[rng.choice(keys[:5]) for _ in range(rng.randint(0, 4))]))
        muts, hows = HS_MUT, ["deepcopy", "pickle", "ctor"]
    else:  # environ
        keys, vals = ENV_KEYS, ENV_VALS
        ks = rng.sample(ENV_KEYS, rng.randint(0, 5))
        new("Environ", A(src=[(k, [rng.choice(ENV_VALS)]) for k in ks], form="pairs"))
        new("EnvironHeaders", over=[1])
        muts, hows = HD_MUT + ["copy"], []
    fresh = [0]
    for _ in range(nsteps):
        o = rng.randint(1, len(kinds))
        kind = kinds[o - 1]
        if hows and len(kinds) < 5 and rng.random() < 0.13 and kind != "Environ":
            how = rng.choice(hows)
            if kind == "HeaderSet" or kind == "Headers" or how != "deepcopy_m" or True:
                if kind in ("Headers", "HeaderSet") and how in ("deepcopy_m", "ctor_imm"):
                    continue
                if kind == "FileMultiDict" and how not in ("copy", "copy_copy", "ctor"):
                    continue
                steps.append({"op": "derive", "o": o, "how": how})
                if kind == "ImmutableMultiDict" and how == "copy_copy":
                    continue
                if kind in MD_FAMILY:
                    if how in ("copy", "copy_copy", "ctor") and kind in ("ImmutableMultiDict", "CombinedMultiDict"):
                        kinds.append("MultiDict")
                    elif how == "ctor":
                        kinds.append("MultiDict")
                    elif how == "ctor_imm":
                        kinds.append("ImmutableMultiDict")
                    else:
                        kinds.append(kind)
                else:
                    kinds.append(kind)
            continue
        if kind == "Environ":
            name = rng.choice(["env_set", "env_set", "env_del"])
            steps.append({"op": "call", "o": o, "name": name, "a": A(k=rng.choice(ENV_KEYS), v=rng.choice(ENV_VALS))})
            continue
        if kind in ("ImmutableMultiDict", "CombinedMultiDict", "EnvironHeaders") and rng.random() < 0.5:
            o = 1  # mutate what the view reads through / a mutable sibling more often
            kind = kinds[0]
            if kind == "Environ":
                steps.append({"op": "call", "o": 1, "name": "env_set", "a": A(k=rng.choice(ENV_KEYS), v=rng.choice(ENV_VALS))})
                continue
        name = rng.choice(muts)
        if name == "add_file" and kind != "FileMultiDict":
            name = "add"
        pk = ENV_PROBES if kind == "EnvironHeaders" else ((keys if name == "setitem_idx" else keys[:5]) if kind == "HeaderSet" else keys)
        steps.append({"op": "call", "o": o, "name": name, "a": rand_args(rng, kind, name, pk, vals or keys, 3, fresh)})
    if family == "environ":
        pkeys = ENV_PROBES
    else:
        pkeys = probe_keys("Headers" if family in ("headers", "headerset") else "MultiDict", keys)
    return pkeys, steps
