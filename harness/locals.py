"""Recorder and drivers for the context-locals area (C18).

Executes sequences of operations (the vocabulary of spec/locals/Locals.tla) on the *real*
werkzeug.local objects -- one Local, one LocalStack, a LocalManager over both, LocalProxy objects --
with the model's contexts realised three ways:

* ``copy_context``: contextvars.Context objects driven with ``Context.run``; a child is
  ``parent.run(contextvars.copy_context)``.
* ``threads``: one real thread per context, stepped in lock-step by the driver (one operation at a
  time, in the given order); a child thread is started *by the parent thread* with the parent's
  ``copy_context()`` (a plain thread starts with an empty context on this Python).
* ``asyncio``: one asyncio task per context on an event loop that the driver steps by hand
  (``run_until_complete`` of one operation's future at a time); a child task is created *inside the
  parent task* with ``loop.create_task`` (which copies the creating task's context).

After every step every live context records what it can read.  No verdicts here: results,
exception class names and reads are recorded, spec/locals/LocalsTrace.tla (TLC) judges them.
"""
from __future__ import annotations

import asyncio
import contextvars
import gc
import json
import queue
import threading

from .tlc import MachineryError

REALISATIONS = ("copy_context", "threads", "asyncio")
TOP = "@top"
CVK = "@cv"   # LocalProxy(plain ContextVar without default)
FNK = "@fn"   # LocalProxy(callable)
CVD = "@cvd"  # LocalProxy(ContextVar(.., default=object 4))
CVZ = "@cvz"  # LocalProxy(ContextVar(.., default=object 5, the int 0))
CTORS = ("default", "cv", "cvdef")  # how Local / LocalStack are constructed (Env)
UNBOUND_REPR = "<LocalProxy unbound>"


class Box:
    """The mutable objects that get stored in the locals (identity `ident`, one mutable field)."""

    __slots__ = ("ident", "val")

    def __init__(self, ident):
        self.ident = ident
        self.val = 0

    def __repr__(self):
        return f"<Box {self.ident}>"


class FBox(Box):
    """Like Box, but falsy while its field is 0 (an object whose __bool__ returns False)."""

    __slots__ = ()

    def __bool__(self):
        return self.val != 0


IOPS = {"proxy_iadd": "+=", "proxy_isub": "-=", "proxy_ior": "|=", "proxy_imul": "*="}
RTE, TYE, IXE, KYE, OTHER = -1, -2, -3, -4, -9  # codes of spec/locals/Locals.tla


class AppError(Exception):
    """Raised by the WSGI app of an "mw" request with v = 3."""


def iop_operand(op, v):
    """Operand of an augmented assignment (Locals.tla: IopArgs); fresh objects each time."""
    if op == "proxy_imul":
        return 2
    return {1: 1, 2: "z", 3: (7,), 4: frozenset({7}), 5: [7, 7]}[v]


def _code(fn):
    """Result of a read as an int; failures as the code of the exception class."""
    try:
        v = fn()
        return v if isinstance(v, int) and not isinstance(v, bool) else int(bool(v)) if isinstance(v, bool) else OTHER
    except RuntimeError:
        return RTE
    except TypeError:
        return TYE
    except IndexError:
        return IXE
    except KeyError:
        return KYE
    except Exception:
        return OTHER


class EqBox(Box):
    """Like Box, but every EqBox compares equal to every other one (equal, not identical)."""

    __slots__ = ()

    def __eq__(self, other):
        return isinstance(other, EqBox)

    def __hash__(self):
        return 17


def make_objects(n):
    """The object universe of spec/locals/Locals.tla (KindOf / Init0), identifiers 1..n.  Some are
    always truthy, some always falsy (0, "", [], {}), some change (FBox, a list emptied through a
    proxy).  Objects are identified by `is`."""
    objs = {1: Box(1), 2: FBox(2), 3: [7, 7], 4: Box(4), 5: 0, 6: "", 7: [], 8: {},
            9: 3, 10: "ab", 11: (1, 2), 12: frozenset({1}),
            # equal (==) to another object of the universe, but not the same object
            13: [], 14: {}, 15: set(), 16: set(), 17: EqBox(17), 18: EqBox(18),
            19: True, 20: 1, 21: 1.0,
            22: "".join(["e", " ", "q", "!"]), 23: "".join(["e", " ", "q", "!"])}
    assert objs[22] is not objs[23] and objs[22] == objs[23]
    return {i: objs[i] for i in range(1, n + 1)}


def mkop(ctx, op, n="", b=0, v=0, k="", child=0):
    return {"ctx": ctx, "op": op, "n": n, "b": b, "v": v, "k": k, "child": child}


class Env:
    """The werkzeug objects of one trace (shared by all contexts, like module globals)."""

    def __init__(self, names, nboxes, made=(), ctor="default"):
        from werkzeug.local import Local, LocalManager, LocalStack

        self.names = list(names)
        # constructor variants: own ContextVar / caller-supplied ContextVar without default /
        # caller-supplied ContextVar with a default (which the locals never hand out)
        if ctor == "cv":
            self.ns = Local(context_var=contextvars.ContextVar("verif.ns"))
            self.stack = LocalStack(context_var=contextvars.ContextVar("verif.stack"))
        elif ctor == "cvdef":
            self.ns = Local(contextvars.ContextVar("verif.ns", default={}))
            self.stack = LocalStack(contextvars.ContextVar("verif.stack", default=[]))
        else:
            self.ns = Local()
            self.stack = LocalStack()
        self.cv = contextvars.ContextVar("verif.plain")  # behind the @cv proxy, no default
        self.manager = LocalManager([self.ns, self.stack])
        self.boxes = make_objects(nboxes)
        # plain ContextVars declared with a default (behind the @cvd / @cvz proxies) and the tokens
        # of their outstanding set() calls per (context id, kind)
        self.dvars = {CVD: contextvars.ContextVar("verif.d", default=self.boxes.get(4)),
                      CVZ: contextvars.ContextVar("verif.z", default=self.boxes.get(5))}
        self.tokens = {}
        self.proxies = {}
        self.inflight = {}   # context id -> unclosed iterable returned by the manager middleware
        self._wrapped = {}   # the manager in use and, per form, the one middleware object all requests use
        for k in made:
            self.make_proxy(k)

    def make_proxy(self, k, how=0):
        """how: 0 = ns(name) / stack();  1 = LocalProxy(...) called directly;  2 = ... with
        unbound_message.  The ContextVar and callable proxies only have the direct form."""
        from werkzeug.local import LocalProxy

        kw = {"unbound_message": "nothing here"} if how == 2 else {}
        if k == CVK:
            self.proxies[k] = LocalProxy(self.cv, **kw)
        elif k in self.dvars:
            self.proxies[k] = LocalProxy(self.dvars[k], **kw)
        elif k == FNK:
            # the documented legacy form LocalProxy(lambda: other_proxy.attr): a callable that
            # itself says RuntimeError where nothing is bound
            self.proxies[k] = LocalProxy(self.ns("x")._get_current_object, **kw)
        elif how == 0:
            self.proxies[k] = self.stack() if k == TOP else self.ns(k)
        elif k == TOP:
            self.proxies[k] = LocalProxy(self.stack, **kw)
        else:
            self.proxies[k] = LocalProxy(self.ns, k, **kw)

    # -- executed inside the acting context ---------------------------------------------------
    def perform(self, o):
        """Run one operation in the *current* context; return the result record."""
        from werkzeug.local import LocalManager, release_local

        op = o["op"]
        try:
            if op == "set":
                setattr(self.ns, o["n"], self.boxes[o["b"]])
                return _ok()
            if op == "get":
                return self._box(getattr(self.ns, o["n"]))
            if op == "del":
                delattr(self.ns, o["n"])
                return _ok()
            if op == "iter":
                return {"tag": "int", "id": len(list(self.ns)), "exc": ""}
            if op == "release":
                release_local(self.ns)
                return _ok()
            if op == "push":
                self.stack.push(self.boxes[o["b"]])
                return _ok()
            if op == "pop":
                return self._box(self.stack.pop())
            if op == "top":
                return self._box(self.stack.top)
            if op == "release_stack":
                release_local(self.stack)
                return _ok()
            if op == "cleanup":
                self.manager.cleanup()
                return _ok()
            if op == "release_dunder":
                self.ns.__release_local__()
                return _ok()
            if op == "release_stack_dunder":
                self.stack.__release_local__()
                return _ok()
            if op == "pop_all":  # LocalStack popped until it answers None
                n = 0
                while self.stack.pop() is not None and n < 64:
                    n += 1
                return {"tag": "int", "id": n, "exc": ""}
            if op == "mkmgr":  # every documented call form of LocalManager
                form = o["k"]
                self.manager = (LocalManager() if form == "none" else LocalManager(self.ns) if form == "local"
                                else LocalManager(self.stack) if form == "stack"
                                else LocalManager([self.stack]) if form == "lstack"
                                else LocalManager([self.ns, self.stack]))
                return _ok()
            if op == "mgr_append":
                self.manager.locals.append(self.ns if o["k"] == "local" else self.stack)
                return _ok()
            if op == "mw":
                return self._request(o)
            if op == "mkproxy":
                self.make_proxy(o["k"], o["v"])
                return _ok()
            if op == "nop":
                return _ok()
            if op == "cv_set":
                self.cv.set(self.boxes[o["b"]])
                return _ok()
            if op == "cvd_set":
                self.tokens.setdefault((o["ctx"], o["k"]), []).append(self.dvars[o["k"]].set(self.boxes[o["b"]]))
                return _ok()
            if op == "cvd_reset":  # undo the latest set() of this context
                self.dvars[o["k"]].reset(self.tokens[(o["ctx"], o["k"])].pop())
                return _ok()
            if op == "mw_enter":
                return self._enter(o)
            if op == "mw_close":
                return self._close(o)
            if op == "mw_abandon":
                # this context receives the only reference to another context's unclosed response,
                # drops it and collects garbage
                it = self.inflight.pop(o["child"])
                del it
                gc.collect()
                return _ok()
            if op == "proxy_read":
                return self._box(self.proxies[o["k"]]._get_current_object())
            if op == "proxy_mutate":
                self.proxies[o["k"]].val = o["v"]  # LocalProxy.__setattr__ -> setattr(bound object)
                return _ok()
            if op == "proxy_pop":
                self.proxies[o["k"]].pop()  # forwarded: list.pop() of the bound object
                return _ok()
            if op == "proxy_clear":
                self.proxies[o["k"]].clear()
                return _ok()
            if op in IOPS:
                # augmented assignment on the *name* that holds the proxy: whatever the operator
                # returns is what the name holds afterwards (it must still be the proxy)
                x = iop_operand(op, o["v"])
                if op == "proxy_iadd":
                    self.proxies[o["k"]] += x
                elif op == "proxy_isub":
                    self.proxies[o["k"]] -= x
                elif op == "proxy_ior":
                    self.proxies[o["k"]] |= x
                else:
                    self.proxies[o["k"]] *= x
                return _ok()
        except Exception as e:  # recorded, judged by TLC
            return {"tag": "exc", "id": 0, "exc": type(e).__name__}
        raise MachineryError(f"unknown operation {op!r}")

    def observe(self, c):
        """Everything the *current* context can read (pure reads), as a record for the judge.
        A read that fails in an unforeseen way is recorded as poison (-1) and judged, it does not
        stop the recording."""
        try:
            return self._observe(c)
        except Exception:
            return {"c": c, "get": [{"n": n, "id": -1, "h": -1, "d": -1} for n in self.names], "iter": [], "top": -1,
                    "stack": [-1], "sval": [-1], "prox": []}

    def _middleware(self, form):
        """The middleware object of the manager in use: built once, shared by every request of
        every context (what each request's app does travels in the environ)."""
        if self._wrapped.get("manager") is not self.manager:
            self._wrapped = {"manager": self.manager}
        key = form
        if key not in self._wrapped:
            ns, stack, boxes = self.ns, self.stack, self.boxes

            def application(environ, start_response):
                o = environ["verif.plan"]
                if o["n"]:
                    setattr(ns, o["n"], boxes[o["b"]])
                elif o["b"]:
                    stack.push(boxes[o["b"]])
                if o["v"] == 3:
                    raise AppError("app failed")
                start_response("200 OK", [("Content-Type", "text/plain")])
                return [b"a", b"b"]

            if form == "deco":
                wrapped = self.manager.middleware(application)  # @manager.middleware
            else:
                wrapped = self.manager.make_middleware(application)
            self._wrapped[key] = wrapped
        return self._wrapped[key]

    def _call(self, o):
        return self._middleware(o["k"])({"REQUEST_METHOD": "GET", "verif.plan": o},
                                         lambda status, headers, exc_info=None: None)

    @staticmethod
    def _finish(it, v):
        try:
            if v == 0:
                for _ in it:
                    pass
            elif v == 2:
                next(iter(it))
        finally:
            it.close()  # what a WSGI server does when the response has been sent

    def _request(self, o):
        """One whole WSGI request through the LocalManager middleware, in the current context."""
        self._finish(self._call(o), o["v"])
        return _ok()

    def _enter(self, o):
        """First half of a request: the server calls the middleware; the iterable stays open."""
        self.inflight[o["ctx"]] = self._call(o)
        return _ok()

    def _close(self, o):
        """Second half: the body is (partly) consumed and the iterable closed, in this context."""
        self._finish(self.inflight.pop(o["ctx"]), o["v"])
        return _ok()

    # -- identification of objects (by identity) and of their state ------------------------------
    def _ident(self, obj):
        for i, b in self.boxes.items():
            if b is obj:
                return i
        return -1

    def _box(self, b):
        if b is None:
            return {"tag": "none", "id": 0, "exc": ""}
        return {"tag": "box", "id": self._ident(b), "exc": ""}

    @staticmethod
    def _state(obj):
        """The object's state as the model sees it: field `val`, or the length of a container."""
        try:
            v = obj.val if isinstance(obj, Box) else len(obj) if isinstance(obj, (list, dict, set)) else 0
            return v if isinstance(v, int) and not isinstance(v, bool) else -1
        except Exception:
            return -1

    def _observe(self, c):
        get = []
        for n in self.names:
            try:
                g = {"n": n, "id": self._ident(getattr(self.ns, n))}
            except AttributeError:
                g = {"n": n, "id": 0}
            except Exception:
                g = {"n": n, "id": -1}
            # hasattr() / getattr(.., default): 1 / 0, -1 = an exception other than AttributeError escaped
            try:
                g["h"] = int(hasattr(self.ns, n))
            except Exception:
                g["h"] = -1
            try:
                g["d"] = int(getattr(self.ns, n, _MISSING) is _MISSING)
            except Exception:
                g["d"] = -1
            get.append(g)
        it = [{"n": str(n), "id": self._ident(b), "val": self._state(b)} for n, b in self.ns]
        it.sort(key=lambda e: e["n"])
        top = self.stack.top
        # the whole stack through the public API only: pop it empty inside a throw-away copy of
        # this context (a copy is independent -- that is the property under test; if it were not,
        # the damage shows up in the next observation and is reported there)
        items = contextvars.copy_context().run(_drain, self.stack)
        prox = [self._observe_proxy(k, self.proxies[k]) for k in sorted(self.proxies)]
        return {"c": c, "get": get, "iter": it, "top": 0 if top is None else self._ident(top),
                "stack": [self._ident(b) for b in items], "sval": [self._state(b) for b in items],
                "prox": prox}

    def _observe_proxy(self, k, p):
        """Reads through one proxy in the current context.  Codes: 0 = RuntimeError (the proxy says
        it is unbound), -1 = any other failure."""
        from werkzeug.local import LocalProxy

        try:
            r = repr(p)
            truthy = bool(p)
        except Exception:
            r, truthy = "", False
        e = {"k": k, "isproxy": type(p) is LocalProxy, "truthy": truthy, "unb": r == UNBOUND_REPR}
        obj = None
        try:
            obj = p._get_current_object()
            e["cur"] = self._ident(obj)
        except RuntimeError:
            e["cur"] = 0
        except Exception:
            e["cur"] = -1
        e["repobj"] = e["cur"] > 0 and r == repr(obj)
        # an operation forwarded to the bound object: attribute read for the plain objects (and for
        # a proxy that says it is unbound: that must raise RuntimeError), == for the builtins.
        # (`unbound_proxy == x` is not used: CPython's rich-comparison slot swallows the error
        # raised while looking up __eq__ and answers NotImplemented -> False.)
        try:
            if obj is None or isinstance(obj, Box):
                v = p.ident
                e["id"] = v if isinstance(v, int) else -1
            else:
                e["id"] = e["cur"] if (p == obj) is True else -1
        except RuntimeError:
            e["id"] = 0
        except Exception:
            e["id"] = -1
        # the object's state read through the proxy (field / len / int)
        try:
            if e["cur"] <= 0:
                e["val"] = 0
            elif isinstance(obj, Box):
                v = p.val
                e["val"] = v if isinstance(v, int) and not isinstance(v, bool) else -1
            elif isinstance(obj, (int, float)):
                e["val"] = int(p)
            else:
                e["val"] = len(p)
        except RuntimeError:
            e["val"] = 0
        except Exception:
            e["val"] = -1
        # other forwarded dunders, each computed through the proxy in this context
        other = 0 if obj is None else obj
        # [len, iter, [0], 7 in, +, hash, str, dir() non-empty] as codes
        e["fw"] = [_code(lambda: len(p)), _code(lambda: len(list(iter(p)))),
                   _code(lambda: (p[0], 1)[1]), _code(lambda: 7 in p),
                   _code(lambda: _size(p + other)), _code(lambda: (hash(p), 1)[1]),
                   _code(lambda: (str(p), 1)[1]), _code(lambda: int(len(dir(p)) > 0))]
        # the universe objects that ==, str() and hash() through the proxy cannot tell from it
        try:
            sp = str(p)
            try:
                hp = hash(p)
            except TypeError:
                hp = None
            e["ag"] = [i for i, b in self.boxes.items()
                       if _is_true(lambda: p == b) and str(b) == sp and _hash_or_none(b) == hp]
        except Exception:
            e["ag"] = []
        return e


def _ok():
    return {"tag": "ok", "id": 0, "exc": ""}


_MISSING = object()


def _size(v):
    return int(v) if isinstance(v, (int, float)) else len(v)


def _hash_or_none(b):
    try:
        return hash(b)
    except TypeError:
        return None


def _is_true(fn):
    try:
        return fn() is True
    except Exception:
        return False


def _drain(stack):
    out = []
    while True:
        b = stack.pop()
        if b is None:
            break
        out.append(b)
        if len(out) > 64:
            break
    out.reverse()
    return out


# ------------------------------------------------------------------------------ realisations
class CopyContextWorld:
    real = "copy_context"

    def __init__(self, env):
        self.env = env
        self.ctxs = {1: contextvars.Context()}

    def do(self, o):
        c = self.ctxs[o["ctx"]]
        if o["op"] == "spawn":
            self.ctxs[o["child"]] = c.run(contextvars.copy_context)
            return _ok()
        return c.run(self.env.perform, o)

    def observe(self):
        return [self.ctxs[c].run(self.env.observe, c) for c in sorted(self.ctxs)]

    def close(self):
        self.ctxs.clear()


class ThreadWorld:
    """One real thread per context; the driver hands one command at a time to one thread and
    waits for its answer (lock-step, so the interleaving is exactly the given order)."""

    real = "threads"
    TIMEOUT = 20

    def __init__(self, env):
        self.env = env
        self.inbox = {}
        self.threads = {}
        self.answers = queue.Queue()
        self._start(1, None)

    def _start(self, c, snapshot):
        self.inbox[c] = queue.Queue()
        if snapshot is None:
            t = threading.Thread(target=self._worker, args=(c,), daemon=True)  # empty context
        else:
            t = threading.Thread(target=snapshot.run, args=(self._worker, c), daemon=True)
        self.threads[c] = t
        t.start()

    def _worker(self, c):
        q = self.inbox[c]
        while True:
            cmd, o = q.get()
            try:
                if cmd == "stop":
                    self.answers.put(("ok", None))
                    return
                if cmd == "observe":
                    self.answers.put(("ok", self.env.observe(c)))
                elif o["op"] == "spawn":
                    # the child context is created *in the parent thread* at this point in time
                    self._start(o["child"], contextvars.copy_context())
                    self.answers.put(("ok", _ok()))
                else:
                    self.answers.put(("ok", self.env.perform(o)))
            except BaseException as e:  # harness failure, not a verdict
                self.answers.put(("err", repr(e)))

    def _ask(self, c, cmd, o=None):
        self.inbox[c].put((cmd, o))
        try:
            st, val = self.answers.get(timeout=self.TIMEOUT)
        except queue.Empty:
            raise MachineryError(f"thread for context {c} did not answer")
        if st != "ok":
            raise MachineryError(f"thread for context {c} failed: {val}")
        return val

    def do(self, o):
        return self._ask(o["ctx"], "do", o)

    def observe(self):
        return [self._ask(c, "observe") for c in sorted(self.threads)]

    def close(self):
        for c in sorted(self.threads):
            self._ask(c, "stop")
        for t in self.threads.values():
            t.join(self.TIMEOUT)


class AsyncioWorld:
    """One asyncio task per context on a loop stepped by hand: the driver (plain synchronous
    code) puts a command into a task's queue and runs the loop until that command's future is
    done -- nothing else is runnable, so the schedule is exactly the given order."""

    real = "asyncio"

    def __init__(self, env, loop=None):
        self.env = env
        self.own_loop = loop is None
        self.loop = loop or asyncio.new_event_loop()
        self.inbox = {}
        self.tasks = {}
        # the root task gets an empty context of its own
        self._spawn(1, contextvars.Context())

    def _spawn(self, c, context=None):
        self.inbox[c] = asyncio.Queue()
        if context is not None:
            self.tasks[c] = self.loop.create_task(self._worker(c), context=context)
        else:
            # no explicit context: create_task copies the *current* (= the parent task's) context
            self.tasks[c] = self.loop.create_task(self._worker(c))

    async def _worker(self, c):
        q = self.inbox[c]
        while True:
            cmd, o, fut = await q.get()
            try:
                if cmd == "stop":
                    fut.set_result(None)
                    return
                if cmd == "observe":
                    fut.set_result(self.env.observe(c))
                elif o["op"] == "spawn":
                    self._spawn(o["child"])
                    fut.set_result(_ok())
                else:
                    fut.set_result(self.env.perform(o))
                await asyncio.sleep(0)  # a real suspension point between operations
            except BaseException as e:
                if not fut.done():
                    fut.set_exception(MachineryError(f"task for context {c} failed: {e!r}"))
                return

    def _ask(self, c, cmd, o=None):
        fut = self.loop.create_future()
        self.inbox[c].put_nowait((cmd, o, fut))
        return self.loop.run_until_complete(fut)

    def do(self, o):
        return self._ask(o["ctx"], "do", o)

    def observe(self):
        return [self._ask(c, "observe") for c in sorted(self.tasks)]

    def close(self):
        for c in sorted(self.tasks):
            self._ask(c, "stop")
        self.loop.run_until_complete(asyncio.gather(*self.tasks.values(), return_exceptions=True))
        if self.own_loop:
            self.loop.close()


WORLDS = {"copy_context": CopyContextWorld, "threads": ThreadWorld, "asyncio": AsyncioWorld}


_LOOP = {}


def _process_loop():
    """One event loop per (forked) process, reused for all asyncio traces of that process."""
    import os

    pid = os.getpid()
    if pid not in _LOOP:
        _LOOP.clear()
        _LOOP[pid] = asyncio.new_event_loop()
    return _LOOP[pid]


def run_trace(real, ops, *, names=("x", "y", "z"), nboxes=23, made=(), ctor="default"):
    """Execute `ops` in the given realisation; returns the trace lines (cfg + one per op).
    A "nop" line also carries what the driver's own (main) context reads: it never writes, so it
    must see nothing, before and after everything the other contexts did."""
    env = Env(names, nboxes, made, ctor)
    world = AsyncioWorld(env, _process_loop()) if real == "asyncio" else WORLDS[real](env)
    lines = [{"op": "cfg", "real": real, "made": sorted(made), "ctor": ctor}]
    try:
        for i, o in enumerate(ops):
            r = world.do(o)
            ln = dict(o)
            ln["i"] = i
            ln["r"] = r
            ln["obs"] = world.observe()
            ln["main"] = [env.observe(1)] if o["op"] == "nop" else []  # judged as an empty view
            lines.append(ln)
    finally:
        world.close()
    return lines


# ------------------------------------------------------------------------------ the exported LTS
def skey(state) -> str:
    return json.dumps(state, sort_keys=True, separators=(",", ":"))


class LTS:
    """Labelled transition system exported by TLC from the contract (MCLocals, ACTION_CONSTRAINT)."""

    def __init__(self, records):
        self.succ = {}  # state key -> list of (op, post key)
        self.ntrans = 0
        for r in records:
            if not (isinstance(r, dict) and "pre" in r and "act" in r):
                continue
            a, b = skey(r["pre"]), skey(r["post"])
            self.succ.setdefault(a, []).append((r["act"]["op"], b))
            self.succ.setdefault(b, [])
            self.ntrans += 1
        # single-worker BFS: the first exported transition leaves the initial state
        first = next((r for r in records if isinstance(r, dict) and "pre" in r), None)
        if first is None or first["pre"]["alive"] != [1] or any(len(x) for x in first["pre"]["stack"]) \
                or any(v != 0 for a in first["pre"]["attrs"] for v in a.values()):
            raise MachineryError("exported LTS has no recognisable initial state")
        self.init = skey(first["pre"])
        self.init_made = list(first["pre"]["made"])

    def tours(self, rng, maxlen=40):
        """Paths from the initial state that together take every transition at least once:
        walk, preferring untaken transitions, otherwise go to the nearest state that has one
        (BFS); start a new path when the current one is long."""
        untaken = {s: list(range(len(tr))) for s, tr in self.succ.items()}
        for lst in untaken.values():
            rng.shuffle(lst)
        remaining = sum(len(v) for v in untaken.values())
        paths = []
        while remaining:
            cur, path = self.init, []
            while remaining:
                if untaken[cur]:
                    j = untaken[cur].pop()
                    remaining -= 1
                    op, nxt = self.succ[cur][j]
                    path.append(op)
                    cur = nxt
                else:
                    hop = self._to_untaken(cur, untaken)
                    if hop is None:
                        break
                    if path and len(path) + len(hop) > maxlen:
                        break
                    for j in hop:
                        op, nxt = self.succ[cur][j]
                        path.append(op)
                        cur = nxt
                if len(path) >= maxlen:
                    break
            if not path:
                # unreachable remainder from init (cannot happen for a BFS-generated LTS)
                raise MachineryError("LTS tour: transitions unreachable from the initial state")
            paths.append(path)
        return paths

    def _to_untaken(self, start, untaken):
        prev = {start: None}
        frontier = [start]
        while frontier:
            nxt_frontier = []
            for s in frontier:
                for j, (_, d) in enumerate(self.succ[s]):
                    if d in prev:
                        continue
                    prev[d] = (s, j)
                    if untaken[d]:
                        hop = []
                        cur = d
                        while prev[cur] is not None:
                            p, jj = prev[cur]
                            hop.append(jj)
                            cur = p
                        hop.reverse()
                        return hop
                    nxt_frontier.append(d)
            frontier = nxt_frontier
        return None


# ------------------------------------------------------------------------------ random schedules
def random_ops(rng, length, *, nctx=3, names=("x", "y", "z"), nboxes=23, vals=(0, 1, 2, 7), made=(),
               max_stack=5):
    """A seeded random behaviour of the model's vocabulary (tracks only what is needed to keep
    operations enabled: which contexts exist, which proxies exist, stack depth is irrelevant)."""
    alive = [1]
    made = set(made)
    kinds = list(names) + [TOP, CVK, FNK, CVD, CVZ]
    ntok = {}               # outstanding set() tokens per (context, kind)
    depth = {1: 0}
    ops = [mkop(1, "nop")]  # reads before any write, in the root and in the main context
    nmul = 0
    infl = set()            # contexts with a request in flight
    while len(ops) < length:
        c = rng.choice(alive)
        if rng.random() < 0.09:  # LocalManager call forms and the other release paths
            u = rng.random()
            if u < 0.3:
                ops.append(mkop(c, "cleanup"))
                depth[c] = 0
            elif u < 0.5:
                if infl:  # (vocabulary: no new manager while a request of the old one is in flight)
                    continue
                ops.append(mkop(c, "mkmgr", k=rng.choice(["none", "local", "stack", "both", "lstack"])))
            elif u < 0.6:
                ops.append(mkop(c, "mgr_append", k=rng.choice(["local", "stack"])))
            elif u < 0.85:
                how = rng.random()
                n, b = (rng.choice(names), rng.randint(1, nboxes)) if how < 0.5 else \
                    ("", rng.randint(1, nboxes)) if how < 0.8 and depth[c] < max_stack else ("", 0)
                if not n and b:
                    depth[c] += 1
                ops.append(mkop(c, "mw", n=n, b=b, v=rng.randint(0, 3), k=rng.choice(["make", "deco"])))
            else:
                ops.append(mkop(c, rng.choice(["release_dunder", "release_stack_dunder", "pop_all"])))
            continue
        if rng.random() < 0.10:  # overlapping requests: enter / close halves, per context
            others = sorted(infl - {c})
            if others and rng.random() < 0.12:
                a = rng.choice(others)
                ops.append(mkop(c, "mw_abandon", child=a))
                infl.discard(a)
            elif c in infl:
                ops.append(mkop(c, "mw_close", v=rng.randint(0, 2)))
                infl.discard(c)
            else:
                how = rng.random()
                n, b = (rng.choice(names), rng.randint(1, nboxes)) if how < 0.6 else \
                    ("", rng.randint(1, nboxes)) if how < 0.8 and depth[c] < max_stack else ("", 0)
                if not n and b:
                    depth[c] += 1
                v = 3 if rng.random() < 0.2 else 0
                ops.append(mkop(c, "mw_enter", n=n, b=b, v=v, k=rng.choice(["make", "deco"])))
                if v == 0:
                    infl.add(c)
            continue
        if rng.random() < 0.07:
            u = rng.random()
            k = rng.choice([CVD, CVZ])
            if u < 0.3:
                ops.append(mkop(c, "nop"))
            elif u < 0.5:
                ops.append(mkop(c, "cv_set", b=rng.randint(1, nboxes)))
            elif u < 0.8 or not ntok.get((c, k)):
                ops.append(mkop(c, "cvd_set", b=rng.randint(1, nboxes), k=k))
                ntok[(c, k)] = ntok.get((c, k), 0) + 1
            else:
                ops.append(mkop(c, "cvd_reset", k=k))
                ntok[(c, k)] -= 1
            continue
        w = rng.random()
        if w < 0.10 and len(alive) < nctx:
            child = len(alive) + 1
            parent = rng.choice(alive)
            ops.append(mkop(parent, "spawn", child=child))
            alive.append(child)
            depth[child] = depth[parent]
        elif w < 0.30:
            ops.append(mkop(c, "set", n=rng.choice(names), b=rng.randint(1, nboxes)))
        elif w < 0.38:
            ops.append(mkop(c, "del", n=rng.choice(names)))
        elif w < 0.42:
            ops.append(mkop(c, "get", n=rng.choice(names)))
        elif w < 0.44:
            ops.append(mkop(c, "iter"))
        elif w < 0.48:
            ops.append(mkop(c, "release"))
        elif w < 0.62:
            if depth[c] < max_stack:
                ops.append(mkop(c, "push", b=rng.randint(1, nboxes)))
                depth[c] += 1
        elif w < 0.72:
            ops.append(mkop(c, "pop"))
            depth[c] = max(0, depth[c] - 1)
        elif w < 0.74:
            ops.append(mkop(c, "top"))
        elif w < 0.77:
            ops.append(mkop(c, "release_stack"))
            depth[c] = 0
        elif w < 0.80:
            ops.append(mkop(c, "cleanup"))
            depth[c] = 0  # (an upper bound is all `depth` is used for)
        elif w < 0.86 or not made:
            k = rng.choice(kinds)
            ops.append(mkop(c, "mkproxy", k=k, v=rng.randint(0, 2)))
            made.add(k)
        elif w < 0.875:
            ops.append(mkop(c, "proxy_read", k=rng.choice(sorted(made))))
        elif w < 0.91:
            ops.append(mkop(c, "proxy_mutate", k=rng.choice(sorted(made)), v=rng.choice(vals)))
        elif w < 0.93:
            ops.append(mkop(c, "proxy_pop", k=rng.choice(sorted(made))))
        elif w < 0.94:
            ops.append(mkop(c, "proxy_clear", k=rng.choice(sorted(made))))
        else:
            op = rng.choice(["proxy_iadd", "proxy_iadd", "proxy_isub", "proxy_ior", "proxy_imul"])
            if op == "proxy_imul":
                if nmul >= 3:  # a list doubles each time: keep it small
                    continue
                nmul += 1
            ops.append(mkop(c, op, k=rng.choice(sorted(made)), v=2 if op == "proxy_imul" else rng.randint(1, 5)))
    return ops
