"""X08 drivers / recorders: HTTP exceptions, abort / Aborter, redirect, RequestRedirect, append_slash_redirect.

A *case* (vocabulary of spec/httpexc/HttpExc.tla) names a class, its constructor arguments, how the response is obtained
(get_response(None | environ | request) or the exception called as a WSGI application) and the request method.  The
recorder builds the real object, renders it through a minimal PEP 3333 server stub, and writes down what the server saw:
status line, header list, body (code points of the UTF-8 decoded bytes and the byte count), the same for a second rendering
(as a digest), identity of the returned response, the exception class if something raised.  Arguments whose text the
contract needs are recorded from public observables of the constructed objects (str(www_authenticate value),
datetime.utcoffset(), repr(key), exc.name, cls.description).  Nothing is judged here.

Fields that only the harness reads (TLC ignores them): arg.www (how to build the WWW-Authenticate values), arg.tz / arg.us
(time zone kind and microseconds of retry_after), arg.rawkey, dflt (call without the code argument), style.
"""
from __future__ import annotations

import ast
import copy
import datetime as dt
import hashlib
import inspect
import io
import json
import pickle
import random
import re

MENU = 3  # responses that can be passed as response=


def cps(s):
    return [ord(c) for c in s]


def txt(v):
    return "".join(map(chr, v))


def digits(n):
    return [int(c) for c in str(n)]


def undigits(ds):
    return int("".join(map(str, ds)) or "0")


NOARG = {"k": "none", "vs": [], "n": [], "units": [], "dt": [], "key": [], "show": False}
NOLOC = {"scheme": [], "host": [], "path": [], "query": [], "hasq": False, "frag": [], "hasf": False}
NOENV = {"script": [], "path": [], "qs": []}


def A(k, **kw):
    d = copy.deepcopy(NOARG)
    d["k"] = k
    d.update(kw)
    return d


# ---------------------------------------------------------------------------------------------- the real classes
_CLS = None


def classes():
    global _CLS
    if _CLS is None:
        from werkzeug import exceptions as E
        from werkzeug.routing import RequestRedirect

        d = {n: c for n, c in vars(E).items() if inspect.isclass(c) and issubclass(c, E.HTTPException)}
        d["RequestRedirect"] = RequestRedirect
        # docs/exceptions.rst "Custom Errors": the minimal code you need for your own exception
        d["PaymentRequired"] = type("PaymentRequired", (E.HTTPException,), {"code": 402, "description": "<p>Payment required.</p>"})
        _CLS = d
    return _CLS


def hdr_kind(cls):
    from werkzeug import exceptions as E

    if issubclass(cls, E.MethodNotAllowed):
        return "allow"
    if issubclass(cls, E.RequestedRangeNotSatisfiable):
        return "range"
    if issubclass(cls, E.Unauthorized):
        return "www"
    if issubclass(cls, E._RetryAfter):
        return "retry"
    if issubclass(cls, E.BadRequestKeyError):
        return "key"
    return "plain"


def menu_response(m):
    from werkzeug.wrappers import Response

    if m == 1:
        return Response("Hello World")
    if m == 2:
        return Response("nope \u2603", 418, {"X-Custom": "1"}, mimetype="text/html")

    class TestResponse(Response):
        pass

    return TestResponse(b"bytes", 202)


# ---------------------------------------------------------------------------------------------- PEP 3333 server stub
def environ(method="GET", script="", path="/", qs=""):
    return {
        "REQUEST_METHOD": method, "SCRIPT_NAME": script, "PATH_INFO": path, "QUERY_STRING": qs,
        "SERVER_NAME": "localhost", "SERVER_PORT": "80", "HTTP_HOST": "localhost", "SERVER_PROTOCOL": "HTTP/1.1",
        "wsgi.version": (1, 0), "wsgi.url_scheme": "http", "wsgi.input": io.BytesIO(b""), "wsgi.errors": io.StringIO(),
        "wsgi.multithread": False, "wsgi.multiprocess": False, "wsgi.run_once": False,
    }


def serve(app, env):
    got = {}

    def start_response(status, headers, exc_info=None):
        got["status"] = status
        got["headers"] = list(headers)
        return lambda data: None

    it = app(env, start_response)
    try:
        body = b"".join(it)
    finally:
        close = getattr(it, "close", None)
        if close is not None:
            close()
    return got["status"], got["headers"], body


def digest(status, headers, body):
    return hashlib.sha1(json.dumps([status, [list(h) for h in headers], body.hex()]).encode()).hexdigest()[:16]


def blank_out():
    return {"exc": "", "status": [], "headers": [], "body": [], "blen": 0, "glen": 0, "utf8": True, "same": False,
            "sig": "", "sig2": "", "twin": "", "isrcls": False}


def fill_out(o, status, headers, body):
    o["status"] = cps(status)
    o["headers"] = [{"n": cps(str(n)), "v": cps(str(v))} for n, v in headers]
    try:
        o["body"] = cps(body.decode("utf-8"))
    except UnicodeDecodeError:
        o["utf8"] = False
        o["body"] = cps(body.decode("latin-1"))
    o["blen"] = len(body)
    o["sig"] = digest(status, headers, body)


# ---------------------------------------------------------------------------------------------- render
def _description(d):
    from markupsafe import Markup

    if d["k"] == "text":
        return txt(d["v"])
    if d["k"] == "markup":
        return Markup(txt(d["v"]))
    if d["k"] == "int":
        return int(txt(d["v"]))
    return None


def _www_values(a):
    """build the www_authenticate argument; a['www'] (harness only) = list of ["obj", type, {params}] | ["tok", type, token] |
    ["str", text]; without it (cases exported by TLC) the texts of a['vs'] are parsed back with WWWAuthenticate.from_header"""
    from werkzeug.datastructures import WWWAuthenticate

    vals = []
    if "www" in a:
        for w in a["www"]:
            if w[0] == "obj":
                vals.append(WWWAuthenticate(w[1], dict(w[2])))
            elif w[0] == "tok":
                vals.append(WWWAuthenticate(w[1], token=w[2]))
            else:
                vals.append(w[1])
    else:
        for v in a["vs"]:
            vals.append(WWWAuthenticate.from_header(txt(v)) or txt(v))
    return vals


def _retry_value(a):
    if a["k"] == "t_int":
        return undigits(a["n"])
    y, mo, d, h, mi, s, off = a["dt"]
    tz = a.get("tz", "utc" if off == 0 else "fixed")
    us = a.get("us", 0)
    if tz == "naive":
        return dt.datetime(y, mo, d, h, mi, s, us)
    if tz == "utc":
        return dt.datetime(y, mo, d, h, mi, s, us, tzinfo=dt.timezone.utc)
    if tz.startswith("zone:"):
        import zoneinfo

        return dt.datetime(y, mo, d, h, mi, s, us, tzinfo=zoneinfo.ZoneInfo(tz[5:]))
    return dt.datetime(y, mo, d, h, mi, s, us, tzinfo=dt.timezone(dt.timedelta(seconds=off)))


def build_exception(c):
    """-> (exception instance, the response object passed as response= or None); fills the observable argument texts of c"""
    cls = classes()[c["cls"]]
    a = c["arg"]
    kw = {}
    desc = _description(c["desc"])
    if desc is not None:
        kw["description"] = desc
    passed = None
    if c["resp"]:
        passed = menu_response(c["resp"])
        kw["response"] = passed
    args = []
    if a["k"] == "m_list":
        kw["valid_methods"] = [txt(m) for m in a["vs"]]
    elif a["k"] == "m_none" and c.get("style") == "explicit":
        kw["valid_methods"] = None
    elif a["k"] == "r_len":
        kw["length"] = undigits(a["n"])
        kw["units"] = txt(a["units"])
    elif a["k"] in ("w_single", "w_list"):
        vals = _www_values(a)
        a["vs"] = [cps(str(v)) for v in vals]                 # the documented header value of an item is str(item)
        kw["www_authenticate"] = vals[0] if a["k"] == "w_single" else (tuple(vals) if c.get("style") == "tuple" else vals)
    elif a["k"] in ("t_int", "t_dt"):
        val = _retry_value(a)
        if a["k"] == "t_dt":
            off = val.utcoffset()
            a["dt"] = [val.year, val.month, val.day, val.hour, val.minute, val.second,
                       0 if off is None else off.days * 86400 + off.seconds]
        kw["retry_after"] = val
    elif a["k"] == "k_key":
        key = a["rawkey"] if "rawkey" in a else ast.literal_eval(txt(a["key"]))
        a["key"] = cps(repr(key))
        args.append(key)
    if c.get("style") == "positional" and a["k"] == "none" and "description" in kw and "response" not in kw:
        args.append(kw.pop("description"))
    exc = cls(*args, **kw)
    if a["k"] == "k_key" and a["show"]:
        exc.show_exception = True
    return exc, passed


def _render_once(exc, c, method):
    from werkzeug.wrappers import Request

    env = environ(method)
    via = c["via"]
    if via == "call":
        return None, serve(exc, env)
    if via == "none":
        r = exc.get_response()
    elif via == "environ":
        r = exc.get_response(env)
    else:
        r = exc.get_response(Request(env))
    return r, serve(r, env)


def run_render(c):
    c = copy.deepcopy(c)
    o = blank_out()
    cls = classes().get(c["cls"])
    try:
        exc, passed = build_exception(c)
        c["name"] = cps(exc.name)                                    # "The status name."
        c["cdesc"] = cps(str(cls.description)) if isinstance(cls.description, str) else cps(
            str(getattr(cls, "_description", "") or ""))             # the class's default description (public attribute)
        r, (st, hs, body) = _render_once(exc, c, c["method"])
        fill_out(o, st, hs, body)
        o["same"] = passed is not None and r is passed
        o["isrcls"] = True
        _, (st2, hs2, body2) = _render_once(exc, c, c["method"])
        o["sig2"] = digest(st2, hs2, body2)
        if c["method"] == "HEAD":
            _, (_, _, gbody) = _render_once(exc, c, "GET")
            o["glen"] = len(gbody)
        else:
            o["glen"] = len(body)
        if c["resp"]:
            ts, th, tb = serve(menu_response(c["resp"]), environ(c["method"]))
            o["twin"] = digest(ts, th, tb)
    except Exception as e:  # noqa: BLE001 -- the class name is the observation
        o["exc"] = type(e).__name__
        o["excmsg"] = str(e)[:200]
        if not c.get("name"):
            c["name"] = []
        if "cdesc" not in c or c["cdesc"] is None:
            c["cdesc"] = []
    return {"op": "render", "c": c, "o": o}


# ---------------------------------------------------------------------------------------------- redirects
def loc_text(l):
    s = ""
    if l["scheme"]:
        s += txt(l["scheme"]) + "://" + txt(l["host"])
    s += txt(l["path"])
    if l["hasq"]:
        s += "?" + txt(l["query"])
    if l["hasf"]:
        s += "#" + txt(l["frag"])
    return s


def run_redirect(c):
    from werkzeug.routing import RequestRedirect
    from werkzeug.utils import append_slash_redirect, redirect
    from werkzeug.wrappers import Request, Response

    class CustomResponse(Response):
        pass

    c = copy.deepcopy(c)
    o = blank_out()
    fn = c["fn"]
    if fn == "slash":
        e = c["env"]
        mk_env = lambda m: environ(m, bytes(e["script"]).decode("latin-1"), bytes(e["path"]).decode("latin-1"),  # noqa: E731
                                   bytes(e["qs"]).decode("latin-1"))
    else:
        mk_env = lambda m: environ(m)  # noqa: E731

    def once(method):
        env = mk_env(method)
        if fn == "redirect":
            kw = {"Response": CustomResponse} if c["rcls"] else {}
            r = redirect(loc_text(c["loc"]), **kw) if c.get("dflt") else redirect(loc_text(c["loc"]), c["code"], **kw)
            return r, serve(r, env)
        if fn == "slash":
            r = append_slash_redirect(env) if c.get("dflt") else append_slash_redirect(env, c["code"])
            return r, serve(r, env)
        exc = RequestRedirect(loc_text(c["loc"]))
        if c["via"] == "call":
            return None, serve(exc, env)
        r = exc.get_response() if c["via"] == "none" else exc.get_response(env) if c["via"] == "environ" else exc.get_response(Request(env))
        return r, serve(r, env)

    try:
        r, (st, hs, body) = once(c["method"])
        fill_out(o, st, hs, body)
        o["isrcls"] = isinstance(r, CustomResponse) if c["rcls"] else True
        _, (st2, hs2, body2) = once(c["method"])
        o["sig2"] = digest(st2, hs2, body2)
        o["glen"] = len(once("GET")[1][2]) if c["method"] == "HEAD" else len(body)
    except Exception as e:  # noqa: BLE001
        o["exc"] = type(e).__name__
        o["excmsg"] = str(e)[:200]
    return {"op": "redirect", "c": c, "o": o}


# ---------------------------------------------------------------------------------------------- abort
def registry():
    from werkzeug.exceptions import default_exceptions

    return [{"code": k, "cls": v.__name__} for k, v in sorted(default_exceptions.items())]


def run_abort(c):
    from werkzeug import exceptions as E

    c = copy.deepcopy(c)
    c["reg"] = registry()
    o = {"raised": "", "dtext": [], "same": False, "sig": "", "twin": ""}
    cl = classes()
    mp = {m["code"]: cl[m["cls"]] for m in c["ab"]["map"]}
    k = c["ab"]["k"]
    if k == "default":
        ab = E.abort if c.get("style") != "aborter" else E.Aborter()
    elif k == "mapping":
        ab = E.Aborter(mp) if c.get("style") != "kw" else E.Aborter(mapping=mp)
    else:
        ab = E.Aborter(extra=mp)
    try:
        if c["what"] == "response":
            resp = menu_response(1)
            try:
                ab(resp)
            except E.HTTPException as e:
                o["raised"] = type(e).__name__
                o["same"] = e.get_response() is resp and e.get_response(environ()) is resp
                st, hs, body = serve(e, environ())
                o["sig"] = digest(st, hs, body)
                o["twin"] = digest(*serve(menu_response(1), environ()))
        else:
            args, kw = [c["code"]], {}
            text = txt(c["dtext"])
            target = mp.get(c["code"]) if k == "mapping" else mp.get(c["code"], E.default_exceptions.get(c["code"]))
            first_is_description = target is None or hdr_kind(target) in ("plain", "www", "retry")
            if c["fwd"] == "pos" and first_is_description:
                args.append(text)
            elif c["fwd"] != "none":
                kw["description"] = text
            try:
                ab(*args, **kw)
            except E.HTTPException as e:
                o["raised"] = type(e).__name__
                if c["fwd"] != "none" and isinstance(e.description, str):
                    o["dtext"] = cps(e.description)
    except Exception as e:  # noqa: BLE001
        o["raised"] = type(e).__name__
    return {"op": "abort", "c": c, "o": o}


# ---------------------------------------------------------------------------------------------- static facts
_DOC_RE = re.compile(r"^\*?(\d{3})\*?\s+`{0,2}([^`]+?)`{0,2}\s*$")


def static_lines():
    from werkzeug import exceptions as E
    from werkzeug.datastructures import MultiDict
    from werkzeug.routing import RequestRedirect

    out = []
    for name, cls in classes().items():
        if name == "PaymentRequired":
            continue
        first = ((cls.__doc__ or "").strip().splitlines() or [""])[0]
        m = _DOC_RE.match(first)
        try:
            inst = cls("http://localhost/x") if cls is RequestRedirect else cls()
        except Exception:  # noqa: BLE001
            inst = None

        def works(f):
            try:
                x = f(inst)
                return type(x) is type(inst) and x.__dict__.keys() == inst.__dict__.keys()
            except Exception:  # noqa: BLE001
                return False
        out.append({"op": "static", "s": {
            "cls": name, "code": cls.code or 0, "doccode": int(m.group(1)) if m else 0, "docname": cps(m.group(2)) if m else [],
            "name": cps(inst.name) if inst is not None else [],
            "default": E.default_exceptions[cls.code].__name__ if cls.code in E.default_exceptions else "",
            "copyok": inst is not None and works(copy.copy) and works(copy.deepcopy),
            "pickleok": inst is not None and works(lambda x: pickle.loads(pickle.dumps(x)))}})
    out.append({"op": "registry", "reg": registry()})
    brke = E.BadRequestKeyError("k")
    try:
        MultiDict()["missing"]
        md = None
    except Exception as e:  # noqa: BLE001
        md = e
    orig = ValueError("boom")
    try:
        E.abort(lambda env, sr: [])
        aw = ""
    except Exception as e:  # noqa: BLE001
        aw = type(e).__name__
    out.append({"op": "facts", "f": {
        "haswrap": hasattr(E.HTTPException, "wrap"),
        "brke_keyerror": isinstance(brke, KeyError), "brke_badrequest": isinstance(brke, E.BadRequest),
        "md_raises": type(md).__name__, "md_keyerror": isinstance(md, KeyError), "md_badrequest": isinstance(md, E.BadRequest),
        "ise_orig": E.InternalServerError(original_exception=orig).original_exception is orig
                    and E.InternalServerError().original_exception is None,
        "abort_wsgi": aw}})
    return out


def run_case(case):
    op = case["op"]
    if op == "render":
        return run_render(case)
    if op == "redirect":
        return run_redirect(case)
    if op == "abort":
        return run_abort(case)
    raise ValueError(op)


# ---------------------------------------------------------------------------------------------- seeded random cases
_TEXT_ALPHA = ("abcXYZ 09" "<>&\"'" "<>&\"'" "\n\n\r\t" "/\\=;:,.-_" "\u00e9\u00df\u00ff\u0100\u2603\u20ac\ufffd\U0001f600\U0010ffff" "\x00\x7f\x85\u2028")
_TOKEN = "ABCDEFGHIJKLMNOPQRSTUVWXYZabcdefghijklmnopqrstuvwxyz0123456789!#$%&'*+-.^_`|~"
_METHODS = ["GET", "HEAD", "POST", "PUT", "DELETE", "OPTIONS", "PATCH", "TRACE", "CONNECT", "PROPFIND", "get", "M-SEARCH"]
_ZONES = ["Europe/Berlin", "America/New_York", "Asia/Kolkata", "Australia/Lord_Howe", "Pacific/Kiritimati", "America/St_Johns"]


def _text(rng, n=24, alpha=_TEXT_ALPHA):
    return "".join(rng.choice(alpha) for _ in range(rng.randint(0, n)))


def _zones():
    try:
        import zoneinfo

        return [z for z in _ZONES if z in zoneinfo.available_timezones()]
    except Exception:  # noqa: BLE001
        return []


def rand_desc(rng):
    r = rng.random()
    if r < 0.2:
        return {"k": "none", "v": []}
    if r < 0.75:
        return {"k": "text", "v": cps(_text(rng))}
    if r < 0.95:
        return {"k": "markup", "v": cps(rng.choice(["<b>", "<i>x</i>", "<a href=\"u\">l</a>", "&amp;", ""]) + _text(rng, 10, "ab<>& \n\u00e9"))}
    return {"k": "int", "v": cps(str(rng.randint(0, 10 ** rng.randint(1, 12))))}


def rand_datetime(rng, zones):
    y = rng.choice([2, 3, 100, 999, 1000, 1583, 1899, 1900, 1969, 1970, 1999, 2000, 2020, 2024, 2038, 2100, 2400, 9997, 9998,
                    rng.randint(2, 9998)])
    mo = rng.randint(1, 12)
    d = rng.randint(1, 28) if rng.random() < 0.7 else (29 if mo == 2 and (y % 4 == 0 and (y % 100 or y % 400 == 0)) else 28 if mo == 2 else 30)
    h, mi, s = rng.choice([0, 23, rng.randint(0, 23)]), rng.choice([0, 59, rng.randint(0, 59)]), rng.choice([0, 59, rng.randint(0, 59)])
    r = rng.random()
    tz, off = "utc", 0
    if r < 0.25:
        tz = "naive"
    elif r < 0.4:
        tz = "utc"
    elif r < 0.8 or not zones:
        tz = "fixed"
        off = rng.choice([3600, -3600, 19800, 50400, -43200, 86399, -86399, 1, -1, rng.randint(-86399, 86399)])
    else:
        tz = "zone:" + rng.choice(zones)
    return A("t_dt", dt=[y, mo, d, h, mi, s, off], tz=tz, us=rng.choice([0, 0, 1, 999999]))


def rand_arg(rng, kind, zones):
    r = rng.random()
    if kind == "allow":
        if r < 0.1:
            return A("m_none")
        ms = [rng.choice(_METHODS) if rng.random() < 0.8 else "".join(rng.choice(_TOKEN) for _ in range(rng.randint(1, 8)))
              for _ in range(rng.choice([0, 1, 1, 2, 3, 5, 9]))]
        if ms and rng.random() < 0.06:
            ms[rng.randrange(len(ms))] += rng.choice(["\r\nX-Injected: 1", "\n", " b", ",c"])
        return A("m_list", vs=[cps(m) for m in ms])
    if kind == "range":
        if r < 0.1:
            return A("r_none")
        n = rng.choice([0, 1, 5, 2 ** 31 - 1, 2 ** 31, 2 ** 63, 10 ** 30, rng.randint(0, 10 ** rng.randint(1, 20))])
        u = rng.choice(["bytes", "bytes", "items", "".join(rng.choice(_TOKEN) for _ in range(rng.randint(1, 6)))])
        if rng.random() < 0.04:
            u += "\r\nX: y"
        return A("r_len", n=digits(n), units=cps(u))
    if kind == "www":
        if r < 0.1:
            return A("w_none")

        def one():
            q = rng.random()
            realm = _text(rng, 8, "abc d\"\\,=;\u00e9") if q < 0.9 else "a\r\nb"
            if q < 0.4:
                return ["obj", rng.choice(["basic", "Basic", "digest"]), {"realm": realm}]
            if q < 0.6:
                return ["obj", "digest", {"realm": realm, "nonce": _text(rng, 6, "abcdef0123"), "qop": "auth", "stale": "FALSE"}]
            if q < 0.75:
                return ["tok", "bearer", "".join(rng.choice("abcXYZ019-._~+/") for _ in range(rng.randint(1, 12))) + "=="]
            return ["str", rng.choice(["Basic realm=\"x\"", "Negotiate", "Bearer error=\"invalid_token\", error_description=\"e d\""])]
        if r < 0.35:
            w = one()
            while w[0] == "str":
                w = one()
            return A("w_single", www=[w])
        return A("w_list", www=[one() for _ in range(rng.choice([0, 1, 2, 2, 3, 5]))])
    if kind == "retry":
        if r < 0.08:
            return A("t_none")
        if r < 0.45:
            return A("t_int", n=digits(rng.choice([0, 0, 1, 59, 120, 3600, 86400, 2 ** 31, 10 ** 15, rng.randint(0, 10 ** rng.randint(1, 12))])))
        return rand_datetime(rng, zones)
    if kind == "key":
        if r < 0.15:
            return A("k_none")
        key = rng.choice([_text(rng, 10, "abck<>&'\" \u00e9\n") + "kEy", rng.randint(100, 10 ** 6), "k<e>y", "it's", 'q"uo\'te'])
        return A("k_key", rawkey=key, key=cps(repr(key)), show=rng.random() < 0.5)
    return A("none")


def rand_render(rng, zones, special=0.65):
    cl = classes()
    names = [n for n in cl if n not in ("_RetryAfter", "RequestRedirect")]
    specials = [n for n in names if hdr_kind(cl[n]) != "plain"]
    name = rng.choice(specials) if rng.random() < special else rng.choice(names)
    c = {"op": "render", "cls": name, "name": [], "cdesc": [], "via": rng.choice(["none", "environ", "request", "call", "call"]),
         "method": rng.choice(["GET", "GET", "HEAD", "POST", "DELETE"]), "desc": rand_desc(rng),
         "resp": rng.choice([0] * 9 + [1, 2, 3]), "arg": rand_arg(rng, hdr_kind(cl[name]), zones),
         "style": rng.choice(["kw", "kw", "positional", "explicit", "tuple"])}
    if c["desc"]["k"] == "markup" and c["arg"]["k"] == "k_key" and c["arg"]["show"]:
        c["desc"] = {"k": "none", "v": []}
    return c


_PATH_ALPHA = "abc019/-._~%!$&'()*+,;=:@ <>\"^`{|}\\\u00e9\u00fc\u2603\U0001f600"


def rand_loc(rng):
    l = copy.deepcopy(NOLOC)
    if rng.random() < 0.5:
        l["scheme"] = cps(rng.choice(["http", "https"]))
        l["host"] = cps(rng.choice(["ex.com", "localhost", "a-b.example.org", "127.0.0.1", "h1"]))
        l["path"] = cps(("/" + _text(rng, 14, _PATH_ALPHA)) if rng.random() < 0.9 else "")
    else:
        l["path"] = cps(rng.choice(["/", "", "../", "./", "a/"]) + _text(rng, 14, _PATH_ALPHA))
    if rng.random() < 0.5:
        l["query"] = cps(_text(rng, 10, _PATH_ALPHA + "?"))
        l["hasq"] = True
    if rng.random() < 0.3:
        l["frag"] = cps(_text(rng, 6, _PATH_ALPHA + "?#"))
        l["hasf"] = True
    r = rng.random()
    if r < 0.04:
        l["path"] = l["path"] + cps(rng.choice(["\r\nSet-Cookie: a=b", "\n", "\r"]))
    elif r < 0.08:
        l["path"] = l["path"] + cps(rng.choice(["[x]", "\t", "\x7f", "\x01"]))
    return l


def rand_redirect(rng):
    fn = rng.choice(["redirect", "redirect", "rr"])
    c = {"op": "redirect", "fn": fn, "code": 308, "loc": rand_loc(rng), "env": copy.deepcopy(NOENV), "via": "call",
         "method": rng.choice(["GET", "GET", "HEAD", "POST"]), "rcls": False}
    if fn == "redirect":
        if rng.random() < 0.2:
            c["code"], c["dflt"] = 302, True
        else:
            c["code"] = rng.choice([301, 302, 303, 305, 307, 308, 308, 201, 300, 304])
        c["rcls"] = rng.random() < 0.3
    else:
        c["via"] = rng.choice(["none", "environ", "request", "call"])
    return c


_SEG_ALPHA = [ord(x) for x in "abcxyz0142-._~"] * 2 + [ord(x) for x in ":?#%+ &=;@!$'()*,\"<>\\^`{|}[]"] + [0xC3, 0xBC, 0xE2, 0x98, 0x83, 0xFF, 0x80,
                                                                                                      0xE9, 0x0A, 0x0D, 0x09, 0x00, 0x7F, 0x1F]


def rand_slash(rng):
    segs = []
    for _ in range(rng.choice([1, 1, 2, 3])):
        r = rng.random()
        if r < 0.2:
            seg = list(rng.choice(["\u00fc", "\u2603", "f\u00f6\u00f6", "\U0001f600", "\u00e9t\u00e9"]).encode())
        elif r < 0.3:
            seg = [ord(x) for x in rng.choice(["a:b", "mailto:x", "a?b", "a#b", "a%41", "100%", "a b", "c++", "x:1"])]
        else:
            seg = [rng.choice(_SEG_ALPHA) for _ in range(rng.randint(1, 8))]
        segs.append(seg)
    path = []
    for s in segs:
        path += [47] + s
    if rng.random() < 0.05:
        path += [47]
    qs = [ord(x) for x in rng.choice(["", "", "q=1", "a=1&b=%C3%BC", "x=a+b", "r", "a=1;b=2", "q=\u00fc".encode().decode("latin-1")])]
    c = {"op": "redirect", "fn": "slash", "code": 308, "loc": copy.deepcopy(NOLOC),
         "env": {"script": [ord(x) for x in rng.choice(["", "", "/app", "/a/b"])], "path": path, "qs": qs},
         "via": "call", "method": rng.choice(["GET", "GET", "HEAD", "POST"]), "rcls": False}
    if rng.random() < 0.4:
        c["dflt"] = True
    else:
        c["code"] = rng.choice([301, 302, 303, 307, 308])
    return c


def rand_abort(rng):
    cl = classes()
    names = [n for n in cl if n not in ("_RetryAfter", "RequestRedirect", "HTTPException")]
    k = rng.choice(["default", "default", "mapping", "extra"])
    mp = []
    if k != "default":
        for code in rng.sample([1, 2, 200, 402, 404, 400, 499, 500, 503, 999], rng.randint(0, 3)):
            mp.append({"code": code, "cls": rng.choice(names)})
    if rng.random() < 0.08:
        return {"op": "abort", "ab": {"k": k, "map": mp}, "reg": [], "what": "response", "code": 0, "fwd": "none", "dtext": []}
    reg_codes = [m["code"] for m in registry()]
    code = rng.choice(reg_codes) if rng.random() < 0.6 else rng.choice([0, 1, 2, 100, 200, 204, 301, 308, 402, 499, 599, 600, 999, -1])
    fwd = rng.choice(["none", "pos", "kw"])
    return {"op": "abort", "ab": {"k": k, "map": mp}, "reg": [], "what": "code", "code": code, "fwd": fwd,
            "dtext": cps(_text(rng, 12)) if fwd != "none" else [], "style": rng.choice(["fn", "aborter", "kw"])}


def random_cases(seed, n):
    rng = random.Random(seed)
    zones = _zones()
    out = []
    for _ in range(n):
        r = rng.random()
        out.append(rand_render(rng, zones) if r < 0.55 else rand_redirect(rng) if r < 0.72 else rand_slash(rng) if r < 0.9 else rand_abort(rng))
    return out


# ---------------------------------------------------------------------------------------------- fixtures (judge self-test)
def fixtures():
    """cases whose recorded outcome is then falsified field by field; each falsification must be rejected by the judge"""
    return [
        {"op": "render", "cls": "MethodNotAllowed", "name": [], "cdesc": [], "via": "call", "method": "GET",
         "desc": {"k": "text", "v": cps("no <b>way</b> & \"so\"")}, "resp": 0, "arg": A("m_list", vs=[cps("GET"), cps("HEAD")])},
        {"op": "render", "cls": "ServiceUnavailable", "name": [], "cdesc": [], "via": "environ", "method": "GET",
         "desc": {"k": "none", "v": []}, "resp": 0, "arg": A("t_dt", dt=[2020, 1, 4, 18, 52, 16, 0], tz="naive")},
        {"op": "render", "cls": "Unauthorized", "name": [], "cdesc": [], "via": "none", "method": "HEAD",
         "desc": {"k": "none", "v": []}, "resp": 0,
         "arg": A("w_list", www=[["obj", "digest", {"realm": "r", "nonce": "n"}], ["obj", "basic", {"realm": "r"}]])},
        {"op": "redirect", "fn": "redirect", "code": 303, "loc": dict(NOLOC, scheme=cps("http"), host=cps("ex.com"), path=cps("/p\u00e5th/<x>"),
                                                                      query=cps("q=\u00e8ry"), hasq=True),
         "env": copy.deepcopy(NOENV), "via": "call", "method": "GET", "rcls": False},
        {"op": "redirect", "fn": "slash", "code": 308, "loc": copy.deepcopy(NOLOC), "env": {"script": [], "path": list(b"/user/42"), "qs": list(b"a=1")},
         "via": "call", "method": "GET", "rcls": False, "dflt": True},
        {"op": "abort", "ab": {"k": "default", "map": []}, "reg": [], "what": "code", "code": 400, "fwd": "kw", "dtext": cps("why")},
    ]
