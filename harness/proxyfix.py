"""X01 -- recorders and drivers for werkzeug.middleware.proxy_fix.ProxyFix.

Nothing here decides a verdict: a case is executed on the real middleware and everything observable is
recorded (the six environ keys before / as the wrapped application saw them / after a second pass,
werkzeug.proxy_fix.orig, how the wrapped application was called, get_host of the result); the relation is
written in spec/proxyfix/ProxyFix.tla and evaluated by TLC (ProxyFixTrace.tla).

case = {"cfg": {"for","proto","host","port","prefix": int},
        "env": {"remote","scheme","host","sname","sport","script": str | None},
        "hd":  {"for","proto","host","port","prefix": str | None}            the header text, or
        "lines": {name: [str, ...]}   several header lines per name (sent through EnvironBuilder, which
                                      combines duplicates; the combined text is what gets recorded as hd)
        "exp", "exp2": rows exported from MCProxyFix (optional)}
"""
from __future__ import annotations

import io

from .core import cps

KEYS = (("remote", "REMOTE_ADDR"), ("scheme", "wsgi.url_scheme"), ("host", "HTTP_HOST"),
        ("sname", "SERVER_NAME"), ("sport", "SERVER_PORT"), ("script", "SCRIPT_NAME"))
HDRS = (("for", "HTTP_X_FORWARDED_FOR", "X-Forwarded-For"), ("proto", "HTTP_X_FORWARDED_PROTO", "X-Forwarded-Proto"),
        ("host", "HTTP_X_FORWARDED_HOST", "X-Forwarded-Host"), ("port", "HTTP_X_FORWARDED_PORT", "X-Forwarded-Port"),
        ("prefix", "HTTP_X_FORWARDED_PREFIX", "X-Forwarded-Prefix"))
ORIG = "werkzeug.proxy_fix.orig"
NAMES = tuple(h[0] for h in HDRS)


def slot(x):
    return {"p": False, "v": []} if x is None else {"p": True, "v": cps(x)}


def unslot(s):
    return "".join(chr(c) for c in s["v"]) if s["p"] else None


def _six(environ) -> dict:
    return {k: slot(environ.get(wk)) for k, wk in KEYS}


def _orig(environ) -> dict:
    o = environ.get(ORIG)
    if not isinstance(o, dict):
        return {k: {"p": True, "v": cps("!no-orig-dict")} for k, _ in KEYS}
    return {k: slot(o.get(wk)) if (o.get(wk) is None or isinstance(o.get(wk), str)) else {"p": True, "v": cps("!not-a-str")}
            for k, wk in KEYS}


def _others(environ) -> dict:
    skip = {wk for _, wk in KEYS} | {ORIG}
    return {k: v for k, v in environ.items() if k not in skip}


def build_environ(case: dict) -> dict:
    env, hd = case["env"], case.get("hd") or {}
    if case.get("lines"):
        from werkzeug.test import EnvironBuilder

        headers = [(hname, line) for k, _, hname in HDRS for line in case["lines"].get(k, [])]
        e = EnvironBuilder(path="/p", query_string="a=b", headers=headers + [("Accept", "*/*")]).get_environ()
    else:
        e = {"REQUEST_METHOD": "GET", "PATH_INFO": "/p", "QUERY_STRING": "a=b", "SERVER_PROTOCOL": "HTTP/1.1",
             "wsgi.version": (1, 0), "wsgi.input": io.BytesIO(b""), "HTTP_ACCEPT": "*/*",
             "HTTP_X_FORWARDED_SERVER": "front", "HTTP_FORWARDED": "for=198.51.100.1;proto=gopher;host=other"}
        for k, wk, _ in HDRS:
            if hd.get(k) is not None:
                e[wk] = hd[k]
    for k, wk in KEYS:
        if env.get(k) is None:
            e.pop(wk, None)
        else:
            e[wk] = env[k]
    return e


def run_case(case: dict) -> dict:
    """Execute one case on the real ProxyFix; returns the trace line (without t / i)."""
    from werkzeug.middleware.proxy_fix import ProxyFix
    from werkzeug.wsgi import get_host

    cfg = case["cfg"]
    environ = build_environ(case)
    before = _six(environ)
    hd = {k: slot(environ.get(wk)) for k, wk, _ in HDRS}
    others0 = _others(environ)
    seen: list = []
    marker = [b"body"]

    def start_response(status, headers, exc_info=None):
        return None

    def app(e, sr):
        seen.append({"same_env": e is environ, "same_sr": sr is start_response, "six": _six(e), "orig": _orig(e),
                     "others": _others(e), "copy": dict(e)})
        return marker

    app_rec = {"calls": 0, "same_env": False, "same_sr": False, "ret_same": False, "exc": ""}
    out = orig = out2 = orig2 = before
    other_same = True
    gh = {"kind": "exc", "v": [], "exc": "NotRun"}
    try:
        pf = ProxyFix(app, x_for=cfg["for"], x_proto=cfg["proto"], x_host=cfg["host"], x_port=cfg["port"], x_prefix=cfg["prefix"])
        ret = pf(environ, start_response)
        app_rec = {"calls": len(seen), "same_env": bool(seen) and seen[0]["same_env"], "same_sr": bool(seen) and seen[0]["same_sr"],
                   "ret_same": ret is marker, "exc": ""}
        if seen:
            out, orig = seen[0]["six"], seen[0]["orig"]
            other_same = seen[0]["others"] == others0
            try:
                gh = {"kind": "value", "v": cps(get_host(dict(seen[0]["copy"]))), "exc": ""}
            except Exception as ex:  # recorded, judged by the spec
                gh = {"kind": "exc", "v": [], "exc": type(ex).__name__}
            # the same environ once more through the middleware (a second ProxyFix layer with the same counts)
            n0 = len(seen)
            pf(environ, start_response)
            if len(seen) == n0 + 1:
                out2, orig2 = seen[-1]["six"], seen[-1]["orig"]
                other_same = other_same and seen[-1]["others"] == others0
            else:
                app_rec["calls"] = len(seen) - n0 if len(seen) != n0 else 0
    except Exception as ex:
        app_rec["exc"] = type(ex).__name__
    exp, exp2 = case.get("exp"), case.get("exp2")
    return {"op": "pfix", "cfg": {k: int(cfg[k]) for k in NAMES}, "env": before, "hd": hd,
            "out": out, "orig": orig, "out2": out2, "orig2": orig2, "app": app_rec, "other_same": other_same, "gh": gh,
            "has_exp": exp is not None, "exp": exp or out, "exp2": exp2 or out2}


# --------------------------------------------------------------------------- spec -> code
def case_from_row(row: dict) -> dict:
    """A row exported from MCProxyFix: [focus, cfg, env, hd, out, out2] with slots of code points."""
    return {"cfg": row["cfg"], "env": {k: unslot(row["env"][k]) for k, _ in KEYS},
            "hd": {k: unslot(row["hd"][k]) for k in NAMES}, "exp": row["out"], "exp2": row["out2"], "src": "model:" + row["focus"]}


# --------------------------------------------------------------------------- code -> spec drivers
ENV0 = {"remote": "10.0.0.9", "scheme": "http", "host": "spam:9000", "sname": "spam", "sport": "9000", "script": ""}
NOCFG = {k: 0 for k in NAMES}
NOHD = {k: None for k in NAMES}

VALS = {
    "for": ["192.168.0.1", "10.0.0.7", "2001:db8::a", "[2001:db8::a]", "[2001:db8::a]:4711", "1.2.3.4:5678", "unknown", "_hidden", "::1"],
    "proto": ["http", "https", "HTTPS", "Http", "ws", "wss", "WSS", "ftp"],
    "host": ["eggs", "eggs.example", "eggs.example:8080", "eggs:443", "eggs:80", "[2001:db8::a]", "[2001:db8::a]:9000", "[::1]:443",
             "EGGS.example:81", "[2001:DB8::A]:80"],
    "port": ["80", "443", "8080", "9000", "1"],
    "prefix": ["/ham", "/ham/eggs", "ham", "/ham/", "/", "ham/eggs", "/h%20m"],
}
# values whose decomposition is not documented (the judge claims less about them)
ODD = {
    "for": ["for=1.2.3.4", "1.2.3.4 5.6.7.8", "[::1"],
    "proto": ["https://", "1", "h ttp"],
    "host": ["2001:db8::a", "eggs:", "eggs:http", "[::1]x", ":80", "a:b:c", "[::1]:", "[]", "eggs:08080"],
    "port": ["0443", "http", "80a", "-1", "65536"],
    "prefix": ["ham eggs", "?x=1", "#f"],
}
# what a client may put in front of the proxies' values
CLIENT = ['"', '"evil', 'ev"il', '"a, b"', "\\", '"\\', 'x\\"', "evil", "", " ", "a,b", '""', '"evil"', "'evil", 'evil"', '"\\"',
          "\t", '" ,', ',"', '"evil.example:80', '"443', '"https', '"/admin']
OWS = ["", "", " ", " ", "  ", "\t", " \t "]


def render(rng, vals, tight=False):
    """a list of values as one header text: comma separated, optional white space around the items"""
    if tight:
        return ", ".join(vals)
    return ",".join(rng.choice(OWS[:5]) + v + rng.choice(OWS[:3] if rng.random() < 0.7 else OWS) for v in vals)


def split_lines(rng, vals):
    """the same list sent as 1..3 header lines"""
    if len(vals) < 2 or rng.random() < 0.5:
        return [vals]
    k = rng.randint(1, len(vals) - 1)
    a, b = vals[:k], vals[k:]
    if len(b) >= 2 and rng.random() < 0.3:
        j = rng.randint(1, len(b) - 1)
        return [a, b[:j], b[j:]]
    return [a, b]


def random_env(rng):
    e = dict(ENV0)
    r = rng.random()
    if r < 0.45:
        e["host"] = rng.choice(["spam", "spam:9000", "spam:443", "spam:80", "[2001:db8::b]", "[2001:db8::b]:9000", "SPAM.example"])
    elif r < 0.6:
        e["host"] = None
    elif r < 0.63:
        e["host"] = rng.choice(["", "2001:db8::b", "spam:", "[::1"])
    if rng.random() < 0.3:
        e["scheme"] = rng.choice(["https", "http", "wss"])
    if rng.random() < 0.3:
        e["sname"], e["sport"] = rng.choice([("localhost", "80"), ("2001:db8::b", "9000"), ("spam", "443"), ("spam", "0"), ("/run/app.sock", "")])
    if rng.random() < 0.04:
        e[rng.choice(["remote", "sname", "sport", "script"])] = None
    if rng.random() < 0.3:
        e["script"] = rng.choice(["/orig", "", "/a/b"])
    return e


def random_case(rng) -> dict:
    """hop counts 0..4, per header: nothing / a client part (junk, quotes, empty items) / 0..3 proxies' values"""
    cfg, hd, lines = {}, {}, {}
    use_lines = rng.random() < 0.25
    focus = rng.sample(NAMES, rng.choice([1, 2, 2, 3, 5]))
    for k in NAMES:
        cfg[k] = rng.choice([0, 1, 1, 1, 2, 2, 3, 4]) if k in focus or rng.random() < 0.3 else 0
        if k not in focus and rng.random() < 0.6:
            hd[k] = None
            continue
        vals = []
        for _ in range(rng.choice([0, 0, 0, 1, 1, 2])):          # the client's part
            r = rng.random()
            vals.append(rng.choice(VALS[k]) if r < 0.45 else rng.choice(CLIENT) if r < 0.9 else rng.choice(ODD[k]))
        for _ in range(rng.choice([0, 1, 1, 1, 2, 2, 3])):       # what proxies appended
            r = rng.random()
            vals.append(rng.choice(VALS[k]) if r < 0.88 else "" if r < 0.93 else rng.choice(ODD[k]))
        if not vals and rng.random() < 0.5:
            hd[k] = None
            continue
        if use_lines:
            lines[k] = [render(rng, part, tight=rng.random() < 0.3) for part in split_lines(rng, vals)]
        else:
            hd[k] = render(rng, vals, tight=rng.random() < 0.3)
            if rng.random() < 0.05:
                hd[k] += rng.choice([",", ", ", " ,"])
    case = {"cfg": cfg, "env": random_env(rng), "src": "random"}
    if use_lines:
        case["lines"] = lines
    else:
        case["hd"] = hd
    return case


def sweep_cases():
    """every code point 33..255 (white space and controls aside) once inside a client value standing in front of
    one proxy value, once inside the selected value itself, for every header"""
    cases = []
    good = {"for": "192.168.0.1", "proto": "https", "host": "eggs.example:8080", "port": "8443", "prefix": "/ham"}
    for cp in list(range(33, 127)) + [c for c in range(161, 256)]:
        ch = chr(cp)
        if ch == ",":
            continue
        for k in NAMES:
            cfg = dict(NOCFG, **{k: 1})
            cases.append({"cfg": cfg, "env": dict(ENV0), "hd": dict(NOHD, **{k: f"x{ch}y, {good[k]}"}), "src": "sweep-client"})
            if k in ("for", "proto", "prefix"):
                text = {"for": f"6.6.6.6, 1{ch}2", "proto": f"gopher, h{ch}s", "prefix": f"/evil, /p{ch}q"}[k]
                cases.append({"cfg": cfg, "env": dict(ENV0), "hd": dict(NOHD, **{k: text}), "src": "sweep-value"})
    return cases


def documented_cases():
    """the situations the documentation and the repository's test table name, with the counts varied 0..3"""
    table = [
        ({"for": "192.168.0.1", "proto": "https"}, {"host": "spam"}),
        ({"host": "eggs"}, {"host": "spam"}),
        ({"port": "8080"}, {"host": "spam"}),
        ({"port": "8080"}, {"host": "spam:9000"}),
        ({"port": "8080"}, {"host": None, "sname": "spam", "sport": "9000"}),
        ({"prefix": "/eggs"}, {"host": "spam"}),
        ({"for": "192.168.0.1", "proto": "https", "host": "eggs", "port": "443", "prefix": "/ham"}, {"host": "spam:9000"}),
        ({"for": "192.168.0.1, 192.168.0.2"}, {"host": "spam"}),
        ({"for": "192.168.0.3, 192.168.0.2"}, {"host": "spam"}),
        ({"for": ", 192.168.0.3"}, {"host": "spam"}),
        ({"for": "192.168.0.1, 192.168.0.3", "prefix": "/ham, /eggs"}, {"host": "spam"}),
        ({"host": "[2001:db8::a]"}, {"host": "spam"}),
        ({"port": "8080"}, {"host": "[2001:db8::a]"}),
        ({"port": "8080"}, {"host": "[2001:db8::a]:9000"}),
        ({"host": "[2001:db8::a]:8443", "port": "443", "proto": "https"}, {"host": "spam"}),
        ({"host": "eggs:80", "proto": "http"}, {"host": "spam"}),
        ({"proto": "wss", "port": "443"}, {"host": "spam:9000"}),
    ]
    cases = []
    for hd, env in table:
        for n in range(4):
            for only in [None] + list(hd):
                cfg = {k: (n if (k in hd and (only is None or k == only)) else 0) for k in NAMES}
                cases.append({"cfg": cfg, "env": dict(ENV0, **env), "hd": dict(NOHD, **hd), "src": "documented"})
    return cases


def describe(case: dict, line: dict) -> dict:
    """a readable sample for the evidence file"""
    return {"x": {k: v for k, v in line["cfg"].items() if v}, "headers": {k: unslot(line["hd"][k]) for k in NAMES if line["hd"][k]["p"]},
            "before": {wk: unslot(line["env"][k]) for k, wk in KEYS}, "after": {wk: unslot(line["out"][k]) for k, wk in KEYS},
            "get_host": unslot({"p": line["gh"]["kind"] == "value", "v": line["gh"]["v"]}), "source": case.get("src", "")}
