"""Routing area (C03, C12): rule records <-> real werkzeug Map, recorders, generators.

Nothing here decides a verdict: the functions build real `Map` objects from rule records (the same
records the TLA+ spec reads), call `MapAdapter.match` and record what happened (rule index,
argument names / type names / printed values, exception class, new_url, valid_methods)."""
from __future__ import annotations

import itertools
import random
from urllib.parse import unquote, urlsplit

from .core import cps

UUID1 = "12345678-1234-5678-1234-567812345678"
UUID2 = "ABCDEF01-2345-6789-abcd-ef0123456789"


# ---------------------------------------------------------------------------- rule records
def lit(text):
    return {"k": "lit", "pre": text, "post": "", "conv": "", "n": 0, "m": 0, "signed": False, "items": [], "name": ""}


def var(conv, name, pre="", post="", n=0, m=0, signed=False, items=()):
    return {"k": "var", "pre": pre, "post": post, "conv": conv, "n": n, "m": m, "signed": signed,
            "items": list(items), "name": name}


def rule(segs, branch=False, methods=None, strict="d", merge="d", endpoint=None, defaults=(), alias=False):
    segs = list(segs)
    return {"segs": segs, "branch": bool(branch or not segs), "methods": methods, "strict": strict, "merge": merge,
            "endpoint": endpoint, "defaults": list(defaults), "alias": alias}


def is_path_rule(r):
    return any(s["conv"] == "path" for s in r["segs"])


def _conv_text(s):
    c = s["conv"]
    if c == "string":
        args = []
        if s["n"] not in (0, 1):
            args.append(f"minlength={s['n']}")
        if s["m"]:
            args.append(f"maxlength={s['m']}")
        return "string" + (f"({', '.join(args)})" if args else "")
    if c == "strlen":
        return f"string(length={s['n']})"
    if c == "int":
        args = []
        if s["n"]:
            args.append(f"fixed_digits={s['n']}")
        if s["signed"]:
            args.append("signed=True")
        return "int" + (f"({', '.join(args)})" if args else "")
    if c == "float":
        return "float(signed=True)" if s["signed"] else "float"
    if c == "any":
        return "any(" + ", ".join('"' + i + '"' for i in s["items"]) + ")"
    return c  # uuid, path


def seg_text(s):
    if s["k"] == "lit":
        return s["pre"]
    return f"{s['pre']}<{_conv_text(s)}:{s['name']}>{s['post']}"


def rule_string(r):
    return "/" + "/".join(seg_text(s) for s in r["segs"]) + ("/" if r["branch"] and r["segs"] else "")


_TRI = {"d": None, "t": True, "f": False}


def _default_value(d):
    if d["ty"] == "NoneType":
        return None
    if d["ty"] == "bool":
        return d["v"] == "True"
    return {"int": int, "str": str, "float": float}[d["ty"]](d["v"])


def build_map(cfg):
    """cfg = {rules, map:{strict, merge, rd}, bind:{scheme, server, script, sub}} -> (Map, adapter, [Rule])"""
    from werkzeug.routing import Map, Rule

    ws = cfg["bind"]["scheme"] in ("ws", "wss")
    objs = []
    for i, r in enumerate(cfg["rules"]):
        kw = {}
        if r["defaults"]:
            kw["defaults"] = {d["name"]: _default_value(d) for d in r["defaults"]}
        objs.append(Rule(rule_string(r), endpoint=r["endpoint"] or f"e{i + 1}", methods=r["methods"],
                         strict_slashes=_TRI[r["strict"]], merge_slashes=_TRI[r["merge"]],
                         alias=r["alias"], websocket=ws, subdomain=r.get("sub"), **kw))
    b = cfg["bind"]
    m = Map(objs, strict_slashes=cfg["map"]["strict"], merge_slashes=cfg["map"]["merge"],
            redirect_defaults=cfg["map"]["rd"], default_subdomain=cfg["map"].get("dsub", b["sub"]))
    # "bsub" given (also as ""): passed to bind() as it is; not given: bind(subdomain=None) -> the map's default
    ad = m.bind(b["server"], b["script"], url_scheme=b["scheme"],
                subdomain=b["bsub"] if b.get("bsub") is not None else (b["sub"] or None) if "dsub" not in cfg["map"] else None)
    return m, ad, objs


def eff_bind_sub(cfg):
    b = cfg["bind"]
    return b["bsub"] if b.get("bsub") is not None else cfg["map"].get("dsub", b["sub"])


def _dance(s):
    """text -> the native string a WSGI server puts into environ (UTF-8 bytes decoded as latin-1)"""
    return s.encode("utf-8").decode("latin-1")


def environ_for(cfg, path, q, method):
    """The WSGI environ a server would hand over for a request to the bound application: SCRIPT_NAME / PATH_INFO
    as latin-1 decoded bytes, QUERY_STRING raw, HTTP_HOST = [subdomain.]server[:port], websocket upgrade headers
    for ws / wss."""
    b = cfg["bind"]
    scheme = b["scheme"]
    sub = eff_bind_sub(cfg)
    host = b.get("env_host") or ((sub + "." if sub else "") + b["server"])
    name, _, port = host.partition(":")
    env = {"wsgi.url_scheme": {"ws": "http", "wss": "https"}.get(scheme, scheme), "REQUEST_METHOD": method,
           "SCRIPT_NAME": _dance(b["script"]), "PATH_INFO": _dance(path),
           "QUERY_STRING": q["s"] if q["kind"] == "str" else "",
           "HTTP_HOST": host, "SERVER_NAME": name, "SERVER_PORT": port or ("443" if scheme in ("https", "wss") else "80"),
           "SERVER_PROTOCOL": "HTTP/1.1"}
    if scheme in ("ws", "wss"):
        env["HTTP_CONNECTION"] = "keep-alive, Upgrade"
        env["HTTP_UPGRADE"] = "websocket"
    return env


def adapter_via_environ(m, cfg, path, q, method):
    b = cfg["bind"]
    env = environ_for(cfg, path, q, method)
    if b["via"] == "environ":
        return m.bind_to_environ(env)
    if b["via"] == "environ_sn":
        return m.bind_to_environ(env, server_name=b.get("sn_arg") or b["server"])
    return m.bind_to_environ(env, server_name=b.get("sn_arg") or b["server"], subdomain=eff_bind_sub(cfg))


def _val_text(v):
    if isinstance(v, float):
        return repr(v)
    return str(v)


def observe(ad, objs, path, method, query=None, call="match"):
    """One MapAdapter.match call (or dispatch) -> outcome record (all fields always present)."""
    from werkzeug.exceptions import MethodNotAllowed, NotFound
    from werkzeug.routing import RequestRedirect

    out = {"kind": "other", "rule": 0, "args": [], "url": [], "methods": [], "exc": ""}
    try:
        if call == "dispatch":
            # dispatch() hands endpoint and arguments to the view and *returns* a RequestRedirect
            res = ad.dispatch(lambda ep, a: ("view", ep, a), path, method)
            if isinstance(res, RequestRedirect):
                raise res
            rl = next((o for o in objs if o.endpoint == res[1]), None)
            args = res[2]
        else:
            rl, args = ad.match(path, method, return_rule=True, query_args=query)
    except RequestRedirect as e:
        out.update(kind="redirect", url=cps(e.new_url), exc=type(e).__name__)
    except MethodNotAllowed as e:
        out.update(kind="mna", methods=sorted(e.valid_methods or []), exc=type(e).__name__)
    except NotFound as e:
        out.update(kind="notfound", exc=type(e).__name__)
    except Exception as e:  # recorded, judged as UnexpectedException
        out.update(kind="other", exc=type(e).__name__)
    else:
        idx = [i for i, o in enumerate(objs) if o is rl]
        out.update(kind="match", rule=(idx[0] + 1) if idx else 0,
                   args=[{"name": k, "ty": type(v).__name__, "v": cps(_val_text(v))} for k, v in sorted(args.items())])
    return out


def deliver(cfg, url_cps):
    """What a client + server do with a Location: take the URL path, percent-decode it, cut the script root."""
    url = "".join(map(chr, url_cps))
    sp = urlsplit(url)
    root = "/" + cfg["bind"]["script"].strip("/")
    root = root if root.endswith("/") else root + "/"
    p = unquote(sp.path)
    if p.startswith(root):
        p = p[len(root) - 1:]
    return p


def query_of(q):
    if q["kind"] == "str":
        return q["s"]
    if q["kind"] == "map":
        return dict(q["pairs"])
    return None


def run_case(cfg, ad, objs, path, method, q, follow=True, first_from_adapter=False, how=None):
    """how = {"call": "match" | "dispatch" | "default", "spell": the method as the caller writes it ("post", "Get")};
    `method` stays the HTTP method meant (upper case): its letter case is a dimension of the driver, like the way the
    adapter is created."""
    spell = (how or {}).get("spell", method)
    call = (how or {}).get("call", "match")
    if first_from_adapter:
        r = observe(ad, objs, None, None, query_of(q) if q["kind"] == "map" else None)
    elif call == "default":
        r = observe(ad, objs, path, None, query_of(q))          # the adapter was bound with default_method=spell
    else:
        r = observe(ad, objs, path, spell, None if call == "dispatch" else query_of(q), call=call)
    hops = []
    cur = r
    while follow and cur["kind"] == "redirect" and len(hops) < 5:
        p2 = deliver(cfg, cur["url"])
        cur = observe(ad, objs, p2, None if call == "default" else spell, query_of(q))
        hops.append({"path": cps(p2), "r": cur})
    return {"op": "match", "path": cps(path), "method": method,
            "q": {"kind": q["kind"], "s": cps(q["s"]), "pairs": [[cps(k), cps(v)] for k, v in q["pairs"]]},
            "r": r, "follow": hops}


NOQ = {"kind": "none", "s": "", "pairs": []}


def enc_seg(s):
    d = dict(s)
    d["pre"], d["post"] = cps(s["pre"]), cps(s["post"])
    d["items"] = [cps(i) for i in s["items"]]
    return d


def enc_cfg(cfg, c03):
    rules = []
    for i, r in enumerate(cfg["rules"]):
        rules.append({"segs": [enc_seg(s) for s in r["segs"]], "branch": r["branch"], "anym": r["methods"] is None,
                      "methods": list(r["methods"] or []), "strict": r["strict"], "merge": r["merge"],
                      "endpoint": r["endpoint"] or f"e{i + 1}",
                      "defaults": [{"name": d["name"], "ty": d["ty"], "v": cps(d["v"])} for d in r["defaults"]],
                      "alias": r["alias"],
                      "subk": "d" if r.get("sub") is None else "s", "subv": cps(r.get("sub") or "")})
    b = cfg["bind"]
    mp = {"strict": cfg["map"]["strict"], "merge": cfg["map"]["merge"], "rd": cfg["map"]["rd"],
          "dsub": cps(cfg["map"].get("dsub", b["sub"]))}
    return {"op": "cfg", "rules": rules, "map": mp, "c03": c03, "c12": cfg.get("c12", True), "canon": cfg.get("canon", False),
            "bind": {"scheme": cps(b["scheme"]), "server": cps(b["server"].lower()), "script": cps(b["script"]), "sub": cps(b["sub"]),
                     "subk": "s" if b.get("bsub") is not None else "d", "subv": cps(b.get("bsub") or "")}}


DEFAULT_BIND = {"scheme": "http", "server": "example.org", "script": "/", "sub": ""}


def make_cfg(rules, strict=True, merge=True, rd=True, bind=None):
    return {"rules": rules, "map": {"strict": strict, "merge": merge, "rd": rd}, "bind": dict(bind or DEFAULT_BIND)}


def run_group(arg):
    """(cfg, c03, [(path, method, q)]) -> [cfg line, match lines...] (executed in a worker process)"""
    cfg, c03, cases = arg
    m, ad, objs = build_map(cfg)
    via = cfg["bind"].get("via", "bind")
    out = [enc_cfg(cfg, c03)]
    for i, case in enumerate(cases):
        path, method, q = case[:3]
        how = case[3] if len(case) > 3 else None
        if how and how["call"] == "default":
            b = cfg["bind"]
            dad = m.bind(b["server"], b["script"], url_scheme=b["scheme"], subdomain=ad.subdomain, default_method=how["spell"])
            ln = run_case(cfg, dad, objs, path, method, q, how=how)
        elif via == "bind":
            ln = run_case(cfg, ad, objs, path, method, q, how=how)
        else:
            # the adapter is created from the request's WSGI environ; the first match takes path, method and query
            # string from it (no arguments), the follow-up hops are delivered to the same adapter explicitly
            ead = adapter_via_environ(m, cfg, path, q, method)
            ln = run_case(cfg, ead, objs, path, method, q, first_from_adapter=True)
        ln["i"] = i
        out.append(ln)
    return out


# ---------------------------------------------------------------------------- generators
def valid_rule_set(rules):
    """Inside the claimed domain and accepted by werkzeug (no two rules may have the same trace... they may)."""
    return True


SAMPLES = {
    "int": ["12", "007", "0", "5"],
    "float": ["1.5", "007.50", "0.25"],
    "uuid": [UUID1, UUID2],
    "near": ["x1", "1x", "-3", "1.", ".5", "1.5.2", "ab", "a", "abc", UUID1[:-1], "12345678-1234-5678-1234-56781234567g"],
}


def tokens_for(rules, rng=None, extra=()):
    """Path-part alphabet built to hit, nearly hit and miss the segments of these rules."""
    toks = {"a", "zz", "12", "1.5", ""}
    for r in rules:
        for s in r["segs"]:
            if s["k"] == "lit":
                t = s["pre"]
                toks |= {t, t + "x", t[:-1], t.upper() if t.upper() != t else t + "0"}
                continue
            c = s["conv"]
            mids = set()
            if c in ("string", "strlen"):
                for k in {1, 2, 3, max(1, s["n"]), max(1, s["n"]) - 1, s["n"] + 1, s["m"], s["m"] + 1}:
                    if k > 0:
                        mids.add("qwertyuiop"[:k])
                mids |= {"12", "1.5"}
            elif c == "int":
                mids |= set(SAMPLES["int"]) | {"1" * max(1, s["n"]), "1" * (s["n"] + 1), "-3", "-0", "x1", "1x", "1.5"}
                n = s["n"]
                if n:
                    # exactly n digits with leading zeros (admitted: value 7 / 0), without, and n-1 / n+1 digits
                    z = {"0" * (n - 1) + "7", "0" * n, "7" + "0" * (n - 1), "9" * n, "0" * n + "7", "0" * (n + 1)}
                    if n > 1:
                        z |= {"0" * (n - 2) + "7", "0" * (n - 1), "9" * (n - 1)}
                    mids |= z
                    if s["signed"]:
                        mids |= {"-" + x for x in z}
                elif s["signed"]:
                    mids |= {"-07", "-12", "-007"}
            elif c == "float":
                mids |= set(SAMPLES["float"]) | {"-2.5", "1.", ".5", "1.5.2", "12", "-0.0"}
            elif c == "any":
                mids |= set(s["items"]) | {i + "x" for i in s["items"]} | {i[:-1] for i in s["items"]}
            elif c == "uuid":
                mids |= set(SAMPLES["uuid"]) | {UUID1[:-1], UUID1[:-1] + "g", "12"}
            elif c == "path":
                mids |= {"a", "b"}
            for x in mids:
                toks.add(s["pre"] + x + s["post"])
                if s["pre"] or s["post"]:
                    toks.add(x)
                    toks.add(s["pre"] + x)
    toks |= set(extra)
    return sorted(t for t in toks if "/" not in t)


def paths_for(rules, rng, limit, maxparts=None, extra=()):
    """Paths over the token alphabet: all part sequences up to the longest rule + 1, with trailing,
    doubled and leading slash variants; sampled down to `limit` (hits are kept preferentially)."""
    toks = [t for t in tokens_for(rules, extra=extra) if t]
    n = maxparts or (max((len(r["segs"]) for r in rules), default=1) + 1)
    seqs = [()]
    for k in range(1, n + 1):
        if len(toks) ** k > 4000:
            seqs += [tuple(rng.choice(toks) for _ in range(k)) for _ in range(1500)]
        else:
            seqs += list(itertools.product(toks, repeat=k))
    base = []
    for s in seqs:
        p = "/" + "/".join(s)
        base.append(p)
        if s:
            base.append(p + "/")
    # near the rules: instantiate each rule with sample values (hit) and mutate
    hits = []
    for r in rules:
        for _ in range(6):
            parts = []
            for sg in r["segs"]:
                if sg["k"] == "lit":
                    parts.append(sg["pre"])
                elif sg["conv"] == "path":
                    parts.append(rng.choice(["a", "a/b", "a/b/c", "12/x", "a//b", "x//y/z"]))
                else:
                    cand = [t for t in tokens_for([rule([sg])], extra=[sg["pre"] + e + sg["post"] for e in extra]) if t.startswith(sg["pre"]) and t.endswith(sg["post"]) and t]
                    parts.append(rng.choice(cand) if cand else "a")
            p = "/" + "/".join(parts)
            hits += [p, p + "/"]
            if len(parts) >= 1:
                j = rng.randrange(len(parts))
                q = parts[:j] + [""] + parts[j:]
                hits += ["/" + "/".join(q), "/" + "/".join(q) + "/", "/" + p, p + "//", "//" + "/".join(parts) + "/"]
    rng.shuffle(base)
    out, seen = [], set()
    for p in hits + base:
        if p not in seen:
            seen.add(p)
            out.append(p)
        if len(out) >= limit:
            break
    return out


def universe():
    """A small rule universe for exhaustive pair / triple maps (also exported to TLC)."""
    V = var
    U = [
        rule([]),  # "/"
        rule([lit("a")]),
        rule([lit("a")], branch=True),
        rule([lit("a")], methods=["POST"]),
        rule([lit("a")], branch=True, methods=["GET"]),
        rule([lit("a"), lit("b")]),
        rule([lit("a"), lit("b")], branch=True),
        rule([V("string", "s")]),
        rule([V("string", "s")], branch=True),
        rule([V("string", "s")], methods=["POST", "PUT"]),
        rule([V("int", "n")]),
        rule([V("int", "n")], branch=True),
        rule([V("int", "n", n=2)]),
        rule([V("int", "n", signed=True)]),
        rule([V("float", "f")]),
        rule([V("strlen", "s", n=2)]),
        rule([V("string", "s", n=2, m=3)]),
        rule([V("any", "x", items=["a", "ab"])]),
        rule([V("uuid", "u")]),
        rule([V("path", "p")]),
        rule([V("path", "p")], branch=True),
        rule([lit("a"), V("path", "p")]),
        rule([lit("a"), V("int", "n")]),
        rule([lit("a"), V("string", "s")], branch=True),
        rule([V("string", "s"), lit("b")]),
        rule([V("int", "n"), lit("b")], branch=True),
        rule([V("string", "s"), V("int", "n")]),
        rule([V("int", "n", pre="v")]),
        rule([V("string", "s", pre="a")]),
        rule([V("string", "s", post=".x")]),
        rule([V("int", "n", pre="v"), V("path", "p")]),
        rule([lit("a"), V("int", "n", n=2), lit("b")]),
    ]
    return U


def random_seg(rng, idx):
    name = f"v{idx}"
    k = rng.random()
    if k < 0.35:
        return lit(rng.choice(["a", "ab", "b", "12", "x.y", "é", "a-b", "1.5", "v1", "a+b", "x$", "(a)"]))
    pre = rng.choice(["", "", "", "", "v", "a-", "x", "a.", "^"])
    post = rng.choice(["", "", "", "", ".x", "-z", "s", "+", ".json", "$"])
    c = rng.choice(["string", "string", "strlen", "strmm", "int", "int", "intf", "ints", "float", "floats", "any", "uuid"])
    if c == "string":
        return var("string", name, pre, post, n=1)
    if c == "strlen":
        return var("strlen", name, pre, post, n=rng.randint(1, 3))
    if c == "strmm":
        n = rng.randint(1, 3)
        return var("string", name, pre, post, n=n, m=rng.choice([0, n, n + 1]))
    if c == "int":
        return var("int", name, pre, post)
    if c == "intf":
        return var("int", name, pre, post, n=rng.randint(1, 3))
    if c == "ints":
        return var("int", name, pre, post, signed=True)
    if c == "float":
        return var("float", name, pre, post)
    if c == "floats":
        return var("float", name, pre, post, signed=True)
    if c == "any":
        return var("any", name, pre, post, items=rng.sample(["a", "ab", "b", "12", "abc", "x-y"], rng.randint(1, 3)))
    return var("uuid", name, pre, post)


def random_rule(rng, allow_path=True):
    n = rng.choice([0, 1, 1, 2, 2, 3])
    segs = [random_seg(rng, i + 1) for i in range(n)]
    if allow_path and rng.random() < 0.2:
        segs.append(var("path", f"v{n + 1}"))
    methods = rng.choice([None, None, None, ["GET"], ["POST"], ["POST", "PUT"], ["GET", "POST"]])
    return rule(segs, branch=(not segs) or rng.random() < 0.4, methods=methods)


def random_rules(rng, k):
    """k rules that share structure (derived from each other) so that several admit the same paths."""
    rules = [random_rule(rng)]
    while len(rules) < k:
        if rng.random() < 0.6:
            base = rng.choice(rules)
            segs = [dict(s) for s in base["segs"]]
            op = rng.random()
            if segs and op < 0.5:
                j = rng.randrange(len(segs))
                if segs[j]["conv"] != "path":
                    segs[j] = random_seg(rng, j + 1)
            elif op < 0.7 and (not segs or segs[-1]["conv"] != "path"):
                segs.append(random_seg(rng, len(segs) + 1))
            r = rule(segs, branch=(not segs) or rng.random() < 0.5,
                     methods=rng.choice([None, None, ["GET"], ["POST"], ["PUT", "POST"]]))
        else:
            r = random_rule(rng)
        rules.append(r)
    return rules


METHODS = ["GET", "POST", "HEAD", "DELETE"]


# ---------------------------------------------------------------------------- C12 generators
BINDS = [
    {"scheme": "http", "server": "example.org", "script": "/", "sub": ""},
    {"scheme": "https", "server": "example.org:8443", "script": "/app", "sub": ""},
    {"scheme": "http", "server": "Example.ORG", "script": "/app/", "sub": "www"},
    {"scheme": "ws", "server": "example.org", "script": "/", "sub": ""},
    {"scheme": "wss", "server": "example.org", "script": "/a/b", "sub": "api"},
    {"scheme": "https", "server": "localhost:5000", "script": "", "sub": ""},
]
QUERIES = [
    NOQ,
    {"kind": "str", "s": "a=1&b=2", "pairs": []},
    {"kind": "str", "s": "x=%C3%A9&next=//evil.example/", "pairs": []},
    {"kind": "map", "s": "", "pairs": [["a", "1"], ["k2", "v2"]]},
    {"kind": "map", "s": "", "pairs": [["q", "x-y_z.0"]]},
]
SPECIAL = ["\u00e9", "a%20b", "a b", "100%", "x?y", "x#y", "\u4e2d\u6587", "evil.com", "a:b", "\U0001f600"]


def c12_rules(rng, k):
    """C03 grammar + per-rule strict / merge overrides + defaults pairs + alias pairs."""
    rules = random_rules(rng, max(1, k - 2))
    for r in rules:
        r["methods"] = rng.choice([None, None, None, ["GET"], ["GET", "POST"]])
        r["strict"] = rng.choice("dddtf")
        r["merge"] = rng.choice("dddtf")
    extra = []
    pool = [r for r in rules if not any(s["conv"] == "path" for s in r["segs"])]
    if pool and rng.random() < 0.7:
        # defaults pair: <base> with defaults {pg: 1}  +  <base>/page/<int:pg>, same endpoint
        base = rng.choice(pool)
        ep = "d" + str(rng.randint(1, 9))
        # (a leading literal of its own: a defaults rule whose URL equals another rule's URL is shadowed by it,
        # which is an invalid configuration, not a router defect)
        pre = [lit("all")]
        a = rule(pre + [dict(s) for s in base["segs"]], branch=rng.random() < 0.6, methods=base["methods"], endpoint=ep,
                 strict=rng.choice("dtf"), merge=rng.choice("dtf"),
                 defaults=[{"name": "pg", "ty": "int", "v": "1"}])
        b = rule(pre + [dict(s) for s in base["segs"]] + [lit("page"), var("int", "pg")], branch=rng.random() < 0.5,
                 methods=base["methods"], endpoint=ep, strict=rng.choice("dtf"), merge=rng.choice("dtf"))
        extra += [a, b]
    if pool and rng.random() < 0.7:
        # alias pair: canonical rule + an alias with another leading literal, same endpoint / arguments
        base = rng.choice(pool)
        ep = "c" + str(rng.randint(1, 9))
        can = rule([lit("canon")] + [dict(s) for s in base["segs"]], branch=base["branch"], endpoint=ep,
                   strict=rng.choice("dtf"), merge=rng.choice("dtf"))
        al = rule([lit("old")] + [dict(s) for s in base["segs"]], branch=rng.random() < 0.5, endpoint=ep, alias=True,
                  strict=rng.choice("dtf"), merge=rng.choice("dtf"))
        extra += [can, al]
    rules += extra
    rng.shuffle(rules)
    return rules


def c12_paths(rules, rng, limit):
    ps = paths_for(rules, rng, limit, extra=["1"] + rng.sample(SPECIAL, 3))
    out = list(ps)
    for p in ps[: limit // 3]:
        out.append("//evil.com" + p)
        out.append("/" + p)
        if rng.random() < 0.3:
            out.append("///evil.com" + p)
        if rng.random() < 0.3:
            out.append(p.replace("/", "//", 2))
    out += ["//evil.com", "//evil.com/", "//evil.com//", "/\\evil.com/"]
    return out


# ---------------------------------------------------------------------------- universe -> TLA+ (MCRoutingU.tla)
def _tla(v):
    if isinstance(v, bool):
        return "TRUE" if v else "FALSE"
    if isinstance(v, int):
        return str(v)
    if isinstance(v, str):
        return '"' + v + '"'
    if isinstance(v, (list, tuple)):
        return "<<" + ", ".join(_tla(x) for x in v) + ">>"
    if isinstance(v, dict):
        return "[" + ", ".join(f"{k} |-> {_tla(x)}" for k, x in v.items()) + "]"
    raise TypeError(v)


def model_universe():
    """The universe without uuid rules (a 36-character token is useless in the bounded model)."""
    return [r for r in universe() if not any(s["conv"] == "uuid" for s in r["segs"])]


def universe_tla():
    rules = enc_cfg(make_cfg(model_universe()), True)["rules"]
    body = ",\n  ".join(_tla(r) for r in rules)
    return ("---------------------------- MODULE MCRoutingU ----------------------------\n"
            "(* GENERATED by harness/routing.py universe_tla() from universe(): do not edit.        *)\n"
            "(* The same rule universe is used by the code -> spec driver of C03 (harness/props/c03). *)\n"
            f"Universe == <<\n  {body}\n>>\n"
            "=============================================================================\n")


# ---------------------------------------------------------------------------- C12: alias rules with their own defaults
def _d(name, v):
    return {"name": name, "ty": "int" if isinstance(v, int) else "str", "v": str(v)}


def alias_groups():
    """Endpoint groups in which an alias rule carries its OWN defaults (different from what any canonical rule
    supplies), mixes converted path values with defaults, and sits next to several candidate canonical rules.
    Each template: (rules, environments for the variables)."""
    S, I = (lambda n: var("string", n)), (lambda n: var("int", n))
    T = []
    # (a) the documented shape: '/' {lang: en}, '/<lang>/', alias '/start.de.html' {lang: de} (+ en / fr aliases)
    T.append([
        rule([lit("g")], branch=True, endpoint="idx", defaults=[_d("lang", "en")]),
        rule([lit("g"), S("lang")], branch=True, endpoint="idx"),
        rule([lit("start.de.html")], endpoint="idx", defaults=[_d("lang", "de")], alias=True),
        rule([lit("start.en.html")], endpoint="idx", defaults=[_d("lang", "en")], alias=True),
    ])
    # (c) several candidate canonical rules: two defaults rules + the variable rule, aliases for each and for neither
    T.append([
        rule([lit("h")], branch=True, endpoint="home", defaults=[_d("lang", "en")]),
        rule([lit("h"), lit("deutsch")], branch=True, endpoint="home", defaults=[_d("lang", "de")]),
        rule([lit("h"), S("lang")], branch=True, endpoint="home"),
        rule([lit("h.de")], endpoint="home", defaults=[_d("lang", "de")], alias=True),
        rule([lit("h.fr")], branch=True, endpoint="home", defaults=[_d("lang", "fr")], alias=True),
    ])
    # (b) converted path values mixed with defaults
    T.append([
        rule([lit("item"), I("id")], endpoint="item", defaults=[_d("lang", "en")]),
        rule([S("lang"), lit("item"), I("id")], endpoint="item"),
        rule([lit("old.de"), I("id")], endpoint="item", defaults=[_d("lang", "de")], alias=True),
        rule([lit("old.en"), I("id")], branch=True, endpoint="item", defaults=[_d("lang", "en")], alias=True),
    ])
    # int defaults: '/p/' {pg: 1}, '/p/page/<int:pg>', aliases fixing pg = 1 / pg = 2
    T.append([
        rule([lit("p")], branch=True, endpoint="pages", defaults=[_d("pg", 1)]),
        rule([lit("p"), lit("page"), I("pg")], endpoint="pages"),
        rule([lit("p-first")], endpoint="pages", defaults=[_d("pg", 1)], alias=True),
        rule([lit("p-second")], endpoint="pages", defaults=[_d("pg", 2)], alias=True),
    ])
    # two arguments: one from the alias path, one from its defaults; two defaults rules of different width
    T.append([
        rule([lit("u"), S("name")], endpoint="user", defaults=[_d("tab", "info")]),
        rule([lit("u"), S("name"), S("tab")], endpoint="user"),
        rule([lit("profile"), S("name")], endpoint="user", defaults=[_d("tab", "posts")], alias=True),
        rule([lit("me")], endpoint="user", defaults=[_d("tab", "info"), _d("name", "self")], alias=True),
    ])
    return T


ALIAS_ENV = {"lang": ["en", "de", "fr", "xx"], "id": ["7", "07", "12"], "pg": ["1", "2", "3", "01"],
             "name": ["bob", "self"], "tab": ["info", "posts", "x"]}


def alias_group_paths(rules, rng, limit):
    """Every rule string instantiated with every combination of the variable values above, with and without a
    trailing slash, plus a few doubled-slash and //host forms."""
    out = []
    for r in rules:
        names = [s["name"] for s in r["segs"] if s["k"] == "var"]
        for combo in itertools.product(*[ALIAS_ENV[n] for n in names]):
            env = dict(zip(names, combo))
            p = "/" + "/".join(s["pre"] if s["k"] == "lit" else env[s["name"]] for s in r["segs"])
            out += [p, p + "/"]
            if rng.random() < 0.15:
                out.append("//evil.com" + p)
            if rng.random() < 0.15 and p.count("/") > 1:
                out.append(p[::-1].replace("/", "//", 1)[::-1])
    seen, res = set(), []
    for p in out:
        if p not in seen:
            seen.add(p)
            res.append(p)
    # alias URLs first (they are the point), the rest sampled
    al = [p for p in res if any(p.lstrip("/").startswith(rule_string(r).strip("/").split("/")[0]) for r in rules if r["alias"])]
    rest = [p for p in res if p not in set(al)]
    rng.shuffle(rest)
    return (al + rest)[:limit]


# ---------------------------------------------------------------------------- the repository's own tests (recorded calls)
STD_CONV = {"default": "UnicodeConverter", "string": "UnicodeConverter", "int": "IntegerConverter", "float": "FloatConverter",
            "any": "AnyConverter", "uuid": "UUIDConverter", "path": "PathConverter"}
_UNRESERVED = set("abcdefghijklmnopqrstuvwxyzABCDEFGHIJKLMNOPQRSTUVWXYZ0123456789-._")


class Skip(Exception):
    pass


def _int_arg(a):
    if a["ty"] != "int":
        raise Skip("converter_args")
    return int(a["v"])


def _conv_seg(tok, pre, post, cls):
    conv, name = tok["conv"], tok["name"]
    if conv not in STD_CONV or not cls.endswith("converters." + STD_CONV[conv]):
        raise Skip("custom_converter")
    args, kw = tok["args"], dict(tok["kwargs"])
    if conv in ("default", "string"):
        for key, a in zip(("minlength", "maxlength", "length"), args):
            kw.setdefault(key, a)
        if set(kw) - {"minlength", "maxlength", "length"}:
            raise Skip("converter_args")
        if "length" in kw and kw["length"]["ty"] != "NoneType":
            return var("strlen", name, pre, post, n=_int_arg(kw["length"]))
        n = _int_arg(kw["minlength"]) if "minlength" in kw else 1
        m = _int_arg(kw["maxlength"]) if "maxlength" in kw and kw["maxlength"]["ty"] != "NoneType" else 0
        if n < 1:
            raise Skip("converter_args")
        return var("string", name, pre, post, n=n, m=m)
    if conv == "int":
        for key, a in zip(("fixed_digits", "min", "max", "signed"), args):
            kw.setdefault(key, a)
        if set(kw) - {"fixed_digits", "signed"}:
            raise Skip("converter_args")
        signed = kw.get("signed", {"v": "False"})["v"] == "True"
        n = _int_arg(kw["fixed_digits"]) if "fixed_digits" in kw else 0
        if n and signed:
            raise Skip("converter_args")
        return var("int", name, pre, post, n=n, signed=signed)
    if conv == "float":
        if args or set(kw) - {"signed"}:
            raise Skip("converter_args")
        return var("float", name, pre, post, signed=kw.get("signed", {"v": "False"})["v"] == "True")
    if conv == "any":
        if kw or not args or any(a["ty"] != "str" or "/" in a["v"] for a in args):
            raise Skip("converter_args")
        return var("any", name, pre, post, items=[a["v"] for a in args])
    if args or kw:
        raise Skip("converter_args")
    if conv == "path" and (pre or post):
        raise Skip("path_converter_with_affix")
    return var(conv, name, pre, post)


def translate_rule(r):
    """recorded rule -> rule record of the grammar (raises Skip with the reason)"""
    toks = r["tokens"]
    if toks is None or not toks or toks[0]["t"] != "slash":
        raise Skip("unparsed_rule")
    segs, cur = [], []
    for t in toks[1:]:
        if t["t"] == "slash":
            segs.append(cur)
            cur = []
        else:
            cur.append(t)
    branch = not cur and len(toks) > 0
    if cur:
        segs.append(cur)
    out = []
    if r["merge"]:
        # documented: with merge_slashes the rule's own consecutive slashes are merged
        segs = [sg for sg in segs if sg]
    for sg in segs:
        if not sg:
            raise Skip("double_slash_in_rule_without_merge")
        vs = [t for t in sg if t["t"] == "var"]
        if len(vs) > 1:
            raise Skip("several_variables_in_segment")
        if not vs:
            out.append(lit("".join(t["s"] for t in sg)))
            continue
        i = sg.index(vs[0])
        pre = "".join(t["s"] for t in sg[:i])
        post = "".join(t["s"] for t in sg[i + 1:])
        out.append(_conv_seg(vs[0], pre, post, r["convclasses"].get(vs[0]["name"], "")))
    npath = [i for i, s in enumerate(out) if s["conv"] == "path"]
    if len(npath) > 1:
        raise Skip("several_path_converters")
    if npath and npath[0] != len(out) - 1:
        raise Skip("path_converter_not_last")
    names = [s["name"] for s in out if s["k"] == "var"]
    if len(set(names)) != len(names):
        raise Skip("duplicate_variable")
    defaults = []
    for k, v in (r["defaults"] or []):
        if v["ty"] not in ("str", "int", "float", "bool", "NoneType"):
            raise Skip("defaults_value_type")
        if k in names:
            raise Skip("default_for_path_variable")
        defaults.append({"name": k, "ty": v["ty"], "v": v["v"]})
    return rule(out, branch=branch and bool(out) or not out, methods=r["methods"],
                strict="t" if r["strict"] else "f", merge="t" if r["merge"] else "f",
                defaults=defaults, alias=r["alias"])


def translate_call(c):
    """recorded MapAdapter.match call -> (cfg in the grammar, case tuple, recorded outcome lines) or raises Skip"""
    m, b = c["map"], c["bind"]
    if m["host_matching"]:
        raise Skip("host_matching")
    if m["custom_converters"]:
        raise Skip("custom_converter")
    if not c["path_is_str"]:
        raise Skip("path_not_str")
    if any(r["redirect_to"] for r in m["rules"]):
        raise Skip("redirect_to")
    if c["r"]["exc"] == "WebsocketMismatch" or any(h["r"]["exc"] == "WebsocketMismatch" for h in c["follow"]):
        raise Skip("websocket_mismatch_outcome")
    sub = b["sub"] or ""
    c12 = True
    rules, index, eps = [], {}, {}
    for i, r in enumerate(m["rules"]):
        if "<" in (r["subdomain"] or ""):
            raise Skip("subdomain_variable")
        if r["build_only"] or (r["subdomain"] or "") != sub or r["websocket"] != c["websocket"]:
            # cannot match this request (a rule of the other websocket kind only turns a 404 into WebsocketMismatch).
            # In a map with defaults / alias rules the canonicalising redirect may be built from it (other host,
            # unknown denotation): then only the matching clauses apply
            if any(x["defaults"] or x["alias"] for x in m["rules"]):
                c12 = False
            continue
        tr = translate_rule(r)
        tr["endpoint"] = eps.setdefault(r["endpoint"], f"ep{len(eps) + 1}")
        rules.append(tr)
        index[i + 1] = len(rules)
    if not rules:
        raise Skip("no_rule_on_bound_subdomain")
    q = c["q"]
    if q["kind"] == "other" or (q["kind"] == "map" and not all(set(k) <= _UNRESERVED and set(v) <= _UNRESERVED and k and v
                                                               for k, v in q["pairs"])):
        c12, q = False, NOQ
    for x in [c["r"]] + [h["r"] for h in c["follow"]]:
        for _, v in x["args"]:
            if v["ty"] not in ("str", "int", "float", "UUID", "bool", "NoneType"):
                raise Skip("argument_value_type")
    # canonicalising redirects can come from any rule of the map, also from one on another subdomain
    canon = m["rd"] and any(r["defaults"] or r["alias"] for r in m["rules"])
    cfg = {"rules": rules, "map": {"strict": m["strict"], "merge": m["merge"], "rd": m["rd"]},
           "bind": {"scheme": b["scheme"], "server": b["server"], "script": b["script"], "sub": sub},
           "c12": c12, "canon": bool(canon)}

    def out(o):
        return {"kind": o["kind"], "rule": index.get(o["rule"], 0), "url": cps(o["url"]), "methods": o["methods"], "exc": o["exc"],
                "args": [{"name": k, "ty": v["ty"], "v": cps(v["v"])} for k, v in o["args"]]}

    line = {"op": "match", "path": cps(c["path"]), "method": c["method"],
            "q": {"kind": q["kind"], "s": cps(q["s"]), "pairs": [[cps(k), cps(v)] for k, v in q["pairs"]]},
            "r": out(c["r"]), "follow": [{"path": cps(h["path"]), "r": out(h["r"])} for h in c["follow"]]}
    return cfg, line, q


def record_repo_tests(tmp, files=("tests/test_routing.py", "tests/middleware/test_proxy_fix.py")):
    """Run the repository's routing tests under harness/pytest_routing_plugin.py; returns (calls, pytest tail)."""
    import json
    import os
    import subprocess
    import sys

    from .core import REPO, VERIF

    out = os.path.join(tmp, "routing-calls.json")
    env = dict(os.environ, VERIF_TRACE_OUT=out, PYTHONPATH=VERIF + os.pathsep + os.path.join(REPO, "src"),
               PYTHONDONTWRITEBYTECODE="1")
    p = subprocess.run([sys.executable, "-m", "pytest", "-q", "-p", "no:cacheprovider", "-p", "harness.pytest_routing_plugin",
                        "--no-header", "-n", "0", *files], cwd=REPO, env=env, capture_output=True, text=True, timeout=600)
    tail = (p.stdout + p.stderr)[-1500:]
    if not os.path.exists(out):
        return None, tail
    return json.load(open(out)), tail


# ---------------------------------------------------------------------------- C12: doubled slashes that belong to the match
def own_slash_groups(rng, quick):
    """Maps in which a `//` of the request legitimately belongs to the match (so no merged-slashes redirect may
    touch it): (a) the value of a trailing path converter ("slashes in variable parts are not merged"), (b) a
    literal `//` of a rule that opted out with merge_slashes=False inside a map that merges.  Both are requested
    with and without the trailing slash, so the missing-slash redirect has to keep the `//`.
    Yields (rules, map_strict, map_merge, paths)."""
    out = []
    P = lambda n="name": var("path", n)
    for pre in (["files"], ["d", "raw"], []):
        for strict in ("d", "t", "f"):
            for branch in (True, False):
                base = rule([lit(x) for x in pre] + [P()], branch=branch, strict=strict, merge=rng.choice("ddt"))
                stem = "/" + "/".join(pre + [""]) if pre else "/"
                vals = ["a//b", "a//b//c", "a/b", "x//y/z", "12//x", "a//b/"]
                paths = [stem + v for v in vals] + [stem + v + "/" for v in vals[:4]] + ["//evil.com" + stem + "a//b", stem + "a//b//"]
                others = rng.choice([[], [rule([lit(x) for x in pre] + [lit("a"), lit("b")], branch=True)],
                                     [rule([lit(x) for x in pre] + [var("string", "s")], branch=True)], random_rules(rng, 1)])
                for o in others:
                    o["methods"] = None
                rules = [base] + [dict(o) for o in others]
                rng.shuffle(rules)
                out.append((rules, rng.random() < 0.8, True, paths))
    # (b) rule-level opt-out: the empty literal segment is the rule's own `//`
    optouts = [
        [lit("raw"), lit(""), lit("data")],
        [lit("no"), lit(""), lit("merge")],
        [lit("raw"), lit(""), var("int", "n")],
        [lit("v"), var("string", "s"), lit(""), lit("x")],
    ]
    for segs in optouts:
        for branch in (True, False):
            for strict in ("d", "t", "f"):
                base = rule(segs, branch=branch, strict=strict, merge="f")
                inst = [s["pre"] if s["k"] == "lit" else {"int": "7", "string": "ab"}[s["conv"]] for s in segs]
                p = "/" + "/".join(inst)
                single = "/" + "/".join(x for x in inst if x)
                paths = [p, p + "/", single, single + "/", "//evil.com" + p, p + "//", p.replace("//", "///")]
                twin = rule([s for s in segs if not (s["k"] == "lit" and s["pre"] == "")], branch=rng.random() < 0.5,
                            merge=rng.choice("dt"))          # the merged spelling as a rule of its own (merging map)
                for others in ([], [twin], random_rules(rng, 1)):
                    for o in others:
                        o["methods"] = None
                    rules = [base] + [dict(o) for o in others]
                    rng.shuffle(rules)
                    out.append((rules, rng.random() < 0.8, True, paths))
    if quick:
        rng.shuffle(out)
        out = out[:40]
    return out


# ---------------------------------------------------------------------------- C03: literals with regex metacharacters
META_LITS = ["a.b", ".json", "a+b", "a*b", "a?b", "a(b)", "(a)", "[ab]", "a[0]", "a{2}", "^a", "x$", "a|b", "a\\b",
             "\\d", "+", "$", ".", "(", ")", "a.", "*.x", "x^2", "{a}", "a|", "\\"]


def meta_near(L):
    """Strings that differ from the literal L only at a metacharacter: every string an *unescaped* use of L as a
    regular expression would accept (enumerated over L's own plain characters + 'x'), and L with one metacharacter
    removed / replaced by a plain character / replaced by its neighbour."""
    import re

    metas = set(".+*?()[]{}^$|\\")
    out = set()
    for i, ch in enumerate(L):
        if ch in metas:
            out |= {L[:i] + L[i + 1:], L[:i] + "x" + L[i + 1:]}
            if i:
                out.add(L[:i] + L[i - 1] + L[i + 1:])
    plain = sorted({c for c in L if c not in metas} | {"x"})[:3]
    try:
        rx = re.compile(L)
    except re.error:
        rx = None
    if rx is not None:
        for n in range(0, min(len(L) + 1, 5) + 1):
            for t in itertools.product(plain, repeat=n):
                s = "".join(t)
                if rx.fullmatch(s):
                    out.add(s)
    out.discard(L)
    return sorted(x for x in out if x and "/" not in x)


def meta_groups(rng, quick):
    """Rules whose literal text (whole segment, prefix before a converter, suffix after a converter, both) contains
    regular-expression metacharacters, alone and next to a broader competitor, with exact and near-miss paths.
    Yields (rules, paths)."""
    out = []
    lits = META_LITS if not quick else rng.sample(META_LITS, 12)
    for L in lits:
        near = meta_near(L)
        shapes = [
            ([lit(L)], [L] + near),
            ([lit("p"), lit(L)], ["p/" + x for x in [L] + near]),
            ([var("int", "n", post=L)], [v + x for v in ("5", "12") for x in [L] + near] + ["5"]),
            ([var("string", "s", post=L)], [v + x for v in ("ab", "5") for x in [L] + near]),
            ([var("int", "n", pre=L)], [x + v for v in ("5", "12") for x in [L] + near] + ["5"]),
            ([var("string", "s", pre=L, post=L)], [x + "ab" + y for x in [L] + near[:3] for y in [L] + near[:3]]),
            ([var("int", "n", post=L), lit("e")], [v + x + "/e" for v in ("5",) for x in [L] + near]),
        ]
        if quick:
            shapes = rng.sample(shapes, 4)
        for segs, parts in shapes:
            branch = rng.random() < 0.4
            main = rule(segs, branch=branch)
            comp = rng.choice([[], [rule([var("string", "z")], branch=rng.random() < 0.5)], [rule([var("path", "z")])],
                               [rule([lit("".join(c for c in L if c.isalnum()) or "x")])]])
            rules = [main] + comp
            rng.shuffle(rules)
            paths = []
            for p in parts[: 14 if quick else 40]:
                paths += ["/" + p, "/" + p + "/"]
            out.append((rules, paths))
    return out


# ---------------------------------------------------------------------------- C03: map histories (use before complete)
def run_history(arg):
    """(base cfg without rules, ops) -> list of segments [cfg line, match lines...]; executed in a worker process.
    ops: ["add", rec] | ["addsub", prefix, [rec]] | ["addfac", [rec]] | ["bind"] | ["match", path, method, adapter]
         | ["build"] | ["expect"] | ["iter"]        (adapter: index into the adapters bound so far, -1 = newest)
    rec = rule record with an explicit endpoint; for addsub the record already contains the prefix segment."""
    from werkzeug.routing import Map, Rule, RuleFactory, Submount

    base, ops = arg
    b = base["bind"]
    m = Map([], strict_slashes=base["map"]["strict"], merge_slashes=base["map"]["merge"], redirect_defaults=base["map"]["rd"])
    recs, objs, adapters, segs = [], [], [], []

    def mk(r, strip=0):
        rr = dict(r, segs=r["segs"][strip:])
        rr["branch"] = r["branch"] or not rr["segs"]
        return Rule(rule_string(rr), endpoint=r["endpoint"], methods=r["methods"],
                    strict_slashes=_TRI[r["strict"]], merge_slashes=_TRI[r["merge"]])

    class Factory(RuleFactory):
        def __init__(self, rules):
            self.rules = rules

        def get_rules(self, map):
            yield from self.rules

    def register(new_recs, before):
        fresh = {o.endpoint: o for o in m._rules if id(o) not in before}
        for r in new_recs:
            recs.append(r)
            objs.append(fresh[r["endpoint"]])

    def bind():
        adapters.append(m.bind(b["server"], b["script"], url_scheme=b["scheme"]))

    cur = None
    for opno, op in enumerate(ops):
        k = op[0]
        before = {id(o) for o in m._rules}
        if k == "add":
            m.add(mk(op[1]))
            register([op[1]], before)
            cur = None
        elif k == "addsub":
            m.add(Submount("/" + op[1], [mk(r, strip=1) for r in op[2]]))
            register(op[2], before)
            cur = None
        elif k == "addfac":
            m.add(Factory([mk(r) for r in op[1]]))
            register(op[1], before)
            cur = None
        elif k == "bind":
            bind()
        elif k == "match":
            if not adapters:
                bind()
            if cur is None:
                cur = [enc_cfg(dict(base, rules=list(recs)), True)]
                segs.append(cur)
            ln = run_case(base, adapters[op[3] if op[3] < len(adapters) else -1], objs, op[1], op[2], NOQ, follow=False)
            ln["i"] = len(cur) - 1
            ln["opno"] = opno
            cur.append(ln)
        elif k == "build" and recs:
            if not adapters:
                bind()
            r = recs[-1]
            try:
                adapters[-1].build(r["endpoint"], {s["name"]: {"int": 7, "float": 1.5}.get(s["conv"], "a") for s in r["segs"] if s["k"] == "var"})
            except Exception:
                pass          # building is C04's business; here it only exercises Map.update() between adds
        elif k == "expect" and recs:
            m.is_endpoint_expecting(recs[0]["endpoint"], "n")
        elif k == "iter":
            list(m.iter_rules())
    return segs


def history_sets(rng):
    """Rule sets whose members must sort before / after each other (static vs converter, narrower vs broader
    converter, affix weights), to be added in every order with matches in between."""
    V = var
    fixed = [
        [rule([V("string", "s")]), rule([V("int", "n")]), rule([lit("a")]), rule([V("path", "p")])],
        [rule([V("path", "p")]), rule([lit("a"), V("string", "s")]), rule([lit("a"), lit("b")]), rule([lit("a"), V("int", "n")])],
        [rule([V("string", "s")], branch=True), rule([V("int", "n")], branch=True), rule([V("float", "f")]), rule([lit("12")])],
        [rule([V("string", "s", pre="v")]), rule([V("int", "n", pre="v")]), rule([V("string", "s")]), rule([lit("v1")])],
        [rule([V("string", "s"), lit("b")]), rule([V("int", "n"), lit("b")]), rule([lit("a"), lit("b")], methods=["POST"]),
         rule([V("path", "p")], branch=True)],
        [rule([V("any", "x", items=["a", "ab"])]), rule([V("strlen", "s", n=2)]), rule([V("int", "n", n=2)]), rule([V("path", "p")])],
    ]
    return fixed


def make_histories(rng, quick):
    """[(base cfg, ops, probe paths)]"""
    out = []
    sets = history_sets(rng) + [random_rules(rng, rng.randint(3, 5)) for _ in range(4 if quick else 60)]
    for rs in sets:
        rs = [dict(r, endpoint=f"h{i + 1}") for i, r in enumerate(rs)]
        probes = paths_for(rs, rng, 14 if quick else 30)
        perms = list(itertools.permutations(range(len(rs)))) if len(rs) <= 4 else [rng.sample(range(len(rs)), len(rs)) for _ in range(24)]
        rng.shuffle(perms)
        for perm in perms[: 4 if quick else 24]:
            ops, i = [], 0
            order = [rs[j] for j in perm]
            while i < len(order):
                how = rng.random()
                r = order[i]
                if how < 0.15:
                    sub = dict(r, segs=[lit("sm")] + r["segs"], branch=r["branch"])
                    order[i] = sub
                    ops.append(["addsub", "sm", [sub]])
                elif how < 0.3 and i + 1 < len(order):
                    ops.append(["addfac", [order[i], order[i + 1]]])
                    i += 1
                else:
                    ops.append(["add", r])
                i += 1
                # use the map before it is complete
                if rng.random() < 0.6:
                    for act in rng.sample(["bind", "match", "match", "build", "expect", "iter"], rng.randint(1, 4)):
                        if act == "match":
                            ops += [["match", p, rng.choice(["GET", "GET", "POST"]), rng.choice([0, -1])] for p in rng.sample(probes, min(4, len(probes)))]
                        else:
                            ops.append([act])
            final = probes + ["/sm" + p for p in probes[:6]]
            for p in final:
                ops.append(["match", p, "GET", 0])          # the adapter bound first (before the later adds)
            ops.append(["bind"])
            for p in final[::2]:
                ops.append(["match", p, rng.choice(["GET", "POST"]), -1])
            s, mg = rng.choice([(True, True), (True, True), (False, True), (True, False), (False, False)])
            out.append((make_cfg([], s, mg), ops))
    return out


# ---------------------------------------------------------------------------- C12: adapters created from a WSGI environ
ENV_BINDS = [
    {"scheme": "http", "server": "example.org", "script": "/caf\u00e9", "sub": "", "via": "environ"},
    {"scheme": "https", "server": "example.org:8443", "script": "/\u65e5\u672c/", "sub": "", "via": "environ"},
    {"scheme": "http", "server": "example.org:8080", "script": "/my app", "sub": "www", "via": "environ_sn"},
    {"scheme": "http", "server": "example.org", "script": "/100%", "sub": "", "via": "environ"},
    {"scheme": "https", "server": "example.org", "script": "", "sub": "api", "via": "environ_sn_sub"},
    {"scheme": "http", "server": "example.org", "script": "/", "sub": "", "via": "environ", "env_host": "example.org:80"},
    {"scheme": "https", "server": "example.org", "script": "/app/", "sub": "a.b", "via": "environ_sn", "sn_arg": "Example.ORG:443"},
    {"scheme": "wss", "server": "example.org:9000", "script": "/\u00fc/x y/", "sub": "", "via": "environ"},
    {"scheme": "ws", "server": "localhost:5000", "script": "/a/b", "sub": "", "via": "environ"},
    {"scheme": "http", "server": "example.org", "script": "/caf\u00e9/\u65e5\u672c", "sub": "", "via": "bind"},
    {"scheme": "https", "server": "example.org:444", "script": "/my app/", "sub": "www", "via": "bind"},
]
# script roots that themselves contain a valid percent escape: only the percent-encoded spelling denotes them
PCT_BINDS = [
    {"scheme": "http", "server": "example.org", "script": "/a%20b", "sub": "", "via": "environ"},
    {"scheme": "https", "server": "example.org:8443", "script": "/x%2Fy", "sub": "", "via": "bind"},
    {"scheme": "http", "server": "example.org", "script": "/%41pp/", "sub": "www", "via": "environ_sn"},
]


def root_key_suffix(cfg):
    """Key suffix for violations of the script-root clause on a root that contains a valid percent escape."""
    import re
    return ":root-pct-escape" if re.search("%[0-9A-Fa-f]{2}", cfg["bind"]["script"]) else ""


# ---------------------------------------------------------------------------- C12: defaults families (argument subsets)
def defaults_families():
    """Endpoints with 2-3 rules over the argument sets {}, {p}, {s}, {p, s} whose defaults cover subsets:
       R0 '/f/' + D, Rp '/f/page/<int:p>' + D, Rs '/f/sort/<s>' + D, Rps '/f/<s>/<int:p>'.
    Every combination of 2-3 different shapes and of their defaults."""
    dp, ds = _d("p", 1), _d("s", "new")
    shapes = {
        "R0": [rule([lit("f")], branch=True, endpoint="fam", defaults=D) for D in ([], [dp], [ds], [dp, ds])],
        "Rp": [rule([lit("f"), lit("page"), var("int", "p")], endpoint="fam", defaults=D) for D in ([], [ds])],
        "Rs": [rule([lit("f"), lit("sort"), var("string", "s")], endpoint="fam", defaults=D) for D in ([], [dp])],
        "Rps": [rule([lit("f"), var("string", "s"), var("int", "p")], endpoint="fam")],
    }
    fams = []
    for k in (2, 3):
        for names in itertools.combinations(shapes, k):
            for combo in itertools.product(*[shapes[n] for n in names]):
                fams.append([dict(r) for r in combo])
    return fams


FAMILY_PATHS = ["/f/", "/f", "/f/page/1", "/f/page/2", "/f/page/01", "/f/page/1/", "/f/sort/new", "/f/sort/old", "/f/sort/new/",
                "/f/new/1", "/f/new/2", "/f/old/1", "/f/old/2", "/f/new/01", "/f/new/1/", "/f//new/1", "/f/page//1",
                "/f/sort/1", "/f/page/new", "//evil.com/f/new/1", "/f/sort/page", "/f/page/1/2"]


# ---------------------------------------------------------------------------- C03: same converter, same keyword names, different values
def same_converter_groups():
    """Deterministic maps of 2-3 rules whose variables use the SAME converter with the same keyword names and DIFFERENT
    values, in both insertion orders, as leaf and branch, with the same / different prefixes and inside one rule;
    paths carry values only the first admits, only the second, both, neither.  Yields (rules, paths)."""
    V = var
    pairs = [
        (lambda n: V("strlen", n, n=2), lambda n: V("strlen", n, n=3), ["ab", "abc", "a", "abcd"]),
        (lambda n: V("strlen", n, n=3), lambda n: V("strlen", n, n=1), ["abc", "a", "ab", "abcd"]),
        (lambda n: V("string", n, n=1, m=2), lambda n: V("string", n, n=1, m=3), ["ab", "abc", "a", "abcd"]),
        (lambda n: V("string", n, n=2, m=3), lambda n: V("string", n, n=1, m=1), ["abc", "a", "ab", "abcd"]),
        (lambda n: V("string", n, n=3, m=0), lambda n: V("string", n, n=2, m=0), ["ab", "abc", "a", "abcd"]),
        (lambda n: V("int", n, n=4), lambda n: V("int", n, n=2), ["0042", "42", "007", "7", "12345"]),
        (lambda n: V("int", n, n=1), lambda n: V("int", n, n=3), ["7", "007", "42", "0042"]),
        (lambda n: V("any", n, items=["a", "ab"]), lambda n: V("any", n, items=["b", "abc"]), ["a", "ab", "b", "abc", "c"]),
    ]
    out = []
    for A, B, vals in pairs:
        for branch in (False, True):
            shapes = [
                # different prefixes
                ([rule([lit("a"), A("x")], branch=branch), rule([lit("b"), B("y")], branch=branch)],
                 ["/a/" + v for v in vals] + ["/b/" + v for v in vals]),
                # same prefix, told apart by what follows
                ([rule([lit("p"), A("x"), lit("one")], branch=branch), rule([lit("p"), B("y"), lit("two")], branch=branch)],
                 ["/p/" + v + "/one" for v in vals] + ["/p/" + v + "/two" for v in vals]),
                # same position: both may admit the value (a tie the contract leaves open), or only one
                ([rule([lit("q"), A("x")], branch=branch), rule([lit("q"), B("y")], branch=branch)],
                 ["/q/" + v for v in vals]),
                # both in one rule + a third rule with the second value again
                ([rule([A("x"), B("y")], branch=branch), rule([lit("z"), B("w")], branch=branch)],
                 ["/" + v + "/" + w for v in vals[:3] for w in vals[:3]] + ["/z/" + v for v in vals]),
                # affixed variants
                ([rule([dict(A("x"), pre="v")], branch=branch), rule([dict(B("y"), post=".x")], branch=branch)],
                 ["/v" + v for v in vals] + ["/" + v + ".x" for v in vals]),
            ]
            for rules, paths in shapes:
                paths = paths + [p + "/" for p in paths[::2]]
                for order in (rules, rules[::-1]):
                    out.append(([dict(r) for r in order], paths))
    return out
