"""pytest plugin (loaded with `-p harness.pytest_routing_plugin`) that records what the repository's own routing
tests do with `MapAdapter.match`: for every call the map's rules as werkzeug parsed them (rule string tokens,
converter names / arguments / classes, methods, slash settings, defaults, alias, subdomain / host, websocket,
endpoint, build_only, redirect_to), the map settings, the bind (server name, script name, subdomain, scheme,
query args), path, method and the observed outcome (rule / arguments, RequestRedirect.new_url, NotFound,
MethodNotAllowed.valid_methods, other exception class).  After a RequestRedirect the plugin delivers the target
back to the same adapter (unrecorded inner calls) so that the chain can be judged for C12.  The calls are written
as JSON to $VERIF_TRACE_OUT at the end of the session and judged by spec/routing/RoutingTrace.tla
(harness/props/c03.py, c12.py).  Nothing in /repo is modified: the wrapping happens in the test process only."""
from __future__ import annotations

import json
import os
from urllib.parse import unquote, urlsplit

_calls = []
_maps = {}      # id(map) -> (map object kept alive, record)
_busy = [False]


def _plain(v):
    if v is None or isinstance(v, (bool, int, str)):
        return {"ty": type(v).__name__, "v": str(v)}
    if isinstance(v, float):
        return {"ty": "float", "v": repr(v)}
    if type(v).__name__ == "UUID":
        return {"ty": "UUID", "v": str(v)}
    return {"ty": "other:" + type(v).__name__, "v": repr(v)[:60]}


def _tokens(string):
    from werkzeug.routing.rules import _part_re, parse_converter_args
    toks, pos = [], 0
    while pos < len(string):
        m = _part_re.match(string, pos)
        if m is None:
            return None
        d = m.groupdict()
        if d["slash"] is not None:
            toks.append({"t": "slash"})
        elif d["static"] is not None:
            toks.append({"t": "static", "s": d["static"]})
        else:
            try:
                a, kw = parse_converter_args(d["arguments"] or "")
            except Exception:
                return None
            toks.append({"t": "var", "conv": d["converter"] or "default", "name": d["variable"],
                         "args": [_plain(x) for x in a], "kwargs": {k: _plain(x) for k, x in kw.items()}})
        pos = m.end()
    return toks


def _rule_rec(r):
    return {"string": r.rule, "tokens": _tokens(r.rule), "methods": None if r.methods is None else sorted(r.methods),
            "strict": r.strict_slashes, "merge": r.merge_slashes,
            "defaults": None if not r.defaults else [[str(k), _plain(v)] for k, v in r.defaults.items()],
            "alias": bool(r.alias), "subdomain": r.subdomain, "host": r.host, "websocket": bool(r.websocket),
            "endpoint": repr(r.endpoint), "build_only": bool(r.build_only), "redirect_to": r.redirect_to is not None,
            "convclasses": {str(k): type(c).__module__ + "." + type(c).__qualname__ for k, c in r._converters.items()}}


def _map_rec(m):
    from werkzeug.routing import Map
    rules = list(getattr(m, "_verif_rules", None) or m._rules)
    return rules, {"rules": [_rule_rec(r) for r in rules], "strict": m.strict_slashes, "merge": m.merge_slashes,
                   "rd": m.redirect_defaults, "host_matching": m.host_matching, "default_subdomain": m.default_subdomain,
                   "custom_converters": sorted(k for k, v in m.converters.items() if Map.default_converters.get(k) is not v),
                   "mapclass": type(m).__name__}


def _query(q):
    if q is None or q == "" or q == {}:
        return {"kind": "none", "s": "", "pairs": []}
    if isinstance(q, str):
        return {"kind": "str", "s": q, "pairs": []}
    try:
        items = list(q.items())
    except Exception:
        return {"kind": "other", "s": repr(q)[:80], "pairs": []}
    if all(isinstance(k, str) and isinstance(v, str) for k, v in items):
        return {"kind": "map", "s": "", "pairs": [[k, v] for k, v in items]}
    return {"kind": "other", "s": repr(q)[:80], "pairs": []}


def pytest_configure(config):
    from werkzeug.exceptions import MethodNotAllowed, NotFound
    from werkzeug.routing import Map, MapAdapter, RequestRedirect

    orig_match = MapAdapter.match
    orig_add = Map.add

    def add(self, rulefactory):
        before = {id(r) for r in self._rules}
        orig_add(self, rulefactory)
        lst = self.__dict__.setdefault("_verif_rules", [])
        known = {id(r) for r in lst}
        for r in self._rules:
            if id(r) not in before and id(r) not in known:
                lst.append(r)

    def outcome(ad, rules, path, method, query, websocket):
        out = {"kind": "other", "rule": 0, "args": [], "url": "", "methods": [], "exc": ""}
        try:
            rl, args = orig_match(ad, path, method, True, query, websocket)
        except RequestRedirect as e:
            out.update(kind="redirect", url=e.new_url, exc=type(e).__name__)
            return out, e
        except MethodNotAllowed as e:
            out.update(kind="mna", methods=sorted(e.valid_methods or []), exc=type(e).__name__)
            return out, e
        except NotFound as e:
            out.update(kind="notfound", exc=type(e).__name__)
            return out, e
        except Exception as e:
            out.update(kind="other", exc=type(e).__name__)
            return out, e
        idx = [i for i, o in enumerate(rules) if o is rl]
        out.update(kind="match", rule=(idx[0] + 1) if idx else 0,
                   args=[[str(k), _plain(v)] for k, v in sorted(args.items(), key=lambda kv: str(kv[0]))])
        return out, (rl, args)

    def match(self, path_info=None, method=None, return_rule=False, query_args=None, websocket=None):
        if _busy[0]:
            return orig_match(self, path_info, method, return_rule, query_args, websocket)
        _busy[0] = True
        try:
            rules, mrec = _map_rec(self.map)
            path = self.path_info if path_info is None else path_info
            q = query_args if query_args is not None else (self.query_args or {})
            out, res = outcome(self, rules, path_info, method, query_args, websocket)
            follow, cur = [], out
            root = self.script_name if self.script_name.endswith("/") else self.script_name + "/"
            while cur["kind"] == "redirect" and len(follow) < 5:
                up = urlsplit(cur["url"]).path
                p2 = unquote(up[len(root) - 1:] if up.startswith(root) else up)
                cur, _ = outcome(self, rules, p2, method, query_args, websocket)
                follow.append({"path": p2, "r": cur})
            _calls.append({"test": os.environ.get("PYTEST_CURRENT_TEST", "")[:140], "map": mrec,
                           "bind": {"server": self.server_name, "script": self.script_name, "sub": self.subdomain,
                                    "scheme": self.url_scheme, "default_method": self.default_method},
                           "path": path, "path_is_str": isinstance(path, str),
                           "method": (method or self.default_method).upper(), "q": _query(q),
                           "websocket": self.websocket if websocket is None else bool(websocket),
                           "r": out, "follow": follow})
        finally:
            _busy[0] = False
        if isinstance(res, BaseException):
            raise res
        rl, args = res
        return (rl, args) if return_rule else (rl.endpoint, args)

    Map.add = add
    MapAdapter.match = match


def pytest_sessionfinish(session, exitstatus):
    out = os.environ.get("VERIF_TRACE_OUT")
    if out:
        with open(out, "w") as f:
            json.dump(_calls, f)
