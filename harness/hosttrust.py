"""Recorders / drivers for the host-trust area (C20): host_is_trusted, get_host, Request.host and
the interactive debugger's gates (DebuggedApplication).

Nothing here decides a verdict: the functions run the real code and record arguments, results,
exception class names and projected state as trace lines for spec/hosttrust/HostTrustTrace.tla.
"""
from __future__ import annotations

import contextlib
import itertools
import json
import os
import re
from urllib.parse import quote

from .core import cps

_DOTS = re.compile("[.。．｡:\\[\\]]")


# --------------------------------------------------------------------------- IDNA table
def idna_tab(texts) -> list[dict]:
    """IDNA ToASCII is an uninterpreted function for the spec: record its value (computed with
    the codec werkzeug uses) for every non-ASCII label occurring in `texts`."""
    seen, out = set(), []
    for text in texts:
        for lab in _DOTS.split(text):
            if not lab or lab.isascii() or lab in seen:
                continue
            seen.add(lab)
            try:
                a = lab.encode("idna").decode("ascii")
                out.append({"l": cps(lab), "ok": True, "a": cps(a)})
            except Exception:  # UnicodeError and its subclasses
                out.append({"l": cps(lab), "ok": False, "a": []})
    return out


# --------------------------------------------------------------------------- host functions
APIS = ("host_is_trusted", "sansio.get_host", "wsgi.get_host", "Request.host")


def _result(fn):
    try:
        v = fn()
    except Exception as e:  # recorded, judged by TLC
        code = getattr(e, "code", None)
        return {"kind": "exc", "b": False, "v": [], "exc": type(e).__name__,
                "code": code if isinstance(code, int) else -1}
    if isinstance(v, bool):
        return {"kind": "bool", "b": v, "v": [], "exc": "", "code": -1}
    if isinstance(v, str):
        return {"kind": "value", "b": False, "v": cps(v), "exc": "", "code": -1}
    return {"kind": "other", "b": False, "v": [], "exc": type(v).__name__, "code": -1}


URL_PROPS = ("url", "base_url", "host_url", "url_root", "root_url")
# every public entry point that takes or honours a trusted-hosts configuration, with its other options:
#   wsgi.get_current_url:<root_only><strip_querystring><host_only>   (all 8 flag combinations)
#   Request.<prop>:inst | :cls   (trusted_hosts set on the instance / as an attribute of a Request subclass)
#   sansio.Request.<prop>        (the sans-IO request class directly)
# (Map.bind_to_environ calls get_host(environ) WITHOUT a trusted list: it honours no such configuration.)
ENTRY_POINTS = (["sansio.get_host", "wsgi.get_host"]
                + [f"wsgi.get_current_url:{a}{b}{c}" for a in "01" for b in "01" for c in "01"]
                + [f"Request.{p}:{m}" for p in ("host",) + URL_PROPS for m in ("inst", "cls")]
                + [f"sansio.Request.{p}" for p in ("host", "url", "host_url")])


FORMS = {"list": list, "tuple": tuple, "set": set, "frozenset": frozenset,
         "str": lambda l: (l[0] if l else "")}     # a bare string is accepted as a one-name list


def host_call(api: str, host: str | None, lst: list[str], scheme: str = "http",
              srv: str = "srv.example", srvport: str = "8080", form: str = "list") -> dict:
    """Run one entry point on (host, trusted list) and return the trace line (without t/i).
    vkind tells the judge what a returned text is: the host, or a URL built from it."""
    from werkzeug.sansio import utils as su
    from werkzeug.sansio.request import Request as SansIORequest
    from werkzeug import wsgi
    from werkzeug.datastructures import Headers
    from werkzeug.wrappers import Request

    mk = lambda: FORMS[form](lst)     # the trusted-hosts configuration in the requested container form
    present = host is not None
    port = int(srvport) if srvport else None
    vkind = "host"
    if api == "host_is_trusted":
        r = _result(lambda: su.host_is_trusted(host, mk()))
        srv_, srvport_ = "", ""  # no server fallback: an absent host is the empty host
    else:
        srv_, srvport_ = srv, srvport
        if api == "sansio.get_host":
            r = _result(lambda: su.get_host(scheme, host, (srv, port), mk()))
        elif api.startswith("sansio.Request."):
            prop = api.rsplit(".", 1)[1]
            vkind = "host" if prop == "host" else "url"

            def f():
                req = SansIORequest("GET", scheme, (srv, port), "/app", "/p", b"q=1",
                                    Headers([("Host", host)] if present else []), "10.0.0.9")
                req.trusted_hosts = mk()
                return getattr(req, prop)
            r = _result(f)
        else:
            environ = {"wsgi.url_scheme": scheme, "SERVER_NAME": srv, "SERVER_PORT": srvport or "80",
                       "REQUEST_METHOD": "GET", "PATH_INFO": "/p", "SCRIPT_NAME": "/app", "QUERY_STRING": "q=1"}
            if not srvport:
                srvport_ = "80"
            if present:
                environ["HTTP_HOST"] = host
            if api == "wsgi.get_host":
                r = _result(lambda: wsgi.get_host(environ, mk()))
            elif api.startswith("wsgi.get_current_url:"):
                ro, sq, ho = (c == "1" for c in api.split(":")[1])
                vkind = "url"
                r = _result(lambda: wsgi.get_current_url(environ, root_only=ro, strip_querystring=sq, host_only=ho,
                                                         trusted_hosts=mk()))
            else:   # Request.<prop>[:inst|:cls]
                name, _, mode = api.partition(":")
                prop = name.split(".", 1)[1]
                vkind = "host" if prop == "host" else "url"

                def f():
                    if mode == "cls":
                        class TrustedRequest(Request):
                            trusted_hosts = mk()
                        req = TrustedRequest(environ)
                    else:
                        req = Request(environ)
                        req.trusted_hosts = mk()
                    return getattr(req, prop)
                r = _result(f)
    return {"op": "host", "api": api, "vkind": vkind, "host": cps(host or ""), "present": present, "srv": cps(srv_),
            "srvport": cps(srvport_), "scheme": scheme, "form": form, "list": [cps(e) for e in lst],
            "tab": idna_tab([host or "", srv_, *lst]), "r": r}


EP_TRUSTED = ["trusted.example", ".sub.example", "[::1]"]
EP_GOOD = ["trusted.example", "a.sub.example", "sub.example", "[::1]"]
EP_BAD = ["evil.example", "eviltrusted.example", "trusted.example.evil.com", "xsub.example", "[::2]", "a..b",
          "a" * 64 + ".sub.example", "trusted.example@evil.example", "asub.example", ""]
EP_EITHER = ["TRUSTED.example", "trusted.example."]
STD_PORT = {"http": "80", "ws": "80", "https": "443", "wss": "443"}


def boundary_list_cases(quick: bool) -> list:
    """BOUNDARY VALUES of the trusted list through every entry point: configured but EMPTY in every container
    form ([], (), set(), frozenset(), ''), one element in every form, lists holding only '' / '.' / a
    dot-prefixed name.  (None = not configured is a different thing and no subject of the property.)"""
    lists = [([], f) for f in ("list", "tuple", "set", "frozenset")] + [([""], "str")]
    lists += [(["trusted.example"], f) for f in FORMS] + [([""], "list"), (["."], "list"), ([".example.com"], "tuple"),
                                                          ([".example.com"], "str"), (["", "."], "set")]
    hosts = ["trusted.example", "a.example.com", "example.com", "evil.example", "localhost", "[::1]", "a..b", "", "xexample.com"]
    apis = ["host_is_trusted"] + ENTRY_POINTS
    cases = []
    for n, (lst, form) in enumerate(lists):
        hs = [hosts[(n + k) % len(hosts)] for k in (0, 2, 5)] + ["trusted.example"] if quick else hosts
        for j, h in enumerate(hs):
            scheme = ("http", "https", "ws", "wss")[(n + j) % 4]
            cases.append([h + ("" if j % 2 or not h else ":" + STD_PORT[scheme]), lst, apis, scheme, "srv.example", "8080", form])
        for srv in (("trusted.example", "a.example.com") if quick else ("trusted.example", "a.example.com", "evil.example", "::1")):
            cases.append([None, lst, ENTRY_POINTS, "http", srv, "80" if n % 2 else "8080", form])
    return cases


def entrypoint_cases(quick: bool) -> list:
    """ENTRY POINTS x OPTIONS x environ shapes: Host present (no port / the scheme's default port / another port)
    or absent (SERVER_NAME + SERVER_PORT stand in), http / https / ws / wss.  Quick rotates a slice of the
    hosts through the shapes (every entry point x option combination meets trusted and untrusted hosts in every
    shape); thorough runs the whole product."""
    cases, n = [], 0
    apis = ["host_is_trusted"] + ENTRY_POINTS
    for scheme in ("http", "https", "ws", "wss"):
        for pk in ("none", "std", "other"):
            suffix = {"none": "", "std": ":" + STD_PORT[scheme], "other": ":8080"}[pk]
            if quick:
                hosts = [EP_GOOD[n % len(EP_GOOD)], EP_BAD[n % len(EP_BAD)], EP_BAD[(n + 3) % len(EP_BAD)],
                         EP_BAD[(n + 7) % len(EP_BAD)], EP_EITHER[n % 2]]
            else:
                hosts = EP_GOOD + EP_BAD + EP_EITHER
            n += 1
            for h in hosts:
                cases.append([h + suffix if h else h, EP_TRUSTED, apis, scheme, "srv.example", "8080"])
        for srv in ("trusted.example", "a.sub.example", "::1", "evil.example", "eviltrusted.example", "::2", "a..b"):
            for sport in (STD_PORT[scheme], "8080"):
                cases.append([None, EP_TRUSTED, ENTRY_POINTS, scheme, srv, sport])
    return cases


def host_case(case) -> list[dict]:
    """case = [host | None, list, apis, scheme, srv, srvport] -> trace lines"""
    host, lst, apis, scheme, srv, srvport = case[:6]
    form = case[6] if len(case) > 6 else "list"
    return [host_call(a, host, lst, scheme, srv, srvport, form) for a in apis]


LABELS = ["localhost", "evillocalhost", "evil", "com", "example", "a", "b", "LOCALHOST", "Example", "bücher",
          "BÜCHER", "xn--bcher-kva", "straße", "strasse", "", "a" * 63, "a" * 64, "127", "0", "1", "a-b",
          "-a", "a_b", "xn--", "͸", "ａ", "com/", "x y"]
PORTS = ["", ":80", ":443", ":8080", ":", ":abc", ":80:90", ":65536"]
LITERALS = ["[::1]", "[::2]", "[::ffff:127.0.0.1]", "[::1", "::1", "::2", "[::1]x", "[]", "[::1]]", "[A::1]", "[a::1]"]
ENTRIES = ["localhost", ".localhost", "127.0.0.1", "example.com", ".example.com", "bücher.example",
           ".xn--bcher-kva.example", "[::1]", "Example.com", "a.b", "b", ".b", "localhost:80", "::1", "[a::1]",
           ".straße.example", "a.b.example.com"]
BAD_ENTRIES = ["a..b", "a" * 64 + ".com", "\udc80.com", ""]


def derived_hosts(entry: str) -> list[str]:
    body = entry[1:] if entry.startswith(".") else entry
    name = body
    out = [body, "sub." + body, "a.b." + body, "evil" + body, body + ".evil.com", "x" + body, body + "x",
           body.upper(), body.capitalize(), body + ".", "." + body, "sub.." + body, "a" * 64 + "." + body,
           "bücher." + body, "xn--bcher-kva." + body, "evil.com/." + body, body + "@evil.com",
           "sub。" + body, "͸." + body, body[:-1], body[1:], body + body, "sub" + "." + body.upper()]
    if body.startswith("["):
        out += [body.replace("1", "2"), body.replace("]", ""), body[1:-1], body.replace("[", "[0")]
    if body[:1].isdigit():
        out += [body[:-1] + "2", body + ".evil.com", "1" + body]
    with_ports = []
    for h in out:
        with_ports += [h + p for p in ("", ":80", ":8080", ":", ":abc")]
    return with_ports


def grammar_cases(rng, n_random: int, apis=APIS):
    """(host, list) pairs from the label grammar: systematic neighbours of every entry, then seeded random pairs."""
    cases = []
    others = ["example.org", ".internal", "127.0.0.1"]
    for e in ENTRIES:
        for h in derived_hosts(e):
            cases.append([h, [e], list(apis), "http", "srv.example", "8080"])
        for h in derived_hosts(e)[::7]:
            cases.append([h, [others[len(h) % 3], e], ["host_is_trusted", "Request.host"], "https", "srv.example", "443"])
    for bad in BAD_ENTRIES:
        for h in ["localhost", "a.b", "evil.com", bad]:
            for lst in ([bad], [bad, "localhost"], ["localhost", bad], [".b", bad]):
                cases.append([h, lst, list(apis), "http", "srv.example", "8080"])
    # absent Host header: the server address is used (and validated)
    for srv, port in [("localhost", "80"), ("localhost", "8080"), ("evil.com", "80"), ("::1", "8080"), ("::2", "80"),
                      ("127.0.0.1", "5000"), ("sub.localhost", "443"), ("evillocalhost", "80"), ("a..b", "80")]:
        for lst in (["localhost"], [".localhost", "127.0.0.1"], ["[::1]"], ["evil.com"]):
            for scheme in ("http", "https"):
                cases.append([None, lst, list(apis), scheme, srv, port])
    for _ in range(n_random):
        k = rng.choice([1, 1, 2, 2, 3, 4])
        if rng.random() < 0.15:
            name = rng.choice(LITERALS)
        else:
            name = ".".join(rng.choice(LABELS) for _ in range(k))
            if rng.random() < 0.5:   # bias towards hosts that end in a listed name
                name = name + rng.choice([".", "", "-", "x"]) + rng.choice(ENTRIES).lstrip(".")
        host = name + rng.choice(PORTS)
        lst = [rng.choice(ENTRIES) for _ in range(rng.choice([1, 1, 2, 3]))]
        if rng.random() < 0.05:
            lst.insert(rng.randrange(len(lst) + 1), rng.choice(BAD_ENTRIES))
        cases.append([host, lst, [rng.choice(apis), "host_is_trusted"], rng.choice(["http", "https", "ws", "wss"]),
                      "srv.example", "8080"])
    return cases


def codepoint_cases(rng, n_sample: int, dense_below: int = 0x250):
    """Single code point sweep: every code point below `dense_below`, +-1 around the class ends that matter to
    IDNA / the parser, and a seeded sample of all planes, inside and as a label in front of a listed name."""
    pts = set(range(0, dense_below))
    for edge in (0x2E, 0x3A, 0x5B, 0x5D, 0x7F, 0x80, 0xAD, 0x378, 0x2024, 0x2488, 0x3002, 0xFF0E, 0xFF1A, 0xFF61,
                 0xD800, 0xDFFF, 0xE000, 0xFFFD, 0xFFFF, 0x10000, 0x10FFFF, 0x200B, 0x200D, 0x1E9E, 0x130, 0xDF):
        pts.update(c for c in (edge - 1, edge, edge + 1) if 0 <= c <= 0x10FFFF)
    pts.update(rng.randrange(dense_below, 0x110000) for _ in range(n_sample))
    cases = []
    for c in sorted(pts):
        ch = chr(c)
        cases.append(["x" + ch + "y.localhost", [".localhost"], ["host_is_trusted", "Request.host"], "http", "srv.example", "8080"])
        cases.append(["evil" + ch + "localhost", [".localhost", "localhost"], ["host_is_trusted"], "http", "srv.example", "8080"])
        cases.append(["localhost" + ch + "evil.com", ["localhost"], ["host_is_trusted", "sansio.get_host"], "http", "srv.example", "8080"])
        cases.append([ch, ["localhost", ch], ["host_is_trusted"], "http", "srv.example", "8080"])
    return cases


# --------------------------------------------------------------------------- the debugger rig
PIN = "123-456-789"       # PIN A: what the process starts with
PIN_B = "987-654-321"     # PIN B: set later through the public pin setter
KNOWN_FRAME, CONSOLE_FRAME, UNKNOWN_FRAME = 4242, 0, 999

CMDS = ("eval", "console", "pinauth", "printpin", "resource", "none")
SECRETS = ("right", "wrong", "absent")
COOKIES = ("valid", "expired", "wronghash", "malformed", "absent")
FRAMES = ("known", "console", "unknown")
PINS = ("right", "wrong")

# Host values sent to the debugger (default trusted list: [".localhost", "127.0.0.1"]); None = no Host header
DEBUG_HOSTS = ["localhost", "sub.localhost", "a.b.localhost", "127.0.0.1", "localhost:5000", "127.0.0.1:5000",
               "evillocalhost", "localhost.evil.com", "evil.com", "evil.com:80", "127.0.0.2", "127.0.0.1.evil.com",
               "1127.0.0.1", "[::1]", "[::1]:5000", "LOCALHOST", "Sub.LocalHost", "bücher.localhost",
               "xn--bcher-kva.localhost", "localhost.", "a..localhost", "a" * 64 + ".localhost", ".localhost",
               "localhost:abc", "", None, "xlocalhost", "localhost.localhost.evil"]
TRUSTED_REP, UNTRUSTED_REP = "localhost", "evil.com"
# no Host header at all, on servers bound to trusted / untrusted addresses: untrusted for the debugger
ABSENT_HOSTS = [{"srv": s, "port": p} for s in ("localhost", "127.0.0.1", "a.localhost", "example.com", "::1")
                for p in ("80", "5000", "443")]
# every gated command with everything else in order
GATED = [
    {"cmd": "eval", "secret": "right", "cookie": "valid", "frame": "known", "pin": "right"},
    {"cmd": "eval", "secret": "right", "cookie": "valid", "frame": "console", "pin": "right"},
    {"cmd": "console", "secret": "absent", "cookie": "absent", "frame": "unknown", "pin": "wrong"},
    {"cmd": "pinauth", "secret": "right", "cookie": "valid", "frame": "unknown", "pin": "right"},
    {"cmd": "pinauth", "secret": "right", "cookie": "absent", "frame": "unknown", "pin": "right"},
    {"cmd": "printpin", "secret": "right", "cookie": "absent", "frame": "unknown", "pin": "wrong"},
    {"cmd": "resource", "secret": "right", "cookie": "valid", "frame": "known", "pin": "right"},
]


class _FakeTime:
    """stands in for the `time` module inside werkzeug.debug: a frozen clock, sleeps are recorded"""

    def __init__(self):
        self.now = 1_700_000_000.0
        self.slept = 0.0

    def time(self):
        return self.now

    def sleep(self, s):
        self.slept += s

    def monotonic(self):        # the cookie's age is a wall-clock matter: this clock says something else
        return 12345.0

    perf_counter = monotonic


class _Spy:
    def __init__(self):
        self.ran = 0

    def eval(self, code):
        self.ran += 1
        return "<spy-eval>"


@contextlib.contextmanager
def patched_debug():
    import werkzeug.debug as D

    old = (D.time, D._log)
    ft = _FakeTime()
    logs: list = []
    D.time = ft
    D._log = lambda *a, **k: logs.append(a)
    try:
        yield D, ft, logs
    finally:
        D.time, D._log = old


class Rig:
    """One DebuggedApplication (one 'process'): the failure counter lives as long as the rig."""

    def __init__(self, D, ft, logs, evalex: bool, pin_on: bool, opts: dict | None = None):
        """opts (construction-time configuration): pin_off ("nosec" = pin_security=False, "env" = WERKZEUG_DEBUG_PIN=off;
        only looked at when pin_on is false), pin_logging, console_path, show_hidden_frames"""
        self.D, self.ft, self.logs = D, ft, logs
        self.evalex, self.pin_on = evalex, pin_on
        opts = opts or {}
        self.pin_logging = opts.get("pin_logging", True)
        self.console_path = opts.get("console_path", "/console")
        env_off = (not pin_on) and opts.get("pin_off") == "env"
        self.app_calls = 0

        def inner(environ, start_response):
            self.app_calls += 1
            start_response("200 OK", [("Content-Type", "text/plain")])
            return [b"inner application"]

        old = os.environ.get("WERKZEUG_DEBUG_PIN")
        os.environ["WERKZEUG_DEBUG_PIN"] = PIN
        try:
            self.app = D.DebuggedApplication(inner, evalex=evalex, pin_security=pin_on or env_off,
                                             pin_logging=self.pin_logging, console_path=self.console_path,
                                             show_hidden_frames=bool(opts.get("show_hidden_frames", False)))
            if pin_on:
                assert self.app.pin == PIN
            # not app.pin_cookie_name: with pin_security=False that property would re-derive the PIN
            self.cookie_name = D.get_pin_and_cookie_name(inner)[1]
            if env_off:     # the documented switch: WERKZEUG_DEBUG_PIN=off (read when the PIN is first needed)
                os.environ["WERKZEUG_DEBUG_PIN"] = "off"
                assert self.app.pin is None
        finally:
            if old is None:
                del os.environ["WERKZEUG_DEBUG_PIN"]
            else:
                os.environ["WERKZEUG_DEBUG_PIN"] = old
        self.spy = _Spy()
        self.app.frames[KNOWN_FRAME] = self.spy
        self.app.frames[CONSOLE_FRAME] = self.spy
        self.trusted = list(self.app.trusted_hosts)

    def cfg_line(self) -> dict:
        return {"op": "dcfg", "evalex": self.evalex, "pin_on": self.pin_on, "pin": "A", "plog": bool(self.pin_logging),
                "trusted": [cps(x) for x in self.trusted]}

    def configure(self, setd: dict) -> dict:
        """Reconfigure the live application through its public attributes; setd may hold "pin" ("A" | "B" | None),
        "evalex" (bool), "trusted" (list).  Returns the `set` trace line: the configuration now in force."""
        if "pin" in setd:
            if setd["pin"] is None:
                self.app.pin = None
                self.pin_on = False
            else:
                self.app.pin = PIN if setd["pin"] == "A" else PIN_B
                self.pin_on, self.pin_cur = True, setd["pin"]
        if "evalex" in setd:
            self.app.evalex = self.evalex = bool(setd["evalex"])
        if "trusted" in setd:
            self.app.trusted_hosts = list(setd["trusted"])
            self.trusted = list(setd["trusted"])
        return {"op": "set", "evalex": self.evalex, "pin_on": self.pin_on, "pin": getattr(self, "pin_cur", "A"),
                "trusted": [cps(x) for x in self.trusted], "what": sorted(setd)}

    def _cookie(self, kind: str, var: int, age_days=None) -> str | None:
        D = self.D
        now = int(self.ft.now)
        good = D.hash_pin(PIN)
        if age_days is not None:    # the right hash, issued `age_days` ago (the request says whether that is "valid" or "expired")
            return f"{self.cookie_name}={now - int(age_days * 86400)}|{good}"
        if kind == "absent":
            return None
        if kind == "valid":
            ts = [now, now - D.PIN_TIME + 1, now + 1000][var % 3]
            return f"{self.cookie_name}={ts}|{good}"
        if kind == "expired":
            ts = [now - D.PIN_TIME, now - D.PIN_TIME - 1, 0, -5][var % 4]
            return f"{self.cookie_name}={ts}|{good}"
        if kind == "validB":
            return f"{self.cookie_name}={[now, now - D.PIN_TIME + 1][var % 2]}|{D.hash_pin(PIN_B)}"
        if kind == "wronghash":
            h = ["0" * 12, good[:-1] + ("0" if good[-1] != "0" else "1"), D.hash_pin("000-000-000"), good + "0"][var % 4]
            return f"{self.cookie_name}={now}|{h}"
        v = ["garbage", f"abc|{good}", f"|{good}", good, f"{now}", f"1.5|{good}"][var % 6]
        return f"{self.cookie_name}={v}"

    def request(self, q: dict, host, var: int = 0) -> dict:
        """q = {cmd, secret, cookie, frame, pin}; host = the Host header text, None = no HTTP_HOST key at all, or
        {"srv": SERVER_NAME, "port": SERVER_PORT} = no HTTP_HOST key on a server bound to that address (the environ
        is built by hand).  Returns the trace line (without t/i, has_exp false)."""
        app = self.app
        srv, sport = "srv.example", "80"
        if isinstance(host, dict):
            srv, sport, host = host["srv"], host["port"], None
        args = []
        path = "/"
        cmd = q["cmd"]
        if cmd == "console":
            path = self.console_path or "/console"
        elif cmd == "none":
            if var % 2:
                args.append(("__debugger__", "no"))
                args.append(("cmd", "pinauth"))
        else:
            args.append(("__debugger__", "yes"))
            if cmd == "eval":
                args.append(("cmd", "1+1"))
                args.append(("frm", str({"known": KNOWN_FRAME, "console": CONSOLE_FRAME, "unknown": UNKNOWN_FRAME}[q["frame"]])))
            elif cmd == "resource":
                args.append(("cmd", "resource"))
                args.append(("f", "style.css"))
            else:
                args.append(("cmd", cmd))
        if cmd not in ("console", "none") or var % 2:
            args.append(("pin", PIN if q["pin"] == "right" else PIN_B if q["pin"] == "B"
                         else ["000-000-000", "", "123-456-788", PIN + "0"][var % 4]))
            if q["secret"] == "right":
                args.append(("s", app.secret))
            elif q["secret"] == "wrong":
                args.append(("s", [app.secret[:-1], "x" * 20, "", app.secret + "x", app.secret.swapcase()][var % 5]))
        if args and var % 3 == 1:
            args.reverse()
        qs = "&".join(f"{k}={quote(v, safe='')}" for k, v in args)
        environ = {
            "REQUEST_METHOD": "GET", "SCRIPT_NAME": "", "PATH_INFO": path, "QUERY_STRING": qs,
            "SERVER_NAME": srv, "SERVER_PORT": sport, "SERVER_PROTOCOL": "HTTP/1.1",
            "wsgi.version": (1, 0), "wsgi.url_scheme": "http", "wsgi.input": __import__("io").BytesIO(b""),
            "wsgi.errors": __import__("io").StringIO(), "wsgi.multithread": False, "wsgi.multiprocess": False,
            "wsgi.run_once": False,
        }
        if host is not None:
            environ["HTTP_HOST"] = host
        assert host is not None or "HTTP_HOST" not in environ
        ck = self._cookie(q["cookie"], var, q.get("age"))
        if ck is not None:
            environ["HTTP_COOKIE"] = ck
        seen = {}

        def start_response(status, headers, exc_info=None):
            seen["status"], seen["headers"] = status, headers
            return lambda b: None

        ran0, calls0, logs0 = self.spy.ran, self.app_calls, len(self.logs)
        crash = ""
        body = b""
        try:
            it = app(environ, start_response)
            try:
                body = b"".join(it)
            finally:
                if hasattr(it, "close"):
                    it.close()
        except Exception as e:
            crash = type(e).__name__
        status = int(seen.get("status", "599 x").split()[0]) if not crash else 599
        headers = seen.get("headers", []) if not crash else []
        ctype = next((v for k, v in headers if k.lower() == "content-type"), "")
        auth, exhausted = "none", False
        if ctype.startswith("application/json"):
            try:
                doc = json.loads(body)
                if isinstance(doc, dict) and "auth" in doc:
                    auth = "true" if doc["auth"] is True else "false"
                    exhausted = doc.get("exhausted") is True
            except ValueError:
                pass
        cookie_set = False
        for k, v in headers:
            if k.lower() == "set-cookie" and v.startswith(self.cookie_name + "="):
                val = v[len(self.cookie_name) + 1:].split(";", 1)[0].strip('"')
                if val:
                    cookie_set = True
        pin_logged = any(p in str(x) for p in (PIN, PIN_B) for entry in self.logs[logs0:] for x in entry)
        try:
            rtrust = bool(app.check_host_trust(environ))
        except Exception:
            rtrust = False
        o = {"eval_ran": self.spy.ran > ran0, "console": status == 200 and app.secret.encode() in body,
             "cookie_set": cookie_set, "pin_logged": pin_logged, "exhausted": exhausted,
             "app_called": self.app_calls > calls0, "auth": auth, "status": status}
        return {"op": "req", "cmd": cmd, "secret": q["secret"], "host": cps(host or ""), "hpresent": host is not None,
                "tab": idna_tab([host or "", *self.trusted]), "cookie": q["cookie"], "frame": q["frame"], "pin": q["pin"],
                "o": o, "crash": crash, "cnt": int(app._failed_pin_auth.value), "rtrust": rtrust,
                "has_exp": False, "exp": o, "exp_cnt": 0, "var": var}


ATTEMPT = {
    "right": {"cmd": "pinauth", "secret": "right", "cookie": "absent", "frame": "unknown", "pin": "right"},
    "wrong": {"cmd": "pinauth", "secret": "right", "cookie": "absent", "frame": "unknown", "pin": "wrong"},
    "stale": {"cmd": "pinauth", "secret": "right", "cookie": "wronghash", "frame": "unknown", "pin": "wrong"},
}


def run_script(script) -> list[dict]:
    """script = {"evalex", "pin_on", "steps": [[q, host, var, exp|None, exp_cnt], ...]} -> trace lines of one
    fresh application (dcfg line first).  Executed in a worker process."""
    with patched_debug() as (D, ft, logs):
        rig = Rig(D, ft, logs, script["evalex"], script["pin_on"], script.get("opts"))
        lines = [rig.cfg_line()]
        for step in script["steps"]:
            q, host, var = step[0], step[1], step[2]
            if "set" in q:          # a configuration step: assignment to public attributes of the live application
                lines.append(rig.configure(q["set"]))
                continue
            ln = rig.request(q, host, var)
            if len(step) > 3 and step[3] is not None:
                ln["has_exp"], ln["exp"], ln["exp_cnt"] = True, step[3], step[4]
            lines.append(ln)
        return lines


COOKIE_AGES = [(0, "valid"), (6, "valid"), (6.999, "valid"), (7, "expired"), (8, "expired"), (30, "expired"), (365, "expired")]
CLASS_HOSTS = ["localhost", "evil.com", "evillocalhost", "localhost.evil.com", "a..localhost"]   # trusted / untrusted / look-alikes / malformed


def command_config_scripts() -> list[dict]:
    """COMMAND x CONFIGURATION: every debugger command x every construction-time configuration (PIN on / pin_security=False /
    WERKZEUG_DEBUG_PIN=off, pin_logging, evalex, console_path, show_hidden_frames) x host class x secret right / wrong,
    and the PIN cookie's AGE (fresh ... 365 days, right hash) on every command the cookie gates."""
    scripts = []
    for pin_on, pin_off in ((True, None), (False, "nosec"), (False, "env")):
        for plog in (True, False):
            for evalex in (True, False):
                for cpath, hidden in (("/console", False), ("/dbg/console", True)):
                    steps, i = [], 0
                    for g in GATED:
                        for secret in ("right", "wrong"):
                            if g["cmd"] == "console" and secret == "wrong":
                                continue
                            for h in CLASS_HOSTS:
                                if g["cmd"] == "pinauth" and not pin_on and h == "localhost":
                                    continue   # PIN off + pinauth on a trusted host: not a gate question (see report)
                                steps.append([dict(g, secret=secret if g["cmd"] != "console" else "absent"), h, i])
                                i += 1
                    scripts.append({"evalex": evalex, "pin_on": pin_on, "steps": steps, "src": "cmdcfg",
                                    "opts": {"pin_off": pin_off, "pin_logging": plog, "console_path": cpath, "show_hidden_frames": hidden}})
    steps = []
    for age, cls in COOKIE_AGES:
        for cmd, frame in (("eval", "known"), ("eval", "console"), ("pinauth", "unknown")):
            for h in ("localhost", "evil.com"):
                steps.append([dict(_rq(cmd, cls, "wrong", frame), age=age), h, len(steps)])
    for evalex in (True, False):
        scripts.append({"evalex": evalex, "pin_on": True, "steps": steps, "src": "cmdcfg", "opts": {"pin_logging": evalex}})
    return scripts


def _rq(cmd, cookie="absent", pin="wrong", frame="known", secret="right"):
    return {"cmd": cmd, "secret": secret, "cookie": cookie, "frame": frame, "pin": pin}


def config_history_scripts(rng, n_random: int) -> list[dict]:
    """Configuration histories on a live DebuggedApplication (public attributes pin / evalex / trusted_hosts):
    request / login under PIN A -> set B -> old cookie -> login B -> new cookie -> set A again ..., every
    (from, to) pair of PIN settings x gated command x cookie, trusted-hosts and evalex switches, and seeded
    random histories with configuration steps mixed in."""
    T = TRUSTED_REP
    scripts = []
    S = lambda **kw: [{"set": kw}, None, 0]
    story = [
        [_rq("pinauth", pin="right"), T, 0], [_rq("eval", "valid"), T, 1], [_rq("eval", "valid", frame="console"), T, 2],
        S(pin="B"),
        [_rq("eval", "valid"), T, 3], [_rq("eval", "valid", frame="console"), T, 4], [_rq("pinauth", "valid"), T, 5],
        [_rq("pinauth", pin="right"), T, 6], [_rq("eval", "absent"), T, 7],
        [_rq("pinauth", pin="B"), T, 8], [_rq("eval", "validB"), T, 9], [_rq("eval", "validB", frame="console"), T, 10],
        [_rq("pinauth", "validB"), T, 11],
        S(pin="A"),
        [_rq("eval", "validB"), T, 12], [_rq("pinauth", "validB"), T, 13], [_rq("eval", "valid"), T, 14],
        S(pin=None),
        [_rq("eval", "absent"), T, 15], [_rq("eval", "wronghash"), UNTRUSTED_REP, 16], [_rq("console", secret="absent"), T, 17],
        S(pin="B"),
        [_rq("eval", "absent"), T, 18], [_rq("eval", "valid"), T, 19], [_rq("eval", "validB"), T, 20],
        S(trusted=["example.com"]),
        [_rq("eval", "validB"), T, 21], [_rq("eval", "validB"), "example.com", 22], [_rq("console", secret="absent"), T, 23],
        [_rq("console", secret="absent"), "example.com", 24], [_rq("pinauth", pin="B"), T, 25],
        [_rq("pinauth", pin="B"), "example.com:8080", 26], [_rq("printpin"), T, 27], [_rq("printpin"), "sub.example.com", 28],
        S(trusted=[]),
        [_rq("eval", "validB"), T, 29], [_rq("eval", "validB"), "example.com", 30], [_rq("console", secret="absent"), "127.0.0.1", 31],
        S(trusted=[".localhost", "127.0.0.1"]),
        [_rq("eval", "validB"), T, 32],
        S(evalex=False),
        [_rq("eval", "validB"), T, 33], [_rq("console", secret="absent"), T, 34],
        S(evalex=True),
        [_rq("eval", "validB"), T, 35], [_rq("eval", "valid"), T, 36],
    ]
    for evalex, pin_on in ((True, True), (True, False)):
        scripts.append({"evalex": evalex, "pin_on": pin_on, "steps": story, "src": "config"})
    # every (from, to) pair of PIN settings x gated command x cookie kind (x the matching / the other PIN entered)
    reqs = [_rq(c, ck, pin, fr) for c, fr in (("eval", "known"), ("eval", "console"), ("pinauth", "unknown"))
            for ck in ("valid", "validB", "expired", "wronghash", "absent") for pin in ("right", "B", "wrong")
            if c == "pinauth" or pin == "wrong"]
    reqs += [_rq("console", secret="absent"), _rq("printpin")]
    for frm in ("A", "B", None):
        for to in ("A", "B", None):
            if frm == to:
                continue
            steps = [S(pin=frm)] + [[r, T, i] for i, r in enumerate(reqs[::3])] + [S(pin=to)] + [[r, T, i] for i, r in enumerate(reqs)]
            scripts.append({"evalex": True, "pin_on": True, "steps": steps, "src": "config"})
    cookies = list(COOKIES) + ["validB", "validB"]
    pins = list(PINS) + ["B"]
    lists = [[".localhost", "127.0.0.1"], ["example.com"], [], ["localhost"], [".example.com", "127.0.0.1"]]
    for _ in range(n_random):
        steps = []
        for _ in range(rng.randint(15, 45)):
            x = rng.random()
            if x < 0.10:
                steps.append(S(pin=rng.choice(["A", "B", "B", None])))
            elif x < 0.14:
                steps.append(S(trusted=rng.choice(lists)))
            elif x < 0.17:
                steps.append(S(evalex=rng.random() < 0.7))
            else:
                cmd = rng.choice(["eval", "eval", "eval", "pinauth", "pinauth", "console", "printpin"])
                r = _rq(cmd, rng.choice(cookies), rng.choice(pins), rng.choice(FRAMES), "right" if rng.random() < 0.85 else rng.choice(SECRETS))
                steps.append([r, rng.choice([T, T, T, "example.com", "sub.localhost", "evil.com", "127.0.0.1", None]), rng.randrange(60)])
        scripts.append({"evalex": True, "pin_on": rng.random() < 0.8, "steps": steps, "src": "config"})
    return scripts


def prefix_to(cnt: int) -> list:
    """requests that bring a fresh application's failure counter to `cnt` (wrong PINs, then - once the
    lock-out stops counting those - cookies with a wrong hash)"""
    steps = [[ATTEMPT["wrong"], TRUSTED_REP, i] for i in range(min(cnt, 11))]
    steps += [[ATTEMPT["stale"], TRUSTED_REP, i] for i in range(max(0, cnt - 11))]
    return steps


def all_requests():
    for cmd, secret, cookie, frame, pin in itertools.product(CMDS, SECRETS, COOKIES, FRAMES, PINS):
        yield {"cmd": cmd, "secret": secret, "cookie": cookie, "frame": frame, "pin": pin}


# --------------------------------------------------------------------------- ProxyFix / server fallback (growth)
PF_KEYS = (("remote", "REMOTE_ADDR"), ("scheme", "wsgi.url_scheme"), ("host", "HTTP_HOST"), ("sname", "SERVER_NAME"),
           ("sport", "SERVER_PORT"), ("script", "SCRIPT_NAME"))
PF_HDRS = (("for", "HTTP_X_FORWARDED_FOR"), ("proto", "HTTP_X_FORWARDED_PROTO"), ("host", "HTTP_X_FORWARDED_HOST"),
           ("port", "HTTP_X_FORWARDED_PORT"), ("prefix", "HTTP_X_FORWARDED_PREFIX"))


def _env_record(d: dict) -> dict:
    """projection of a WSGI environ (or the proxy_fix.orig dict) on the six keys ProxyFix may rewrite"""
    rec = {}
    for k, wk in PF_KEYS:
        v = d.get(wk)
        if k == "host":
            rec["hostp"] = v is not None
        rec[k] = cps(v if isinstance(v, str) else "")
    return rec


def _req_result(fn):
    r = _result(fn)
    return {"kind": r["kind"], "v": r["v"], "exc": r["exc"], "code": r["code"]}


def proxy_case(case: dict) -> dict:
    """case = {cfg: {x_for..x_prefix}, env: {remote, scheme, host|None, sname, sport, script},
               hd: {for|proto|host|port|prefix: str|None}, trusted: [str], extras: [str]|None, exp: record|None}
    Runs the real ProxyFix in front of a capturing application, then asks a Request built from the rewritten
    environ (with trusted_hosts) for host / host_url / root_url / access_route; the twin run has `extras`
    put in front of every X-Forwarded-* list (what a client can do).  Returns the trace line (without t/i)."""
    from werkzeug.middleware.proxy_fix import ProxyFix
    from werkzeug.wrappers import Request

    cfg, env, hd, trusted = case["cfg"], case["env"], case["hd"], case["trusted"]

    def environ_for(headers: dict) -> dict:
        e = {"REQUEST_METHOD": "GET", "PATH_INFO": "/p", "QUERY_STRING": "", "SERVER_PROTOCOL": "HTTP/1.1"}
        for k, wk in PF_KEYS:
            if env.get(k) is not None:
                e[wk] = env[k]
        for k, wk in PF_HDRS:
            if headers.get(k) is not None:
                e[wk] = headers[k]
        return e

    def through_proxy(headers: dict):
        seen = {}

        def app(environ, start_response):
            seen["environ"] = dict(environ)
            return []

        e = environ_for(headers)
        ProxyFix(app, **cfg)(e, lambda *a: None)
        return e, seen["environ"]

    def request_of(after: dict):
        req = Request(dict(after))
        req.trusted_hosts = list(trusted)
        return req

    before, after = through_proxy(hd)
    req = request_of(after)
    r = _req_result(lambda: req.host)
    rurl = _req_result(lambda: request_of(after).host_url)
    rroot = _req_result(lambda: request_of(after).root_url)
    try:
        route = [cps(x) for x in req.access_route]
    except Exception as e:
        route = [cps("!" + type(e).__name__)]
    extras = case.get("extras")
    r2 = r
    if extras:
        twin = {k: (", ".join(extras) + ", " + v if v else v) for k, v in hd.items()}
        r2 = _req_result(lambda: request_of(through_proxy(twin)[1]).host)
    texts = [env.get("host") or "", env.get("sname") or "", *trusted, *[v for v in hd.values() if v]]
    if hd.get("host"):
        texts += hd["host"].split(",")
    out = _env_record(after)
    return {"op": "pfix", "cfg": cfg, "env": _env_record(environ_for({})),
            "hd": {k: {"p": hd.get(k) is not None, "text": cps(hd.get(k) or "")} for k, _ in PF_HDRS},
            "out": out, "orig": _env_record(after.get("werkzeug.proxy_fix.orig", {})),
            "trusted": [cps(x) for x in trusted], "tab": idna_tab([x.strip() for x in texts]),
            "r": r, "rurl": rurl, "rroot": rroot, "has_twin": bool(extras), "extras": [cps(x) for x in (extras or [])], "r2": r2,
            "route": route, "rremote": cps(req.remote_addr or ""),
            "has_exp": case.get("exp") is not None, "exp": case.get("exp") or out}


PF_HOSTS = ["trusted.example", "sub.trusted.example", "evil.example", "trusted.example.evil.com", "eviltrusted.example",
            "[::1]", "[::1]:8443", "[::2]", "[::2]:443", "TRUSTED.example", "trusted.example:8080", "trusted.example:443",
            "evil.example:80", "a..b", "bücher.example", "::1", "trusted.example:abc", "[::1]x", "[::1"]
PF_TRUSTED = [["trusted.example"], [".trusted.example", "[::1]"], ["trusted.example:8080", "127.0.0.1"], ["[::1]"],
              ["bücher.example", "internal"], ["internal"]]
PF_EXTRAS = [["evil.example"], ["trusted.example"], ["[::1]", "evil.example:80"], ['"'], ['"evil.example'], ['x"', "trusted.example"],
             ['trusted.example, "'], ["", ""], [" "], ['"trusted.example", "'], ["\\"], ['"\\'], ["trusted.example\\"]]
PF_SEPS = [", ", ",", " , ", ",\t", " ,"]


def _join(rng, vals):
    out = ""
    for i, v in enumerate(vals):
        out += (rng.choice(PF_SEPS) if i else "") + v
    return out


def proxy_random_cases(rng, n: int) -> list[dict]:
    cases = []
    for _ in range(n):
        cfg = {k: rng.choice([0, 0, 1, 1, 2, 3]) for k in ("x_for", "x_proto", "x_host", "x_port", "x_prefix")}
        if rng.random() < 0.6:
            cfg["x_host"] = rng.choice([1, 1, 2])
        hd = {
            "for": _join(rng, [rng.choice(["1.1.1.1", "10.0.0.2", "::1", "unknown"]) for _ in range(rng.randint(0, 3))]) if rng.random() < 0.7 else None,
            "proto": _join(rng, [rng.choice(["https", "http", "wss", "ftp", "HTTPS"]) for _ in range(rng.randint(0, 3))]) if rng.random() < 0.7 else None,
            "host": _join(rng, [rng.choice(PF_HOSTS) for _ in range(rng.randint(0, 4))]) if rng.random() < 0.9 else None,
            "port": _join(rng, [rng.choice(["443", "80", "8443", "abc", "8080"]) for _ in range(rng.randint(0, 3))]) if rng.random() < 0.5 else None,
            "prefix": _join(rng, [rng.choice(["/a", "/b/c", "x"]) for _ in range(rng.randint(0, 2))]) if rng.random() < 0.3 else None,
        }
        if rng.random() < 0.12 and hd["host"]:      # empty list elements: at the end, in the middle, in front
            hd["host"] = rng.choice([hd["host"] + ",", hd["host"] + ", ", hd["host"] + ",,", hd["host"].replace(",", ",,", 1),
                                     "," + hd["host"], hd["host"].replace(",", ", ,", 1) + " ,"])
        if rng.random() < 0.05 and hd["port"]:
            hd["port"] += ","
        env = {"remote": "10.9.9.9", "scheme": rng.choice(["http", "https"]),
               "host": rng.choice([None, "internal:8000", "trusted.example", "evil.example", "internal", ""]),
               "sname": rng.choice(["internal", "::1", "trusted.example", "evil.example"]),
               "sport": rng.choice(["80", "8000", "443", "abc"]), "script": rng.choice(["", "/app"])}
        cases.append({"cfg": cfg, "env": env, "hd": hd, "trusted": rng.choice(PF_TRUSTED),
                      "extras": rng.choice(PF_EXTRAS) if rng.random() < 0.8 else None, "exp": None})
    return cases


def fallback_cases() -> list[dict]:
    """(2) no Host header: SERVER_NAME / SERVER_PORT stand in for it and are validated (ProxyFix inactive, and
    active with X-Forwarded-Port only, which rewrites SERVER_PORT)."""
    zero = {"x_for": 0, "x_proto": 0, "x_host": 0, "x_port": 0, "x_prefix": 0}
    none = {"for": None, "proto": None, "host": None, "port": None, "prefix": None}
    cases = []
    for sname in ["trusted.example", "sub.trusted.example", "evil.example", "eviltrusted.example", "trusted.example.evil.com",
                  "::1", "::2", "[::1]", "internal", "a..b", "TRUSTED.example", "bücher.example", ""]:
        for sport in ["80", "443", "8080", "abc", ""]:
            for scheme in ["http", "https"]:
                for trusted in PF_TRUSTED[:4]:
                    env = {"remote": "10.9.9.9", "scheme": scheme, "host": None, "sname": sname, "sport": sport, "script": ""}
                    cases.append({"cfg": zero, "env": env, "hd": none, "trusted": trusted, "extras": None, "exp": None})
                env = {"remote": "10.9.9.9", "scheme": scheme, "host": None, "sname": sname, "sport": sport, "script": ""}
                cases.append({"cfg": dict(zero, x_port=1), "env": env, "hd": dict(none, port="8080, 443"),
                              "trusted": ["trusted.example", "[::1]"], "extras": ["80"], "exp": None})
    return cases
