"""pytest plugin (loaded with `-p harness.pytest_trace_plugin`) that records what the repository's own
tests do with MultipartDecoder: one session per decoder object = the chunks fed, the events drained after
each chunk, the limits and the exception class if one escaped.  The sessions are written as JSON to
$VERIF_TRACE_OUT when the test session ends and are judged by spec/multipart/MultipartTrace.tla
(harness/props/c01.py), i.e. every invariant is evaluated at every step of executions whose own
assertions only look at a few fields.  Nothing in /repo is modified: the wrapping happens in the
test process only."""
from __future__ import annotations

import json
import os

_sessions = []


def pytest_configure(config):
    from werkzeug.exceptions import RequestEntityTooLarge
    from werkzeug.sansio import multipart as M

    orig_init = M.MultipartDecoder.__init__
    orig_recv = M.MultipartDecoder.receive_data
    orig_next = M.MultipartDecoder.next_event

    def enc_event(e):
        if isinstance(e, M.File):
            return {"k": "P", "kind": "file", "name": e.name, "fname": e.filename, "hdr": list(e.headers.items())}
        if isinstance(e, M.Field):
            return {"k": "P", "kind": "field", "name": e.name, "fname": None, "hdr": list(e.headers.items())}
        if isinstance(e, M.Data):
            return {"k": "D", "data": list(e.data), "more": bool(e.more_data)}
        if isinstance(e, M.Epilogue):
            return {"k": "EPI"}
        if isinstance(e, M.Preamble):
            return {"k": "PRE"}
        return {"k": "N"}

    def init(self, boundary, max_form_memory_size=None, *, max_parts=None):
        orig_init(self, boundary, max_form_memory_size, max_parts=max_parts)
        self._verif = {"bnd": list(boundary), "maxmem": max_form_memory_size, "maxparts": max_parts,
                       "steps": [], "err": "", "test": os.environ.get("PYTEST_CURRENT_TEST", "")}
        _sessions.append(self._verif)

    def recv(self, data):
        rec = getattr(self, "_verif", None)
        try:
            orig_recv(self, data)
        except RequestEntityTooLarge:
            if rec is not None:
                rec["steps"].append({"chunk": None if data is None else list(data), "buflen": len(self.buffer), "ev": []})
                rec["err"] = "too_large"
            raise
        if rec is not None:
            rec["steps"].append({"chunk": None if data is None else list(data), "buflen": len(self.buffer), "ev": []})

    def nxt(self):
        rec = getattr(self, "_verif", None)
        try:
            e = orig_next(self)
        except RequestEntityTooLarge:
            if rec is not None:
                rec["err"] = "too_large"
            raise
        except ValueError:
            if rec is not None:
                rec["err"] = "value"
            raise
        if rec is not None:
            if not rec["steps"]:
                rec["steps"].append({"chunk": [], "buflen": len(self.buffer), "ev": []})
            rec["steps"][-1]["ev"].append(enc_event(e))
        return e

    M.MultipartDecoder.__init__ = init
    M.MultipartDecoder.receive_data = recv
    M.MultipartDecoder.next_event = nxt


def pytest_sessionfinish(session, exitstatus):
    out = os.environ.get("VERIF_TRACE_OUT")
    if out:
        with open(out, "w") as f:
            json.dump(_sessions, f)
