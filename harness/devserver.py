"""Recorder and drivers for the development-server area (C19).

* `run_dechunk` drives the real `serving.DechunkedInput` directly over a byte string.
* `run_http` drives a real `serving.WSGIRequestHandler` in-process over `socket.socketpair()`
  with a scripted WSGI application and records what the application saw / produced and the raw
  bytes the client end received.

Vocabulary: spec/devserver/DevServerTrace.tla.  No verdicts here: every expectation is
recomputed by the TLA+ judge from the raw bytes.
"""
from __future__ import annotations

import io
import random
import socket
import threading

READALL = 1 << 20  # encodes read() / read(-1) in the trace


# ---------------------------------------------------------------------------------- dechunk
def _read_loop(read, plan, bound):
    """Call read(n) with the sizes of `plan` (cyclic) until EOF / exception / bound."""
    reads, fin = [], "bound"
    i = 0
    while len(reads) < bound:
        n = plan[i % len(plan)] if plan else READALL
        i += 1
        try:
            got = read(n)
        except BaseException as e:  # recorded by class name, judged in TLA+
            reads.append({"n": n, "got": [], "exc": type(e).__name__})
            fin = "exc"
            break
        if got is None:
            got = b""
        reads.append({"n": n, "got": list(bytes(got)), "exc": ""})
        if n > 0 and len(got) == 0:
            fin = "eof"
            break
    return reads, fin


def reader_for(stream, api: str, bufsize: int = 0):
    """The ways an application reads wsgi.input."""
    if api == "read":
        return lambda n: stream.read(-1 if n >= READALL else n)
    if api == "readinto":
        def rd(n):
            n = 65536 if n >= READALL else n
            buf = bytearray(n)
            k = stream.readinto(buf)
            return bytes(buf[:k])
        return rd
    if api == "buffered":
        br = io.BufferedReader(stream, buffer_size=max(1, bufsize))
        return lambda n: br.read(-1 if n >= READALL else n)
    raise ValueError(api)


def run_dechunk(wire: bytes, plan: list[int], api: str = "read", rfile: str = "bytesio", bufsize: int = 0) -> dict:
    from werkzeug.serving import DechunkedInput

    raw = io.BytesIO(wire)
    f = raw if rfile == "bytesio" else io.BufferedReader(raw, buffer_size=max(1, bufsize or 8192))
    d = DechunkedInput(f)
    reads, fin = _read_loop(reader_for(d, api, bufsize), plan, bound=len(wire) + 6)
    return {"op": "dechunk", "api": api, "rfile": rfile, "bufsize": bufsize, "wire": list(wire), "plan": list(plan),
            "reads": reads, "fin": fin}


# ---------------------------------------------------------------------------------- framings
def hexsize(n: int, style: str) -> bytes:
    h = "%x" % n
    if style == "upper":
        h = h.upper()
    elif style == "lead0":
        h = "0" + h
    elif style == "mixed":
        h = "".join(c.upper() if i % 2 else c for i, c in enumerate(h))
    return h.encode()


def frame(payload: bytes, sizes: list[int], rng: random.Random, lbs=(b"\r\n", b"\n")) -> bytes:
    out, pos = [], 0
    for k in sizes:
        piece = payload[pos : pos + k]
        pos += k
        if not piece:
            continue
        out.append(hexsize(len(piece), rng.choice(["lower", "upper", "lead0", "mixed"])) + rng.choice(lbs) + piece + rng.choice(lbs))
    if pos < len(payload):
        piece = payload[pos:]
        out.append(hexsize(len(piece), "lower") + rng.choice(lbs) + piece + rng.choice(lbs))
    out.append(rng.choice([b"0", b"0", b"00", b"000"]) + rng.choice(lbs) + rng.choice(lbs))
    return b"".join(out)


PAY_ALPHA = [b"a", b"b", b"\r", b"\n", b"0", b"5", b"f", b"\r\n", b"0\r\n\r\n", b"3\r\nxyz\r\n", b"\x00", b"\xff", b"-1\r\n"]


def random_payload(rng: random.Random, maxlen: int) -> bytes:
    n = rng.choice([0, 1, 2, 3, 5, 9, 10, 15, 16, 17, 31, 40, maxlen])
    out = b""
    while len(out) < n:
        out += rng.choice(PAY_ALPHA) if rng.random() < 0.7 else bytes([rng.randrange(256)])
    return out[:n]


def random_sizes(rng: random.Random, n: int) -> list[int]:
    if n == 0:
        return []
    style = rng.randrange(4)
    if style == 0:
        return [1] * n
    if style == 1:
        return [n]
    k = rng.randint(1, min(n, 6))
    cuts = sorted(rng.sample(range(1, n), min(k - 1, n - 1))) if n > 1 else []
    return [b - a for a, b in zip([0] + cuts, cuts + [n])]


def defects(wire: bytes, rng: random.Random) -> list[bytes]:
    """Malformed variants of a well-formed chunked body (truncated, negative, non-hex, unterminated)."""
    out = []
    if wire:
        for _ in range(3):
            out.append(wire[: rng.randrange(len(wire))])
    out.append(b"-" + wire)
    out.append(b"g" + wire)
    out.append(b"zz\r\n" + wire)
    out.append(b"\r\n" + wire)
    # a chunk terminator removed / replaced
    lb = wire.find(b"\n")
    if lb >= 0:
        try:
            size = int(wire[:lb].strip(), 16)
        except ValueError:
            size = 0
        if size > 0 and lb + 1 + size < len(wire):
            end = lb + 1 + size
            rest = wire[end:]
            rest2 = rest[2:] if rest.startswith(b"\r\n") else rest[1:]
            out.append(wire[:end] + rest2)
            out.append(wire[:end] + b"x\r\n" + rest2)
    return out


def read_plans(rng: random.Random, n: int, k: int) -> list[list[int]]:
    plans = [[1], [2], [3], [READALL], [n + 1], [max(1, n)], [max(1, n - 1)]]
    for _ in range(k):
        plans.append([rng.choice([1, 1, 2, 3, 4, 5, 7, 8, 16, 17, 64, READALL]) for _ in range(rng.randint(1, 5))])
    return plans


# ---------------------------------------------------------------------------------- http
class _StubServer:
    ssl_context = None
    multithread = False
    multiprocess = False
    passthrough_errors = False
    server_address = ("127.0.0.1", 5000)
    _server_version = "Werkzeug/verif"

    def __init__(self, app):
        self.app = app
        self.logs = []

    def log(self, type, message, *args):
        self.logs.append(type)


_handlers: dict = {}


def _handler(proto: int):
    from werkzeug.serving import WSGIRequestHandler

    key = (proto, WSGIRequestHandler)
    if key not in _handlers:
        class H(WSGIRequestHandler):
            protocol_version = "HTTP/1.1" if proto == 11 else "HTTP/1.0"

            def log(self, type, message, *args):  # keep stderr quiet
                pass

        _handlers[key] = H
    return _handlers[key]


def run_http(raw: bytes, script: dict, proto: int = 11) -> dict:
    """script = {code, reason: bytes, headers: [[name, value]] (latin-1 str), chunks: [bytes],
    via_write: [bool], plan: [int], api}"""
    rec = {"called": False, "method": [], "path": [], "query": [], "headers": [], "reads": [], "fin": "cl"}

    def app(environ, start_response):
        rec["called"] = True
        rec["method"] = list(environ["REQUEST_METHOD"].encode("latin-1"))
        rec["path"] = list(environ["PATH_INFO"].encode("latin-1"))
        rec["query"] = list(environ["QUERY_STRING"].encode("latin-1"))
        hs = []
        for k in sorted(environ):
            if k.startswith("HTTP_") or k in ("CONTENT_TYPE", "CONTENT_LENGTH"):
                hs.append([list(k.encode("latin-1")), list(str(environ[k]).encode("latin-1"))])
        rec["headers"] = hs
        stream = environ["wsgi.input"]
        plan = script.get("plan") or [READALL]
        if environ.get("wsgi.input_terminated"):
            rd = reader_for(stream, script.get("api", "read"), script.get("bufsize", 0))
            # bound: the body cannot be longer than the request
            rec["reads"], rec["fin"] = _read_loop(rd, plan, bound=len(raw) + 6)
        else:
            try:
                left = int(environ.get("CONTENT_LENGTH") or 0)
            except ValueError:
                left = 0
            reads, i = [], 0
            while left > 0 and len(reads) < len(raw) + 6:
                n = min(left, plan[i % len(plan)])
                i += 1
                try:
                    got = stream.read(n)
                except BaseException as e:
                    reads.append({"n": n, "got": [], "exc": type(e).__name__})
                    break
                reads.append({"n": n, "got": list(got), "exc": ""})
                if not got:
                    break
                left -= len(got)
            rec["reads"], rec["fin"] = reads, "cl"
        status = b"%d" % script["code"] + (b" " + script["reason"] if script["reason"] else b"")
        write = start_response(status.decode("latin-1"), [(n, v) for n, v in script["headers"]])
        chunks, via = script["chunks"], script["via_write"]
        lead = 0
        while lead < len(chunks) and via[lead]:
            write(chunks[lead])
            lead += 1

        def gen():
            for c, w in zip(chunks[lead:], via[lead:]):
                if w:
                    write(c)
                else:
                    yield c

        return gen()

    a, b = socket.socketpair()
    a.settimeout(20)
    b.settimeout(20)
    out = []

    def client():
        try:
            a.sendall(raw)
            a.shutdown(socket.SHUT_WR)
            while True:
                d = a.recv(65536)
                if not d:
                    break
                out.append(d)
        except OSError:
            out.append(b"<client-error>")

    th = threading.Thread(target=client)
    th.start()
    crashed = ""
    try:
        _handler(proto)(b, ("127.0.0.1", 40000), _StubServer(app))
    except BaseException as e:  # the handler itself must not raise; recorded, shows up as a broken response
        crashed = type(e).__name__
    finally:
        try:
            b.shutdown(socket.SHUT_WR)
        except OSError:
            pass
        b.close()
    th.join(25)
    a.close()
    return {
        "op": "http", "proto": proto, "raw": list(raw), "called": rec["called"],
        "saw": {"method": rec["method"], "path": rec["path"], "query": rec["query"], "headers": rec["headers"]},
        "reads": rec["reads"], "fin": rec["fin"],
        "did": {"code": script["code"], "reason": list(script["reason"]),
                "headers": [[list(n.encode("latin-1")), list(v.encode("latin-1"))] for n, v in script["headers"]],
                "chunks": [list(c) for c in script["chunks"]]},
        "via_write": [bool(x) for x in script["via_write"]],
        "got": list(b"".join(out)), "crashed": crashed,
        "script": {"plan": list(script.get("plan") or []), "api": script.get("api", "read"), "bufsize": script.get("bufsize", 0)},
    }


def script_from_line(line: dict) -> dict:
    """Rebuild the application script of a recorded http line (replay)."""
    d = line["did"]
    return {"code": d["code"], "reason": bytes(d["reason"]),
            "headers": [[bytes(n).decode("latin-1"), bytes(v).decode("latin-1")] for n, v in d["headers"]],
            "chunks": [bytes(c) for c in d["chunks"]], "via_write": list(line["via_write"]),
            "plan": line["script"]["plan"], "api": line["script"]["api"], "bufsize": line["script"]["bufsize"]}


# ---------------------------------------------------------------------------------- request generators
METHODS = ["GET", "POST", "PUT", "DELETE", "PATCH", "OPTIONS", "HEAD", "HEAD", "PROPFIND", "get"]
SEG_LITERALS = ["a", "b", "index.html", "~u", "a-b_c", ";p=1", "a:b", "@", "!$&'()*+,=", "%", "%zz", "%4", "+"]
PCT_RESERVED = ["%2F", "%2f", "%3F", "%25", "%23", "%20", "%41", "%7e", "%00", "%0A"]


def pct_utf8(rng: random.Random) -> str:
    cp = rng.choice([0xE9, 0x7FF, 0x800, 0x20AC, 0xD7FF, 0xE000, 0xFFFD, 0xFFFF, 0x10000, 0x1F600, 0x10FFFF,
                     rng.randrange(0x80, 0xD800), rng.randrange(0xE000, 0x110000)])
    enc = chr(cp).encode("utf-8")
    fmt = "%%%02X" if rng.random() < 0.7 else "%%%02x"
    return "".join(fmt % b for b in enc)


def random_target(rng: random.Random) -> str:
    nseg = rng.randint(0, 4)
    segs = []
    for _ in range(nseg):
        s = ""
        for _ in range(rng.randint(0, 3)):
            r = rng.random()
            s += rng.choice(SEG_LITERALS) if r < 0.45 else rng.choice(PCT_RESERVED) if r < 0.65 else pct_utf8(rng)
        if rng.random() < 0.03:
            s += rng.choice(["%FF", "%C3", "%ED%A0%80", "%C0%AF"])  # not UTF-8: outside the claimed domain
        segs.append(s)
    path = "/" + "/".join(segs)
    r = rng.random()
    if r < 0.15:
        path = "/" + path                    # '//' prefix
    elif r < 0.2:
        path = "//" + path
    if rng.random() < 0.15 and segs:
        path += "/"
    q = ""
    if rng.random() < 0.5:
        q = "?" + rng.choice(["", "x=1", "a=1&b=2", "q=%20+%2B&r=%C3%A9", "a?b=c", "%zz=%", "k=v;w", "u=http://x/y?z", "a=/../"])
    tgt = path + q
    if rng.random() < 0.15:
        tgt = rng.choice(["http://example.org", "http://example.org:8080", "HTTP://h", "http://[::1]:80"]) + (tgt if rng.random() < 0.85 else q)
    return tgt


HEADER_POOL = [
    ("Accept", ["*/*", "text/html, application/json;q=0.9", ""]),
    ("X-Custom", ["1", "two words", "a,b", "x=y; z"]),
    ("x-custom", ["lower"]),
    ("X-CUSTOM", ["UPPER"]),
    ("Cookie", ["a=b", "c=d; e=f"]),
    ("User-Agent", ["verif/1.0 (x; y)"]),
    ("X_Under", ["dropped"]),
    ("X-A_B", ["dropped too"]),
    ("Content_Length", ["999"]),
    ("X-Latin", ["caf\xe9", "\xff\xa0x"]),
    ("Content-Type", ["text/plain", "application/x-www-form-urlencoded", "multipart/form-data; boundary=b"]),
    ("If-None-Match", ['"a", W/"b"']),
    ("X-Forwarded-For", ["10.0.0.1", "10.0.0.2"]),
    # names that share a prefix with the two CGI-style keys (CONTENT_TYPE / CONTENT_LENGTH) or with the HTTP_ prefix itself
    ("Content-Encoding", ["gzip", "identity"]),
    ("Content-Language", ["en", "de"]),
    ("Content-Typed", ["x"]),
    ("Content-Lengthy", ["7"]),
    ("Content", ["bare"]),
    ("Http-Host", ["evil.example"]),
]


def random_headers(rng: random.Random) -> list[tuple[str, str, str]]:
    hs = []
    if rng.random() < 0.85:
        hs.append(("Host", rng.choice(["localhost", "example.com:8000", "[::1]"]), ": "))
    for _ in range(rng.randint(0, 6)):
        name, vals = rng.choice(HEADER_POOL)
        hs.append((name, rng.choice(vals), rng.choice([": ", ":", ":  ", ":\t"])))
    return hs


def build_request(method: str, target: str, version: str, headers, body_headers, body: bytes) -> bytes:
    lines = [f"{method} {target} {version}".encode("latin-1")]
    for n, v, sep in list(headers) + list(body_headers):
        lines.append((n + sep + v).encode("latin-1"))
    return b"\r\n".join(lines) + b"\r\n\r\n" + body


def random_request(rng: random.Random, chunked_wires=None) -> tuple[bytes, list[int], str, int]:
    """-> (raw request, read plan, read api, bufsize)"""
    method = rng.choice(METHODS)
    version = "HTTP/1.1" if rng.random() < 0.85 else "HTTP/1.0"
    headers = random_headers(rng)
    bh, body = [], b""
    plan, api, bufsize = [READALL], "read", 0
    r = rng.random()
    if r < 0.35:
        body = random_payload(rng, 300)
        bh = [(rng.choice(["Content-Length", "content-length"]), str(len(body)), ": ")]
        plan = rng.choice(read_plans(rng, len(body), 3))
    elif r < 0.8:
        if chunked_wires and rng.random() < 0.3:
            body = rng.choice(chunked_wires)
        else:
            pay = random_payload(rng, 300)
            body = frame(pay, random_sizes(rng, len(pay)), rng)
            if rng.random() < 0.3:
                body = rng.choice(defects(body, rng))
        bh = [("Transfer-Encoding", rng.choice(["chunked", "chunked", "Chunked", " chunked"]), ": ")]
        plan = rng.choice(read_plans(rng, len(body), 3))
        api = rng.choice(["read", "read", "readinto", "buffered"])
        bufsize = rng.choice([1, 2, 3, 8, 8192])
    rng.shuffle(headers)
    pos = rng.randint(0, len(headers))
    headers[pos:pos] = bh
    return build_request(method, random_target(rng), version, headers, [], body), plan, api, bufsize


STATUS = [(100, b"Continue"), (101, b"Switching Protocols"), (199, b"Misc"), (200, b"OK"), (200, b""), (201, b"Created"),
          (204, b"No Content"), (206, b"Partial Content"), (299, b"X Y  Z"), (301, b"Moved Permanently"), (304, b"Not Modified"),
          (400, b"Bad Request"), (404, b"NOT FOUND"), (418, b"I'm a teapot"), (500, b"Internal Server Error"), (599, b"caf\xe9")]
APP_HEADERS = [("Content-Type", "text/plain; charset=utf-8"), ("X-App", "1"), ("Set-Cookie", "a=b; Path=/"),
               ("Set-Cookie", "c=d"), ("x-lower", "v"), ("Location", "/x y"), ("X-Latin", "caf\xe9"), ("ETag", '"abc"'),
               ("Cache-Control", "no-cache, private"), ("X-Empty", ""), ("Vary", "Accept")]
CHUNK_ALPHA = [b"", b"", b"a", b"0", b"\r\n", b"0\r\n\r\n", b"abc", b"1\r\nx\r\n", b"x" * 10, b"y" * 16, b"z" * 17, b"\x00\xff", b"w" * 300]


def random_script(rng: random.Random) -> dict:
    code, reason = rng.choice(STATUS)
    headers = [list(rng.choice(APP_HEADERS)) for _ in range(rng.randint(0, 4))]
    chunks = []
    for _ in range(rng.choice([0, 1, 1, 2, 3, 4])):
        c = rng.choice(CHUNK_ALPHA)
        if rng.random() < 0.2:
            c = bytes(rng.randrange(256) for _ in range(rng.randint(1, 40)))
        chunks.append(c)
    if rng.random() < 0.4:
        headers.insert(rng.randint(0, len(headers)),
                       [rng.choice(["Content-Length", "content-length", "CONTENT-LENGTH"]), str(sum(map(len, chunks)))])
    via = [rng.random() < 0.25 for _ in chunks]
    return {"code": code, "reason": reason, "headers": headers, "chunks": chunks, "via_write": via}


# ---------------------------------------------------------------------------------- WSGI call protocol (Proto...)
PROTO_STATUS = {"A": ("201 A", [("X-Id", "A"), ("Content-Type", "text/plain")]),
                "B": ("404 B", [("X-Id", "B"), ("Content-Type", "text/plain")])}
_LINT_PROTOCOL_MARKERS = ("before it started the response", "closed 'app_iter'", "Invalid number of arguments",
                          "exc_info", "write()", "application iterator items")


def _drive(raw: bytes, app, proto: int) -> tuple[bytes, str]:
    """One connection on a socket pair: send `raw`, half-close, run the real handler, collect the reply."""
    a, b = socket.socketpair()
    a.settimeout(20)
    b.settimeout(20)
    out = []

    def client():
        try:
            a.sendall(raw)
            a.shutdown(socket.SHUT_WR)
            while True:
                d = a.recv(65536)
                if not d:
                    break
                out.append(d)
        except OSError:
            out.append(b"<client-error>")

    th = threading.Thread(target=client)
    th.start()
    crashed = ""
    try:
        _handler(proto)(b, ("127.0.0.1", 40000), _StubServer(app))
    except BaseException as e:
        crashed = type(e).__name__
    finally:
        try:
            b.shutdown(socket.SHUT_WR)
        except OSError:
            pass
        b.close()
    th.join(25)
    a.close()
    return b"".join(out), crashed


def scripted_protocol_app(script: list[dict], cut: int, counter: dict):
    """A WSGI application that performs exactly the protocol actions of `script` (WsgiContract.tla)."""
    import sys

    def app(environ, start_response):
        state = {"write": None}

        def perform(a):
            k = a["k"]
            if k == "SR":
                st, hs = PROTO_STATUS[a["id"]]
                state["write"] = start_response(st, list(hs))
            elif k == "SRX":
                st, hs = PROTO_STATUS[a["id"]]
                try:
                    raise ValueError("application error handed to start_response")
                except ValueError:
                    state["write"] = start_response(st, list(hs), sys.exc_info())
            elif k == "W":
                state["write"](bytes(a["d"]))
            elif k == "RAISE":
                raise RuntimeError("scripted application failure")

        for a in script[:cut]:
            perform(a)

        class It:
            def __init__(self):
                self.i = cut

            def __iter__(self):
                return self

            def __next__(self):
                while self.i < len(script):
                    a = script[self.i]
                    self.i += 1
                    if a["k"] == "Y":
                        return bytes(a["d"])
                    perform(a)
                raise StopIteration

            def close(self):
                counter["closes"] += 1

        return It()

    return app


def run_wsgi_script(script: list[dict], cut: int, proto: int = 11, with_lint: bool = True) -> dict:
    import warnings

    raw = build_request("GET", "/p", "HTTP/1.1", [("Host", "localhost", ": ")], [], b"")
    counter = {"closes": 0}
    got, crashed = _drive(raw, scripted_protocol_app(script, cut, counter), proto)
    lint = False
    if with_lint:
        from werkzeug.middleware.lint import LintMiddleware, WSGIWarning

        c2 = {"closes": 0}
        with warnings.catch_warnings(record=True) as rec:
            warnings.simplefilter("always")
            _drive(raw, LintMiddleware(scripted_protocol_app(script, cut, c2)), proto)
        lint = any(issubclass(w.category, WSGIWarning) and any(m in str(w.message) for m in _LINT_PROTOCOL_MARKERS)
                   for w in rec)
    return {"op": "wsgi", "proto": proto, "script": script, "cut": cut, "got": list(got), "closes": counter["closes"],
            "lint": bool(lint), "lintrun": bool(with_lint), "crashed": crashed}


def run_pipelined(n: int = 2, proto: int = 11) -> dict:
    """n requests written back to back on one connection (the first with an unread body)."""
    seen = []

    def app(environ, start_response):
        seen.append(environ["PATH_INFO"])
        start_response("200 OK", [("Content-Length", "2")])
        return [b"ok"]

    reqs = [build_request("POST", f"/r{i}", "HTTP/1.1", [("Host", "localhost", ": ")], [("Content-Length", "5", ": ")], b"hello")
            for i in range(n)]
    got, crashed = _drive(b"".join(reqs), app, proto)
    return {"op": "pipe", "n": n, "proto": proto, "got": list(got), "responses": got.count(b"HTTP/1."), "calls": len(seen),
            "crashed": crashed}
