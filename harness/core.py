"""Run context shared by all property checks: scratch space, TLC invocations (model check /
export / judge), verdict bookkeeping (violations vs. known findings), evidence and replay files.

Verdict policy (DESIGN.md section 3): a VIOLATION comes only from a clause the TLC judge
rejected (or an expectation exported from the TLC model that the real code did not meet, which
is again decided by the judge spec).  Python never decides a verdict on its own.
"""
from __future__ import annotations

import concurrent.futures as cf
import fnmatch
import hashlib
import json
import os
import random
import shutil
import sys
import tempfile
import time

from . import tlc
from .tlc import MachineryError

VERIF = os.path.dirname(os.path.dirname(os.path.abspath(__file__)))
REPO = os.environ.get("VERIF_REPO", "/repo")


def use_repo() -> str:
    """Make `import werkzeug` resolve to the current working tree of the repository."""
    src = os.path.join(REPO, "src")
    if sys.path[0] != src:
        sys.path.insert(0, src)
    for name in list(sys.modules):
        if name == "werkzeug" or name.startswith("werkzeug."):
            f = getattr(sys.modules[name], "__file__", "") or ""
            if not f.startswith(src):
                del sys.modules[name]
    import werkzeug  # noqa

    assert werkzeug.__file__.startswith(src), (werkzeug.__file__, src)
    return src


class Ctx:
    def __init__(self, pid: str, tier: str, seed: int, level: str = "model_checking"):
        self.pid = pid
        self.tier = tier
        self.seed = seed
        self.level = level
        self.rng = random.Random(seed)
        base = os.environ.get("VERIF_TMP", "/var/tmp")
        os.makedirs(base, exist_ok=True)
        self.tmp = tempfile.mkdtemp(prefix=f"verif-{pid}-", dir=base)
        self.t0 = time.time()
        self.states = 0
        self.transitions = 0
        self.traces = 0  # trace lines judged
        self.evaluations = 0
        self.nontrivial: set = set()
        self.samples: list = []
        self.rule = ""
        self.exhaustive = False
        self.assumptions: list[str] = []
        self.notes: dict = {}
        self.model_runs: list = []
        self.model_drift: list = []
        self.violations: list = []  # dicts: {key, clause, case, kind}
        self.known_hits: dict = {}
        self.findings = self._load_findings()
        self.workers = int(os.environ.get("VERIF_WORKERS", str(os.cpu_count() or 4)))
        self.budget_s = None

    @property
    def quick(self) -> bool:
        return self.tier == "quick"

    def elapsed(self) -> float:
        return time.time() - self.t0

    # ------------------------------------------------------------------ findings
    def _load_findings(self):
        p = os.path.join(VERIF, "known_findings.json")
        if not os.path.exists(p):
            return []
        data = json.load(open(p))
        return [f for f in data.get("findings", []) if f.get("property") == self.pid and f.get("status") == "open"]

    # ------------------------------------------------------------------ TLC
    def model_check(self, area, module, cfg=None, *, workers=None, timeout=900, coverage=False,
                    exhaustive=True, **kw) -> tlc.TLCResult:
        r = tlc.run_tlc(area, module, cfg, workers=workers or self.workers, tmp=self.tmp,
                        timeout=timeout, coverage=coverage, **kw)
        self.states += r.distinct
        self.transitions += r.generated
        self.model_runs.append({"spec": f"{area}/{module}", "cfg": cfg or module, "distinct": r.distinct,
                                "generated": r.generated, "depth": r.depth, "wall_s": round(r.wall_s, 1)})
        return r

    def export(self, area, module, cfg, *, timeout=900, count_states=True, env=None, **kw) -> list:
        """Run an export config (single worker; PrintT(ToJson(..)) lines) and return the values."""
        r = tlc.run_tlc(area, module, cfg, workers=1, tmp=self.tmp, timeout=timeout, env=env, **kw)
        if count_states:
            self.states += r.distinct
            self.transitions += r.generated
        self.model_runs.append({"spec": f"{area}/{module}", "cfg": cfg, "distinct": r.distinct,
                                "generated": r.generated, "exported": len(r.printed), "wall_s": round(r.wall_s, 1)})
        return r.printed

    def judge(self, area, module, lines: list[dict], *, cfg=None, batch=4000, timeout=900,
              parallel=None) -> list[dict]:
        """Judge recorded trace lines with spec/<area>/<module>.tla.  Returns the list of
        REJECT records printed by TLC ({"reject":1,"t":..,"i":..,"clause":..}).  Lines of one
        trace (same "t") are never split across batches."""
        if not lines:
            return []
        batches, cur, cur_t = [], [], None
        for ln in lines:
            if len(cur) >= batch and ln.get("t") != cur_t:
                batches.append(cur)
                cur = []
            cur.append(ln)
            cur_t = ln.get("t")
        if cur:
            batches.append(cur)
        rejects: list[dict] = []
        drift: list[dict] = []

        def one(idx_b):
            idx, b = idx_b
            path = os.path.join(self.tmp, f"trace-{module}-{idx}-{time.time_ns()}.ndjson")
            with open(path, "w") as f:
                for ln in b:
                    f.write(json.dumps(ln, separators=(",", ":")) + "\n")
            r = tlc.run_tlc(area, module, cfg, workers=1, tmp=self.tmp, timeout=timeout,
                            env={"TRACE_FILE": path}, heap="3g")
            judged = [v for v in r.printed if isinstance(v, dict) and "judged" in v]
            if not judged or judged[-1]["judged"] != len(b):
                raise MachineryError(f"judge {area}/{module}: judged {judged} of {len(b)} lines\n{r.stdout[-1500:]}")
            os.unlink(path)
            return r

        par = parallel or min(self.workers, 8)
        with cf.ThreadPoolExecutor(max_workers=par) as ex:
            for r in ex.map(one, list(enumerate(batches))):
                self.states += r.distinct
                self.transitions += r.generated
                for v in r.printed:
                    if isinstance(v, dict) and v.get("reject"):
                        rejects.append(v)
                    elif isinstance(v, dict) and v.get("drift"):
                        drift.append(v)
        self.traces += len(lines)
        self.model_drift.extend(drift[:50])
        return rejects

    # ------------------------------------------------------------------ verdicts
    def violation(self, key: str, clause: str, case, kind: str = "") -> None:
        """Record a judged violation.  `key` identifies the failing input class / call site /
        history; it is matched against the open entries of known_findings.json."""
        for f in self.findings:
            if any(fnmatch.fnmatchcase(key, pat) for pat in f.get("keys", [])):
                hit = self.known_hits.setdefault(f["id"], {"finding": f, "n": 0, "example": case})
                hit["n"] += 1
                return
        self.violations.append({"key": key, "clause": clause, "case": case, "kind": kind})

    def sample(self, case, limit=6):
        if len(self.samples) < limit:
            self.samples.append(case)

    def count(self, n=1, nontrivial_key=None):
        self.evaluations += n
        if nontrivial_key is not None:
            self.nontrivial.add(nontrivial_key)

    # ------------------------------------------------------------------ output
    def finish(self) -> int:
        wall = time.time() - self.t0
        os.makedirs(os.path.join(VERIF, "evidence"), exist_ok=True)
        os.makedirs(os.path.join(VERIF, "out", "replays"), exist_ok=True)
        replay_paths = []
        seen = set()
        for v in self.violations:
            if v["key"] in seen and len(replay_paths) >= 5:
                continue
            seen.add(v["key"])
            if len(replay_paths) >= 20:
                break
            blob = json.dumps({"property": self.pid, "kind": v["kind"], "key": v["key"], "clause": v["clause"],
                               "case": v["case"], "seed": self.seed, "tier": self.tier}, sort_keys=True, default=str)
            h = hashlib.sha1(blob.encode()).hexdigest()[:12]
            path = os.path.join(VERIF, "out", "replays", f"{self.pid}-{h}.json")
            with open(path, "w") as f:
                f.write(blob)
            replay_paths.append((path, v))
        for fid, hit in sorted(self.known_hits.items()):
            f = hit["finding"]
            print(f"KNOWN-FINDING: property={self.pid} {fid} {f['what']} (hits={hit['n']})")
        for path, v in replay_paths:
            print(f"VIOLATION property={self.pid} replay={path}")
            print(f"  clause={v['clause']} key={v['key']}")
        cov = {
            "states": max(self.states, 0),
            "transitions": max(self.transitions, 0),
            "traces_validated_against_impl": self.traces,
            "samples": self.samples or ["(no sample recorded)"],
            "evaluations": self.evaluations,
            "distinct_nontrivial": len(self.nontrivial),
            "rule": self.rule,
            "exhaustive": self.exhaustive,
            "model_runs": self.model_runs,
            "model_drift": self.model_drift[:20],
            "known_findings_hit": {k: v["n"] for k, v in self.known_hits.items()},
        }
        cov.update(self.notes)
        ev = {
            "property_id": self.pid,
            "tier": self.tier,
            "seed": self.seed,
            "level": self.level,
            "coverage": cov,
            "assumptions": self.assumptions,
            "wall_s": round(wall, 2),
            "violations": len(self.violations),
        }
        # extension areas beyond the listed properties (ids X..) keep their evidence apart from the interface files
        evdir = "evidence_extra" if self.pid.startswith("X") else "evidence"
        os.makedirs(os.path.join(VERIF, evdir), exist_ok=True)
        with open(os.path.join(VERIF, evdir, f"{self.pid}.json"), "w") as f:
            json.dump(ev, f, indent=1, default=str)
            f.write("\n")
        shutil.rmtree(self.tmp, ignore_errors=True)
        print(f"[{self.pid}] tier={self.tier} seed={self.seed} states={self.states} transitions={self.transitions} "
              f"trace_lines={self.traces} evaluations={self.evaluations} nontrivial={len(self.nontrivial)} "
              f"violations={len(self.violations)} known={sum(h['n'] for h in self.known_hits.values())} wall={wall:.1f}s")
        return 1 if self.violations else 0

    def cleanup(self):
        shutil.rmtree(self.tmp, ignore_errors=True)


# ---------------------------------------------------------------------- encoders (DESIGN section 5)
def cps(s: str) -> list[int]:
    """text -> code points"""
    return [ord(c) for c in s]


def bts(b: bytes) -> list[int]:
    return list(b)


def digits(n: int) -> list[int]:
    """non-negative big number -> decimal digit list (TLC ints are 32 bit)"""
    return [int(c) for c in str(n)]


def exc_name(e: BaseException) -> str:
    return type(e).__name__


def pmap(fn, items, workers=None, chunksize=64):
    """Parallel map over processes (fork), order preserving."""
    items = list(items)
    if len(items) < 200 or (workers or 0) == 1:
        return [fn(x) for x in items]
    import multiprocessing as mp

    ctx = mp.get_context("fork")
    with ctx.Pool(workers or min(os.cpu_count() or 4, 16)) as pool:
        return pool.map(fn, items, chunksize=chunksize)
