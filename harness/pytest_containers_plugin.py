"""pytest plugin (loaded with `-p harness.pytest_containers_plugin`) that records what the repository's
own tests do with the multi-value containers (C08): for every MultiDict / ImmutableMultiDict /
FileMultiDict / Headers / HeaderSet object a *session* = the constructor input, then every public mutating
call with its arguments, return value or exception class, and after each call the full read vector of
harness/containers.py (all public reads).  CombinedMultiDict and EnvironHeaders are views: every event on
one (construction, rejected mutator) becomes a small session of its own that first rebuilds what the
view reads through.  The sessions are written as JSON to $VERIF_TRACE_OUT when the test session ends and
are judged by spec/containers/ContainersTrace.tla (harness/props/c08.py), i.e. the documented model is
checked at every step of executions whose own assertions only look at a few reads.

Nothing in /repo is modified: the wrapping happens in the test process only.  Sessions (or the rest of a
session) whose values fall outside the judge's vocabulary are skipped and counted by reason; no verdict
is taken here."""
from __future__ import annotations

import json
import os
import threading
import weakref

from harness import containers as C

_sessions: list = []          # finished / running sessions (dicts)
_skipped: dict = {}           # reason -> count (objects without a session)
_by_id: dict = {}             # id(obj) -> session
_tl = threading.local()


def _busy():
    return getattr(_tl, "busy", False)


def _skip(reason):
    _skipped[reason] = _skipped.get(reason, 0) + 1


class Unrep(Exception):
    """the call / value is outside the trace vocabulary (reason = args[0])"""


# ---------------------------------------------------------------------- vocabulary checks
def _is_ascii(s):
    try:
        s.encode("ascii")
        return True
    except UnicodeError:
        return False


def _key(kind, k):
    if type(k) is not str:
        raise Unrep("non-str key")
    if kind in ("Headers", "HeaderSet", "EnvironHeaders", "Environ") and not _is_ascii(k):
        raise Unrep("non-ASCII header name")     # str.lower / title are modelled for ASCII only
    if kind == "HeaderSet" and not (k and all(c.isalnum() or c in "!#$%&'*+-.^_`|~" for c in k)):
        raise Unrep("HeaderSet item that is not a token")     # to_header quotes it: not modelled
    if any(0xD800 <= ord(c) <= 0xDFFF for c in k):
        raise Unrep("surrogate in key")
    return k


def _val(kind, v):
    """the value as the container will store it (Headers store str(value))"""
    if kind == "Headers":
        if type(v) not in (str, int, float, bool):
            raise Unrep("header value of another type")
        v = v if type(v) is str else str(v)
        if "\r" in v or "\n" in v:
            raise Unrep("header value with CR/LF")
        return v
    if type(v) in (str, int, float, bool):
        return v
    if type(v).__name__ == "FileStorage" and type(getattr(v, "filename", None)) is str:
        return v
    raise Unrep("value of another type" if v is not None else "None value")


def _plain_digits_or_text(v):
    """may the type=int reads be taken?  (the model converts plain digit strings only)"""
    if type(v) is not str:
        return False
    if v.isascii() and v.isdigit():
        return len(v) <= 9            # TLC integers are 32 bit
    try:
        int(v)
    except (ValueError, TypeError):
        return True
    return False


def _vx(v):
    return [C.SCALAR_MARK] + C.cps("NoneType:None") if v is None else C._v(v)


def _arec(k="", v="", vs=(), src=(), form="pairs", hasdef=False, idx=0):
    return {"k": C.cps(k), "v": _vx(v), "vs": [C._v(x) for x in vs],
            "src": [[C.cps(kk), [C._v(x) for x in vv]] for kk, vv in src],
            "form": form, "hasdef": bool(hasdef), "idx": int(idx), "idx2": 0}


def _src(kind, arg):
    """(form, entries) of a constructor / update / extend argument, entries = [(key, [values])]"""
    from werkzeug.datastructures import Headers, ImmutableMultiDict, MultiDict

    if arg is None:
        return "pairs", []
    t = type(arg)
    if t in (MultiDict, ImmutableMultiDict):
        ent = [(_key(kind, k), [_val(kind, v) for v in vs]) for k, vs in dict.items(arg)]
        if any(not vs for _, vs in ent):
            raise Unrep("argument with an empty value list")
        return ("md" if t is MultiDict else "imd"), ent
    if t is Headers:
        return "headers", [(_key(kind, k), [_val(kind, v)]) for k, v in list(arg)]
    if t is dict:
        kinds = {type(v) if type(v) in (list, tuple, set) else None for v in arg.values()}
        if len(kinds) > 1:
            raise Unrep("dict argument mixing scalars and lists")
        c = kinds.pop() if kinds else None
        if c is None:
            return "dict", [(_key(kind, k), [_val(kind, v)]) for k, v in arg.items()]
        if c is set and any(len(v) > 1 for v in arg.values()):
            raise Unrep("set argument (iteration order)")
        return {list: "dictlist", tuple: "dicttuple", set: "dictset"}[c], [(_key(kind, k), [_val(kind, x) for x in v]) for k, v in arg.items()]
    if t in (list, tuple):
        ent = []
        for p in arg:
            if type(p) not in (tuple, list) or len(p) != 2:
                raise Unrep("pair list with other elements")
            ent.append((_key(kind, p[0]), [_val(kind, p[1])]))
        return "pairs", ent
    raise Unrep("argument of another type (iterator, view, subclass ...)")


def _state_src(kind, o):
    """the object's own content as a constructor input (when the real argument is not representable)"""
    if kind == "HeaderSet":
        return None
    if kind == "Headers":
        return "pairs", [(_key(kind, k), [_val(kind, v)]) for k, v in list(o)]
    ent = [(_key(kind, k), [_val(kind, v) for v in vs]) for k, vs in dict.items(o)]
    if any(not vs for _, vs in ent):
        raise Unrep("empty value list after construction")
    return "dictlist", ent


# ---------------------------------------------------------------------- sessions
def _new_session(kind):
    s = {"kind": kind, "test": os.environ.get("PYTEST_CURRENT_TEST", "")[:160], "lines": [], "keys": [], "conv": True,
         "closed": "", "ctor": "arg"}
    _sessions.append(s)
    return s


def _note(sess, kind, keys=(), vals=()):
    for k in keys:
        if k not in sess["keys"] and len(sess["keys"]) < 12:
            sess["keys"].append(k)
    for v in vals:
        if not _plain_digits_or_text(v):
            sess["conv"] = False


def _probe_keys(sess, kind):
    return C.probe_keys("Headers" if kind in ("Headers", "HeaderSet", "EnvironHeaders") else "MultiDict", sess["keys"])


def _emit(sess, line, objs):
    """objs: [(kind, real object)] = ALL live objects of this session's trace, in order"""
    s = []
    for n, (kind, o) in enumerate(objs, 1):
        s += C.reads(n, kind, o, _probe_keys(sess, kind), sess["conv"])
    line.update({"s": s, "x": {"has": False, "st": []}})
    sess["lines"].append(line)


def _entries_keys_vals(ent):
    return [k for k, _ in ent], [v for _, vs in ent for v in vs]


def _all_values(kind, o):
    if kind == "HeaderSet":
        return []
    if kind == "Headers":
        return [v for _, v in list(o)]
    return [v for vs in dict.values(o) for v in vs]


def _start(kind, o, arg):
    """a new object of one of the stored kinds was constructed from `arg`"""
    sess = _new_session(kind)
    try:
        if kind == "HeaderSet":
            if type(arg) in (list, tuple) or arg is None:
                items = [_key(kind, x) for x in (arg or ())]
            else:
                items = [_key(kind, x) for x in list(o)]
                sess["ctor"] = "state"
            _note(sess, kind, items)
            a = _arec(vs=items)
        else:
            try:
                form, ent = _src(kind, arg)
            except Unrep:
                form, ent = _state_src(kind, o)
                sess["ctor"] = "state"
            ks, vs = _entries_keys_vals(ent)
            _note(sess, kind, ks, vs)
            a = _arec(src=ent, form=form)
        _note(sess, kind, (), _all_values(kind, o))
        _emit(sess, {"op": "new", "o": 1, "kind": kind, "over": [], "a": a, "r": {"tag": "none", "v": []}}, [(kind, o)])
    except Unrep as e:
        _sessions.remove(sess)
        _skip(f"constructor: {e.args[0]}")
        return
    except Exception as e:       # recorder trouble is never a verdict
        _sessions.remove(sess)
        _skip(f"constructor: recorder error {type(e).__name__}")
        return
    _by_id[id(o)] = sess
    try:
        weakref.finalize(o, _by_id.pop, id(o), None)
    except TypeError:
        pass


def _view_event(kind, o, name=None, a=None, ret=None):
    """CombinedMultiDict / EnvironHeaders: one small session per event, rebuilt from what the view reads"""
    from werkzeug.datastructures import FileMultiDict, ImmutableMultiDict, MultiDict

    sess = _new_session(kind)
    try:
        objs = []
        if kind == "CombinedMultiDict":
            for d in o.dicts:
                dk = {MultiDict: "MultiDict", ImmutableMultiDict: "ImmutableMultiDict", FileMultiDict: "FileMultiDict"}.get(type(d))
                if dk is None:
                    raise Unrep("combined over another mapping type")
                form, ent = _state_src(dk, d)
                ks, vs = _entries_keys_vals(ent)
                _note(sess, dk, ks, vs)
                objs.append((dk, d, _arec(src=ent, form=form)))
            if any(k == "FileMultiDict" for k, _, _ in objs):
                sess["conv"] = False
        else:
            env = o.environ
            if type(env) is not dict:
                raise Unrep("environ of another type")
            ent = []
            for k, v in env.items():
                rel = type(k) is str and (k.startswith("HTTP_") or k in ("CONTENT_TYPE", "CONTENT_LENGTH"))
                if type(k) is str and type(v) is str and _is_ascii(k):
                    ent.append((k, [v]))
                elif rel:
                    raise Unrep("header entry of the environ is not an ASCII-keyed str")
            for k, _ in ent:
                if k.startswith("HTTP_"):
                    _note(sess, kind, [k[5:].replace("_", "-").lower()])
                elif k in ("CONTENT_TYPE", "CONTENT_LENGTH"):
                    _note(sess, kind, [k.replace("_", "-").lower()])
            _note(sess, kind, (), [vs[0] for k, vs in ent if k.startswith("HTTP_") or k in ("CONTENT_TYPE", "CONTENT_LENGTH")])
            objs.append(("Environ", env, _arec(src=ent, form="pairs")))
        if a is not None:
            _note(sess, kind, [C.dec(a["k"])] if a["k"] else [])
        live = []
        for n, (k2, d, arec) in enumerate(objs, 1):
            live.append((k2, d))
            _emit(sess, {"op": "new", "o": n, "kind": k2, "over": [], "a": arec, "r": {"tag": "none", "v": []}}, list(live))
        live.append((kind, o))
        over = list(range(1, len(objs) + 1))
        _emit(sess, {"op": "new", "o": len(live), "kind": kind, "over": over, "a": _arec(), "r": {"tag": "none", "v": []}}, list(live))
        if name is not None:
            _emit(sess, {"op": "call", "o": len(live), "name": name, "a": a, "r": ret}, list(live))
    except Unrep as e:
        _sessions.remove(sess)
        _skip(f"view: {e.args[0]}")
    except Exception as e:
        _sessions.remove(sess)
        _skip(f"view: recorder error {type(e).__name__}")


# ---------------------------------------------------------------------- argument translation per method
def _call_args(kind, pyname, o, a, kw):
    """-> (trace op name, argument record, keys, values) or raises Unrep"""
    if kw:
        raise Unrep("keyword arguments")
    n = len(a)
    K = lambda x: _key(kind, x)
    V = lambda x: _val(kind, x)
    hs = kind == "HeaderSet"
    hd = kind in ("Headers", "EnvironHeaders")
    if pyname == "__setitem__":
        if type(a[0]) is int and not hs and hd:
            k, v = a[1]
            return "setitem_idx", _arec(k=K(k), v=V(v), idx=a[0]), [k], [V(v)]
        if type(a[0]) is int and hs:
            x = K(a[1])
            return "setitem_idx", _arec(k=x, idx=a[0]), [x], []
        if type(a[0]) is slice:
            i, j = _slice_bounds(kind, a[0], o)
            form, ent = _src(kind, a[1])
            if form != "pairs":
                raise Unrep("slice assignment of another iterable")
            ks, vs = _entries_keys_vals(ent)
            return "setitem_slice", dict(_arec(src=ent, form="pairs", idx=i), idx2=j), ks, vs
        return "setitem", _arec(k=K(a[0]), v=V(a[1])), [a[0]], [V(a[1])]
    if pyname == "__delitem__":
        if type(a[0]) is int and (hd or hs):
            return "delitem_idx", _arec(idx=a[0]), [], []
        if type(a[0]) is slice:
            i, j = _slice_bounds(kind, a[0], o)
            return "delitem_slice", dict(_arec(idx=i), idx2=j), [], []
        return "delitem", _arec(k=K(a[0])), [a[0]], []
    if pyname in ("add", "add_header"):
        if hs:
            return "add", _arec(k=K(a[0])), [a[0]], []
        return "add", _arec(k=K(a[0]), v=V(a[1])), [a[0]], [V(a[1])]
    if pyname == "set":
        return "set", _arec(k=K(a[0]), v=V(a[1])), [a[0]], [V(a[1])]
    if pyname in ("remove", "discard"):
        return pyname, _arec(k=K(a[0])), [a[0]], []
    if pyname == "setlist":
        if type(a[1]) not in (list, tuple):
            raise Unrep("setlist with another iterable")
        vs = [V(x) for x in a[1]]
        return "setlist", _arec(k=K(a[0]), vs=vs), [a[0]], vs
    if pyname == "setdefault":
        if n < 2:
            raise Unrep("None value")
        return "setdefault", _arec(k=K(a[0]), v=V(a[1])), [a[0]], [V(a[1])]
    if pyname == "setlistdefault":
        d = a[1] if n > 1 else None
        if d is not None and type(d) not in (list, tuple):
            raise Unrep("setlistdefault with another iterable")
        vs = [V(x) for x in (d or ())]
        return "setlistdefault", _arec(k=K(a[0]), vs=vs), [a[0]], vs
    if pyname in ("update", "extend", "__ior__"):
        name = "ior" if pyname == "__ior__" else pyname
        if hs:
            if type(a[0]) not in (list, tuple):
                raise Unrep("HeaderSet.update with another iterable")
            xs = [K(x) for x in a[0]]
            return "update", _arec(vs=xs), xs, []
        form, ent = _src(kind, a[0] if n else None)
        ks, vs = _entries_keys_vals(ent)
        return name, _arec(src=ent, form=form), ks, vs
    if pyname == "pop":
        if hd and (n == 0 or a[0] is None):
            return "pop_last", _arec(), [], []
        if hd and type(a[0]) is int:
            return "pop_idx", _arec(idx=a[0]), [], []
        if n > 1:
            if a[1] is not None:
                V(a[1])
            return "pop", _arec(k=K(a[0]), v=a[1], hasdef=True), [a[0]], []
        return "pop", _arec(k=K(a[0])), [a[0]], []
    if pyname in ("popitem", "popitemlist", "clear"):
        return pyname, _arec(), [], []
    if pyname == "poplist":
        return "poplist", _arec(k=K(a[0])), [a[0]], []
    if pyname == "add_file":
        return "add_file", None, [a[0]], []          # completed after the call (the value is created inside)
    if pyname == "copy":
        return "copy", _arec(), [], []
    raise Unrep(f"method {pyname}")


def _slice_bounds(kind, sl, o):
    """h[i:j] of a Headers object with plain int / omitted bounds"""
    if kind != "Headers" or sl.step is not None:
        raise Unrep("slice with a step / on another kind")
    n = len(o)
    i = 0 if sl.start is None else sl.start
    j = n + 1 if sl.stop is None else sl.stop
    if type(i) is not int or type(j) is not int or abs(i) > 10**6 or abs(j) > 10**6:
        raise Unrep("slice bounds of another type")
    return i, j


MUTATORS = {
    "md": ["__setitem__", "__delitem__", "add", "setlist", "setdefault", "setlistdefault", "update", "__ior__", "pop",
           "popitem", "poplist", "popitemlist", "clear"],
    "Headers": ["__setitem__", "__delitem__", "set", "add", "add_header", "extend", "update", "__ior__", "remove", "pop", "popitem",
                "setlist", "setdefault", "setlistdefault", "clear"],
    "HeaderSet": ["__setitem__", "__delitem__", "add", "remove", "discard", "update", "clear"],
}


def _wrap_method(cls, kind, pyname, orig):
    view = kind in ("CombinedMultiDict", "EnvironHeaders")

    def wrapper(self, *a, **kw):
        if _busy() or type(self) is not cls:
            return orig(self, *a, **kw)
        sess = None if view else _by_id.get(id(self))
        if not view and (sess is None or sess["closed"]):
            return orig(self, *a, **kw)
        _tl.busy = True
        try:
            try:
                name, arec, ks, vs = _call_args(kind, pyname, self, a, kw)
            except Unrep as e:
                if sess is not None:
                    sess["closed"] = f"call: {e.args[0]}"
                name = None
            except Exception as e:
                if sess is not None:
                    sess["closed"] = f"call: recorder error {type(e).__name__}"
                name = None
            exc = None
            try:
                rv = orig(self, *a, **kw)
            except BaseException as e:     # recorded, then re-raised unchanged
                exc, rv = e, None
            if name is not None:
                try:
                    if exc is not None:
                        ret = C.enc_exc(exc)
                    elif name == "pop" and arec["hasdef"] and rv is a[1]:
                        ret = {"tag": "val", "v": _vx(rv)}
                    elif name == "ior":
                        ret = C.enc("self", rv is self)
                    elif name == "setlistdefault":
                        ret = C.enc("list", list(rv) if isinstance(rv, list) else rv)
                    else:
                        ret = C.enc(C.RET_SHAPE.get(name, "none"), rv)
                    if name == "add_file":
                        last = self.getlist(a[0])[-1] if exc is None else None
                        if last is None or type(getattr(last, "filename", None)) is not str:
                            raise Unrep("file without a str filename")
                        arec = _arec(k=_key(kind, a[0]), v=last)
                    if view:
                        _view_event(kind, self, name, arec, ret)
                    else:
                        _note(sess, kind, ks, list(vs) + _all_values(kind, self))
                        _emit(sess, {"op": "call", "o": 1, "name": name, "a": arec, "r": ret}, [(kind, self)])
                        if name == "setlistdefault" and kind != "Headers" and exc is None:
                            sess["closed"] = "call: setlistdefault hands out the internal list"
                except Unrep as e:
                    if sess is not None:
                        sess["closed"] = f"call: {e.args[0]}"
                except Exception as e:
                    if sess is not None:
                        sess["closed"] = f"call: recorder error {type(e).__name__}"
            if exc is not None:
                raise exc
            return rv
        finally:
            _tl.busy = False

    wrapper.__name__ = getattr(orig, "__name__", pyname)
    wrapper.__doc__ = getattr(orig, "__doc__", None)
    return wrapper


def _wrap_init(cls, kind, orig):
    view = kind in ("CombinedMultiDict", "EnvironHeaders")

    def init(self, *a, **kw):
        if _busy() or type(self) is not cls:
            if not _busy() and isinstance(self, cls):
                _skip("subclass instance")
            return orig(self, *a, **kw)
        _tl.busy = True
        try:
            orig(self, *a, **kw)
            if view:
                _view_event(kind, self)
            elif kw and not (kind == "HeaderSet" and set(kw) == {"on_update"}):
                _skip("constructor: keyword arguments")
            else:
                _start(kind, self, a[0] if a else kw.get("headers") if kind == "HeaderSet" else None)
        finally:
            _tl.busy = False

    init.__name__ = "__init__"
    return init


def pytest_configure(config):
    from werkzeug import datastructures as ds

    classes = [
        (ds.MultiDict, "MultiDict", MUTATORS["md"]),
        (ds.ImmutableMultiDict, "ImmutableMultiDict", MUTATORS["md"]),
        (ds.FileMultiDict, "FileMultiDict", MUTATORS["md"] + ["add_file"]),
        (ds.CombinedMultiDict, "CombinedMultiDict", MUTATORS["md"]),
        (ds.Headers, "Headers", MUTATORS["Headers"]),
        (ds.EnvironHeaders, "EnvironHeaders", MUTATORS["Headers"] + ["copy"]),
        (ds.HeaderSet, "HeaderSet", MUTATORS["HeaderSet"]),
    ]
    origs = {(cls, n): getattr(cls, n) for cls, _, names in classes for n in names + ["__init__"] if hasattr(cls, n)}
    for cls, kind, names in classes:
        for n in names:
            if (cls, n) in origs:
                setattr(cls, n, _wrap_method(cls, kind, n, origs[(cls, n)]))
        setattr(cls, "__init__", _wrap_init(cls, kind, origs[(cls, "__init__")]))


def pytest_sessionfinish(session, exitstatus):
    out = os.environ.get("VERIF_TRACE_OUT")
    if out:
        with open(out, "w") as f:
            json.dump({"sessions": _sessions, "skipped": _skipped}, f)
