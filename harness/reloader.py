"""Drivers / recorders for X06: the development server's reloader (werkzeug._reloader).

Nothing here decides a verdict.  A *case* (files of given kinds, exclude patterns, a schedule of file system
events, scans and spontaneous child exits) is executed deterministically on the real code, in-process:

* the parent is the real ``ReloaderLoop.restart_with_reloader`` (mode "direct") or the real ``run_with_reloader``
  (mode "rwr"); ``subprocess.call`` is replaced by a function that *is* the child: it records the argv / environment
  the parent passed and then runs a real ``StatReloaderLoop`` (direct: ``__enter__`` + ``run_step`` calls; rwr: a nested
  real ``run_with_reloader`` under the child's environment, whose ``run()`` loop is driven through the patched
  ``time.sleep`` / ``threading.Thread``).  No thread is started, nothing sleeps.
* files live in a scratch directory, their mtimes are set with ``os.utime`` (quarter seconds after 10^9 s, so that
  they are exact as floats and small as integers); module files are presented through a stand-in for ``sys``
  (``sys.modules`` / ``sys.path`` / ``argv`` / ``orig_argv`` / ``executable`` / ``stdin``), so the run does not depend on
  what the harness process has imported or on files other builders edit.
* the schedule is pumped at the start of every ``run_step`` (events "between scans"), after ``_find_stat_paths``
  returned (events racing with the scan: after the listing) and before the k-th ``os.stat`` of the scan.
* every event is logged in the order it really happened; ``trigger_reload`` is wrapped to log the file name it was
  given and then runs unchanged (``sys.exit(3)``).

The recorded line is judged by spec/reloader/ReloaderTrace.tla.
"""
from __future__ import annotations

import json
import os
import random
import shutil
import signal
import sys as _real_sys
import tempfile
import types

from .core import cps

BASE_S = 1_000_000_000          # mtime value k  <->  (BASE_S * 4 + k) quarter seconds
QNS = 250_000_000

# file kinds -> (relative path template, how the reloader gets to know it); watched-ness is decided in TLA+ (Watched)
KINDS = {
    "module":   "mods/m{i}.py",        # imported module outside sys.path
    "zipmod":   "libs/z{i}.zip",       # module inside a zip file: the zip file is observed
    "syspath":  "root/p{i}.py",        # Python file under a sys.path entry, not imported
    "syspkg":   "root/pkg/q{i}.py",    # ... in a package directory below it
    "pyc":      "root/c{i}.pyc",       # compiled file under a sys.path entry
    "extra":    "conf/e{i}.cfg",       # extra_files entry (a file)
    "extradir": "xdir/d{i}.py",        # Python file under a directory given in extra_files
    "plain":    "root/n{i}.txt",       # not a Python file, not an extra file
    "stray":    "other/s{i}.py",       # Python file nowhere referenced
    "pycache":  "root/__pycache__/k{i}.pyc",  # "The reloader ignores __pycache__ directories"
    "extratxt": "xdir/t{i}.txt",       # non-Python file under an extra directory
}
WATCHED_KINDS = ["module", "zipmod", "syspath", "syspkg", "pyc", "extra", "extradir"]
UNWATCHED_KINDS = ["plain", "stray", "pycache", "extratxt"]


class Stop(BaseException):
    """schedule exhausted (or scan limit reached): ends the run from inside the child"""


class _Shim:
    """attribute stand-in for a module: overrides first, the real module otherwise"""

    def __init__(self, real, **over):
        self.__dict__["_real"] = real
        self.__dict__.update(over)

    def __getattr__(self, name):
        return getattr(self.__dict__["_real"], name)


def ev(e, s="", f=0, m=0, c=0, a=None, mt=None):
    return {"e": e, "s": s, "f": f, "m": m, "c": c, "a": a or [], "mt": mt or []}


def _code(exc: SystemExit) -> int:
    c = exc.code
    if c is None:
        return 0
    if isinstance(c, bool) or not isinstance(c, int):
        return 1
    return c & 0xFF


class Runner:
    def __init__(self, case: dict, tmp: str):
        self.case = case
        self.base = tempfile.mkdtemp(prefix="x06-", dir=tmp)
        self.events: list = []
        self.sched = list(case["sched"])
        self.pos = 0
        self.race: list = []
        self.nstat = 0
        self.inscan = False
        self.trig = 0
        self.scans = 0
        self.max_scans = sum(1 for s in self.sched if s["k"] == "scan") + 3
        self.paths = [os.path.join(self.base, KINDS[f["kind"]].format(i=i + 1)) for i, f in enumerate(case["files"])]
        self.index = {p: i + 1 for i, p in enumerate(self.paths)}
        self.loop = None
        self.interval = case.get("interval", 1000) / 1000
        if self.interval == int(self.interval):
            self.interval = int(self.interval)

    # ------------------------------------------------------------------ file system
    def setup_fs(self):
        for d in ("mods", "libs", "root", "root/pkg", "root/__pycache__", "conf", "xdir", "other"):
            os.makedirs(os.path.join(self.base, d), exist_ok=True)
        for i, f in enumerate(self.case["files"]):
            if f["init"]:                      # the judge learns the initial state from these events
                self._write(i + 1, f["init"])
                self.events.append(ev("fs", "create", i + 1, f["init"]))

    def _write(self, i, m):
        p = self.paths[i - 1]
        with open(p, "ab"):
            pass
        ns = (BASE_S * 4 + m) * QNS
        os.utime(p, ns=(ns, ns))

    def apply(self, x):
        """one environment event of the schedule; logged when it really happens"""
        if x["op"] == "die":
            self.inscan = False
            if x["c"] == -1:
                self.events.append(ev("die", "kbd"))
                raise KeyboardInterrupt
            self.events.append(ev("die", "exit", c=x["c"]))
            raise SystemExit(x["c"])
        i = x["f"]
        if x["op"] == "delete":
            try:
                os.remove(self.paths[i - 1])
            except FileNotFoundError:
                pass
            self.events.append(ev("fs", "delete", i, 0))
        else:
            self._write(i, x["m"])
            self.events.append(ev("fs", x["op"], i, x["m"]))

    # ------------------------------------------------------------------ schedule pump
    def pump(self):
        """called at the start of every run_step: environment events up to the next scan element"""
        if self.scans >= self.max_scans:
            raise Stop
        while True:
            if self.pos >= len(self.sched):
                raise Stop
            x = self.sched[self.pos]
            self.pos += 1
            if x["k"] == "scan":
                self.race = list(x.get("race", []))
                return
            self.apply(x)

    def race_at(self, at):
        keep = []
        pending = self.race
        self.race = keep
        for n, x in enumerate(pending):
            if x.get("at", 0) <= at:
                try:
                    self.apply(x)
                except BaseException:
                    keep.extend(pending[n + 1:])
                    raise
            else:
                keep.append(x)

    # ------------------------------------------------------------------ instrumentation of the real module
    def install(self, R):
        rn = self
        saved = {k: getattr(R, k) for k in ("sys", "os", "time", "subprocess", "threading", "_log", "_find_stat_paths")}
        saved_cls = {"run_step": R.StatReloaderLoop.__dict__.get("run_step"),
                     "trigger_reload": R.StatReloaderLoop.__dict__.get("trigger_reload")}
        orig_run_step = R.StatReloaderLoop.run_step
        orig_trigger = R.StatReloaderLoop.trigger_reload
        orig_find = R._find_stat_paths
        c = self.case

        mods = {"__main__": types.SimpleNamespace(__file__=os.path.join(self.base, "root", "main.py"), __package__=None),
                "x06_nofile": types.SimpleNamespace(__file__=None), "x06_builtin": types.SimpleNamespace()}
        for i, f in enumerate(c["files"]):
            if f["kind"] == "module":
                mods[f"x06_m{i + 1}"] = types.SimpleNamespace(__file__=self.paths[i])
            elif f["kind"] == "zipmod":
                mods[f"x06_z{i + 1}"] = types.SimpleNamespace(__file__=os.path.join(self.paths[i], "pkg", "mod.py"))
        self.exe = os.path.join(self.base, "bin", "python")
        self.orig_argv = ["python"] + list(c.get("pyargs", ["-X", "dev", "app.py", "--port", "0"]))
        sysx = _Shim(_real_sys, path=[os.path.join(self.base, "root")], modules=mods, executable=self.exe,
                     orig_argv=self.orig_argv, argv=self.orig_argv[-3:], stdin=None)

        def stat(name, *a, **kw):
            if rn.inscan:
                rn.race_at(rn.nstat + 1)      # events scheduled "before the k-th stat" (at = k), k >= 1
                rn.nstat += 1
            return os.stat(name, *a, **kw)

        def find(extra_files, exclude_patterns):
            rv = list(orig_find(extra_files, exclude_patterns))
            if rn.inscan:
                rn.race_at(0)
            return rv

        def run_step(loop):
            rn.pump()
            rn.scans += 1
            rn.inscan, rn.nstat, rn.trig = True, 0, 0
            rn.events.append(ev("scan_begin"))
            try:
                orig_run_step(loop)
            except SystemExit as e:
                if rn.inscan:               # not a scripted death of the process
                    rn.inscan = False
                    rn.events.append(ev("scan_end", "exit", rn.trig, 0, _code(e), mt=rn.mt(loop)))
                raise
            except (Stop, KeyboardInterrupt):
                raise
            except BaseException as e:
                rn.inscan = False
                rn.events.append(ev("scan_end", type(e).__name__, rn.trig, 0, 0, mt=rn.mt(loop)))
                raise
            rn.inscan = False
            rn.events.append(ev("scan_end", "ok", rn.trig, 0, 0, mt=rn.mt(loop)))
            left, rn.race = rn.race, []
            for x in left:                    # hooks that never fired: the events still happen, after the scan
                rn.apply(x)

        def trigger_reload(loop, filename):
            rn.trig = rn.index.get(os.path.abspath(os.fsdecode(filename)), -1)
            return orig_trigger(loop, filename)

        def sleep(secs):
            ms = secs * 1000
            rn.events.append(ev("sleep", m=int(ms) if ms == int(ms) and 0 <= ms < 2 ** 30 else -1))

        class Thread:
            def __init__(self, group=None, target=None, name=None, args=(), kwargs=None, daemon=None):
                self.target, self.daemon = target, daemon

            def start(self):
                rn.events.append(ev("main_start", "daemon" if self.daemon else "nondaemon",
                                    c=1 if self.target == rn.main_func else 0))

        def call(args, *a, env=None, close_fds=True, **kw):
            return rn.child(R, list(args), env, close_fds)

        R.sys = sysx
        R.os = _Shim(os, stat=stat)
        R.time = _Shim(__import__("time"), sleep=sleep)
        R.subprocess = _Shim(__import__("subprocess"), call=call)
        R.threading = _Shim(__import__("threading"), Thread=Thread)
        R._log = lambda *a, **kw: None
        R._find_stat_paths = find
        R.StatReloaderLoop.run_step = run_step
        R.StatReloaderLoop.trigger_reload = trigger_reload

        def restore():
            for k, v in saved.items():
                setattr(R, k, v)
            for k, v in saved_cls.items():
                if v is None:
                    try:
                        delattr(R.StatReloaderLoop, k)
                    except AttributeError:
                        pass
                else:
                    setattr(R.StatReloaderLoop, k, v)
        return restore

    def mt(self, loop):
        d = getattr(loop, "mtimes", None)
        if not isinstance(d, dict):
            return []
        out = []
        for p in self.paths:
            v = d.get(p)
            if v is None:
                out.append(0)
            else:
                q = round((v - BASE_S) * 4)
                out.append(q if 0 < q < 2 ** 20 else -1)
        return out

    # ------------------------------------------------------------------ the processes
    def loop_args(self):
        c = self.case
        extra = [self.paths[i] for i, f in enumerate(c["files"]) if f["kind"] == "extra"]
        if any(f["kind"] in ("extradir", "extratxt") for f in c["files"]):
            extra.append(os.path.join(self.base, "xdir"))
        self.rng_order.shuffle(extra)
        return dict(extra_files=extra, exclude_patterns=[p.replace("{B}", self.base) for p in c["pats"]], interval=self.interval)

    def main_func(self):
        self.events.append(ev("main_call"))

    def child(self, R, args, env, close_fds):
        """stands in for subprocess.call: the child process, run to its end; returns its exit code"""
        e = os.environ if env is None else env
        v = e.get("WERKZEUG_RUN_MAIN")
        self.events.append(ev("spawn", "unset" if v is None else (v if v in ("true",) else "other"),
                              c=(1 if close_fds else 0) + (2 if "X06_MARK" in e else 0),
                              a=[cps(str(x)) for x in args]))
        try:
            if self.case["mode"] == "rwr":
                saved = dict(os.environ)
                os.environ.clear()
                os.environ.update(e)
                try:
                    R.run_with_reloader(self.main_func, reloader_type="stat", **self.loop_args())
                    code = 0
                finally:
                    os.environ.clear()
                    os.environ.update(saved)
            else:
                loop = R.StatReloaderLoop(**self.loop_args())
                try:
                    with loop:
                        while True:
                            loop.run_step()
                except KeyboardInterrupt:
                    code = 0
        except SystemExit as x:
            code = _code(x)
        self.events.append(ev("child_exit", c=code))
        return code

    def run(self):
        from werkzeug import _reloader as R

        self.rng_order = random.Random(self.case.get("order", 0))
        self.setup_fs()
        restore = self.install(R)
        old_term = signal.getsignal(signal.SIGTERM)
        saved_env = dict(os.environ)
        os.environ.pop("WERKZEUG_RUN_MAIN", None)
        os.environ["X06_MARK"] = "1"
        try:
            try:
                if self.case["mode"] == "rwr":
                    try:
                        R.run_with_reloader(self.main_func, reloader_type="stat", **self.loop_args())
                        self.events.append(ev("parent_exit", "return", c=0))
                    except SystemExit as x:
                        self.events.append(ev("parent_exit", "exit", c=_code(x)))
                else:
                    loop = R.StatReloaderLoop(**self.loop_args())
                    code = loop.restart_with_reloader()
                    self.events.append(ev("parent_exit", "return", c=code if isinstance(code, int) and 0 <= code < 256 else -1))
            except Stop:
                self.events.append(ev("end"))
            except SystemExit as x:            # a scripted death that nothing turned into an exit code
                self.events.append(ev("end", "exit", c=_code(x)))
            except Exception as x:
                self.events.append(ev("end", type(x).__name__))
        finally:
            restore()
            os.environ.clear()
            os.environ.update(saved_env)
            try:
                signal.signal(signal.SIGTERM, old_term)
            except (ValueError, TypeError):
                pass
        return self.line()

    def line(self):
        c = self.case
        exp_argv = [self.exe] + self.orig_argv[1:]
        return {"op": "case", "mode": c["mode"], "interval": c.get("interval", 1000),
                "files": [{"kind": f["kind"], "path": cps(p)} for f, p in zip(c["files"], self.paths)],
                "pats": [cps(p.replace("{B}", self.base)) for p in c["pats"]],
                "argv": [cps(x) for x in exp_argv], "ev": self.events}

    def cleanup(self):
        shutil.rmtree(self.base, ignore_errors=True)


def run_case(case: dict, tmp: str) -> dict:
    r = Runner(case, tmp)
    try:
        return r.run()
    finally:
        r.cleanup()


# ====================================================================== spec -> code: schedules from the exported LTS
def schedule_of(acts: list) -> list:
    """model actions (spawn / list / stat / scanend / reap / touch / create / delete / die) -> driver schedule.
    File system events while the model is in the middle of a scan become race events of that scan."""
    sched = []
    cur = None
    for a in acts:
        op = a["op"]
        if op in ("spawn", "reap", "stat", "init"):
            if op in ("spawn", "reap"):
                cur = None
            continue
        if op == "list":
            cur = {"k": "scan", "race": []}
            sched.append(cur)
        elif op == "scanend":
            cur = None
        elif op == "die":
            x = {"op": "die", "c": a["m"]}
            if cur is not None:
                cur["race"].append(dict(x, at=0))
                cur = None
            else:
                sched.append(dict(x, k="env"))
        else:
            x = {"op": op, "f": a["f"], "m": a["m"]}
            if cur is not None:
                cur["race"].append(dict(x, at=0))
            else:
                sched.append(dict(x, k="env"))
    return sched


CLS_KIND = {"watched": ["extra", "module", "syspath"], "excluded": ["extra", "module", "syspath"], "unwatched": ["plain", "stray"]}


def case_from_model(init: dict, acts: list, rng: random.Random, mode="direct") -> dict:
    """initial model state (cls, fs) + action path -> concrete case: kinds realising the classes, a pattern per
    excluded file"""
    files, pats = [], []
    for i, (cl, m) in enumerate(zip(init["cls"], init["fs"])):
        kind = rng.choice(CLS_KIND[cl])
        files.append({"kind": kind, "init": m})
        if cl == "excluded":
            rel = KINDS[kind].format(i=i + 1)
            pats.append(rng.choice(["*/" + rel, "{B}/" + rel, "*" + rel[-6:], "*/" + rel.replace(str(i + 1), "?"),
                                    "*/" + rel.replace(str(i + 1), "[%d]" % (i + 1))]))
    if rng.random() < 0.4:
        pats.append(rng.choice(["*.bak", "*/nothing/*", "*.tx?", "[!/]*"]))
    return {"files": files, "pats": pats, "sched": schedule_of(acts), "mode": mode, "interval": rng.choice([1000, 250, 2000]),
            "order": rng.randrange(1000)}


class LTS:
    def __init__(self, rows: list):
        self.succ: dict = {}
        self.state: dict = {}
        self.edges = []
        for r in rows:
            if not (isinstance(r, dict) and "pre" in r and "post" in r):
                continue
            u, v = self._key(r["pre"]), self._key(r["post"])
            self.state.setdefault(u, r["pre"])
            self.state.setdefault(v, r["post"])
            self.succ.setdefault(u, []).append((r["act"], v))
            self.succ.setdefault(v, [])
            self.edges.append((u, r["act"], v))
        self.inits = sorted(k for k, s in self.state.items() if s["spawns"] == 0 and s["par"] == "idle" and s["ch"] == "none")
        # BFS: shortest action path from an initial state
        self.path: dict = {k: (k, []) for k in self.inits}
        frontier = list(self.inits)
        while frontier:
            nxt = []
            for u in frontier:
                i0, p = self.path[u]
                for a, v in self.succ[u]:
                    if v not in self.path:
                        self.path[v] = (i0, p + [a])
                        nxt.append(v)
            frontier = nxt

    @staticmethod
    def _key(s):
        return json.dumps(s, sort_keys=True)

    def finish_scan(self, v):
        """actions that complete the scan the model is in (so that the real run_step and the model end together)"""
        out = []
        seen = 0
        while self.state[v]["ch"] == "scan" and seen < 10:
            nxt = [(a, w) for a, w in self.succ[v] if a["op"] in ("stat", "scanend")]
            if not nxt:
                break
            a, v = nxt[0]
            out.append(a)
            seen += 1
        return out

    def transition_paths(self):
        """one action path per transition: shortest path to its pre-state, the transition, the rest of the scan"""
        for u, a, v in self.edges:
            if u not in self.path:
                continue
            i0, p = self.path[u]
            yield i0, p + [a] + self.finish_scan(v)

    def walk(self, rng: random.Random, length: int):
        u = rng.choice(self.inits)
        i0, acts = u, []
        for _ in range(length):
            if not self.succ[u]:
                break
            a, u = rng.choice(self.succ[u])
            acts.append(a)
        return i0, acts + self.finish_scan(u)


# ====================================================================== code -> spec: seeded random cases
PATTERNS = ["*.cfg", "*/conf/*", "*/mods/m?.py", "*/root/p[12].py", "*/root/[!p]*", "*.zip", "*/xdir/*", "*/pkg/*", "*.py[co]",
            "*e1.cfg", "*m2.py", "{B}/root/p1.py", "{B}/conf/e?.cfg", "*.txt", "*/other/*", "*nothing*", "?", "*/x*/d*", "*[0-9].py",
            "*/libs/z[!1].zip", "*/__pycache__/*", "{B}/*", "*q?.py", "*.PY"]


def random_case(rng: random.Random, big: bool) -> dict:
    nf = rng.randint(1, 6 if big else 4)
    maxm = rng.randint(2, 9)
    files = []
    for _ in range(nf):
        kind = rng.choice(WATCHED_KINDS) if rng.random() < 0.75 else rng.choice(UNWATCHED_KINDS)
        files.append({"kind": kind, "init": rng.choice([0] + list(range(1, maxm + 1)) * 2)})
    pats = rng.sample(PATTERNS, rng.choice([0, 0, 1, 1, 2, 3]))
    sched = []
    state = [f["init"] for f in files]

    def fs_event():
        i = rng.randrange(nf)
        if state[i] == 0:
            m = rng.randint(1, maxm)
            state[i] = m
            return {"op": "create", "f": i + 1, "m": m}
        r = rng.random()
        if r < 0.2:
            state[i] = 0
            return {"op": "delete", "f": i + 1, "m": 0}
        m = rng.choice([x for x in range(1, maxm + 1) if x != state[i]])
        if r < 0.75 and state[i] < maxm:
            m = rng.randint(state[i] + 1, maxm)
        state[i] = m
        return {"op": "touch", "f": i + 1, "m": m}

    n = rng.randint(3, 30 if big else 14)
    for _ in range(n):
        r = rng.random()
        if r < 0.45:
            sc = {"k": "scan", "race": []}
            if rng.random() < 0.3:
                for _ in range(rng.randint(1, 2)):
                    if rng.random() < 0.08:
                        sc["race"].append({"op": "die", "c": rng.choice([0, 1, 3]), "at": rng.randint(0, nf)})
                        break
                    sc["race"].append(dict(fs_event(), at=rng.randint(0, nf)))
            sched.append(sc)
        elif r < 0.93:
            sched.append(dict(fs_event(), k="env"))
        else:
            sched.append({"k": "env", "op": "die", "c": rng.choice([0, 0, 1, 2, 3, 3, 130, -1])})
    return {"files": files, "pats": pats, "sched": sched, "mode": rng.choice(["direct", "rwr", "rwr"]),
            "interval": rng.choice([1000, 250, 500, 3000, 0]), "order": rng.randrange(1000),
            "pyargs": rng.choice([["app.py"], ["-m", "flask", "run", "--debug"], ["-X", "dev", "-m", "pkg.cli", "serve"],
                                  ["-c", "import app; app.main()"], ["/srv/app/run.py", "--port", "0", ""]])}


def directed_cases(rng: random.Random, per: int) -> list:
    """small schedules around the situations the contract names (each with random kinds / placements)"""
    out = []
    S = lambda *race: {"k": "scan", "race": [dict(x, at=x.get("at", 0)) for x in race]}
    E = lambda op, f, m=0: {"k": "env", "op": op, "f": f, "m": m}
    D = lambda c: {"k": "env", "op": "die", "c": c}

    def case(kinds, inits, sched, pats=()):
        return {"files": [{"kind": k, "init": m} for k, m in zip(kinds, inits)], "pats": list(pats), "sched": sched,
                "mode": rng.choice(["direct", "rwr"]), "interval": rng.choice([1000, 250]), "order": rng.randrange(1000)}

    for _ in range(per):
        n = rng.randint(2, 4)
        kinds = [rng.choice(WATCHED_KINDS[:2] + WATCHED_KINDS[2:4] + WATCHED_KINDS[5:]) for _ in range(n)]
        f, g = rng.sample(range(1, n + 1), 2)
        at = rng.randint(0, n)
        # a file vanishes while a scan runs and another one has changed
        out.append(case(kinds, [2] * n, [S(), E("touch", f, 3), S({"op": "delete", "f": g, "m": 0, "at": at}), S(), D(0)]))
        # ... vanished before the scan
        out.append(case(kinds, [2] * n, [S(), E("delete", g), E("touch", f, 3), S(), S(), D(1)]))
        # two files change in one interval
        out.append(case(kinds, [2] * n, [S(), E("touch", f, 3), E("touch", g, 4), S(), S(), D(0)]))
        # replaced (deleted and created again, newer) within one interval / across a scan
        out.append(case(kinds, [2] * n, [S(), S(), E("delete", f), E("create", f, 3), S(), S(), D(0)]))
        out.append(case(kinds, [2] * n, [S(), E("delete", f), S(), E("create", f, 3), S(), E("touch", f, 4), S(), D(0)]))
        # created after start-up: first sight records, the next change reloads
        out.append(case(kinds, [0 if i + 1 == f else 2 for i in range(n)], [S(), E("create", f, 5), S(), S(), E("touch", f, 6), S(), S(), D(0)]))
        # older mtime, then newer than the recorded one
        out.append(case(kinds, [3] * n, [S(), E("touch", f, 2), S(), E("touch", f, 4), S(), S(), D(0)]))
        # an excluded file changes, then an observed one
        rel = KINDS[kinds[g - 1]].format(i=g)
        out.append(case(kinds, [2] * n, [S(), E("touch", g, 3), S(), S(), E("touch", f, 3), S(), S(), D(2)], pats=["*/" + rel]))
        # the child ends on its own: only 3 restarts it
        out.append(case(kinds, [2] * n, [S(), D(rng.choice([3, 3, 0, 1, 2, 130, 255, -1])), S(), D(3), S(), S(), D(rng.choice([0, 1, 4, 143]))]))
        # the change happens between the stats of a scan
        out.append(case(kinds, [2] * n, [S(), S({"op": "touch", "f": f, "m": 3, "at": at}), S(), S(), D(0)]))
    return out


# ====================================================================== WatchdogReloaderLoop (only when watchdog is importable)
WD_TYPES = ["modified", "created", "deleted", "moved_over", "moved_away", "closed", "opened", "closed_no_write"]


def watchdog_available() -> bool:
    try:
        __import__("watchdog.observers")
        return True
    except ImportError:
        return False


class _StubObserver:
    """records what the loop asks of the observer; no thread, no inotify"""

    def __init__(self, events):
        self.events = events
        self.n = 0

    def schedule(self, handler, path, recursive=False, **kw):
        self.n += 1
        self.events.append(ev("wd_watch", "recursive" if recursive else "flat", c=self.n, a=[cps(os.fspath(path))]))
        return ("watch", self.n)

    def unschedule(self, watch):
        self.events.append(ev("wd_unwatch", c=watch[1] if isinstance(watch, tuple) else 0))

    def start(self):
        self.events.append(ev("wd_start"))

    def stop(self):
        self.events.append(ev("wd_stop"))

    def join(self, *a):
        pass


def run_wd(case: dict, tmp: str) -> dict:
    """the real WatchdogReloaderLoop with a stub observer: synthetic watchdog events are dispatched to the loop's real
    event handler while its real run() 'sleeps'"""
    from werkzeug import _reloader as R
    import watchdog.events as we

    rn = Runner(dict(case, sched=[], mode="wd"), tmp)
    rn.rng_order = random.Random(case.get("order", 0))
    events = rn.events
    batches = [list(b) for b in case["batches"]]
    pos = [0]

    def make(x):
        path = rn.paths[x["f"] - 1]
        tmpname = os.path.join(os.path.dirname(path), ".tmp-x06~")
        t = x["type"]
        if t == "moved_over":
            return we.FileMovedEvent(tmpname, path)
        if t == "moved_away":
            return we.FileMovedEvent(path, tmpname)
        cls = {"modified": we.FileModifiedEvent, "created": we.FileCreatedEvent, "deleted": we.FileDeletedEvent,
               "closed": we.FileClosedEvent, "opened": we.FileOpenedEvent, "closed_no_write": we.FileClosedNoWriteEvent}[t]
        return cls(path)

    try:
        rn.setup_fs()
        del events[:]          # the initial state is given by "exists" below
        restore = rn.install(R)
        loop = None
        try:
            def sleep(secs):
                ms = secs * 1000
                events.append(ev("sleep", m=int(ms) if ms == int(ms) and 0 <= ms < 2 ** 30 else -1))
                if pos[0] >= len(batches):
                    raise Stop
                b = batches[pos[0]]
                pos[0] += 1
                for x in b:
                    events.append(ev("wd_event", x["type"], x["f"]))
                    loop.event_handler.dispatch(make(x))

            R.time = _Shim(__import__("time"), sleep=sleep)
            try:
                loop = R.WatchdogReloaderLoop(**rn.loop_args())
                # the handler closed over the bound trigger_reload at construction: observe should_reload instead
                loop.observer = _StubObserver(events)
                inner = loop.event_handler.on_any_event

                def on_any_event(event):
                    before = loop.should_reload
                    inner(event)
                    if loop.should_reload and not before:
                        events.append(ev("wd_flag"))
                loop.event_handler.on_any_event = on_any_event
                with loop:
                    loop.run()
                events.append(ev("end", "return"))
            except Stop:
                events.append(ev("end"))
            except SystemExit as x:
                events.append(ev("exit", c=_code(x)))
            except Exception as x:
                events.append(ev("end", type(x).__name__))
        finally:
            restore()
        return {"op": "wd", "interval": case.get("interval", 1000),
                "files": [{"kind": f["kind"], "path": cps(p), "exists": bool(f["init"])} for f, p in zip(case["files"], rn.paths)],
                "pats": [cps(p.replace("{B}", rn.base)) for p in case["pats"]], "ev": events}
    finally:
        rn.cleanup()


def wd_cases(rng: random.Random, n: int) -> list:
    out = []
    for _ in range(n):
        nf = rng.randint(1, 5)
        files = [{"kind": rng.choice(WATCHED_KINDS) if rng.random() < 0.7 else rng.choice(UNWATCHED_KINDS), "init": rng.choice([1, 1, 1, 0])}
                 for _ in range(nf)]
        pats = rng.sample(WD_PATTERNS, rng.choice([0, 0, 1, 1, 2]))
        batches = []
        for _ in range(rng.randint(1, 6)):
            b = []
            for _ in range(rng.choice([0, 1, 1, 1, 2, 3])):
                t = rng.choice(WD_TYPES[6:]) if rng.random() < 0.45 else rng.choice(WD_TYPES[:6])
                b.append({"type": t, "f": rng.randint(1, nf)})
            batches.append(b)
        out.append({"files": files, "pats": pats, "batches": batches, "interval": rng.choice([1000, 250, 2000]), "order": rng.randrange(1000)})
    return out


# patterns on which fnmatch (documented for exclude_patterns) and watchdog's own matching of ignore patterns agree ...
WD_AGREE = ["*.cfg", "*/conf/*", "*/mods/m?.py", "*/root/p[12].py", "*/xdir/*", "*/pkg/*", "*.py[co]", "*e1.cfg",
            "*m2.py", "{B}/root/p1.py", "{B}/conf/e?.cfg", "*.txt", "*/other/*", "*[0-9].py", "*q?.py", "*/libs/z[!1].zip"]
# ... differ (fnmatch: "*" crosses "/", the whole path must match, case matters on POSIX) ...
WD_DIVERGENT = ["{B}/*", "*/root/*", "*conf*", "*.PY", "conf/*.cfg", "*/x06-*"]
# ... and patterns that are also watched patterns of the event handler
WD_CONFLICT = ["*.zip", "*.pyc", "*.PYC"]
WD_PATTERNS = WD_AGREE + WD_DIVERGENT + WD_CONFLICT


def wd_label(case: dict) -> str:
    """label for violation keys only (never a verdict): which family of exclude patterns the case used"""
    pats = [p for p in case["pats"]]
    if any(p.lower() in ("*.py", "*.pyc", "*.zip") for p in pats):
        return "watched-pattern-excluded"
    if any(p in WD_DIVERGENT for p in pats):
        return "fnmatch-semantics"
    return "plain"


# ====================================================================== _get_args_for_reloading
ARG_KINDS = ["modern", "script", "script_abs", "module_main", "module_sub", "module_top", "pydevd"]


def run_args(case: dict, tmp: str) -> dict:
    """how the script was executed -> the args to execute it again (the legacy branch is taken by presenting
    sys.version_info (3, 9) through the stand-in for sys)"""
    from werkzeug import _reloader as R

    base = tempfile.mkdtemp(prefix="x06a-", dir=tmp)
    kind, args = case["kind"], list(case["args"])
    exe = os.path.join(base, "bin", "python3")
    os.makedirs(os.path.join(base, "pkg"), exist_ok=True)
    for rel in ("app.py", "script.py", "pkg/__init__.py", "pkg/__main__.py", "pkg/cli.py"):
        open(os.path.join(base, rel), "w").close()
    main = types.SimpleNamespace()
    script = mod = ""
    vi = (3, 9, 18, "final", 0)
    orig = ["python3"]
    if kind == "modern":
        vi = tuple(_real_sys.version_info)
        orig = ["python3"] + list(case["pyopts"]) + args
        argv0, main.__package__ = "app.py", None
    elif kind == "script":
        argv0, main.__package__, script = "app.py", None, os.path.join(base, "app.py")
    elif kind == "script_abs":
        argv0, main.__package__, script = os.path.join(base, "app.py"), None, os.path.join(base, "app.py")
    elif kind == "module_main":
        argv0, main.__package__, mod = os.path.join(base, "pkg", "__main__.py"), "pkg", "pkg"
    elif kind == "module_sub":
        argv0, main.__package__, mod = os.path.join(base, "pkg", "cli.py"), "pkg", "pkg.cli"
    elif kind == "module_top":
        argv0, main.__package__, mod = os.path.join(base, "script.py"), "", "script"
    else:  # pydevd: "-m pkg.cli" rewritten to "pkg.cli"
        argv0, main.__package__, mod = "pkg.cli", "pkg", "pkg.cli"
    sysx = _Shim(_real_sys, version_info=vi, executable=exe, orig_argv=orig, argv=[argv0] + args,
                 modules={"__main__": main})
    saved, cwd = R.sys, os.getcwd()
    out, exc = [], ""
    try:
        os.chdir(base)
        R.sys = sysx
        try:
            out = [str(x) for x in R._get_args_for_reloading()]
        except Exception as e:
            exc = type(e).__name__
    finally:
        R.sys = saved
        os.chdir(cwd)
        shutil.rmtree(base, ignore_errors=True)
    return {"op": "args", "kind": kind, "exe": cps(exe), "script": cps(script), "mod": cps(mod),
            "rest": [cps(a) for a in (orig[1:] if kind == "modern" else args)],
            "got": [cps(x) for x in out], "exc": exc}


def args_cases(rng: random.Random, n: int) -> list:
    out = []
    pool = ["--port", "0", "run", "-v", "--reload", "a b", "", "--name=x", "-m", "é"]
    for k in ARG_KINDS:
        out.append({"kind": k, "args": [], "pyopts": []})
        out.append({"kind": k, "args": ["--port", "0"], "pyopts": ["-X", "dev"]})
    for _ in range(n):
        k = rng.choice(ARG_KINDS)
        out.append({"kind": k, "args": [rng.choice(pool) for _ in range(rng.randint(0, 4))],
                    "pyopts": rng.choice([[], ["-X", "dev"], ["-m", "flask"], ["-W", "error", "-m", "pkg"], ["-c", "pass"]])})
    return out


# ====================================================================== ensure_echo_on
def run_echo(case: dict, tmp: str) -> dict:
    """ "Ensure that echo mode is enabled. Some tools such as PDB disable it" -- on a pseudo terminal"""
    from werkzeug import _reloader as R
    import termios

    kind = case["kind"]
    saved = R.sys
    before = after = same = -1
    exc = ""
    fds = []
    try:
        if kind == "none":
            stdin = None
        elif kind == "notty":
            r, w = os.pipe()
            fds += [r, w]
            stdin = os.fdopen(os.dup(r), "rb", buffering=0)
        else:
            try:
                m, s = os.openpty()
            except OSError:          # no pseudo terminals in this sandbox: nothing recorded, nothing judged
                return {"op": "echo", "kind": "unavailable", "before": -1, "after": -1, "same": -1, "exc": ""}
            fds += [m, s]
            attrs = termios.tcgetattr(s)
            if kind == "echo_off":
                attrs[3] &= ~termios.ECHO
            else:
                attrs[3] |= termios.ECHO
            if case.get("icanon_off"):
                attrs[3] &= ~termios.ICANON
            termios.tcsetattr(s, termios.TCSANOW, attrs)
            pre = termios.tcgetattr(s)
            before = 1 if pre[3] & termios.ECHO else 0
            stdin = os.fdopen(os.dup(s), "rb", buffering=0)
        R.sys = _Shim(_real_sys, stdin=stdin)
        try:
            R.ensure_echo_on()
        except Exception as e:
            exc = type(e).__name__
        if kind in ("echo_off", "echo_on"):
            post = termios.tcgetattr(s)
            after = 1 if post[3] & termios.ECHO else 0
            a, b = list(pre), list(post)
            a[3] |= termios.ECHO
            b[3] |= termios.ECHO
            same = 1 if a == b else 0
        if stdin is not None:
            stdin.close()
    finally:
        R.sys = saved
        for fd in fds:
            try:
                os.close(fd)
            except OSError:
                pass
    return {"op": "echo", "kind": kind, "before": before, "after": after, "same": same, "exc": exc}


ECHO_CASES = [{"kind": "none"}, {"kind": "notty"}, {"kind": "echo_off"}, {"kind": "echo_on"},
              {"kind": "echo_off", "icanon_off": True}, {"kind": "echo_on", "icanon_off": True}]
