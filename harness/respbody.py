"""X04 recorders / drivers: the body state machine of werkzeug.wrappers.Response, ClosingIterator,
FileWrapper / wrap_file, Response.from_app / force_type.

Everything here only *performs* calls on the real objects and *records* what came back (return value,
exception class name, a projection of the object, counters of the instrumented iterables); the relation
between those values is written in spec/respbody/*.tla and evaluated by TLC (RespBodyTrace).
"""
from __future__ import annotations

import copy
import json as _json
import pickle

ALL = 9   # "pull until StopIteration" (bodies of the drivers have fewer items)
PRESET_ETAG = '"preset"'


# ---------------------------------------------------------------------------- encoders
def cps(s):
    return [ord(c) for c in s]


def item_rec(x):
    if isinstance(x, str):
        return {"k": "s", "v": cps(x)}
    if isinstance(x, (bytes, bytearray)):
        return {"k": "b", "v": list(x)}
    return {"k": "o", "v": []}


def mk_item(it):
    return "".join(map(chr, it["v"])) if it["k"] == "s" else bytes(it["v"])


def R(k="none", by=(), n=0, b=False, ch=()):
    return {"k": k, "by": list(by), "n": n, "b": b, "ch": list(ch)}


O0 = {"o": "", "v": {"k": "b", "v": []}, "b": False, "c": False, "n": 0, "k": "", "items": []}


def mkop(o, **kw):
    op = dict(O0)
    op["o"] = o
    op.update(kw)
    return op


# ---------------------------------------------------------------------------- instrumented iterables
class Counters:
    def __init__(self):
        self.y = 0
        self.stops = 0
        self.closes = 0


class CountIter:
    """closable iterator; like a generator it yields nothing more once it was closed"""

    def __init__(self, items, log, sid):
        self._items = list(items)
        self.c = Counters()
        self.log = log
        self.sid = sid
        self.gen = None

    def __iter__(self):
        return self

    def __next__(self):
        if self.c.closes or self.c.y >= len(self._items):
            self.c.stops += 1
            raise StopIteration
        self.c.y += 1
        return self._items[self.c.y - 1]

    def close(self):
        self.c.closes += 1
        self.log.append(["src", self.sid])

    def obs(self):
        return {"y": self.c.y, "stops": self.c.stops, "closes": self.c.closes,
                "done": self.c.stops > 0 or self.c.closes > 0, "g": False}


class NoCloseIter:
    def __init__(self, items, log, sid):
        self._items = list(items)
        self.c = Counters()

    def __iter__(self):
        return self

    def __next__(self):
        if self.c.y >= len(self._items):
            self.c.stops += 1
            raise StopIteration
        self.c.y += 1
        return self._items[self.c.y - 1]

    def obs(self):
        return {"y": self.c.y, "stops": self.c.stops, "closes": 0, "done": self.c.stops > 0, "g": False}


class GenSource:
    """a real generator object (what applications usually pass); only the number of items it yielded and
    whether it has finished (exhausted or closed) can be observed"""

    def __init__(self, items, log, sid):
        self.c = Counters()
        self.gen = self._run(list(items))

    def _run(self, items):
        for it in items:
            self.c.y += 1
            yield it

    def obs(self):
        done = self.gen.gi_frame is None
        return {"y": self.c.y, "stops": 1 if done else 0, "closes": 0, "done": done, "g": True}


class CountFile:
    """a file-like object with read/close/seek/tell; read() after close() returns b"" (no exception), `short` > 0
    limits what one read() call returns (a pipe or socket file)"""

    def __init__(self, content, log=None, sid=1, short=0, pos=0):
        self.content = bytes(content)
        self.pos = pos
        self.short = short
        self.c = Counters()
        self.log = log if log is not None else []
        self.sid = sid
        self.gen = None

    def read(self, n=-1):
        if self.c.closes:
            self.c.stops += 1
            return b""
        if n is None or n < 0:
            n = len(self.content)
        if self.short:
            n = min(n, self.short)
        d = self.content[self.pos:self.pos + n]
        self.pos += len(d)
        if d:
            self.c.y += 1
        else:
            self.c.stops += 1
        return d

    def close(self):
        self.c.closes += 1
        self.log.append(["src", self.sid])

    def seekable(self):
        return True

    def seek(self, pos, whence=0):
        self.pos = pos
        return pos

    def tell(self):
        return self.pos

    def obs(self):
        return {"y": self.c.y, "stops": self.c.stops, "closes": self.c.closes,
                "done": self.c.stops > 0 or self.c.closes > 0, "g": False}


class Cb:
    """picklable call_on_close function"""

    def __init__(self, log, cid):
        self.log = log
        self.cid = cid
        self.n = 0

    def __call__(self):
        self.n += 1
        self.log.append(["cb", self.cid])


NO_IT = {"y": 0, "stops": 0, "closes": 0, "done": False, "g": False}
SubResponse = None


def sub_class():
    """a Response subclass that pickle can find again (module attribute of this module)"""
    global SubResponse
    from werkzeug.wrappers import Response

    if SubResponse is None or Response not in SubResponse.__mro__:
        SubResponse = type("SubResponse", (Response,), {"__module__": __name__, "__qualname__": "SubResponse"})
    return SubResponse


def environ(method="GET"):
    from werkzeug.test import create_environ

    return create_environ("/", method=method)


# ---------------------------------------------------------------------------- Response histories
class Case:
    def __init__(self, init):
        from werkzeug.wrappers import Response
        from werkzeug.wsgi import wrap_file

        self.log = []
        self.srcs = [None, None]
        self.cbs = []
        items = [mk_item(it) for it in init["items"]]
        kind = init["kind"]
        if kind in ("str", "bytes"):
            body = items[0]
        elif kind == "list":
            body = list(items)
        elif kind == "tuple":
            body = tuple(items)
        elif kind == "iter":
            self.srcs[0] = body = CountIter(items, self.log, 1)
        elif kind == "nocl":
            self.srcs[0] = body = NoCloseIter(items, self.log, 1)
        elif kind == "gen":
            self.srcs[0] = GenSource(items, self.log, 1)
            body = self.srcs[0].gen
        elif kind == "fw":
            self.srcs[0] = CountFile(items[0], self.log, 1)
            body = wrap_file({}, self.srcs[0], init["bs"])
        else:
            raise ValueError(kind)
        self.resp = Response(body, direct_passthrough=init["pt"], mimetype="application/json" if init["json"] else "text/plain")
        if init["etag"]:
            self.resp.headers["ETag"] = PRESET_ETAG
        for _ in range(init["ncb"]):
            self.add_cb()

    def add_cb(self):
        cb = Cb(self.log, len(self.cbs) + 1)
        self.cbs.append(cb)
        return self.resp.call_on_close(cb) is cb

    def proj(self):
        resp = self.resp
        body = resp.response
        ty = "list" if isinstance(body, list) else "tuple" if isinstance(body, tuple) else "stream"
        cl = resp.headers.get("Content-Length")
        etag = resp.headers.get("ETag")
        return {"ty": ty, "items": [item_rec(x) for x in body] if ty != "stream" else [],
                "cl": -1 if cl is None else int(cl) if cl.isdigit() else -2,
                "etag": "none" if etag is None else "preset" if etag == PRESET_ETAG else "other",
                "its": [s.obs() if s is not None else dict(NO_IT) for s in self.srcs],
                "cbn": [cb.n for cb in self.cbs],
                "cls": "Sub" if type(resp).__name__ == "SubResponse" else "Response" if type(resp).__name__ == "Response" else "other",
                "sc": bool(resp.__dict__["stream"].closed) if "stream" in resp.__dict__ else False}

    def do(self, op):
        resp = self.resp
        o = op["o"]
        if o == "get_data":
            v = resp.get_data(as_text=op["b"])
            return R("text", cps(v)) if isinstance(v, str) else R("bytes", v)
        if o == "data_get":
            v = resp.data
            return R("text", cps(v)) if isinstance(v, str) else R("bytes", v)
        if o == "set_data":
            resp.set_data(mk_item(op["v"]))
            return R()
        if o == "data_set":
            resp.data = mk_item(op["v"])
            return R()
        if o == "make_sequence":
            return self.none(resp.make_sequence())
        if o == "freeze":
            return self.none(resp.freeze())
        if o == "iter_take":
            return R("chunks", ch=[item_rec(c) for c in pull(resp.iter_encoded(), op["n"])])
        if o == "calc_len":
            v = resp.calculate_content_length()
            return R() if v is None else R("int", n=v) if type(v) is int else R("other")
        if o in ("is_streamed", "is_sequence"):
            v = getattr(resp, o)
            return R("bool", b=v) if type(v) is bool else R("other")
        if o == "stream_write":
            v = resp.stream.write(mk_item(op["v"]))
            return R("int", n=v) if type(v) is int else R("other")
        if o == "stream_writelines":
            return self.none(resp.stream.writelines([mk_item(it) for it in op["items"]]))
        if o == "stream_tell":
            v = resp.stream.tell()
            return R("int", n=v) if type(v) is int else R("other")
        if o == "stream_flush":
            return self.none(resp.stream.flush())
        if o == "stream_close":
            return self.none(resp.stream.close())
        if o in ("get_json", "json"):
            v = resp.json if o == "json" else resp.get_json(force=op["b"], silent=op["c"])
            if v is None:
                return R()
            if type(v) is int and v >= 0:
                return R("json", str(v).encode())
            return R("other")
        if o == "call":
            calls = []

            def start_response(status, headers, exc_info=None):
                calls.append((status, headers))
                return lambda data: None
            app_iter = resp(environ(op["k"]), start_response)
            raw = app_iter is resp.response
            chunks = pull(iter(app_iter), op["n"])
            close = getattr(app_iter, "close", None)
            if close is not None:
                close()
            cl = [v for k, v in (calls[0][1] if calls else []) if k.lower() == "content-length"]
            return R("chunks", ch=[item_rec(c) for c in chunks], n=int(cl[0]) if cl and cl[0].isdigit() else -1 if not cl else -2,
                     b=raw, by=[len(calls)])
        if o == "close":
            return self.none(resp.close())
        if o == "with":
            with resp as entered:
                same = entered is resp
                if op["b"]:
                    self.with_same = same
                    raise KeyError("raised inside the with block")
            return R("same", b=same)
        if o == "call_on_close":
            return R("same", b=self.add_cb())
        if o == "set_isc":
            resp.implicit_sequence_conversion = op["b"]
            return R()
        if o == "set_pt":
            resp.direct_passthrough = op["b"]
            return R()
        if o == "assign":
            items = [mk_item(it) for it in op["items"]]
            if op["k"] == "iter":
                self.srcs[1] = resp.response = CountIter(items, self.log, 2)
            else:
                resp.response = list(items) if op["k"] == "list" else tuple(items)
            return R()
        if o == "force_type":
            return R("same", b=sub_class().force_type(resp) is resp)
        if o == "copy":
            dup = pickle.loads(pickle.dumps(resp)) if op["k"] == "pickle" else copy.deepcopy(resp)
            if not resp.is_sequence:
                return R("any")
            data = dup.get_data()
            same = (type(dup) is type(resp) and dup.status == resp.status
                    and dup.headers.to_wsgi_list() == resp.headers.to_wsgi_list())
            return R("copy", data, b=same)
        raise ValueError(o)

    @staticmethod
    def none(v):
        return R() if v is None else R("other")


def pull(it, n):
    """next() up to n times, stopping at StopIteration"""
    out = []
    for _ in range(n):
        try:
            out.append(next(it))
        except StopIteration:
            break
    return out


def run_case(case):
    """case = {init, ops}: build the Response, perform the calls, record every observation -> one `hist` line"""
    c = Case(case["init"])
    line = {"op": "hist", "init": case["init"], "obs0": c.proj(), "hist": []}
    for op in case["ops"]:
        n0 = len(c.log)
        exc, ret = "", R()
        try:
            ret = c.do(op)
        except Exception as e:   # recorded, judged by TLC
            exc = type(e).__name__
            if op["o"] == "with":
                ret = R("same", b=getattr(c, "with_same", False))
        line["hist"].append({"op": op, "o": {"exc": exc, "ret": ret, "ev": [{"t": t, "id": i} for t, i in c.log[n0:]], "post": c.proj()}})
    return line


# ---------------------------------------------------------------------------- paths through an exported LTS
def lts_paths(transitions, case_key, init_of):
    """exported transitions {depth, pre, op, post, ...}: for each one the shortest op path from an initial state
    to `pre` followed by its op.  States are identified by (case_key(tr), JSON text of the state)."""
    def key(tr, st):
        return _json.dumps([case_key(tr), st], sort_keys=True)
    path = {}
    for tr in transitions:
        if tr["depth"] == 0:
            path.setdefault(key(tr, tr["pre"]), [])
    todo = sorted(transitions, key=lambda tr: tr["depth"])
    for tr in todo:   # breadth first export: the `pre` of depth d was a `post` of depth d - 1
        kp = key(tr, tr["pre"])
        if kp in path:
            path.setdefault(key(tr, tr["post"]), path[kp] + [tr["op"]])
    cases = []
    for tr in transitions:
        kp = key(tr, tr["pre"])
        if kp in path:
            cases.append({"init": init_of(tr), "ops": path[kp] + [tr["op"]]})
    return cases


# ---------------------------------------------------------------------------- seeded random histories
def rand_text(rng, k):
    pools = [range(0x31, 0x3A), range(0x20, 0x7F), range(0xA0, 0x800), range(0x800, 0xD800), range(0x10000, 0x10400)]
    return "".join(chr(rng.choice(rng.choice(pools))) for _ in range(rng.randint(0, k)))


def rand_item(rng, bytes_only=False, digits=False):
    if digits:
        d = "".join(rng.choice("123456789") for _ in range(rng.randint(0, 3)))
        return {"k": "b", "v": list(d.encode())} if rng.random() < 0.5 else {"k": "s", "v": cps(d)}
    if bytes_only or rng.random() < 0.5:
        return {"k": "b", "v": [rng.choice([0x31, 0x32, 0x78, 0xC3, 0xA9, rng.randrange(256)]) for _ in range(rng.randint(0, 4))]}
    return {"k": "s", "v": cps(rand_text(rng, 4))}


OPS = ["get_data", "get_data", "data_get", "set_data", "data_set", "make_sequence", "freeze", "iter_take", "iter_take", "calc_len",
       "is_streamed", "is_sequence", "stream_write", "stream_writelines", "stream_tell", "stream_flush", "stream_close",
       "get_json", "json", "call", "call", "close", "with", "call_on_close", "set_isc", "set_pt", "assign", "force_type", "copy", "copy"]


def rand_case(rng, max_ops=8):
    kind = rng.choice(["str", "bytes", "list", "tuple", "iter", "iter", "gen", "gen", "nocl", "fw"])
    digits = rng.random() < 0.3
    pt = kind in ("iter", "gen", "nocl", "fw", "list") and rng.random() < 0.3
    if kind == "str":
        items = [{"k": "s", "v": [rng.choice(range(0x31, 0x3A)) for _ in range(rng.randint(0, 3))] if digits else cps(rand_text(rng, 6))}]
    elif kind == "bytes":
        items = [rand_item(rng, True)] if not digits else [{"k": "b", "v": [rng.choice(range(0x31, 0x3A)) for _ in range(rng.randint(0, 3))]}]
    elif kind == "fw":
        items = [{"k": "b", "v": [rng.choice([0x31, 0x32, 0xC3, rng.randrange(256)]) for _ in range(rng.randint(0, 7))]}]
    else:
        items = [rand_item(rng, digits=digits) for _ in range(rng.randint(0, 5))]
    init = {"kind": kind, "items": items, "pt": pt, "ncb": rng.choice([0, 0, 1, 2]), "json": rng.random() < 0.6,
            "etag": rng.random() < 0.15, "bs": rng.randint(1, 4)}
    ops, assigned, ncb = [], False, init["ncb"]
    for _ in range(rng.randint(1, max_ops)):
        o = rng.choice(OPS)
        if o == "get_data":
            ops.append(mkop(o, b=rng.random() < 0.4))
        elif o in ("set_data", "data_set", "stream_write"):
            ops.append(mkop(o, v=rand_item(rng, digits=digits)))
        elif o == "iter_take":
            ops.append(mkop(o, n=rng.choice([0, 1, 2, 3, ALL])))
        elif o == "stream_writelines":
            ops.append(mkop(o, items=[rand_item(rng, digits=digits) for _ in range(rng.randint(0, 2))]))
        elif o == "get_json":
            ops.append(mkop(o, b=rng.random() < 0.5, c=rng.random() < 0.5))
        elif o == "call":
            ops.append(mkop(o, k=rng.choice(["GET", "GET", "POST", "HEAD"]), n=rng.choice([0, 1, 2, ALL, ALL])))
        elif o == "with":
            ops.append(mkop(o, b=rng.random() < 0.3))
        elif o in ("set_isc", "set_pt"):
            ops.append(mkop(o, b=rng.random() < 0.5))
        elif o == "assign":
            k = rng.choice(["list", "tuple", "iter"])
            if k == "iter" and assigned:
                k = "list"
            assigned = assigned or k == "iter"
            ops.append(mkop(o, k=k, items=[rand_item(rng, digits=digits) for _ in range(rng.randint(0, 3))]))
        elif o == "copy":
            ops.append(mkop(o, k=rng.choice(["pickle", "deepcopy"])))
        elif o == "call_on_close":
            if ncb < 2:
                ncb += 1
                ops.append(mkop(o))
        else:
            ops.append(mkop(o))
    if rng.random() < 0.3:   # the documented use of freeze(): pickle / copy the frozen response
        ops += [mkop("freeze"), mkop("copy", k=rng.choice(["pickle", "deepcopy"]))]
    return {"init": init, "ops": ops}


# ---------------------------------------------------------------------------- ClosingIterator
def ci_case(case):
    """case = {c: {items, hc, mode, ncb}, ops}: next()/close() calls on a real ClosingIterator -> one `ci` line"""
    from werkzeug.wsgi import ClosingIterator

    c = case["c"]
    log = []
    items = [mk_item(it) for it in c["items"]]
    src = (CountIter if c["hc"] else NoCloseIter)(items, log, 1)
    cbs = [Cb(log, k + 1) for k in range(c["ncb"])]
    if c["mode"] == "none":
        ci = ClosingIterator(src)
    elif c["mode"] == "single":
        ci = ClosingIterator(src, cbs[0])
    elif c["mode"] == "list":
        ci = ClosingIterator(src, list(cbs))
    else:
        ci = ClosingIterator(src, tuple(cbs))
    line = {"op": "ci", "c": c, "hist": []}
    for op in case["ops"]:
        n0 = len(log)
        exc, ret = "", R()
        try:
            if op["o"] == "next":
                ret = R("chunks", ch=[item_rec(next(ci))])
            else:
                v = ci.close()
                ret = R() if v is None else R("other")
        except (Exception, StopIteration) as e:
            exc = type(e).__name__
        ob = src.obs()
        line["hist"].append({"op": op, "o": {"exc": exc, "ret": ret, "ev": [{"t": t, "id": i} for t, i in log[n0:]],
                                             "post": {"y": ob["y"], "stops": ob["stops"], "closes": ob["closes"]}}})
    return line


def rand_ci_case(rng):
    n = rng.randint(0, 4)
    mode = rng.choice(["none", "single", "list", "tuple"])
    ncb = 0 if mode == "none" else 1 if mode == "single" else rng.randint(0, 3)
    return {"c": {"items": [rand_item(rng, True) for _ in range(n)], "hc": rng.random() < 0.6, "mode": mode, "ncb": ncb},
            "ops": [mkop(rng.choice(["next", "next", "close"])) for _ in range(rng.randint(1, 8))]}


# ---------------------------------------------------------------------------- FileWrapper / wrap_file
def fw_case(case):
    """case = {c: {content, bs, short, pos0}, ops}: calls on a real FileWrapper(file, bs) made by wrap_file -> one `fw` line"""
    from werkzeug.wsgi import wrap_file

    c = case["c"]
    f = CountFile(bytes(c["content"]), short=c["short"], pos=c["pos0"])
    fw = wrap_file({}, f, c["bs"])
    line = {"op": "fw", "c": c, "hist": []}
    for op in case["ops"]:
        exc, ret = "", R()
        try:
            o = op["o"]
            if o == "next":
                v = next(fw)
                ret = R("bytes", v) if isinstance(v, bytes) else R("other")
            elif o == "close":
                ret = R() if fw.close() is None else R("other")
            elif o == "tell":
                v = fw.tell()
                ret = R("int", n=v) if type(v) is int else R("other")
            elif o == "seek":
                fw.seek(op["n"])
            elif o == "seekable":
                v = fw.seekable()
                ret = R("bool", b=v) if type(v) is bool else R("other")
        except (Exception, StopIteration) as e:
            exc = type(e).__name__
        line["hist"].append({"op": op, "o": {"exc": exc, "ret": ret, "post": {"pos": f.pos, "closes": f.c.closes}}})
    return line


def rand_fw_case(rng):
    n = rng.randint(0, 12)
    ops = []
    for _ in range(rng.randint(1, 14)):
        o = rng.choice(["next"] * 8 + ["close", "tell", "seekable", "seek"])
        ops.append(mkop(o, n=rng.randint(0, n) if o == "seek" else 0))
    return {"c": {"content": [rng.randrange(256) for _ in range(n)], "bs": rng.randint(1, 5), "short": rng.choice([0, 0, 1, 2]),
                  "pos0": rng.randint(0, n) if rng.random() < 0.3 else 0}, "ops": ops}


def wf_case(case):
    """one wrap_file() call: with / without a server-provided wsgi.file_wrapper, with / without buffer_size"""
    from werkzeug.wsgi import FileWrapper, wrap_file

    got = []
    sentinel = object()

    def server_wrapper(file, size):
        got.append((file, size))
        return sentinel
    f = CountFile(b"abc")
    env = {"wsgi.file_wrapper": server_wrapper} if case["server"] else {}
    rv = wrap_file(env, f, case["bsgiven"]) if case["bsgiven"] > 0 else wrap_file(env, f)
    if rv is sentinel:
        obs = {"made": "server", "args": len(got) == 1 and got[0][0] is f, "bs": got[0][1] if got and type(got[0][1]) is int else -1}
    elif type(rv) is FileWrapper:
        obs = {"made": "FileWrapper", "args": rv.file is f, "bs": rv.buffer_size if type(rv.buffer_size) is int else -1}
    else:
        obs = {"made": "other", "args": False, "bs": -1}
    return {"op": "wf", "server": case["server"], "bsgiven": case["bsgiven"], "obs": obs}


# ---------------------------------------------------------------------------- from_app / force_type
def app_case(case):
    """case = {via, items, nw, hc, buffered}: Response.from_app / force_type on an instrumented WSGI application"""
    from werkzeug.wrappers import Response

    c = case
    log = []
    items = [mk_item(it) for it in c["items"]]
    src = (CountIter if c["hc"] else NoCloseIter)(items, log, 1)

    def app(env, start_response):
        write = start_response("201 CREATED", [("X-Verif", "kept"), ("Content-Type", "text/plain")])
        for _ in range(c["nw"]):
            write(b"w")
        return src
    Sub = sub_class()
    o = {"exc": "", "cls": "", "same": False, "data": [], "st": 0, "hx": False, "y0": 0, "stops0": 0, "closes0": 0, "closes1": 0}
    try:
        if c["via"] == "from_app":
            resp = Sub.from_app(app, environ(), buffered=c["buffered"])
        elif c["via"] == "force_env":
            resp = Sub.force_type(app, environ())
        elif c["via"] == "force_noenv":
            resp = Sub.force_type(app)
        else:
            orig = Response(src, status=201, headers=[("X-Verif", "kept")])
            resp = Sub.force_type(orig)
            o["same"] = resp is orig
        o["cls"] = "Sub" if type(resp) is Sub else "Response" if type(resp) is Response else "other"
        ob = src.obs()
        o["y0"], o["stops0"], o["closes0"] = ob["y"], ob["stops"], ob["closes"]
        o["data"] = list(resp.get_data())
        o["st"] = resp.status_code
        o["hx"] = resp.headers.get("X-Verif") == "kept"
        resp.close()
        o["closes1"] = src.obs()["closes"]
    except Exception as e:
        o["exc"] = type(e).__name__
    return {"op": "app", "c": c, "o": o}


def rand_app_case(rng):
    via = rng.choice(["from_app", "from_app", "force_env", "force_noenv", "force_resp"])
    return {"via": via, "items": [rand_item(rng, True) for _ in range(rng.randint(0, 5))], "nw": 0 if via == "force_resp" else rng.randint(0, 3),
            "hc": rng.random() < 0.6, "buffered": rng.random() < 0.5}
