"""X03 -- recorder / drivers for the request-body access protocol of werkzeug.wrappers.Request.

A scenario is (body, content type, method, shallow); a history is a list of accessor calls.  The
recorder builds an EnvironBuilder environ whose ``wsgi.input`` is a counting stream (PEP 3333 methods
only), performs every call on ONE real Request and logs, per call, the arguments, the result
(bytes / text code points / form items / files / canonical JSON text / exception class + HTTP code)
and the number of bytes taken from ``wsgi.input`` so far.  The first line of a trace (``cfg``)
carries the scenario and the one-shot reference tables: for every suffix body[k:] the form / files
/ JSON value a *fresh* Request yields when that suffix is its whole body (so the judge can state
"the parser was fed exactly body[k:]" without re-implementing the parsers in TLA+).

Nothing here decides a verdict: the relation is spec/reqdata/ReqContract.tla, evaluated by TLC.
"""
from __future__ import annotations

import io
import json
import random

# ---------------------------------------------------------------------------- scenarios
CTYPES = {
    # class -> header values that belong to it (first = canonical)
    "urlencoded": ["application/x-www-form-urlencoded", "Application/X-WWW-Form-UrlEncoded; charset=utf-8"],
    "multipart": ["multipart/form-data; boundary=b", "Multipart/Form-Data; boundary=b"],
    "json": ["application/json", "application/vnd.api+json", "Application/JSON; charset=utf-8"],
    "other": ["text/plain", "application/octet-stream", "application/jsonx", "text/json"],
    "none": [None],
}

MP_BODY = (b'--b\r\nContent-Disposition: form-data; name="a"\r\n\r\n1\r\n--b\r\n'
           b'Content-Disposition: form-data; name="f"; filename="x"\r\n\r\nXY\r\n--b--\r\n')

# bodies of the bounded TLC model (spec/reqdata/MCReqData.tla): name -> bytes.  The model only knows
# the length and the set `jok` of suffix starts k for which body[k:] is a JSON document; the harness
# checks both against the real reference tables before replaying (machinery check).
MODEL_BODIES = {"qs": b"a=b", "num": b"123", "arr": b"[1]", "empty": b"", "mp": MP_BODY}


class CountingInput:
    """wsgi.input with the PEP 3333 methods only; counts what was handed out."""

    def __init__(self, data: bytes):
        self.data = data
        self.pos = 0

    def read(self, n=-1):
        if n is None or n < 0:
            n = len(self.data) - self.pos
        r = self.data[self.pos:self.pos + n]
        self.pos += len(r)
        return r

    def readline(self, n=-1):
        j = self.data.find(b"\n", self.pos)
        end = len(self.data) if j < 0 else j + 1
        if n is not None and n >= 0:
            end = min(end, self.pos + n)
        r = self.data[self.pos:end]
        self.pos = end
        return r

    def readlines(self, hint=-1):
        return list(iter(self.readline, b""))

    def __iter__(self):
        return iter(self.readline, b"")


def make_request(body: bytes, ctype, method: str, shallow: bool):
    from werkzeug.test import EnvironBuilder
    from werkzeug.wrappers import Request

    b = EnvironBuilder(method=method, input_stream=io.BytesIO(body), content_type=ctype, query_string="q=0")
    try:
        env = b.get_environ()
    finally:
        b.close()
    inp = CountingInput(body)
    env["wsgi.input"] = inp
    return Request(env, shallow=shallow), inp, env


# ---------------------------------------------------------------------------- projections
def _cps(s):
    return [ord(c) for c in s]


def _items(md):
    return [[_cps(str(k)), _cps(str(v))] for k, v in md.items(multi=True)]


def _files(md):
    out = []
    for k, fs in md.items(multi=True):
        closed = bool(fs.stream.closed)
        data = []
        if not closed:
            p = fs.stream.tell()
            fs.stream.seek(0)
            data = list(fs.stream.read())
            fs.stream.seek(p)
        out.append({"name": _cps(str(k)), "fn": _cps(fs.filename or ""), "data": data, "closed": closed})
    return out


def _jtext(v):
    try:
        return _cps(json.dumps(v, sort_keys=True, ensure_ascii=True))
    except Exception:
        return _cps("?" + type(v).__name__)


_REF_CACHE: dict = {}


def ref_tables(body: bytes, ctype, method: str):
    """one-shot references: fresh Request over body[k:], first access, for k = 0..len(body)"""
    key = (body, ctype, method)
    if key not in _REF_CACHE:
        if len(_REF_CACHE) > 4000:
            _REF_CACHE.clear()
        _REF_CACHE[key] = _ref_tables(body, ctype, method)
    return _REF_CACHE[key]


def _ref_tables(body: bytes, ctype, method: str):
    formref, filesref, jsonref = [], [], []
    for k in range(len(body) + 1):
        r, _, _ = make_request(body[k:], ctype, method, False)
        try:
            formref.append(_items(r.form))
            f = _files(r.files)
            for x in f:
                x["closed"] = False
            filesref.append(f)
        except Exception as e:   # a reference that fails is recorded as such; the judge then has no expectation
            formref.append([[_cps("!exc"), _cps(type(e).__name__)]])
            filesref.append([])
        finally:
            r.close()
        try:
            jsonref.append({"ok": True, "v": _jtext(json.loads(body[k:]))})
        except ValueError:
            jsonref.append({"ok": False, "v": _cps("null")})
    r, _, _ = make_request(b"", ctype, method, False)
    return {"formref": formref, "filesref": filesref, "jsonref": jsonref, "args": _items(r.args)}


def ctype_class(ctype) -> str:
    for cls, vals in CTYPES.items():
        if ctype in vals:
            return cls
    raise KeyError(ctype)


def cfg_line(sc) -> dict:
    body = bytes(sc["body"])
    d = {"op": "cfg", "body": list(body), "n": len(body), "ctype": ctype_class(sc["ctype"]),
         "hdr": _cps(sc["ctype"] or ""), "method": sc["method"], "shallow": bool(sc["shallow"]),
         "exp": sc.get("exp", [])}
    d.update(ref_tables(body, sc["ctype"], sc["method"]))
    return d


# ---------------------------------------------------------------------------- one call
def _blank(op):
    return {"op": op, "n": -1, "cache": True, "text": False, "pfd": False, "force": False, "silent": False,
            "via": "", "rk": "", "rb": [], "rx": "", "code": 0, "items": [], "fl": [], "wpos": 0,
            "known": 0, "known_closed": 0, "same": False}


def apply(req, inp, env, known: list, call: dict) -> dict:
    """perform one accessor call on the real Request; never raises"""
    op = call["op"]
    ln = _blank(op)
    for k in ("n", "cache", "text", "pfd", "force", "silent", "via"):
        if k in call:
            ln[k] = call[k]
    try:
        if op == "stream_read":
            n = ln["n"]
            v = req.stream.read() if n < 0 else req.stream.read(n)
            ln["rk"], ln["rb"] = "bytes", list(v)
        elif op == "get_data":
            v = req.get_data(cache=ln["cache"], as_text=ln["text"], parse_form_data=ln["pfd"])
            if isinstance(v, str):
                ln["rk"], ln["rb"] = "text", _cps(v)
            else:
                ln["rk"], ln["rb"] = "bytes", list(v)
        elif op == "data":
            v = req.data
            ln["rk"], ln["rb"] = ("bytes", list(v)) if isinstance(v, bytes) else ("text", _cps(str(v)))
        elif op == "form":
            ln["rk"], ln["items"] = "form", _items(req.form)
        elif op == "values":
            ln["rk"], ln["items"] = "form", _items(req.values)
        elif op == "files":
            files = req.files
            for _, fs in files.items(multi=True):
                if not any(fs is k for k in known):
                    known.append(fs)
            ln["rk"], ln["fl"] = "files", _files(files)
        elif op == "json":
            ln["rk"], ln["rb"] = "json", _jtext(req.json)
        elif op == "get_json":
            ln["rk"], ln["rb"] = "json", _jtext(req.get_json(force=ln["force"], silent=ln["silent"], cache=ln["cache"]))
        elif op == "input_stream":
            ln["rk"], ln["same"] = "obj", req.input_stream is inp
        elif op == "wfdp":
            ln["rk"], ln["same"] = "bool", bool(req.want_form_data_parsed)
        elif op == "close":
            if ln["via"] == "with":
                with req:
                    pass
            else:
                req.close()
            ln["rk"] = "none"
        else:
            raise AssertionError(op)
    except Exception as e:  # recorded, judged by TLC
        ln["rk"], ln["rx"] = "exc", type(e).__name__
        c = getattr(e, "code", 0)
        ln["code"] = c if isinstance(c, int) else 0
    ln["wpos"] = inp.pos
    ln["known"] = len(known)
    ln["known_closed"] = sum(1 for fs in known if fs.stream.closed)
    return ln


def run_trace(sc) -> list:
    """scenario {body, ctype, method, shallow, calls[, exp]} -> [cfg line, call lines...]"""
    body = bytes(sc["body"])
    out = [cfg_line(sc)]
    req, inp, env = make_request(body, sc["ctype"], sc["method"], sc["shallow"])
    known: list = []
    for i, call in enumerate(sc["calls"]):
        ln = apply(req, inp, env, known, call)
        ln["i"] = i
        out.append(ln)
    try:
        req.close()
    except Exception:
        pass
    return out


# ---------------------------------------------------------------------------- call generators
def call(op, **kw):
    d = {"op": op}
    d.update(kw)
    return d


def all_calls(sizes=(1, 2, -1)):
    """the call alphabet of the bounded model (same as Calls in ReqData.tla)"""
    out = [call("stream_read", n=n) for n in sizes]
    for cache in (True, False):
        for pfd in (False, True):
            out.append(call("get_data", cache=cache, pfd=pfd, text=False))
    out.append(call("get_data", cache=True, pfd=False, text=True))
    out += [call("data"), call("form"), call("files"), call("values"), call("json")]
    for force in (False, True):
        for silent in (False, True):
            for cache in (True, False):
                out.append(call("get_json", force=force, silent=silent, cache=cache))
    out += [call("input_stream"), call("wfdp"), call("close", via="close"), call("close", via="with")]
    return out


def rand_body(rng: random.Random, cls: str) -> bytes:
    r = rng.random()
    if cls == "multipart" and r < 0.7:
        parts = []
        for j in range(rng.randint(1, 3)):
            if rng.random() < 0.5:
                parts.append(b'--b\r\nContent-Disposition: form-data; name="k%d"\r\n\r\n' % j + bytes(rng.choice(b"abc12") for _ in range(rng.randint(0, 4))) + b"\r\n")
            else:
                parts.append(b'--b\r\nContent-Disposition: form-data; name="u%d"; filename="f%d"\r\n\r\n' % (j, j) + bytes(rng.choice(b"XYZ\n") for _ in range(rng.randint(0, 5))) + b"\r\n")
        return b"".join(parts) + b"--b--\r\n" + (b"tail" if rng.random() < 0.3 else b"")
    if r < 0.25:
        return "&".join("%s=%s" % (rng.choice("abk"), rng.choice(["1", "", "x+y", "%41", "2"])) for _ in range(rng.randint(0, 3))).encode()
    if r < 0.55:
        return rng.choice([b"1", b"123", b"[1,2]", b'{"a":1}', b"null", b"true", b' "s" ', b"[1", b'{"a":}', b"0", b"[[[]]]", b"12 ", b"1 2"])
    if r < 0.65:
        return b""
    if r < 0.75:
        return bytes(rng.choice([0x61, 0xc3, 0xa9, 0xff, 0x3d, 0x31]) for _ in range(rng.randint(1, 6)))
    return bytes(rng.choice(b"ab=&12[]{}\" ") for _ in range(rng.randint(1, 8)))


def rand_calls(rng: random.Random, k: int, n: int) -> list:
    alphabet = all_calls(sizes=(1, 2, 3, 5, max(1, n // 2), n, n + 3, -1))
    weights = [3 if c["op"] in ("stream_read", "get_data", "form", "get_json") else 2 if c["op"] in ("data", "files", "json", "values") else 1
               for c in alphabet]
    return [dict(c) for c in rng.choices(alphabet, weights=weights, k=k)]


def rand_scenario(rng: random.Random, maxlen=12) -> dict:
    cls = rng.choice(["urlencoded", "urlencoded", "multipart", "multipart", "json", "json", "other", "none"])
    ctype = rng.choice(CTYPES[cls])
    body = rand_body(rng, cls)
    return {"body": list(body), "ctype": ctype, "method": rng.choice(["POST", "POST", "GET", "PUT"]),
            "shallow": rng.random() < 0.12, "calls": rand_calls(rng, rng.randint(3, maxlen), len(body))}
