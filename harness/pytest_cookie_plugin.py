"""pytest plugin (loaded with `-p harness.pytest_cookie_plugin`) that records what the repository's own tests do
with cookies, in the test process only (nothing in /repo is modified):

* every `dump_cookie` call (also the ones made by Response.set_cookie / delete_cookie and Client.set_cookie): the bound
  arguments as an attribute record of spec/cookie/Cookie.tla, the returned header or the exception class, the clock;
* every `sansio.http.parse_cookie` call: the string and the pairs of the returned MultiDict;
* every `werkzeug.test.Client` with cookies enabled as one history of spec/cookie/ClientJar.tla: the add-to-request step
  (host, path, scheme, the cookies put into the environ), the update-from-response step (the Set-Cookie headers, mapped back
  to the dump_cookie calls that produced them), set_cookie / delete_cookie / get_cookie, and the jar after every step.

Written as JSON to $VERIF_TRACE_OUT; judged by CookieTrace.tla / ClientJarTrace.tla (harness/props/c13.py)."""
from __future__ import annotations

import inspect
import json
import os
import threading
import time

_dumps: list = []
_parses: list = []
_sessions: list = []
_skipped: dict = {}
_tl = threading.local()


def _skip(why):
    _skipped[why] = _skipped.get(why, 0) + 1


def _test():
    return os.environ.get("PYTEST_CURRENT_TEST", "")[:140]


def pytest_configure(config):
    import werkzeug.http as H
    import werkzeug.sansio.http as SH
    import werkzeug.sansio.request as SREQ
    import werkzeug.sansio.response as SRESP
    import werkzeug.test as T
    from werkzeug.datastructures import MultiDict
    from werkzeug.urls import urlsplit  # noqa: F401  (import check only)

    from harness import cookie as ck

    orig_dump = H.dump_cookie
    orig_parse = SH.parse_cookie
    sig = inspect.signature(orig_dump)
    by_header: dict = {}  # header text -> bound arguments of the dump_cookie call that produced it (latest wins)

    # ------------------------------------------------------------------ dump_cookie
    def dump_cookie(*args, **kwargs):
        try:
            b = sig.bind(*args, **kwargs)
            b.apply_defaults()
            bound = dict(b.arguments)
        except TypeError:
            bound = None
        t0 = int(time.time())
        exc, hdr = "", ""
        try:
            hdr = orig_dump(*args, **kwargs)
            return hdr
        except BaseException as e:
            exc = type(e).__name__
            raise
        finally:
            t1 = int(time.time())
            if bound is None:
                _skip("dump_cookie: arguments do not bind")
            else:
                if not exc:
                    by_header[hdr] = bound
                try:
                    a, why = ck.attrs_from_call(bound)
                except Exception as e:  # never let the recorder break a test
                    a, why = None, "recorder error " + type(e).__name__
                if why:
                    _skip("dump_cookie: " + why)
                else:
                    _dumps.append({"test": _test(), "via": getattr(_tl, "via", "dump_cookie"), "key": bound["key"], "value": bound.get("value", ""),
                                   "a": a, "exc": exc, "hdr": hdr, "t0": t0, "t1": t1})

    H.dump_cookie = dump_cookie
    SRESP.dump_cookie = dump_cookie
    T.dump_cookie = dump_cookie

    def tagged(orig, tag):
        def method(self, *args, **kwargs):
            prev = getattr(_tl, "via", None)
            _tl.via = tag if prev is None else prev
            try:
                return orig(self, *args, **kwargs)
            finally:
                if prev is None:
                    del _tl.via
        method.__name__ = orig.__name__
        method.__doc__ = orig.__doc__
        return method

    SRESP.Response.set_cookie = tagged(SRESP.Response.set_cookie, "Response.set_cookie")
    SRESP.Response.delete_cookie = tagged(SRESP.Response.delete_cookie, "Response.delete_cookie")

    # ------------------------------------------------------------------ parse_cookie
    def parse_cookie(cookie=None, cls=None):
        rv, exc = None, ""
        try:
            rv = orig_parse(cookie=cookie, cls=cls)
            return rv
        except BaseException as e:
            exc = type(e).__name__
            raise
        finally:
            if not (cookie is None or isinstance(cookie, str)):
                _skip("parse_cookie: argument not text")
            elif cls is not None and not (isinstance(cls, type) and issubclass(cls, MultiDict)):
                _skip("parse_cookie: cls is not a MultiDict")
            else:
                pairs = [] if rv is None else [[k, v] for k, v in rv.items(multi=True)]
                if any(not isinstance(k, str) or not isinstance(v, str) for k, v in pairs):
                    _skip("parse_cookie: non-text result")
                else:
                    _parses.append({"test": _test(), "s": cookie or "", "got": pairs, "exc": exc})

    SH.parse_cookie = parse_cookie
    SREQ.parse_cookie = parse_cookie

    # ------------------------------------------------------------------ the test client's jar
    orig_init = T.Client.__init__
    orig_add = T.Client._add_cookies_to_wsgi
    orig_upd = T.Client._update_cookies_from_response
    orig_set = T.Client.set_cookie
    orig_del = T.Client.delete_cookie
    orig_get = T.Client.get_cookie

    def sess(self):
        return getattr(self, "_verif_jar", None)

    def step(self, s, op, a, **obs):
        if s["dead"]:
            return
        proj = [ck.jar_cookie_rec(c, s["base"]) for c in (self._cookies or {}).values()]
        ln = {"op": op, "a": a, "sent": [], "sent2": [], "found": False, "got": dict(ck.NO_GOT), "proj": proj, "exc": ""}
        ln.update(obs)
        s["lines"].append(ln)

    def kill(s, why):
        if not s["dead"]:
            s["dead"] = why
            _skip("client session cut: " + why)

    def init(self, *args, **kwargs):
        orig_init(self, *args, **kwargs)
        if self._cookies is not None:
            self._verif_jar = {"test": _test(), "base": int(time.time()) - 1, "dead": "", "pending": None, "lines": []}
            _sessions.append(self._verif_jar)

    def add(self, environ):
        orig_add(self, environ)
        s = sess(self)
        if s is None or s["dead"]:
            return
        try:
            from urllib.parse import urlsplit as usplit

            from werkzeug.wsgi import get_current_url

            url = usplit(get_current_url(environ))
            sent = [[ck.cps(k), ck.cps(v)] for k, v in orig_parse(cookie=environ.get("HTTP_COOKIE")).items(multi=True)]
            s["pending"] = {"host": url.hostname or "localhost", "rp": url.path, "https": url.scheme == "https", "sent": sent}
        except Exception as e:
            kill(s, "recorder error " + type(e).__name__)

    def upd(self, server_name, path, headers):
        s = sess(self)
        pend = None
        if s is not None:
            pend, s["pending"] = s["pending"], None
        exc = ""
        try:
            return orig_upd(self, server_name, path, headers)
        except BaseException as e:
            exc = type(e).__name__
            raise
        finally:
            if s is not None and not s["dead"]:
                if pend is None:
                    kill(s, "update-from-response without a recorded request")
                elif not (pend["host"].isascii() and pend["host"] == server_name):
                    kill(s, "non-ASCII or rewritten request host")
                else:
                    base = ck.jar_a(host=ck.cps(pend["host"]), rp=ck.cps(pend["rp"]), https=pend["https"])
                    if not headers:
                        step(self, s, "req", base, sent=pend["sent"], exc=exc)
                    for j, h in enumerate(headers):
                        bound = by_header.get(h)
                        if bound is None:
                            kill(s, "Set-Cookie header not produced by dump_cookie")
                            break
                        sc, why = ck.jar_sc_from_dump(bound, s["base"])
                        if why:
                            kill(s, why)
                            break
                        a = dict(base, has_sc=True, **sc)
                        last = j == len(headers) - 1
                        # the jar is read after the whole update: only the last Set-Cookie step carries the projection check
                        if j == 0:
                            step(self, s, "req" if last else "reqm", a, sent=pend["sent"], exc=exc)
                        else:
                            step(self, s, "setc" if last else "setcm", a, exc=exc)

    def set_cookie(self, key, value="", *, domain="localhost", origin_only=True, path="/", **kwargs):
        exc = ""
        prev = getattr(_tl, "via", None)
        _tl.via = "Client.set_cookie" if prev is None else prev
        try:
            return orig_set(self, key, value, domain=domain, origin_only=origin_only, path=path, **kwargs)
        except BaseException as e:
            exc = type(e).__name__
            raise
        finally:
            if prev is None:
                del _tl.via
            s = sess(self)
            if s is not None and not s["dead"]:
                try:
                    b = sig.bind(key, value, domain=domain, path=path, **kwargs)
                    b.apply_defaults()
                    sc, why = ck.jar_sc_from_dump(dict(b.arguments), s["base"])
                except TypeError:
                    sc, why = None, "set_cookie arguments do not bind"
                if why:
                    kill(s, why)
                else:
                    sc.pop("domattr"), sc.pop("pathattr")
                    step(self, s, "cset", ck.jar_a(dom=ck.cps(domain), path=ck.cps(path), oo=bool(origin_only), **sc), exc=exc)

    def delete_cookie(self, key, *, domain="localhost", path="/"):
        exc = ""
        try:
            return orig_del(self, key, domain=domain, path=path)
        except BaseException as e:
            exc = type(e).__name__
            raise
        finally:
            s = sess(self)
            if s is not None and not s["dead"]:
                step(self, s, "cdel", ck.jar_a(name=ck.cps(key), dom=ck.cps(domain), path=ck.cps(path)), exc=exc)

    def get_cookie(self, key, domain="localhost", path="/"):
        rv, exc = None, ""
        try:
            rv = orig_get(self, key, domain, path)
            return rv
        except BaseException as e:
            exc = type(e).__name__
            raise
        finally:
            s = sess(self)
            if s is not None and not s["dead"]:
                obs = {"exc": exc}
                if rv is not None:
                    obs.update(found=True, got=ck.jar_cookie_rec(rv, s["base"]))
                step(self, s, "cget", ck.jar_a(name=ck.cps(key), dom=ck.cps(domain), path=ck.cps(path)), **obs)

    T.Client.__init__ = init
    T.Client._add_cookies_to_wsgi = add
    T.Client._update_cookies_from_response = upd
    T.Client.set_cookie = set_cookie
    T.Client.delete_cookie = delete_cookie
    T.Client.get_cookie = get_cookie


def pytest_sessionfinish(session, exitstatus):
    out = os.environ.get("VERIF_TRACE_OUT")
    if out:
        with open(out, "w") as f:
            json.dump({"dumps": _dumps, "parses": _parses, "sessions": _sessions, "skipped": _skipped}, f)
