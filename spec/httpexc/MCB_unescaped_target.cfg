CONSTANTS
  Variant = "unescaped_target"
  Family = "redirect"
  Size = "m"
INIT Init
NEXT Next
CHECK_DEADLOCK FALSE
INVARIANT ModelMeetsContract
INVARIANT RegistryLaw
INVARIANT TableLaw
INVARIANT PresenceLaw
