CONSTANTS
  Variant = "abort_subclass"
  Family = "abort"
  Size = "m"
INIT Init
NEXT Next
CHECK_DEADLOCK FALSE
INVARIANT ModelMeetsContract
INVARIANT RegistryLaw
INVARIANT TableLaw
INVARIANT PresenceLaw
