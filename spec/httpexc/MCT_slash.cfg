CONSTANTS
  Variant = "fixed"
  Family = "slash"
  Size = "t"
INIT Init
NEXT Next
CHECK_DEADLOCK FALSE
INVARIANT ModelMeetsContract
INVARIANT RegistryLaw
INVARIANT TableLaw
INVARIANT PresenceLaw
