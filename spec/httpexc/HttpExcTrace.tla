---------------------------- MODULE HttpExcTrace ----------------------------
(* Trace judge for X08.  Input: ndjson (TRACE_FILE), one self-contained line per case executed on the real classes:  *)
(*   render / redirect / abort : [t, i, op, c: case, o: outcome]  (fields: see HttpExc.tla)                           *)
(*   static   : [.., s: [cls, code, doccode, default, copyok, pickleok, docname, name]]  one class of the module     *)
(*   registry : [.., reg: <<[code, cls]>>]                      werkzeug.exceptions.default_exceptions                *)
(*   facts    : [.., f: [haswrap, brke_keyerror, brke_badrequest, md_raises, md_keyerror, md_badrequest, ise_orig,    *)
(*               abort_wsgi]]                                                                                          *)
(* Verdicts come only from the contract clauses of HttpExc.tla (documentation quotes there); a difference between   *)
(* the recorded outcome and the implementation-shaped model is drift.                                                 *)
EXTENDS HttpExc, TLC, Json, IOUtils

Lines == ndJsonDeserialize(IOEnv.TRACE_FILE)

VARIABLE l
vars == <<l>>

\* docs/exceptions.rst "Special HTTP Exceptions": "a special key error will be raised which behaves like a KeyError but also
\* a BadRequest exception"; HTTPException docstring, 2.1: "Removed the ``wrap`` class method."; InternalServerError:
\* "The original exception that caused this 500 error."
FactsClause(f) == IF f.haswrap THEN "WrapRemoved"
                  ELSE IF ~f.brke_keyerror \/ ~f.brke_badrequest THEN "KeyErrorAndBadRequest"
                  ELSE IF f.md_raises # "BadRequestKeyError" \/ ~f.md_keyerror \/ ~f.md_badrequest THEN "KeyErrorAndBadRequest"
                  ELSE IF ~f.ise_orig THEN "OriginalException"
                  ELSE "ok"

ASSUME Variant = "fixed"
\* the reference page of a render case, built once per line (used by the clauses and by the model)
Page(ln) == IF ln.op = "render" /\ Known(ln.c.cls) /\ ln.c.resp = 0 /\ ~Dirty(ln.c) THEN GoodBody(ln.c) ELSE <<>>
Verdict(ln, page) == CASE ln.op = "render" -> RenderClauseG(ln.c, ln.o, page)
                 [] ln.op = "redirect" -> RedirectClause(ln.c, ln.o)
                 [] ln.op = "abort" -> AbortClause(ln.c, ln.o)
                 [] ln.op = "static" -> StaticClause(ln.s)
                 [] ln.op = "registry" -> RegistryClause(RegSet(ln.reg))
                 [] ln.op = "facts" -> FactsClause(ln.f)
                 [] OTHER -> "UnknownOp"

HdrList(hs) == [k \in 1..Len(hs) |-> H(LowerT(hs[k].n), hs[k].v)]
OutDrift(m, o) == IF m.exc # o.exc THEN "exception"
                  ELSE IF o.exc # "" THEN "ok"
                  ELSE IF m.status # o.status THEN "status"
                  ELSE IF HdrList(m.headers) # HdrList(o.headers) THEN "headers"
                  ELSE IF m.body # o.body THEN "body"
                  ELSE "ok"
Drift(ln, page) == CASE ln.op = "render" -> (IF ~Known(ln.c.cls) THEN "unknown-class"
                                       ELSE IF ln.c.resp # 0 THEN "ok"
                                       ELSE IF CodeOf(ln.c.cls) # 0 /\ ln.c.name # Row(ln.c.cls).name THEN "name-differs-from-docstring"
                                       ELSE OutDrift(RenderModelB(ln.c, page), ln.o))
               [] ln.op = "redirect" -> (IF ln.c.fn # "slash" /\ ~LocDomain(ln.c.loc) /\ ~LocDirty(ln.c.loc) THEN "ok"
                                         ELSE IF ln.c.code \notin RedirCodes THEN "ok"
                                         ELSE OutDrift(RedirectModel(ln.c), ln.o))
               [] ln.op = "abort" -> (LET m == AbortModel(ln.c) IN IF m.raised # ln.o.raised THEN "abort-raised" ELSE "ok")
               [] ln.op = "static" -> (IF ~Known(ln.s.cls) THEN "class-not-in-table"
                                       ELSE IF ~ln.s.copyok THEN "not-copyable"
                                       ELSE IF ~ln.s.pickleok THEN "not-picklable"
                                       ELSE IF ln.s.docname # <<>> /\ ln.s.docname # ln.s.name THEN "name-differs-from-docstring"
                                       ELSE "ok")
               [] ln.op = "registry" -> (IF RegSet(ln.reg) # Registry THEN "registry-differs-from-model" ELSE "ok")
               [] ln.op = "facts" -> (IF ln.f.abort_wsgi # "HTTPException" THEN "abort-plain-wsgi-callable-not-wrapped" ELSE "ok")
               [] OTHER -> "ok"

Init == l = 1
Next == /\ l <= Len(Lines)
        /\ LET ln == Lines[l] page == Page(ln) v == Verdict(ln, page) IN
           /\ IF v = "ok" THEN TRUE ELSE PrintT(ToJson([reject |-> 1, t |-> ln.t, i |-> ln.i, clause |-> v]))
           /\ IF v # "ok" THEN TRUE
              ELSE LET d == Drift(ln, page) IN
                   IF d = "ok" THEN TRUE ELSE PrintT(ToJson([drift |-> 1, t |-> ln.t, i |-> ln.i, what |-> d]))
        /\ l' = l + 1

Done == PrintT(ToJson([judged |-> Len(Lines)])) /\ TLCGet("generated") >= 0
=============================================================================
