CONSTANTS
  Variant = "fixed"
  Family = "redirect"
  Size = "t"
INIT Init
NEXT Next
CHECK_DEADLOCK FALSE
INVARIANT Export
