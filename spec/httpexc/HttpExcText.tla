---------------------------- MODULE HttpExcText ----------------------------
(* Text helpers of the X08 area (HTTP exceptions / redirects): ASCII case, decimal text, markupsafe's   *)
(* HTML escaping, IMF-fixdate of a civil time, percent-quoting with a safe set, the literal texts of the *)
(* error / redirect pages and the header names.  Text = sequence of code points (DESIGN.md section 5);   *)
(* the readable form of every constant is in the comment next to it.                                      *)
EXTENDS Naturals, Sequences, Bytes, Text

LowerC(c) == IF c >= 65 /\ c <= 90 THEN c + 32 ELSE c
UpperC(c) == IF c >= 97 /\ c <= 122 THEN c - 32 ELSE c
LowerT(s) == [i \in 1..Len(s) |-> LowerC(s[i])]
UpperT(s) == [i \in 1..Len(s) |-> UpperC(s[i])]
IsAlphaC(c) == (c >= 65 /\ c <= 90) \/ (c >= 97 /\ c <= 122)
IsDigitC(c) == c >= 48 /\ c <= 57

RECURSIVE Dec(_)
Dec(n) == IF n < 10 THEN <<48 + n>> ELSE Dec(n \div 10) \o <<48 + (n % 10)>>
\* big numbers travel as decimal digit lists (TLC ints are 32 bit)
DigitsText(ds) == [i \in 1..Len(ds) |-> 48 + ds[i]]

IdxOfC(s, c) == IF \E i \in 1..Len(s) : s[i] = c THEN CHOOSE i \in 1..Len(s) : s[i] = c /\ \A j \in 1..(i - 1) : s[j] # c ELSE 0
LastIdxOfC(s, c) == IF \E i \in 1..Len(s) : s[i] = c THEN CHOOSE i \in 1..Len(s) : s[i] = c /\ \A j \in (i + 1)..Len(s) : s[j] # c ELSE 0
HasC(s, c) == \E i \in 1..Len(s) : s[i] = c
RECURSIVE TrimL(_)
TrimL(s) == IF s # <<>> /\ s[1] \in {SP, TAB} THEN TrimL(Tail(s)) ELSE s
RECURSIVE TrimR(_)
TrimR(s) == IF s # <<>> /\ s[Len(s)] \in {SP, TAB} THEN TrimR(SubSeq(s, 1, Len(s) - 1)) ELSE s
Trim(s) == TrimR(TrimL(s))
RECURSIVE JoinSeqs(_, _)
JoinSeqs(ss, sep) == IF ss = <<>> THEN <<>> ELSE IF Len(ss) = 1 THEN ss[1] ELSE ss[1] \o sep \o JoinSeqs(Tail(ss), sep)
\* comma separated list -> trimmed members (RFC 7230 list syntax: "," with optional white space)
CommaItems(s) == LET ps == SplitOn(s, 44, <<>>) IN [i \in 1..Len(ps) |-> Trim(ps[i])]

T_HEAD == <<60, 33, 100, 111, 99, 116, 121, 112, 101, 32, 104, 116, 109, 108, 62, 10, 60, 104, 116, 109, 108, 32, 108, 97, 110, 103, 61, 101, 110, 62, 10>> \* '<!doctype html>\n<html lang=en>\n'
T_TITLE == <<60, 116, 105, 116, 108, 101, 62>>               \* '<title>'
T_TITLE_H1 == <<60, 47, 116, 105, 116, 108, 101, 62, 10, 60, 104, 49, 62>> \* '</title>\n<h1>'
T_H1_P == <<60, 47, 104, 49, 62, 10, 60, 112, 62>>           \* '</h1>\n<p>'
T_P_END == <<60, 47, 112, 62, 10>>                           \* '</p>\n'
T_BR == <<60, 98, 114, 62>>                                  \* '<br>'
T_REDIR1 == <<60, 116, 105, 116, 108, 101, 62, 82, 101, 100, 105, 114, 101, 99, 116, 105, 110, 103, 46, 46, 46, 60, 47, 116, 105, 116, 108, 101, 62, 10, 60, 104, 49, 62, 82, 101, 100, 105, 114, 101, 99, 116, 105, 110, 103, 46, 46, 46, 60, 47, 104, 49, 62, 10, 60, 112, 62, 89, 111, 117, 32, 115, 104, 111, 117, 108, 100, 32, 98, 101, 32, 114, 101, 100, 105, 114, 101, 99, 116, 101, 100, 32, 97, 117, 116, 111, 109, 97, 116, 105, 99, 97, 108, 108, 121, 32, 116, 111, 32, 116, 104, 101, 32, 116, 97, 114, 103, 101, 116, 32, 85, 82, 76, 58, 32, 60, 97, 32, 104, 114, 101, 102, 61, 34>> \* '<title>Redirecting...</title>\n<h1>Redirecting...</h1>\n<p>You should be redirected automatically to the target URL: <a href="'
T_REDIR2 == <<34, 62>>                                       \* '">'
T_REDIR3 == <<60, 47, 97, 62, 46, 32, 73, 102, 32, 110, 111, 116, 44, 32, 99, 108, 105, 99, 107, 32, 116, 104, 101, 32, 108, 105, 110, 107, 46, 10>> \* '</a>. If not, click the link.\n'
T_KEYERROR == <<10, 75, 101, 121, 69, 114, 114, 111, 114, 58, 32>> \* '\nKeyError: '
T_NONE == <<78, 111, 110, 101>>                              \* 'None'
E_AMP == <<38, 97, 109, 112, 59>>                            \* '&amp;'
E_LT == <<38, 108, 116, 59>>                                 \* '&lt;'
E_GT == <<38, 103, 116, 59>>                                 \* '&gt;'
E_QUOT == <<38, 35, 51, 52, 59>>                             \* '&#34;'
E_APOS == <<38, 35, 51, 57, 59>>                             \* '&#39;'
H_CT == <<67, 111, 110, 116, 101, 110, 116, 45, 84, 121, 112, 101>> \* 'Content-Type'
H_CL == <<67, 111, 110, 116, 101, 110, 116, 45, 76, 101, 110, 103, 116, 104>> \* 'Content-Length'
H_ALLOW == <<65, 108, 108, 111, 119>>                        \* 'Allow'
H_CR == <<67, 111, 110, 116, 101, 110, 116, 45, 82, 97, 110, 103, 101>> \* 'Content-Range'
H_WWW == <<87, 87, 87, 45, 65, 117, 116, 104, 101, 110, 116, 105, 99, 97, 116, 101>> \* 'WWW-Authenticate'
H_RETRY == <<82, 101, 116, 114, 121, 45, 65, 102, 116, 101, 114>> \* 'Retry-After'
H_LOC == <<76, 111, 99, 97, 116, 105, 111, 110>>             \* 'Location'
V_HTML == <<116, 101, 120, 116, 47, 104, 116, 109, 108, 59, 32, 99, 104, 97, 114, 115, 101, 116, 61, 117, 116, 102, 45, 56>> \* 'text/html; charset=utf-8'
V_TEXTHTML == <<116, 101, 120, 116, 47, 104, 116, 109, 108>> \* 'text/html'
V_CHARSET == <<99, 104, 97, 114, 115, 101, 116, 61, 117, 116, 102, 45, 56>> \* 'charset=utf-8'
V_STAR == <<32, 42, 47>>                                     \* ' */'
V_COMMASP == <<44, 32>>                                      \* ', '
V_SCHEMESEP == <<58, 47, 47>>                                \* '://'
V_DOTSLASH == <<46, 47>>                                     \* './'
S_OK200 == <<50, 48, 48, 32, 79, 75>>                        \* '200 OK'
DayNames == <<<<77, 111, 110>>, <<84, 117, 101>>, <<87, 101, 100>>, <<84, 104, 117>>, <<70, 114, 105>>, <<83, 97, 116>>, <<83, 117, 110>>>>
MonNames == <<<<74, 97, 110>>, <<70, 101, 98>>, <<77, 97, 114>>, <<65, 112, 114>>, <<77, 97, 121>>, <<74, 117, 110>>, <<74, 117, 108>>, <<65, 117, 103>>, <<83, 101, 112>>, <<79, 99, 116>>, <<78, 111, 118>>, <<68, 101, 99>>>>

\* ---- markupsafe.escape: "Replace the characters &, <, >, ', and " in the string with HTML-safe sequences." ----
EscC(c) == CASE c = 38 -> E_AMP [] c = 60 -> E_LT [] c = 62 -> E_GT [] c = 34 -> E_QUOT [] c = 39 -> E_APOS [] OTHER -> <<c>>
\* concatenation of the members f[a..b] of a sequence of sequences, balanced (no quadratic copying)
RECURSIVE FlatRange(_, _, _)
FlatRange(f, a, b) == IF a > b THEN <<>> ELSE IF a = b THEN f[a]
                      ELSE LET m == (a + b) \div 2 IN FlatRange(f, a, m) \o FlatRange(f, m + 1, b)
Escape(s) == FlatRange([i \in 1..Len(s) |-> EscC(s[i])], 1, Len(s))
NeedsEscape(s) == \E i \in 1..Len(s) : s[i] \in {38, 60, 62, 34, 39}
BrOnly(s) == FlatRange([i \in 1..Len(s) |-> IF s[i] = LF THEN T_BR ELSE <<s[i]>>], 1, Len(s))
EscapeBr(s) == BrOnly(Escape(s))
\* the lines of a text (split at LF), by positions
LinesOf(s) == LET cut == <<0>> \o SelectSeq([i \in 1..Len(s) |-> i], LAMBDA i : s[i] = LF) \o <<Len(s) + 1>>
              IN [k \in 1..(Len(cut) - 1) |-> IF cut[k] + 1 > cut[k + 1] - 1 THEN <<>> ELSE SubSeq(s, cut[k] + 1, cut[k + 1] - 1)]
\* number of UTF-8 bytes of a text
RECURSIVE Utf8LenFrom(_, _)
Utf8LenFrom(s, i) == IF i > Len(s) THEN 0 ELSE (IF s[i] < 128 THEN 1 ELSE IF s[i] < 2048 THEN 2 ELSE IF s[i] < 65536 THEN 3 ELSE 4) + Utf8LenFrom(s, i + 1)
Utf8Len(s) == Utf8LenFrom(s, 1)

\* ---- http_date: IMF-fixdate in GMT of a civil time <<y, mo, d, h, mi, s, utc offset in seconds>> ----
IsLeap(y) == ((y % 4) = 0 /\ (y % 100) # 0) \/ (y % 400) = 0
DaysBeforeYear(y) == LET p == y - 1 IN p * 365 + p \div 4 - p \div 100 + p \div 400
MonthLen(y, m) == IF m = 2 THEN (IF IsLeap(y) THEN 29 ELSE 28) ELSE IF m \in {4, 6, 9, 11} THEN 30 ELSE 31
RECURSIVE DaysBeforeMonth(_, _)
DaysBeforeMonth(y, m) == IF m = 1 THEN 0 ELSE DaysBeforeMonth(y, m - 1) + MonthLen(y, m - 1)
Ordinal(y, m, d) == DaysBeforeYear(y) + DaysBeforeMonth(y, m) + d          \* 0001-01-01 = 1 (date.toordinal)
Instant(v) == LET secs == v[4] * 3600 + v[5] * 60 + v[6] - v[7]
                  day == Ordinal(v[1], v[2], v[3]) IN
              IF secs < 0 THEN <<day - 1, secs + 86400>> ELSE IF secs >= 86400 THEN <<day + 1, secs - 86400>> ELSE <<day, secs>>
RECURSIVE YearOf(_, _)
YearOf(n, y) == IF DaysBeforeYear(y + 1) < n THEN YearOf(n, y + 1) ELSE y
RECURSIVE MonthOf(_, _, _)
MonthOf(y, r, m) == IF r > MonthLen(y, m) THEN MonthOf(y, r - MonthLen(y, m), m + 1) ELSE <<m, r>>
Civil(n) == LET y == YearOf(n, Max2(1, n \div 366)) md == MonthOf(y, n - DaysBeforeYear(y), 1) IN <<y, md[1], md[2]>>
D2(n) == <<48 + ((n \div 10) % 10), 48 + (n % 10)>>
D4(n) == <<48 + ((n \div 1000) % 10), 48 + ((n \div 100) % 10)>> \o D2(n)
HttpDate(inst) == LET c == Civil(inst[1]) s == inst[2] IN
  DayNames[((inst[1] + 6) % 7) + 1] \o <<44, SP>> \o D2(c[3]) \o <<SP>> \o MonNames[c[2]] \o <<SP>> \o D4(c[1]) \o <<SP>>
  \o D2(s \div 3600) \o <<58>> \o D2((s \div 60) % 60) \o <<58>> \o D2(s % 60) \o <<SP, 71, 77, 84>>
DateDomain(v) == /\ Len(v) = 7 /\ v[1] \in 2..9998 /\ v[2] \in 1..12 /\ v[3] \in 1..MonthLen(v[1], v[2])
                 /\ v[4] \in 0..23 /\ v[5] \in 0..59 /\ v[6] \in 0..59 /\ v[7] > 0 - 86400 /\ v[7] < 86400

\* ---- urllib.parse.quote over text: unreserved ASCII and the safe set stay, everything else is %XX of its UTF-8 bytes ----
QuoteC(c, safe) == IF c < 128 /\ (Unreserved(c) \/ c \in safe) THEN <<c>> ELSE PctEncode(Utf8Of(c), {})
QuoteText(s, safe) == FlatRange([i \in 1..Len(s) |-> QuoteC(s[i], safe)], 1, Len(s))
SubDelims == {33, 36, 38, 39, 40, 41, 42, 43, 44, 59, 61}          \* ! $ & ' ( ) * + , ; =
=============================================================================
