CONSTANTS
  Variant = "fixed"
  Family = "abort"
  Size = "q"
INIT Init
NEXT Next
CHECK_DEADLOCK FALSE
INVARIANT ModelMeetsContract
INVARIANT RegistryLaw
INVARIANT TableLaw
INVARIANT PresenceLaw
