CONSTANTS
  Variant = "abort_drops_args"
  Family = "abort"
  Size = "q"
INIT Init
NEXT Next
CHECK_DEADLOCK FALSE
INVARIANT ModelMeetsContract
INVARIANT RegistryLaw
INVARIANT TableLaw
INVARIANT PresenceLaw
