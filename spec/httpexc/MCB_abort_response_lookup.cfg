CONSTANTS
  Variant = "abort_response_lookup"
  Family = "abort"
  Size = "m"
INIT Init
NEXT Next
CHECK_DEADLOCK FALSE
INVARIANT ModelMeetsContract
INVARIANT RegistryLaw
INVARIANT TableLaw
INVARIANT PresenceLaw
