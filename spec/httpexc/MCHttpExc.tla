------------------------------ MODULE MCHttpExc ------------------------------
(* Bounded universes for X08.  The tables are decision tables (depth 1): a seed state per class / redirect group /  *)
(* first path byte / aborter, whose successors are the cases; the invariants check the implementation-shaped MODEL  *)
(* of HttpExc.tla against the CONTRACT, clause by clause, and the internal laws of the tables.  Family selects the   *)
(* table (render | redirect | slash | abort | all), Size its depth (t thorough | q quick | m the cut-down tables    *)
(* the broken variants are run on).  MCQ_* / MCT_* check, MCX_* / MCXT_* print every case for replay on the real    *)
(* classes, MCB_<variant> must violate an invariant.                                                                *)
EXTENDS HttpExc, TLC, Json

CONSTANTS Family, Size

VARIABLE case
vars == <<case>>
\* Size: "t" thorough tables, "q" quick tables, "m" the quick tables cut down to the classes / targets the broken variants need
Quick == Size \in {"q", "m"}
Mini == Size = "m"

\* ---- representative texts -------------------------------------------------------------------------------------
D_DEFAULT == <<84, 104, 101, 32, 100, 101, 102, 97, 117, 108, 116, 46>>          \* "The default."  (stands for the class's text)
D_HTML == <<97, 60, 98, 62, 38, 34, 39, 99>>                                     \* a<b>&"'c
D_NL == <<108, 49, 10, 108, 60, 50>>                                             \* "l1\nl<2"
D_MARK == <<60, 105, 62, 120, 60, 47, 105, 62, 10, 121>>                         \* Markup("<i>x</i>\ny")
D_UNI == <<233, 9731, 128512>>                                                   \* "é☃😀"
D_INT == <<49, 50, 51>>                                                          \* 123
M_GET == <<71, 69, 84>>
M_HEAD == <<72, 69, 65, 68>>
U_BYTES == <<98, 121, 116, 101, 115>>
U_ITEMS == <<105, 116, 101, 109, 115>>
W_BASIC == <<66, 97, 115, 105, 99, 32, 114, 101, 97, 108, 109, 61, 34, 120, 34>>           \* Basic realm="x"
W_DIGEST == <<68, 105, 103, 101, 115, 116, 32, 114, 101, 97, 108, 109, 61, 34, 120, 34, 44, 32, 110, 111, 110, 99, 101, 61, 34, 110, 34>>
K_REPR == <<39, 116, 60, 107, 62, 39>>                                           \* repr("t<k>") = 't<k>'

Descs == IF Quick
         THEN {[k |-> "none", v |-> <<>>], [k |-> "text", v |-> D_HTML], [k |-> "text", v |-> D_NL], [k |-> "markup", v |-> D_MARK]}
         ELSE {[k |-> "none", v |-> <<>>], [k |-> "text", v |-> D_HTML], [k |-> "text", v |-> D_NL], [k |-> "markup", v |-> D_MARK],
               [k |-> "text", v |-> D_UNI], [k |-> "int", v |-> D_INT], [k |-> "text", v |-> <<>>]}
ViaMethod == IF Quick THEN {<<"none", "GET">>, <<"environ", "HEAD">>, <<"request", "POST">>, <<"call", "GET">>, <<"call", "HEAD">>}
             ELSE {"none", "environ", "request", "call"} \X {"GET", "HEAD", "POST"}

NoArg == [k |-> "none", vs |-> <<>>, n |-> <<>>, units |-> <<>>, dt |-> <<>>, key |-> <<>>, show |-> FALSE]
A(k) == [NoArg EXCEPT !.k = k]
Dates == IF Quick
         THEN {<<2020, 1, 4, 18, 52, 16, 0>>, <<2024, 2, 29, 23, 30, 0, 0 - 3600>>, <<2023, 1, 1, 0, 15, 0, 19800>>}
         ELSE {<<2020, 1, 4, 18, 52, 16, 0>>, <<2024, 2, 29, 23, 30, 0, 0 - 3600>>, <<2023, 1, 1, 0, 15, 0, 19800>>,
               <<1999, 12, 31, 23, 59, 59, 0 - 43200>>, <<2100, 3, 1, 0, 0, 0, 50400>>, <<2, 1, 1, 0, 0, 0, 0>>, <<9998, 12, 31, 23, 59, 59, 0>>}
ArgsOf(cls) ==
  LET kind == HdrKind(cls) IN
  IF kind = "allow" THEN {A("m_none"), A("m_list"), [A("m_list") EXCEPT !.vs = <<M_GET>>], [A("m_list") EXCEPT !.vs = <<M_GET, M_HEAD>>]}
  ELSE IF kind = "range" THEN {A("r_none")} \cup {[A("r_len") EXCEPT !.n = n, !.units = u] :
                                                  n \in {<<0>>, <<5>>, <<1, 2, 3, 4, 5, 6, 7, 8, 9, 0, 1, 2, 3>>}, u \in {U_BYTES, U_ITEMS}}
  ELSE IF kind = "www" THEN {A("w_none"), [A("w_single") EXCEPT !.vs = <<W_BASIC>>], A("w_list"), [A("w_list") EXCEPT !.vs = <<W_BASIC>>],
                             [A("w_list") EXCEPT !.vs = <<W_DIGEST, W_BASIC>>]}
  ELSE IF kind = "retry" THEN {A("t_none")} \cup {[A("t_int") EXCEPT !.n = n] : n \in {<<0>>, <<1>>, <<1, 2, 0>>, <<4, 2, 9, 4, 9, 6, 7, 2, 9, 6>>}}
                              \cup {[A("t_dt") EXCEPT !.dt = d] : d \in Dates}
  ELSE IF kind = "key" THEN {A("k_none")} \cup {[A("k_key") EXCEPT !.key = K_REPR, !.show = s] : s \in BOOLEAN}
  ELSE {NoArg}
\* classes that can be instantiated without special arguments ("_RetryAfter" has no code of its own and is not public)
RenderRows == {r \in Rows : r.cls \notin {"_RetryAfter", "RequestRedirect"}
                            /\ (Mini => r.cls \in {"HTTPException", "NotFound", "ImATeapot", "MethodNotAllowed", "RequestedRangeNotSatisfiable",
                                                  "Unauthorized", "ServiceUnavailable", "BadRequestKeyError"})}
\* a passed response= is tried once per class / way / method (description and class arguments do not matter then); Markup
\* and show_exception together are left out (the f-string of the property turns the Markup into plain text)
RowCases(r) ==
  LET args == ArgsOf(r.cls)
      first == CHOOSE a \in args : TRUE
      mk(vm, d, a, p) == [op |-> "render", cls |-> r.cls, name |-> r.name, cdesc |-> D_DEFAULT, via |-> vm[1], method |-> vm[2],
                          desc |-> d, resp |-> p, arg |-> a]
  IN {mk(vm, d, a, 0) : vm \in ViaMethod, d \in Descs, a \in {x \in args : ~(x.k = "k_key" /\ x.show)}}
     \cup {mk(vm, d, a, 0) : vm \in ViaMethod, d \in {x \in Descs : x.k # "markup"}, a \in {x \in args : x.k = "k_key" /\ x.show}}
     \cup {mk(vm, [k |-> "none", v |-> <<>>], first, 1) : vm \in ViaMethod}

\* ---- redirects ---------------------------------------------------------------------------------------------------
S_HTTP == <<104, 116, 116, 112>>
HOST == <<101, 120, 46, 99, 111, 109>>                                           \* ex.com
Paths == IF Mini THEN {<<47, 97>>, <<47, 252, 47, 9731>>, <<47, 60, 120, 62, 34, 39, 38>>} ELSE IF Quick THEN {<<47, 97>>, <<47, 252, 47, 9731>>, <<47, 97, 32, 98>>, <<47, 60, 120, 62, 34, 39, 38>>, <<47, 97, 37, 50, 48>>}
         ELSE {<<47, 97>>, <<47, 252, 47, 9731>>, <<47, 97, 32, 98>>, <<47, 60, 120, 62, 34, 39, 38>>, <<47, 97, 37, 50, 48>>,
               <<47, 128512, 94, 96, 123, 124, 125, 92>>, <<47, 33, 36, 38, 39, 40, 41, 42, 43, 44, 59, 61, 58, 64>>, <<47>>, <<>>}
Queries == {<<>>, <<120, 61, 228, 38, 121, 61, 63>>} \cup (IF Quick THEN {} ELSE {<<113, 61, 97, 32, 98>>, <<60, 62>>})   \* x=ä&y=?   q=a b   <>
Frags == {<<>>, <<102, 35, 9731>>}                                               \* f#☃
Locs == {[scheme |-> s[1], host |-> s[2], path |-> p, query |-> q, hasq |-> q # <<>>, frag |-> f, hasf |-> f # <<>>] :
         s \in {<<<<>>, <<>>>>, <<S_HTTP, HOST>>}, p \in Paths, q \in Queries, f \in Frags}
NoEnv == [script |-> <<>>, path |-> <<>>, qs |-> <<>>]
NoLoc == [scheme |-> <<>>, host |-> <<>>, path |-> <<>>, query |-> <<>>, hasq |-> FALSE, frag |-> <<>>, hasf |-> FALSE]
RVia == IF Quick THEN {<<"call", "GET">>, <<"call", "HEAD">>, <<"none", "POST">>} ELSE {"none", "environ", "call"} \X {"GET", "HEAD", "POST"}
GoodLocs == {l \in Locs : LocDomain(l)}
PlainLoc == [NoLoc EXCEPT !.path = <<47, 97>>]
RCase(f, k, l, vm, rc) == [op |-> "redirect", fn |-> f, code |-> k, loc |-> l, env |-> NoEnv, via |-> vm[1], method |-> vm[2], rcls |-> rc]
\* RequestRedirect has one code and no Response argument; redirect() returns a response (no get_response forms); a custom
\* Response class is tried with 302; quick: the other codes with one plain target only.  One seed per group.
RedirectGroups == {"rr", "r302", "r308", "rcls", "rother"}
RedirectCasesOf(g) ==
  CASE g = "rr" -> {RCase("rr", 308, l, vm, FALSE) : l \in GoodLocs, vm \in RVia}
    [] g = "r302" -> {RCase("redirect", 302, l, <<"call", m>>, FALSE) : l \in GoodLocs, m \in {"GET", "HEAD", "POST"}}
    [] g = "r308" -> {RCase("redirect", 308, l, <<"call", m>>, FALSE) : l \in GoodLocs, m \in {"GET", "HEAD", "POST"}}
    [] g = "rcls" -> {RCase("redirect", 302, l, <<"call", m>>, TRUE) : l \in GoodLocs, m \in {"GET", "HEAD"}}
    [] g = "rother" -> {RCase("redirect", k, l, <<"call", m>>, FALSE) : k \in RedirCodes \ {302, 308}, l \in (IF Quick THEN {PlainLoc} ELSE GoodLocs),
                                                                      m \in (IF Quick THEN {"GET"} ELSE {"GET", "HEAD"})}

\* ---- append_slash_redirect: every PATH_INFO of <= MaxPath bytes over an alphabet with the delimiters of a URL ------
SlashAlpha == IF Mini THEN {47, 97, 58, 63, 195, 188} ELSE IF Quick THEN {47, 97, 58, 63, 37, 195, 188, 52} ELSE {47, 97, 58, 63, 35, 37, 195, 188, 52, 49, 32, 43, 10}
MaxPath == IF Mini THEN 3 ELSE IF Quick THEN 4 ELSE 5
RECURSIVE SeqsTo(_, _)
SeqsTo(S, n) == IF n = 0 THEN {<<>>} ELSE SeqsLen(S, n) \cup SeqsTo(S, n - 1)
SCase(k, sc, p, q, m) == [op |-> "redirect", fn |-> "slash", code |-> k, loc |-> NoLoc, env |-> [script |-> sc, path |-> p, qs |-> q],
                          via |-> "call", method |-> m, rcls |-> FALSE]
Q_ONE == <<113, 61, 49, 38, 114, 61, 37, 67, 51>>                                     \* q=1&r=%C3
\* One seed per first byte x after the leading slash: the paths "/" x b of the domain (big sets are never united: set union
\* is quadratic in TLC).  Every path with the plain call and (quick: the short ones) with a query string; the short paths also
\* with another code, HEAD and a SCRIPT_NAME.
SlashPathsOf(x) == {p \in {<<47, x>> \o b : b \in SeqsTo(SlashAlpha, MaxPath - 2)} :
                    SlashDomain([script |-> <<>>, path |-> p, qs |-> <<>>])}
SlashPlain(x) == {SCase(308, <<>>, p, q, "GET") : p \in SlashPathsOf(x), q \in (IF Quick THEN {<<>>} ELSE {<<>>, Q_ONE})}
                 \cup {SCase(308, <<>>, p, Q_ONE, "GET") : p \in {y \in SlashPathsOf(x) : Quick /\ Len(y) <= 3}}
SlashShort(x) == {SCase(k, sc, p, <<>>, m) : k \in {308, 301}, sc \in {<<>>, <<47, 97, 112, 112>>}, p \in {y \in SlashPathsOf(x) : Len(y) <= 3},
                                               m \in {"GET", "HEAD"}} \ {SCase(308, <<>>, p, <<>>, "GET") : p \in SlashPathsOf(x)}

\* ---- abort ------------------------------------------------------------------------------------------------------------
RegSeq == LET codes == {p[1] : p \in Registry}
              RECURSIVE Build(_)
              Build(S) == IF S = {} THEN <<>> ELSE LET m == CHOOSE x \in S : \A y \in S : x <= y IN
                          <<[code |-> m, cls |-> RegLookup(Registry, m)]>> \o Build(S \ {m})
          IN Build(codes)
AbCodes == {p[1] : p \in Registry} \cup {0, 1, 200, 308, 402, 499, 600}
Aborters == <<[k |-> "default", map |-> <<>>], [k |-> "mapping", map |-> <<[code |-> 1, cls |-> "NotFound"]>>],
              [k |-> "extra", map |-> <<[code |-> 1, cls |-> "NotFound"]>>],
              [k |-> "extra", map |-> <<[code |-> 402, cls |-> "PaymentRequired"], [code |-> 404, cls |-> "Gone"]>>],
              [k |-> "mapping", map |-> <<>>]>>
AbortCasesOf(a) ==
  {[op |-> "abort", ab |-> a, reg |-> RegSeq, what |-> "code", code |-> k, fwd |-> f, dtext |-> IF f = "none" THEN <<>> ELSE D_HTML] :
     k \in AbCodes, f \in {"none", "pos", "kw"}}
  \cup {[op |-> "abort", ab |-> a, reg |-> RegSeq, what |-> "response", code |-> 0, fwd |-> "none", dtext |-> <<>>]}

\* Seed states whose successors are the cases: TLC's workers then share the table (all initial states are generated by one
\* thread), and no big set of cases is ever built.  Seeds: a class (render), a group (redirect), a first byte (slash), an aborter.
Fams == IF Family = "all" THEN {"render", "redirect", "slash", "abort"} ELSE {Family}
Seed(f, k) == [op |-> "seed", fam |-> f, k |-> k, x |-> 0]
Seeds == (IF "render" \in Fams THEN {Seed("render", r.cls) : r \in RenderRows} ELSE {})
         \cup (IF "redirect" \in Fams THEN {Seed("redirect", g) : g \in RedirectGroups} ELSE {})
         \cup (IF "slash" \in Fams THEN {[Seed("slash", "") EXCEPT !.x = x] : x \in SlashAlpha} ELSE {})
         \cup (IF "abort" \in Fams THEN {[Seed("abort", "") EXCEPT !.x = i] : i \in 1..Len(Aborters)} ELSE {})
Init == case \in Seeds
Next == /\ case.op = "seed"
        /\ \/ case.fam = "render" /\ case' \in RowCases(Row(case.k))
           \/ case.fam = "redirect" /\ case' \in RedirectCasesOf(case.k)
           \/ case.fam = "slash" /\ case' \in SlashPlain(case.x)
           \/ case.fam = "slash" /\ case' \in SlashShort(case.x)
           \/ case.fam = "abort" /\ case' \in AbortCasesOf(Aborters[case.x])

Model(c) == CASE c.op = "render" -> RenderModel(c) [] c.op = "redirect" -> RedirectModel(c) [] c.op = "abort" -> AbortModel(c)
Clause(c, o) == CASE c.op = "render" -> RenderClause(c, o) [] c.op = "redirect" -> RedirectClause(c, o) [] c.op = "abort" -> AbortClause(c, o)

\* ---- invariants: MODEL => CONTRACT ------------------------------------------------------------------------------------
ModelMeetsContract == case.op = "seed" \/ LET v == Clause(case, Model(case)) IN
  IF v = "ok" THEN TRUE ELSE PrintT(ToJson([failing |-> v, variant |-> Variant])) /\ FALSE
\* internal laws of the tables: code <-> class bijection on default_exceptions, documented classes registered
RegistryLaw == case.op # "" /\ RegistryClause(Registry) = "ok"
\* every class row agrees with the registry the model computes (documented code, default_exceptions[code] maps back)
TableLaw == case.op # "" /\ \A r \in Rows : StaticClause([cls |-> r.cls, code |-> r.code, doccode |-> r.code, default |-> RegLookup(Registry, r.code)]) = "ok"
\* header presence rules, stated on the model directly (they follow from the clauses; kept separate so that a broken
\* variant names the rule it breaks)
PresenceLaw == case.op = "render" /\ case.resp = 0 =>
  LET o == RenderModel(case) a == case.arg IN
  /\ (ValuesOf(o.headers, H_ALLOW) # <<>>) = (a.k = "m_list" /\ a.vs # <<>>)
  /\ (ValuesOf(o.headers, H_CR) # <<>>) = (a.k = "r_len")
  /\ Len(ValuesOf(o.headers, H_WWW)) = (IF a.k \in {"w_single", "w_list"} THEN Len(a.vs) ELSE 0)
  /\ (ValuesOf(o.headers, H_RETRY) # <<>>) = (a.k \in {"t_int", "t_dt"})
  /\ Len(ValuesOf(o.headers, H_CT)) = 1
  /\ ValuesOf(o.headers, H_LOC) = <<>>
\* non-vacuity of the universe: every clause family is exercised (checked once, on the whole table)
Covered == "render" \notin Fams \/
  LET U(cls) == RowCases(Row(cls)) IN
  /\ \E c \in U("MethodNotAllowed") : c.arg.k = "m_list" /\ Len(c.arg.vs) = 2
  /\ \E c \in U("ServiceUnavailable") : c.arg.k = "t_dt" /\ c.arg.dt[7] # 0
  /\ \E c \in U("ServiceUnavailable") : c.arg.k = "t_int" /\ c.arg.n = <<0>>
  /\ \E c \in U("BadRequestKeyError") : c.arg.k = "k_key" /\ c.arg.show
  /\ \E c \in U("NotFound") : c.resp = 1 /\ c.via = "call"
  /\ \E c \in U("NotFound") : c.method = "HEAD"
ASSUME Covered

\* ---- export -----------------------------------------------------------------------------------------------------------
Export == case.op = "seed" \/ PrintT(ToJson(case))
=============================================================================
