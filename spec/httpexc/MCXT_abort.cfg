CONSTANTS
  Variant = "fixed"
  Family = "abort"
  Size = "t"
INIT Init
NEXT Next
CHECK_DEADLOCK FALSE
INVARIANT Export
