CONSTANTS
  Variant = "fixed"
  Family = "redirect"
  Size = "q"
INIT Init
NEXT Next
CHECK_DEADLOCK FALSE
INVARIANT Export
