CONSTANTS
  Variant = "response_ignored"
  Family = "render"
  Size = "m"
INIT Init
NEXT Next
CHECK_DEADLOCK FALSE
INVARIANT ModelMeetsContract
INVARIANT RegistryLaw
INVARIANT TableLaw
INVARIANT PresenceLaw
