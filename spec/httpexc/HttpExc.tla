------------------------------- MODULE HttpExc -------------------------------
(* X08 -- werkzeug.exceptions, werkzeug.routing.RequestRedirect, werkzeug.utils.redirect and              *)
(* append_slash_redirect: an HTTPException is a WSGI application and a response factory.                  *)
(*                                                                                                        *)
(* The module has three layers.                                                                           *)
(*  1. Tables transcribed from docs/exceptions.rst and the class docstrings (class -> documented code,    *)
(*     documented status name, parent class, section of the documentation that lists it).                 *)
(*  2. The CONTRACT: clauses over observables only (status line, header list, body text, raised class,   *)
(*     identity of the returned response).  Every clause quotes the sentence it comes from.               *)
(*  3. An implementation-shaped MODEL of the code (get_headers chain, get_body template, Response        *)
(*     finalisation, _find_exceptions, Aborter.__call__, redirect, append_slash_redirect) with a          *)
(*     Variant switch for hand-broken variants.  TLC checks MODEL => CONTRACT on a bounded universe      *)
(*     (MCHttpExc.tla); the judge (HttpExcTrace.tla) evaluates the CONTRACT on recorded runs of the real *)
(*     classes (verdicts) and compares them with the MODEL (drift, never a verdict).                      *)
(*                                                                                                        *)
(* A case `c` (one JSON line, every field always present):                                                *)
(*   render  : cls, name (exc.name), cdesc (the class's default description), via (none | environ |       *)
(*             request | call), method, desc [k: none|text|markup|int, v], resp (0 = no response=,        *)
(*             else index of a response from the harness menu), arg [k, vs, n, units, dt, key, show]      *)
(*   redirect: fn (redirect | rr | slash), code, loc [scheme, host, path, query, hasq, frag, hasf],       *)
(*             env [script, path, qs] (bytes), via, method, rcls                                          *)
(*   abort   : ab [k: default|mapping|extra, map], reg (default_exceptions as [code, cls] list), what     *)
(*             (code | response), code, fwd (none|pos|kw), dtext                                          *)
(* The observed outcome `o`: exc, status, headers <<[n, v]>>, body (code points of the UTF-8 decoded      *)
(* body), blen (bytes), glen (bytes of the body of the same case under GET), utf8, same (get_response     *)
(* returned the very object passed as response=), sig / sig2 (digest of status+headers+body of the first  *)
(* and of a second rendering), twin (digest of the passed response rendered directly), isrcls;            *)
(* abort: raised, dtext, same, sig, twin.                                                                 *)
EXTENDS Naturals, Sequences, FiniteSets, Bytes, Text, HttpExcText

CONSTANT Variant      \* "fixed" = the code as documented; anything else = a hand-broken variant of the MODEL

\* ============================== 1. tables ===================================================================
\* docs/exceptions.rst "Error Classes: The following error classes exist in Werkzeug" (sect = "error"), "Special HTTP
\* Exceptions" (special), "Baseclass" (base), docs/routing.rst RequestRedirect (routing), "Custom Errors" example
\* `class PaymentRequired(HTTPException): code = 402` (custom); classes of the module that the documentation does not list:
\* internal.  code / name: first line of the class docstring, e.g. "*404* `Not Found`".  own = the class states its own code.
Table == <<
  [cls |-> "HTTPException", code |-> 0, own |-> TRUE, parent |-> "", sect |-> "base",
   name |-> <<85, 110, 107, 110, 111, 119, 110, 32, 69, 114, 114, 111, 114>>],    \* Unknown Error
  [cls |-> "BadRequest", code |-> 400, own |-> TRUE, parent |-> "HTTPException", sect |-> "error",
   name |-> <<66, 97, 100, 32, 82, 101, 113, 117, 101, 115, 116>>],    \* Bad Request
  [cls |-> "BadRequestKeyError", code |-> 400, own |-> FALSE, parent |-> "BadRequest", sect |-> "special",
   name |-> <<66, 97, 100, 32, 82, 101, 113, 117, 101, 115, 116>>],    \* Bad Request
  [cls |-> "ClientDisconnected", code |-> 400, own |-> FALSE, parent |-> "BadRequest", sect |-> "error",
   name |-> <<66, 97, 100, 32, 82, 101, 113, 117, 101, 115, 116>>],    \* Bad Request
  [cls |-> "SecurityError", code |-> 400, own |-> FALSE, parent |-> "BadRequest", sect |-> "error",
   name |-> <<66, 97, 100, 32, 82, 101, 113, 117, 101, 115, 116>>],    \* Bad Request
  [cls |-> "BadHost", code |-> 400, own |-> FALSE, parent |-> "BadRequest", sect |-> "internal",
   name |-> <<66, 97, 100, 32, 82, 101, 113, 117, 101, 115, 116>>],    \* Bad Request
  [cls |-> "Unauthorized", code |-> 401, own |-> TRUE, parent |-> "HTTPException", sect |-> "error",
   name |-> <<85, 110, 97, 117, 116, 104, 111, 114, 105, 122, 101, 100>>],    \* Unauthorized
  [cls |-> "Forbidden", code |-> 403, own |-> TRUE, parent |-> "HTTPException", sect |-> "error",
   name |-> <<70, 111, 114, 98, 105, 100, 100, 101, 110>>],    \* Forbidden
  [cls |-> "NotFound", code |-> 404, own |-> TRUE, parent |-> "HTTPException", sect |-> "error",
   name |-> <<78, 111, 116, 32, 70, 111, 117, 110, 100>>],    \* Not Found
  [cls |-> "MethodNotAllowed", code |-> 405, own |-> TRUE, parent |-> "HTTPException", sect |-> "error",
   name |-> <<77, 101, 116, 104, 111, 100, 32, 78, 111, 116, 32, 65, 108, 108, 111, 119, 101, 100>>],    \* Method Not Allowed
  [cls |-> "NotAcceptable", code |-> 406, own |-> TRUE, parent |-> "HTTPException", sect |-> "error",
   name |-> <<78, 111, 116, 32, 65, 99, 99, 101, 112, 116, 97, 98, 108, 101>>],    \* Not Acceptable
  [cls |-> "RequestTimeout", code |-> 408, own |-> TRUE, parent |-> "HTTPException", sect |-> "error",
   name |-> <<82, 101, 113, 117, 101, 115, 116, 32, 84, 105, 109, 101, 111, 117, 116>>],    \* Request Timeout
  [cls |-> "Conflict", code |-> 409, own |-> TRUE, parent |-> "HTTPException", sect |-> "error",
   name |-> <<67, 111, 110, 102, 108, 105, 99, 116>>],    \* Conflict
  [cls |-> "Gone", code |-> 410, own |-> TRUE, parent |-> "HTTPException", sect |-> "error",
   name |-> <<71, 111, 110, 101>>],    \* Gone
  [cls |-> "LengthRequired", code |-> 411, own |-> TRUE, parent |-> "HTTPException", sect |-> "error",
   name |-> <<76, 101, 110, 103, 116, 104, 32, 82, 101, 113, 117, 105, 114, 101, 100>>],    \* Length Required
  [cls |-> "PreconditionFailed", code |-> 412, own |-> TRUE, parent |-> "HTTPException", sect |-> "error",
   name |-> <<80, 114, 101, 99, 111, 110, 100, 105, 116, 105, 111, 110, 32, 70, 97, 105, 108, 101, 100>>],    \* Precondition Failed
  [cls |-> "RequestEntityTooLarge", code |-> 413, own |-> TRUE, parent |-> "HTTPException", sect |-> "error",
   name |-> <<82, 101, 113, 117, 101, 115, 116, 32, 69, 110, 116, 105, 116, 121, 32, 84, 111, 111, 32, 76, 97, 114, 103, 101>>],    \* Request Entity Too Large
  [cls |-> "RequestURITooLarge", code |-> 414, own |-> TRUE, parent |-> "HTTPException", sect |-> "error",
   name |-> <<82, 101, 113, 117, 101, 115, 116, 32, 85, 82, 73, 32, 84, 111, 111, 32, 76, 97, 114, 103, 101>>],    \* Request URI Too Large
  [cls |-> "UnsupportedMediaType", code |-> 415, own |-> TRUE, parent |-> "HTTPException", sect |-> "error",
   name |-> <<85, 110, 115, 117, 112, 112, 111, 114, 116, 101, 100, 32, 77, 101, 100, 105, 97, 32, 84, 121, 112, 101>>],    \* Unsupported Media Type
  [cls |-> "RequestedRangeNotSatisfiable", code |-> 416, own |-> TRUE, parent |-> "HTTPException", sect |-> "error",
   name |-> <<82, 101, 113, 117, 101, 115, 116, 101, 100, 32, 82, 97, 110, 103, 101, 32, 78, 111, 116, 32, 83, 97, 116, 105, 115, 102, 105, 97, 98, 108, 101>>],    \* Requested Range Not Satisfiable
  [cls |-> "ExpectationFailed", code |-> 417, own |-> TRUE, parent |-> "HTTPException", sect |-> "error",
   name |-> <<69, 120, 112, 101, 99, 116, 97, 116, 105, 111, 110, 32, 70, 97, 105, 108, 101, 100>>],    \* Expectation Failed
  [cls |-> "ImATeapot", code |-> 418, own |-> TRUE, parent |-> "HTTPException", sect |-> "error",
   name |-> <<73, 39, 109, 32, 97, 32, 116, 101, 97, 112, 111, 116>>],    \* I'm a teapot
  [cls |-> "MisdirectedRequest", code |-> 421, own |-> TRUE, parent |-> "HTTPException", sect |-> "error",
   name |-> <<77, 105, 115, 100, 105, 114, 101, 99, 116, 101, 100, 32, 82, 101, 113, 117, 101, 115, 116>>],    \* Misdirected Request
  [cls |-> "UnprocessableEntity", code |-> 422, own |-> TRUE, parent |-> "HTTPException", sect |-> "error",
   name |-> <<85, 110, 112, 114, 111, 99, 101, 115, 115, 97, 98, 108, 101, 32, 69, 110, 116, 105, 116, 121>>],    \* Unprocessable Entity
  [cls |-> "Locked", code |-> 423, own |-> TRUE, parent |-> "HTTPException", sect |-> "error",
   name |-> <<76, 111, 99, 107, 101, 100>>],    \* Locked
  [cls |-> "FailedDependency", code |-> 424, own |-> TRUE, parent |-> "HTTPException", sect |-> "error",
   name |-> <<70, 97, 105, 108, 101, 100, 32, 68, 101, 112, 101, 110, 100, 101, 110, 99, 121>>],    \* Failed Dependency
  [cls |-> "PreconditionRequired", code |-> 428, own |-> TRUE, parent |-> "HTTPException", sect |-> "error",
   name |-> <<80, 114, 101, 99, 111, 110, 100, 105, 116, 105, 111, 110, 32, 82, 101, 113, 117, 105, 114, 101, 100>>],    \* Precondition Required
  [cls |-> "_RetryAfter", code |-> 0, own |-> FALSE, parent |-> "HTTPException", sect |-> "internal",
   name |-> <<85, 110, 107, 110, 111, 119, 110, 32, 69, 114, 114, 111, 114>>],    \* Unknown Error
  [cls |-> "TooManyRequests", code |-> 429, own |-> TRUE, parent |-> "_RetryAfter", sect |-> "error",
   name |-> <<84, 111, 111, 32, 77, 97, 110, 121, 32, 82, 101, 113, 117, 101, 115, 116, 115>>],    \* Too Many Requests
  [cls |-> "RequestHeaderFieldsTooLarge", code |-> 431, own |-> TRUE, parent |-> "HTTPException", sect |-> "error",
   name |-> <<82, 101, 113, 117, 101, 115, 116, 32, 72, 101, 97, 100, 101, 114, 32, 70, 105, 101, 108, 100, 115, 32, 84, 111, 111, 32, 76, 97, 114, 103, 101>>],    \* Request Header Fields Too Large
  [cls |-> "UnavailableForLegalReasons", code |-> 451, own |-> TRUE, parent |-> "HTTPException", sect |-> "error",
   name |-> <<85, 110, 97, 118, 97, 105, 108, 97, 98, 108, 101, 32, 70, 111, 114, 32, 76, 101, 103, 97, 108, 32, 82, 101, 97, 115, 111, 110, 115>>],    \* Unavailable For Legal Reasons
  [cls |-> "InternalServerError", code |-> 500, own |-> TRUE, parent |-> "HTTPException", sect |-> "error",
   name |-> <<73, 110, 116, 101, 114, 110, 97, 108, 32, 83, 101, 114, 118, 101, 114, 32, 69, 114, 114, 111, 114>>],    \* Internal Server Error
  [cls |-> "NotImplemented", code |-> 501, own |-> TRUE, parent |-> "HTTPException", sect |-> "error",
   name |-> <<78, 111, 116, 32, 73, 109, 112, 108, 101, 109, 101, 110, 116, 101, 100>>],    \* Not Implemented
  [cls |-> "BadGateway", code |-> 502, own |-> TRUE, parent |-> "HTTPException", sect |-> "error",
   name |-> <<66, 97, 100, 32, 71, 97, 116, 101, 119, 97, 121>>],    \* Bad Gateway
  [cls |-> "ServiceUnavailable", code |-> 503, own |-> TRUE, parent |-> "_RetryAfter", sect |-> "error",
   name |-> <<83, 101, 114, 118, 105, 99, 101, 32, 85, 110, 97, 118, 97, 105, 108, 97, 98, 108, 101>>],    \* Service Unavailable
  [cls |-> "GatewayTimeout", code |-> 504, own |-> TRUE, parent |-> "HTTPException", sect |-> "error",
   name |-> <<71, 97, 116, 101, 119, 97, 121, 32, 84, 105, 109, 101, 111, 117, 116>>],    \* Gateway Timeout
  [cls |-> "HTTPVersionNotSupported", code |-> 505, own |-> TRUE, parent |-> "HTTPException", sect |-> "error",
   name |-> <<72, 84, 84, 80, 32, 86, 101, 114, 115, 105, 111, 110, 32, 78, 111, 116, 32, 83, 117, 112, 112, 111, 114, 116, 101, 100>>],    \* HTTP Version Not Supported
  [cls |-> "RequestRedirect", code |-> 308, own |-> TRUE, parent |-> "HTTPException", sect |-> "routing",
   name |-> <<80, 101, 114, 109, 97, 110, 101, 110, 116, 32, 82, 101, 100, 105, 114, 101, 99, 116>>],    \* Permanent Redirect
  [cls |-> "PaymentRequired", code |-> 402, own |-> TRUE, parent |-> "HTTPException", sect |-> "custom",
   name |-> <<80, 97, 121, 109, 101, 110, 116, 32, 82, 101, 113, 117, 105, 114, 101, 100>>]    \* Payment Required
>>

RangeOf(s) == {s[i] : i \in 1..Len(s)}
Rows == RangeOf(Table)
Known(cls) == \E r \in Rows : r.cls = cls
Row(cls) == CHOOSE r \in Rows : r.cls = cls
RECURSIVE IsSub(_, _)
IsSub(a, b) == a = b \/ (Known(a) /\ Row(a).parent # "" /\ IsSub(Row(a).parent, b))
CodeOf(cls) == IF Known(cls) THEN Row(cls).code ELSE 0
\* which constructor / header family a class belongs to
HdrKind(cls) == IF IsSub(cls, "MethodNotAllowed") THEN "allow"
                ELSE IF IsSub(cls, "RequestedRangeNotSatisfiable") THEN "range"
                ELSE IF IsSub(cls, "Unauthorized") THEN "www"
                ELSE IF IsSub(cls, "_RetryAfter") THEN "retry"
                ELSE IF IsSub(cls, "BadRequestKeyError") THEN "key"
                ELSE "plain"

H(n, v) == [n |-> n, v |-> v]
ValuesOf(hs, name) == LET idx == SelectSeq([i \in 1..Len(hs) |-> i], LAMBDA i : LowerT(hs[i].n) = LowerT(name))
                      IN [k \in 1..Len(idx) |-> hs[idx[k]].v]
HasCRLF(s) == \E i \in 1..Len(s) : s[i] \in {CR, LF}
AnyCRLF(ss) == \E k \in 1..Len(ss) : HasCRLF(ss[k])

\* ============================== 2. contract ==================================================================
\* ---- 2a. the registry ------------------------------------------------------------------------------------
\* docs/exceptions.rst: "The following error classes exist in Werkzeug"; abort(): "If a status code is given, it will be
\* looked up in the list of exceptions and will raise that exception"; CHANGES 0.9.7: "Fix bug where
\* werkzeug.exceptions.abort would raise an arbitrary subclass of the expected class".
\* A registry is a set of <<code, class>>.  Documented: every listed class that states its own code is the entry of
\* its code; no code has two entries, no class two codes; an entry's class has that code and is not a mere subclass.
DocumentedRegistry == {<<r.code, r.cls>> : r \in {x \in Rows : x.own /\ x.code # 0 /\ x.sect = "error"}}
RegFunctional(reg) == \A p, q \in reg : p[1] = q[1] => p = q
RegInjective(reg) == \A p, q \in reg : p[2] = q[2] => p = q
RegDocumented(reg) == DocumentedRegistry \subseteq reg
RegPrimary(reg) == \A p \in reg : Known(p[2]) => (Row(p[2]).code = p[1] /\ Row(p[2]).own)
RegistryClause(reg) == IF ~RegFunctional(reg) \/ ~RegInjective(reg) THEN "RegistryBijection"
                       ELSE IF ~RegDocumented(reg) THEN "RegistryDocumented"
                       ELSE IF ~RegPrimary(reg) THEN "RegistrySubclass"
                       ELSE "ok"
RegSet(seq) == {<<seq[i].code, seq[i].cls>> : i \in 1..Len(seq)}
\* a class on its own: [cls, code (0 = None), doccode (number in the first docstring line, 0 = none), default (class
\* registered for its code, "" = none)]
OwnerOf(cls) == IF Row(cls).own THEN cls ELSE Row(cls).parent          \* the table has no deeper inheritance of codes
StaticClause(s) ==
  IF ~Known(s.cls) THEN "ok"
  ELSE LET r == Row(s.cls) IN
       IF s.code # r.code THEN "DocumentedCode"                       \* "*404* `Not Found`" etc.
       ELSE IF s.doccode # 0 /\ s.doccode # s.code THEN "DocumentedCode"
       ELSE IF r.code # 0 /\ r.sect \in {"error", "special", "internal"} /\ s.default # OwnerOf(s.cls) THEN "DefaultMapsBack"
       ELSE "ok"

\* ---- 2b. abort / Aborter ------------------------------------------------------------------------------------
\* Aborter: "When passed a dict of code -> exception items it can be used as callable that raises exceptions.  If the
\* first argument to the callable is an integer it will be looked up in the mapping, if it's a WSGI application it will
\* be raised in a proxy exception.  The rest of the arguments are forwarded to the exception constructor."
\* abort: "abort(404)  # 404 Not Found    abort(Response('Hello World'))"; tests: Aborter({1: NotFound})(404) is a
\* LookupError, Aborter(extra={1: NotFound}) knows 404 and 1.
AbMapping(c) == IF c.ab.k = "mapping" THEN RegSet(c.ab.map)
                ELSE LET ex == RegSet(c.ab.map) IN {p \in RegSet(c.reg) : \A q \in ex : q[1] # p[1]} \cup ex
AbortClause(c, o) ==
  IF c.what = "response"
  THEN IF o.raised # "HTTPException" THEN "AbortProxy"                \* "it will wrap it in a proxy WSGI exception and raise that"
       ELSE IF ~o.same THEN "AbortProxyResponse"                      \* get_response: "If one was passed to the exception it's returned directly."
       ELSE IF o.sig # o.twin THEN "AbortProxyRenders"
       ELSE "ok"
  ELSE LET m == {p \in AbMapping(c) : p[1] = c.code} IN
       IF m = {} THEN (IF o.raised = "LookupError" THEN "ok" ELSE "AbortUnknownCode")
       ELSE IF \A p \in m : o.raised # p[2] THEN "AbortExactClass"    \* type(e) is mapping[code], not a subclass
       ELSE IF c.fwd # "none" /\ o.dtext # c.dtext THEN "AbortForwardsArguments"
       ELSE "ok"

\* ---- 2c. rendering an exception ------------------------------------------------------------------------------
IsMarkup(c) == c.desc.k = "markup" /\ ~(c.arg.k = "k_key" /\ c.arg.show)
BaseDesc(c) == IF c.desc.k = "none" THEN c.cdesc ELSE c.desc.v
\* BadRequestKeyError.show_exception: "Show the KeyError along with the HTTP error message in the response."
DescText(c) == IF c.arg.k = "k_key" /\ c.arg.show THEN BaseDesc(c) \o T_KEYERROR \o c.arg.key ELSE BaseDesc(c)
CodeText(c) == IF CodeOf(c.cls) = 0 THEN T_NONE ELSE Dec(CodeOf(c.cls))
GoodDesc(c) == IF IsMarkup(c) THEN BrOnly(DescText(c)) ELSE EscapeBr(DescText(c))
\* the page as the code renders it when every documented rule is kept (reference for "raw text must not appear")
GoodBody(c) == T_HEAD \o T_TITLE \o CodeText(c) \o <<SP>> \o Escape(c.name) \o T_TITLE_H1 \o Escape(c.name) \o T_H1_P
               \o GoodDesc(c) \o T_P_END

\* header-bound arguments with CR / LF: Headers refuses them ("Header values must not contain newline characters");
\* for such a case the contract only demands that nothing with a newline reaches the server
Dirty(c) == AnyCRLF(c.arg.vs) \/ HasCRLF(c.arg.units)
IsToken(m) == m # <<>> /\ Trim(m) = m /\ ~HasC(m, 44) /\ ~HasCRLF(m)

\* Content-Type -- CHANGES 1.0.0: "Add charset=utf-8 to an HTTP exception response's CONTENT_TYPE header."
C_ContentType(o) == LET vs == ValuesOf(o.headers, H_CT) IN
  Len(vs) = 1 /\ IsPrefixOf(V_TEXTHTML, LowerT(vs[1])) /\ Contains(LowerT(vs[1]), V_CHARSET)
\* docs/exceptions.rst: "abort with ``400 BAD REQUEST``"; HTTPException.name: "The status name."
C_Status(c, o) == CodeOf(c.cls) = 0 \/ o.status = Dec(CodeOf(c.cls)) \o <<SP>> \o UpperT(c.name)
\* MethodNotAllowed: "The first argument for this exception should be a list of allowed methods.  Strictly speaking the
\* response would be invalid if you don't provide valid methods in the header which you can do with that list."
C_Allow(c, o) == (c.arg.k = "m_list" /\ c.arg.vs # <<>> /\ \A k \in 1..Len(c.arg.vs) : IsToken(c.arg.vs[k]))
                 => LET vs == ValuesOf(o.headers, H_ALLOW) IN Len(vs) = 1 /\ CommaItems(vs[1]) = c.arg.vs
\* RequestedRangeNotSatisfiable: "Takes an optional `Content-Range` header value based on ``length`` parameter."
\* RFC 7233 4.2: unsatisfied-range = "*/" complete-length, byte-content-range = bytes-unit SP unsatisfied-range
C_ContentRange(c, o) == (c.arg.k = "r_len" /\ IsToken(c.arg.units))
                        => ValuesOf(o.headers, H_CR) = <<c.arg.units \o V_STAR \o DigitsText(c.arg.n)>>
\* Unauthorized, 2.0: "Serialize multiple ``www_authenticate`` items into multiple ``WWW-Authenticate`` headers, rather
\* than joining them into a single value"; ":param www-authenticate: A single value, or list of values"
C_WWW(c, o) == c.arg.k \in {"w_single", "w_list"} => ValuesOf(o.headers, H_WWW) = c.arg.vs
\* 0.15.3: "If the ``www_authenticate`` argument is not set, the ``WWW-Authenticate`` header is not set."
C_WWWUnset(c, o) == c.arg.k = "w_none" => ValuesOf(o.headers, H_WWW) = <<>>
\* TooManyRequests / ServiceUnavailable: ":param retry_after: If given, set the ``Retry-After`` header to this value.
\* May be an :class:`int` number of seconds or a :class:`~datetime.datetime`."  http_date: "It assumes naive datetime
\* objects are in UTC"; RFC 7231 7.1.3: Retry-After = HTTP-date / delay-seconds
C_RetryInt(c, o) == c.arg.k = "t_int" => ValuesOf(o.headers, H_RETRY) = <<DigitsText(c.arg.n)>>
C_RetryDate(c, o) == (c.arg.k = "t_dt" /\ DateDomain(c.arg.dt)) => ValuesOf(o.headers, H_RETRY) = <<HttpDate(Instant(c.arg.dt))>>
\* Response.get_wsgi_response: "if the request method in the WSGI environment is ``'HEAD'`` the response will be empty
\* and only the headers and status code will be present."
C_Head(c, o) == c.method = "HEAD" => (o.body = <<>> /\ o.blen = 0)
\* get_wsgi_headers: "Werkzeug will attempt to set the content length if it is able to figure it out on its own."
\* RFC 7230 3.3.2: the value is the number of body octets (for HEAD: of the body a GET would have had)
C_ContentLength(c, o) == LET vs == ValuesOf(o.headers, H_CL) IN
  \A k \in 1..Len(vs) : vs[k] = Dec(IF c.method = "HEAD" THEN o.glen ELSE o.blen)
\* CHANGES 2.1.2: "Response HTML for exceptions and redirects starts with ``<!doctype html>`` and ``<html lang=en>``."
C_Doctype(c, o) == c.method # "HEAD" => IsPrefixOf(T_HEAD, o.body)
\* test_response_body: f"{exc.code} {escape(exc.name)}" in body; module docstring: "trigger a standard HTTP non-200 response"
C_BodyName(c, o) == c.method # "HEAD" => Contains(o.body, CodeText(c) \o <<SP>> \o Escape(c.name))
\* docs/exceptions.rst: "You can override the default description in the constructor with the ``description`` parameter";
\* CHANGES 0.9: "The description field of HTTP exceptions is now always escaped.  Use markup objects to disable that.";
\* 2.0.1: "If ``HTTPException.description`` is not a string, ``get_description`` will convert it to a string."
\* Line by line, because what a line break becomes is not documented.
C_DescriptionShown(c, o) == c.method # "HEAD" =>
  LET ls == LinesOf(DescText(c)) IN \A k \in 1..Len(ls) : Contains(o.body, IF IsMarkup(c) THEN ls[k] ELSE Escape(ls[k]))
C_DescriptionEscaped(c, o, good) == (c.method # "HEAD" /\ ~IsMarkup(c)) =>
  LET ls == LinesOf(DescText(c)) IN
  \A k \in 1..Len(ls) : (NeedsEscape(ls[k]) /\ Contains(o.body, ls[k])) => Contains(good, ls[k])
\* BadRequestKeyError.show_exception = False: "This should be disabled in production"; CHANGES 0.15.5 "adds the KeyError
\* message to the description if e.show_exception is set to True.  This is a more secure default"
C_KeyHidden(c, o, good) == (c.method # "HEAD" /\ c.arg.k = "k_key" /\ ~c.arg.show /\ Len(c.arg.key) >= 3) =>
  (Contains(o.body, Escape(c.arg.key)) => Contains(good, Escape(c.arg.key)))
\* PEP 3333: "Application objects must be able to be invoked more than once"; the module docstring: "those exceptions are
\* callable WSGI applications" -- rendering twice gives the same response
C_Pure(c, o) == o.sig2 = o.sig

\* `good` = GoodBody(c), handed in so that it is built once per case
RenderClauseG(c, o, good) ==
  IF ~Known(c.cls) THEN "ok"
  ELSE IF o.exc # "" THEN (IF Dirty(c) /\ o.exc = "ValueError" THEN "ok" ELSE "Raised")
  ELSE IF \E k \in 1..Len(o.headers) : HasCRLF(o.headers[k].v) \/ HasCRLF(o.headers[k].n) THEN "HeaderInjection"
  ELSE IF Dirty(c) THEN "ok"
  ELSE IF c.resp # 0 THEN
       \* get_response: "Get a response object.  If one was passed to the exception it's returned directly."
       (IF c.via # "call" /\ ~o.same THEN "ResponseReturnedDirectly"
        ELSE IF o.sig # o.twin THEN "ResponseUnchanged"
        ELSE "ok")
  ELSE IF ~C_Status(c, o) THEN "StatusLine"
  ELSE IF ~C_ContentType(o) THEN "ContentType"
  ELSE IF ~C_Allow(c, o) THEN "Allow"
  ELSE IF ~C_ContentRange(c, o) THEN "ContentRange"
  ELSE IF ~C_WWW(c, o) THEN "WWWAuthenticate"
  ELSE IF ~C_WWWUnset(c, o) THEN "WWWAuthenticateUnset"
  ELSE IF ~C_RetryInt(c, o) THEN (IF c.arg.n = <<0>> THEN "RetryAfter:int-zero" ELSE "RetryAfter:int")
  ELSE IF ~C_RetryDate(c, o) THEN "RetryAfter:datetime"
  ELSE IF ~C_Head(c, o) THEN "NoBodyForHead"
  ELSE IF ~o.utf8 THEN "BodyCharset"
  ELSE IF ~C_ContentLength(c, o) THEN "ContentLength"
  ELSE IF ~C_Doctype(c, o) THEN "Doctype"
  ELSE IF ~C_BodyName(c, o) THEN "BodyName"
  ELSE IF ~C_DescriptionShown(c, o) THEN (IF c.arg.k = "k_key" /\ c.arg.show THEN "KeyErrorShown" ELSE "DescriptionShown")
  ELSE IF ~C_DescriptionEscaped(c, o, good) THEN "DescriptionEscaped"
  ELSE IF ~C_KeyHidden(c, o, good) THEN "KeyErrorHidden"
  ELSE IF ~C_Pure(c, o) THEN "Pure"
  ELSE "ok"
RenderClause(c, o) == RenderClauseG(c, o, IF Known(c.cls) /\ c.resp = 0 /\ c.method # "HEAD" THEN GoodBody(c) ELSE <<>>)

\* ---- 2d. redirects -----------------------------------------------------------------------------------------------
\* redirect(): "Supported codes are 301, 302, 303, 305, 307, and 308."
RedirCodes == {301, 302, 303, 305, 307, 308}
LocAssemble(l, path, query, frag) ==
  (IF l.scheme # <<>> THEN l.scheme \o V_SCHEMESEP \o l.host ELSE <<>>) \o path
  \o (IF l.hasq THEN <<63>> \o query ELSE <<>>) \o (IF l.hasf THEN <<35>> \o frag ELSE <<>>)
LocText(l) == LocAssemble(l, l.path, l.query, l.frag)
\* redirect(), 0.6: "The location can now be a unicode string that is encoded using the iri_to_uri function."
\* iri_to_uri: "All non-ASCII and unsafe characters are quoted."  0.15: "All reserved characters remain unquoted."
\* 2.3: "Which characters remain unquoted is specific to each part of the URL."  Safe sets: the WHATWG path-segment
\* string "as well as percent for things that are already quoted" (comment in the code), plus '?' in the query, '#' in the fragment.
SafePath == SubDelims \cup {37, 47, 58, 64}
SafeQuery == SafePath \cup {63}
SafeFrag == SafeQuery \cup {35}
LocUri(l) == LocAssemble(l, QuoteText(l.path, SafePath), QuoteText(l.query, SafeQuery), QuoteText(l.frag, SafeFrag))
\* texts for which the documentation decides the URI: no controls / edge blanks (urlsplit strips them), no brackets (reserved,
\* yet quoted by the part-specific rule), an ASCII host (no IDNA here), a relative reference whose first segment has no colon
TextOK(s) == \A i \in 1..Len(s) : IsScalar(s[i]) /\ s[i] > 32 /\ s[i] # 127 /\ s[i] \notin {91, 93}
SpacesInside(s) == \A i \in 1..Len(s) : IsScalar(s[i]) /\ (s[i] > 32 \/ (s[i] = 32 /\ i > 1 /\ i < Len(s))) /\ s[i] # 127 /\ s[i] \notin {91, 93}
HostOK(h) == h # <<>> /\ \A i \in 1..Len(h) : (h[i] >= 97 /\ h[i] <= 122) \/ IsDigitC(h[i]) \/ (h[i] \in {45, 46} /\ i > 1 /\ i < Len(h))
FirstSeg(p) == LET q == IdxOfC(p, 47) IN IF q = 0 THEN p ELSE Take(p, q - 1)
LocDomain(l) ==
  /\ SpacesInside(l.path) /\ SpacesInside(l.query) /\ SpacesInside(l.frag) /\ LocText(l) # <<>>
  /\ ~HasC(l.path, 63) /\ ~HasC(l.path, 35) /\ ~HasC(l.query, 35)
  /\ (l.hasq => l.query # <<>>) /\ (~l.hasq => l.query = <<>>) /\ (l.hasf => l.frag # <<>>) /\ (~l.hasf => l.frag = <<>>)
  /\ IF l.scheme # <<>> THEN /\ l.scheme \in {<<104, 116, 116, 112>>, <<104, 116, 116, 112, 115>>}     \* http, https
                             /\ HostOK(l.host) /\ (l.path = <<>> \/ l.path[1] = 47)
     ELSE /\ l.host = <<>> /\ ~HasC(FirstSeg(l.path), 58) /\ ~IsPrefixOf(<<47, 47>>, l.path)
          /\ (l.path # <<>> => l.path[1] # 32)
LocDirty(l) == HasCRLF(LocText(l))
GoodRedirBody(loc) == T_HEAD \o T_REDIR1 \o Escape(loc) \o T_REDIR2 \o Escape(loc) \o T_REDIR3

\* ---- relative references (RFC 3986 4.2, 5.2) for append_slash_redirect
FirstOfSet(s, S) == IF \E i \in 1..Len(s) : s[i] \in S THEN CHOOSE i \in 1..Len(s) : s[i] \in S /\ \A j \in 1..(i - 1) : s[j] \notin S ELSE 0
\* RFC 3986 4.2: "A path segment that contains a colon character (e.g., "this:that") cannot be used as the first segment
\* of a relative-path reference, as it would be mistaken for a scheme name."
SchemeEnd(s) == LET p == IdxOfC(s, 58) q == FirstOfSet(s, {47, 63, 35}) IN
  IF p > 1 /\ (q = 0 \/ p < q) /\ IsAlphaC(s[1]) /\ \A i \in 2..(p - 1) : IsAlphaC(s[i]) \/ IsDigitC(s[i]) \/ s[i] \in {43, 45, 46}
  THEN p ELSE 0
RefParts(s) == LET f == IdxOfC(s, 35)
                   nf == IF f = 0 THEN s ELSE Take(s, f - 1)
                   q == IdxOfC(nf, 63)
               IN [path |-> IF q = 0 THEN nf ELSE Take(nf, q - 1), hasq |-> q # 0, query |-> IF q = 0 THEN <<>> ELSE Drop(nf, q),
                   hasf |-> f # 0, frag |-> IF f = 0 THEN <<>> ELSE Drop(s, f)]
RECURSIVE StripDotSlash(_)
StripDotSlash(p) == IF IsPrefixOf(V_DOTSLASH, p) THEN StripDotSlash(Drop(p, 2)) ELSE p
TailOf(path) == Drop(path, LastIdxOfC(path, 47))
QsOK(q) == \A i \in 1..Len(q) : Unreserved(q[i]) \/ q[i] \in {37, 38, 43, 61}
\* append_slash_redirect: "The behavior is undefined if the path ends with a slash already."
SlashDomain(e) == e.path # <<>> /\ e.path[1] = 47 /\ e.path[Len(e.path)] # 47 /\ QsOK(e.qs)
                  /\ TailOf(e.path) \notin {<<46>>, <<46, 46>>}
TailClass(t) == IF \E i \in 1..Len(t) : t[i] >= 128 THEN "non-ascii"
                ELSE IF \E i \in 1..Len(t) : t[i] \in {63, 35, 37} THEN "reserved"
                ELSE IF HasC(t, 58) THEN "colon"
                ELSE IF \E i \in 1..Len(t) : t[i] < 32 \/ t[i] = 127 THEN "control"
                ELSE "plain"
\* append_slash_redirect: "Redirect to the current URL with a slash appended.  If the current URL is ``/user/42``, the
\* redirect URL will be ``42/``.  When joined to the current URL during response processing or by the browser, this will
\* produce ``/user/42/``."  ":param environ: Use the path and query from this WSGI environment to produce the redirect URL."
\* 2.1: "Produce a relative URL that only modifies the last segment."
\* Joining (RFC 3986 5.2.2) a reference without scheme / authority / leading slash replaces the last segment of the base
\* path by the reference's path; PATH_INFO is the percent-decoded path (PEP 3333), so the reference's last-segment must
\* percent-decode to the bytes of PATH_INFO's last segment, and its query must be QUERY_STRING.
SlashOK(e, loc) ==
  LET r == RefParts(loc)
      p == StripDotSlash(r.path)
      seg == IF p = <<>> THEN <<>> ELSE Take(p, Len(p) - 1)
  IN /\ SchemeEnd(loc) = 0 /\ ~r.hasf
     /\ p # <<>> /\ p[Len(p)] = 47 /\ ~HasC(seg, 47) /\ seg \notin {<<46>>, <<46, 46>>}
     /\ \A i \in 1..Len(loc) : loc[i] > 32 /\ loc[i] < 127
     /\ PctDecode(seg) = TailOf(e.path)
     /\ r.hasq = (e.qs # <<>>) /\ r.query = e.qs

RedirectClause(c, o) ==
  LET slash == c.fn = "slash"
      loc == IF slash THEN <<>> ELSE LocText(c.loc)
      dirty == IF slash THEN FALSE ELSE LocDirty(c.loc)
      locs == ValuesOf(o.headers, H_LOC)
  IN
  IF o.exc # "" THEN (IF dirty /\ o.exc = "ValueError" THEN "ok" ELSE IF ~slash /\ ~LocDomain(c.loc) THEN "ok" ELSE IF slash THEN "SlashAppended:" \o TailClass(TailOf(c.env.path)) \o ":raised" ELSE "Raised")
  ELSE IF \E k \in 1..Len(o.headers) : HasCRLF(o.headers[k].v) \/ HasCRLF(o.headers[k].n) THEN "HeaderInjection"
  ELSE IF dirty \/ c.code \notin RedirCodes THEN "ok"
  \* RequestRedirect: "Raise if the map requests a redirect"; CHANGES 0.15: "Change RequestRedirect code from 301 to 308";
  \* append_slash_redirect 2.1: "The default status code is 308 instead of 301."; redirect: ":param code: ... defaults to 302."
  ELSE IF ~IsPrefixOf(Dec(c.code) \o <<SP>>, o.status) THEN "RedirectStatus"
  ELSE IF ~C_ContentType(o) THEN "ContentType"
  ELSE IF Len(locs) # 1 THEN "Location"
  ELSE IF ~slash /\ LocDomain(c.loc) /\ locs[1] # LocUri(c.loc) THEN "Location"
  ELSE IF slash /\ SlashDomain(c.env) /\ ~SlashOK(c.env, locs[1]) THEN "SlashAppended:" \o TailClass(TailOf(c.env.path))
  ELSE IF ~C_Head(c, o) THEN "NoBodyForHead"
  ELSE IF ~o.utf8 THEN "BodyCharset"
  ELSE IF ~C_ContentLength(c, o) THEN "ContentLength"
  ELSE IF ~C_Doctype(c, o) THEN "Doctype"
  \* CHANGES 0.8.3: "Fixed an XSS problem with redirect targets coming from untrusted sources."  The page names the target.
  ELSE IF ~slash /\ c.method # "HEAD" /\ ~Contains(o.body, Escape(loc)) THEN "RedirectTargetShown"
  ELSE IF ~slash /\ c.method # "HEAD" /\ NeedsEscape(loc) /\ Contains(o.body, loc) /\ ~Contains(GoodRedirBody(loc), loc) THEN "RedirectTargetEscaped"
  \* redirect(), 0.10: "The class used for the Response object can now be passed in."
  ELSE IF c.rcls /\ ~o.isrcls THEN "RedirectResponseClass"
  ELSE IF ~C_Pure(c, o) THEN "Pure"
  ELSE "ok"

\* ============================== 3. implementation-shaped model ================================================
\* ---- _find_exceptions(): walk the module's classes in definition order
ModuleRows == SelectSeq(Table, LAMBDA r : r.sect \notin {"routing", "custom"})
RECURSIVE FindExc(_, _)
FindExc(rows, reg) ==
  IF rows = <<>> THEN reg
  ELSE LET r == Head(rows)
           old == {p \in reg : p[1] = r.code}
       IN IF r.code = 0 THEN FindExc(Tail(rows), reg)
          ELSE IF old # {} /\ Variant # "default_subclass" /\ \E p \in old : IsSub(r.cls, p[2]) THEN FindExc(Tail(rows), reg)
          ELSE FindExc(Tail(rows), (reg \ old) \cup {<<r.code, r.cls>>})
Registry == FindExc(ModuleRows, {})
RegLookup(reg, code) == IF \E p \in reg : p[1] = code THEN (CHOOSE p \in reg : p[1] = code)[2] ELSE ""

\* ---- Aborter.__call__
SomeSubclass(cls) == IF \E r \in Rows : r.parent = cls THEN (CHOOSE r \in Rows : r.parent = cls).cls ELSE cls
AbortModel(c) ==
  IF c.what = "response" THEN [raised |-> IF Variant = "abort_response_lookup" THEN "LookupError" ELSE "HTTPException",
                               dtext |-> <<>>, same |-> TRUE, sig |-> "r", twin |-> "r"]
  ELSE LET m == AbMapping(c) cls == RegLookup(m, c.code) IN
       IF cls = "" THEN [raised |-> "LookupError", dtext |-> <<>>, same |-> FALSE, sig |-> "", twin |-> ""]
       ELSE [raised |-> IF Variant = "abort_subclass" THEN SomeSubclass(cls) ELSE cls,
             dtext |-> IF c.fwd = "none" \/ Variant = "abort_drops_args" THEN <<>> ELSE c.dtext, same |-> FALSE, sig |-> "", twin |-> ""]

\* ---- HTTPException.get_headers / get_body / get_response / __call__ and Response finalisation
ExtraHeaders(c) ==
  LET a == c.arg kind == HdrKind(c.cls) IN
  IF kind = "allow" /\ a.k = "m_list" /\ a.vs # <<>> /\ Variant # "no_allow" THEN <<H(H_ALLOW, JoinSeqs(a.vs, V_COMMASP))>>
  ELSE IF kind = "range" /\ a.k = "r_len"
       THEN <<H(H_CR, a.units \o (IF Variant = "range_no_star" THEN <<SP>> ELSE V_STAR) \o DigitsText(a.n))>>
  ELSE IF kind = "www" /\ a.k \in {"w_single", "w_list"}
       THEN (IF Variant = "www_joined" /\ a.vs # <<>> THEN <<H(H_WWW, JoinSeqs(a.vs, V_COMMASP))>>
             ELSE [k \in 1..Len(a.vs) |-> H(H_WWW, a.vs[k])])
  ELSE IF kind = "retry" /\ a.k = "t_int"
       THEN (IF Variant = "orig_retry0" /\ a.n = <<0>> THEN <<>> ELSE <<H(H_RETRY, DigitsText(a.n))>>)
  ELSE IF kind = "retry" /\ a.k = "t_dt"
       THEN (IF Variant = "retry_dt_seconds" THEN <<H(H_RETRY, Dec(Instant(a.dt)[2]))>>
             ELSE IF Variant = "retry_dt_local" THEN <<H(H_RETRY, HttpDate(Instant([a.dt EXCEPT ![7] = 0])))>>
             ELSE <<H(H_RETRY, HttpDate(Instant(a.dt)))>>)
  ELSE <<>>
ModelDesc(c) == IF IsMarkup(c) \/ Variant = "unescaped_desc" THEN BrOnly(DescText(c)) ELSE EscapeBr(DescText(c))
ModelName(c) == IF Variant = "unescaped_name" THEN c.name ELSE Escape(c.name)
ModelBody(c) == T_HEAD \o T_TITLE \o CodeText(c) \o <<SP>> \o ModelName(c) \o T_TITLE_H1 \o ModelName(c) \o T_H1_P
                \o (IF Variant = "key_always_shown" /\ c.arg.k = "k_key" /\ ~c.arg.show
                    THEN EscapeBr(BaseDesc(c) \o T_KEYERROR \o c.arg.key) ELSE ModelDesc(c)) \o T_P_END
Finalise(status, ctype, extra, body, method, tail) ==
  LET n == Utf8Len(body)
      sent == IF method = "HEAD" /\ Variant # "head_body" THEN <<>> ELSE body
  IN [exc |-> "", status |-> status, headers |-> <<H(H_CT, ctype)>> \o extra \o <<H(H_CL, Dec(n))>> \o tail,
      body |-> sent, blen |-> IF sent = <<>> THEN 0 ELSE n, glen |-> n, utf8 |-> TRUE, same |-> FALSE,
      sig |-> "a", sig2 |-> IF Variant = "impure" THEN "b" ELSE "a", twin |-> "", isrcls |-> TRUE]
\* `page` = ModelBody(c), handed in so that the judge can build the page once (there Variant = "fixed": ModelBody = GoodBody)
RenderModelB(c, page) ==
  IF c.resp # 0 /\ Variant # "response_ignored"
  THEN [exc |-> "", status |-> <<>>, headers |-> <<>>, body |-> <<>>, blen |-> 0, glen |-> 0, utf8 |-> TRUE, same |-> TRUE,
        sig |-> "r", sig2 |-> "r", twin |-> "r", isrcls |-> TRUE]
  ELSE IF Dirty(c) THEN [Finalise(<<>>, <<>>, <<>>, <<>>, c.method, <<>>) EXCEPT !.exc = "ValueError"]
  ELSE Finalise(IF CodeOf(c.cls) = 0 THEN S_OK200 ELSE Dec(CodeOf(c.cls)) \o <<SP>> \o UpperT(c.name),
                IF Variant = "no_charset" THEN V_TEXTHTML ELSE V_HTML, ExtraHeaders(c), page, c.method, <<>>)
RenderModel(c) == RenderModelB(c, IF c.resp # 0 \/ Dirty(c) THEN <<>> ELSE ModelBody(c))

\* ---- redirect / RequestRedirect.get_response / append_slash_redirect
\* urlsplit + quote + urlunsplit on a reference without authority
IriRel(t) == LET r == RefParts(t) IN
  QuoteText(r.path, SafePath) \o (IF r.query # <<>> THEN <<63>> \o QuoteText(r.query, SafeQuery) ELSE <<>>)
  \o (IF r.frag # <<>> THEN <<35>> \o QuoteText(r.frag, SafeFrag) ELSE <<>>)
IriToUriRef(t) == LET p == SchemeEnd(t) IN IF p # 0 THEN LowerT(Take(t, p)) \o IriRel(Drop(t, p)) ELSE IriRel(t)
SegSafe == SubDelims \cup {64}
QuoteBytes(bs, safe) == PctEncode(bs, {b \in 0..127 : Unreserved(b) \/ b \in safe})
SlashLocation(e) ==
  LET tail == TailOf(e.path)
      new == IF tail = <<>> THEN V_DOTSLASH
             ELSE IF Variant = "orig_slash" THEN tail \o <<47>>                  \* the bytes read as Latin-1 text, unquoted
             ELSE QuoteBytes(tail, SegSafe) \o <<47>>
  IN new \o (IF e.qs # <<>> THEN <<63>> \o e.qs ELSE <<>>)
RedirReason(code) == CASE code = 301 -> <<77, 79, 86, 69, 68, 32, 80, 69, 82, 77, 65, 78, 69, 78, 84, 76, 89>>      \* MOVED PERMANENTLY
                       [] code = 302 -> <<70, 79, 85, 78, 68>>                                                        \* FOUND
                       [] code = 303 -> <<83, 69, 69, 32, 79, 84, 72, 69, 82>>                                        \* SEE OTHER
                       [] code = 305 -> <<85, 83, 69, 32, 80, 82, 79, 88, 89>>                                        \* USE PROXY
                       [] code = 307 -> <<84, 69, 77, 80, 79, 82, 65, 82, 89, 32, 82, 69, 68, 73, 82, 69, 67, 84>>    \* TEMPORARY REDIRECT
                       [] code = 308 -> <<80, 69, 82, 77, 65, 78, 69, 78, 84, 32, 82, 69, 68, 73, 82, 69, 67, 84>>    \* PERMANENT REDIRECT
                       [] OTHER -> <<>>
RedirectModel(c) ==
  LET slash == c.fn = "slash"
      given == IF slash THEN SlashLocation(c.env) ELSE LocText(c.loc)           \* the text handed to redirect()
      uri == IF Variant = "location_raw" THEN given
             ELSE IF slash THEN IriToUriRef(given) ELSE LocUri(c.loc)
      shown == IF Variant = "unescaped_target" THEN given ELSE Escape(given)
      body == T_HEAD \o T_REDIR1 \o shown \o T_REDIR2 \o shown \o T_REDIR3
      code == IF Variant = "redirect_301" /\ c.fn # "redirect" THEN 301 ELSE c.code
  IN IF ~slash /\ LocDirty(c.loc) THEN [Finalise(<<>>, <<>>, <<>>, <<>>, c.method, <<>>) EXCEPT !.exc = "ValueError"]
     ELSE Finalise(Dec(code) \o <<SP>> \o RedirReason(code), V_HTML, <<>>, body, c.method, <<H(H_LOC, uri)>>)
=============================================================================
