CONSTANTS
  Variant = "orig_slash"
  Family = "slash"
  Size = "m"
INIT Init
NEXT Next
CHECK_DEADLOCK FALSE
INVARIANT ModelMeetsContract
INVARIANT RegistryLaw
INVARIANT TableLaw
INVARIANT PresenceLaw
