CONSTANTS
  Variant = "fixed"
  Family = "all"
  Size = "q"
INIT Init
NEXT Next
CHECK_DEADLOCK FALSE
INVARIANT ModelMeetsContract
INVARIANT RegistryLaw
INVARIANT TableLaw
INVARIANT PresenceLaw
