CONSTANTS
  Variant = "ok"
  Scenarios <- ScQ
  Sizes <- SizesT
  MaxOps = 5
INIT Init
NEXT Next
VIEW ViewNoHist
INVARIANT Contract
INVARIANT Partition
INVARIANT ReplayOnlyUndocumented
INVARIANT CachesAgree
INVARIANT ShallowInert
