CONSTANTS
  Variant = "nocache"
  Scenarios <- ScQ
  Sizes <- SizesQ
  MaxOps = 3
INIT Init
NEXT Next
VIEW ViewNoHist
INVARIANT Contract
INVARIANT Partition
INVARIANT ReplayOnlyUndocumented
