---------------------------- MODULE MCReqData ----------------------------
(* Bounded instances of ReqData.tla.  Bodies are concrete (harness/reqdata.py MODEL_BODIES has the  *)
(* same bytes under the same names); the parsers are symbolic: the form of body[k:] is one item      *)
(* ("F",k) -> (k), its files one upload named (k) (multipart only), its JSON value ("J",k) when k is  *)
(* in the body's jok set (the suffix starts at which the real body is a JSON document).              *)
EXTENDS ReqData

BQs    == <<97, 61, 98>>            \* a=b   : no suffix is JSON
BNum   == <<49, 50, 51>>            \* 123   : every non-empty suffix is JSON
BArr   == <<91, 49, 93>>            \* [1]   : only the whole body is JSON
BEmpty == <<>>
BMp    == <<45, 45, 98, 13, 10, 67, 111, 110, 116, 101, 110, 116, 45, 68, 105, 115, 112, 111, 115, 105, 116, 105, 111, 110, 58, 32, 102, 111, 114, 109, 45, 100, 97, 116, 97, 59, 32, 110, 97, 109, 101, 61, 34, 97, 34, 13, 10, 13, 10, 49, 13, 10, 45, 45, 98, 13, 10, 67, 111, 110, 116, 101, 110, 116, 45, 68, 105, 115, 112, 111, 115, 105, 116, 105, 111, 110, 58, 32, 102, 111, 114, 109, 45, 100, 97, 116, 97, 59, 32, 110, 97, 109, 101, 61, 34, 102, 34, 59, 32, 102, 105, 108, 101, 110, 97, 109, 101, 61, 34, 120, 34, 13, 10, 13, 10, 88, 89, 13, 10, 45, 45, 98, 45, 45, 13, 10>>

Mk(bname, body, jok, ctype, method, shallow) ==
  LET n == Len(body) IN
  [bname |-> bname, body |-> body, n |-> n, ctype |-> ctype, method |-> method, shallow |-> shallow,
   args |-> << << <<113>>, <<48>> >> >>,
   formref  |-> [k \in 1..(n + 1) |-> IF ctype \in {"urlencoded", "multipart"} THEN << << <<70, k - 1>>, <<k - 1>> >> >> ELSE <<>>],
   filesref |-> [k \in 1..(n + 1) |-> IF ctype = "multipart" THEN << [name |-> <<k - 1>>, fn |-> <<k - 1>>, data |-> <<k - 1>>, closed |-> FALSE] >> ELSE <<>>],
   jsonref  |-> [k \in 1..(n + 1) |-> [ok |-> (k - 1) \in jok, v |-> IF (k - 1) \in jok THEN <<74, k - 1>> ELSE NullText]]]

Small == {<<"qs", BQs, {}>>, <<"num", BNum, {0, 1, 2}>>, <<"arr", BArr, {0}>>}
Fam(bodies, ctypes, methods, shallows) ==
  {Mk(b[1], b[2], b[3], ct, m, sh) : b \in bodies, ct \in ctypes, m \in methods, sh \in shallows}

ScAll == Fam(Small \cup {<<"empty", BEmpty, {}>>}, {"urlencoded", "json", "other", "none"}, {"POST", "GET"}, BOOLEAN)
         \cup Fam({<<"mp", BMp, {}>>, <<"qs", BQs, {}>>}, {"multipart"}, {"POST", "GET"}, BOOLEAN)
\* quick: shallow only once per content type, GET only where values differ
ScQ == Fam(Small, {"urlencoded", "json", "other", "none"}, {"POST"}, {FALSE})
       \cup Fam({<<"mp", BMp, {}>>}, {"multipart"}, {"POST"}, {FALSE})
       \cup Fam({<<"num", BNum, {0, 1, 2}>>}, {"urlencoded", "json", "other"}, {"GET"}, {FALSE})
       \cup Fam({<<"num", BNum, {0, 1, 2}>>}, {"urlencoded", "json", "other", "none"}, {"POST"}, {TRUE})
\* export (spec -> code) instances
ScX == Fam({<<"num", BNum, {0, 1, 2}>>, <<"qs", BQs, {}>>}, {"urlencoded", "json", "other"}, {"POST"}, {FALSE})
       \cup Fam({<<"mp", BMp, {}>>}, {"multipart"}, {"POST"}, {FALSE})
       \cup Fam({<<"arr", BArr, {0}>>}, {"json", "none"}, {"GET"}, {FALSE})
       \cup Fam({<<"num", BNum, {0, 1, 2}>>}, {"urlencoded", "json"}, {"POST"}, {TRUE})
SizesQ == {1, 2, 0 - 1}
SizesT == {1, 2, 5, 0 - 1}
=============================================================================
