CONSTANTS
  Variant = "ok"
  Scenarios <- ScAll
  Sizes <- SizesQ
  MaxOps = 4
INIT Init
NEXT Next
VIEW ViewNoHist
INVARIANT Contract
INVARIANT Partition
INVARIANT ReplayOnlyUndocumented
INVARIANT CachesAgree
INVARIANT ShallowInert
