--------------------------- MODULE ReqDataTrace ---------------------------
(* Trace judge for X03.  Input: ndjson (TRACE_FILE), one TLC state per line.                       *)
(*   cfg  : [t, op = "cfg", body, n, ctype, hdr, method, shallow, args, formref, filesref, jsonref,  *)
(*           exp]     exp = the history lines ReqData.tla predicted for this scenario and call      *)
(*                    sequence (spec -> code replay), <<>> for free-running traces                  *)
(*   call : [t, i, op, n, cache, text, pfd, force, silent, via, rk, rb, rx, code, items, fl, wpos,   *)
(*           known, known_closed, same]                                                            *)
(* Verdicts come from ReqContract!Verdict only.  A call in a region the documentation leaves open   *)
(* and a difference to the model's prediction are printed as drift, never as a reject.              *)
EXTENDS ReqContract, TLC, Json, IOUtils

Lines == ndJsonDeserialize(IOEnv.TRACE_FILE)

VARIABLES l, cfg, st
vars == <<l, cfg, st>>

SameAsModel(c, ln) ==
  \/ ln.i + 1 > Len(c.exp)
  \/ LET e == c.exp[ln.i + 1] IN
     /\ e.op = ln.op /\ e.rk = ln.rk /\ e.rx = ln.rx /\ e.code = ln.code /\ e.wpos = ln.wpos
     /\ (ln.known = 0 \/ (e.known_closed = e.known) = (ln.known_closed = ln.known)) /\ e.same = ln.same     \* the model's uploads are symbolic: only "all closed"
     /\ (ln.rk \in {"bytes", "text"} => e.rb = ln.rb)
     /\ (ln.rk = "form" => ln.items = (IF ln.op = "values" THEN c.args ELSE <<>>) \o FormVal(c, e.fsrc))
     /\ (ln.rk = "files" => FileNames(ln.fl) = FileNames(FilesVal(c, e.fsrc)))
     /\ (ln.rk = "json" => ln.rb = (IF e.jsrc = None THEN NullText ELSE c.jsonref[e.jsrc + 1].v))

Init == l = 1 /\ cfg = [op |-> "none"] /\ st = St0

Next == /\ l <= Len(Lines)
        /\ LET line == Lines[l] IN
           IF line.op = "cfg"
           THEN cfg' = line /\ st' = St0
           ELSE /\ cfg' = cfg
                /\ st' = CNext(cfg, st, line)
                /\ LET v == Verdict(cfg, st, line) IN
                   IF v = "ok" THEN TRUE
                   ELSE PrintT(ToJson([reject |-> 1, t |-> line.t, i |-> line.i, clause |-> v]))
                /\ IF st.taint \/ line.op # "stream_read" \/ ~Undocumented(cfg, st, line) THEN TRUE
                   ELSE PrintT(ToJson([drift |-> 1, t |-> line.t, i |-> line.i, what |-> "cached bytes handed out again by .stream (undocumented)", op |-> line.op]))
                /\ IF SameAsModel(cfg, line) THEN TRUE
                   ELSE PrintT(ToJson([drift |-> 1, t |-> line.t, i |-> line.i, what |-> "model", op |-> line.op]))
        /\ l' = l + 1

Done == PrintT(ToJson([judged |-> Len(Lines)])) /\ TLCGet("generated") >= 0
=============================================================================
