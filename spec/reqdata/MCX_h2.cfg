CONSTANTS
  Variant = "ok"
  Scenarios <- ScX
  Sizes <- SizesQ
  MaxOps = 2
INIT Init
NEXT Next
INVARIANT ExportHist
