---------------------------- MODULE ReqContract ----------------------------
(* X03 -- the documented contract of the request-body access protocol of                       *)
(* werkzeug.wrappers.Request, as operators over one recorded call line.  Used unchanged by      *)
(*   ReqData.tla       (TLC: every behaviour of the implementation-shaped model satisfies it)    *)
(*   ReqDataTrace.tla  (TLC judges calls recorded from the real Request)                         *)
(*                                                                                               *)
(* Scenario c  : [body, n, ctype \in {"urlencoded","multipart","json","other","none"}, method,    *)
(*                shallow, args, formref, filesref, jsonref]; the three reference tables have    *)
(*                n+1 entries: entry k+1 = what a fresh Request whose whole body is body[k:]      *)
(*                yields (form items / files / [ok, v]); the protocol contract is stated relative *)
(*                to them ("the parser was fed exactly body[k:]").                               *)
(* Line ln     : [op, n, cache, text, pfd, force, silent, rk, rb, rx, code, items, fl, wpos,      *)
(*                known, known_closed, same]   (see harness/reqdata.py)                          *)
(*                wpos = bytes taken from wsgi.input so far (counting stream of the harness).     *)
(* Contract state cs: what the documentation lets a reader expect after the calls so far.        *)
(*                                                                                               *)
(* Every clause quotes the sentence it comes from (src/werkzeug/wrappers/request.py docstrings =  *)
(* docs/wrappers.rst autodoc; docs/request_data.rst).  What no sentence decides is not a verdict: *)
(* Undocumented(..) names those calls; the trace is then only checked against the universal      *)
(* clauses ("taint"), and differences to the implementation-shaped model are drift.              *)
EXTENDS Bytes, Integers

None  == 0 - 1          \* no data cache / empty form source / JSON slot holding None
Unset == 0 - 2          \* JSON slot not filled
NullText == <<110, 117, 108, 108>>      \* "null": how the recorder writes a None result

St0 == [taint |-> FALSE, pos |-> 0, dc |-> None, fl |-> FALSE, fk |-> None, jN |-> Unset, jS |-> Unset,
        closed |-> FALSE, sData |-> <<>>, sForm |-> <<>>, sFiles |-> <<>>, sValues |-> <<>>]

IsForm(c)  == c.ctype \in {"urlencoded", "multipart"}
IsJson(c)  == c.ctype = "json"
Suffix(c, k)   == IF k >= c.n THEN <<>> ELSE SubSeq(c.body, k + 1, c.n)
Slice(c, a, b) == IF b <= a THEN <<>> ELSE SubSeq(c.body, a + 1, b)
Ascii(b) == \A i \in 1..Len(b) : b[i] < 128
FormVal(c, k)  == IF k = None THEN <<>> ELSE c.formref[k + 1]
FilesVal(c, k) == IF k = None THEN <<>> ELSE c.filesref[k + 1]
RefRaised(c, k) == k # None /\ Len(c.formref[k + 1]) = 1 /\ c.formref[k + 1][1][1] = <<33, 101, 120, 99>>   \* "!exc": the reference itself raised
FileNames(fl)  == [i \in 1..Len(fl) |-> <<fl[i].name, fl[i].fn>>]

IsExc(ln, name) == ln.rk = "exc" /\ ln.rx = name
Raised(ln)      == ln.rk = "exc"
Took(cs, ln)    == ln.wpos - cs.pos                  \* bytes this call took from wsgi.input
BodyOps   == {"stream_read", "get_data", "data"}     \* read the body by definition
FormOps   == {"form", "files", "values"}
JsonOps   == {"json", "get_json"}
JForce(ln)  == ln.op = "get_json" /\ ln.force
JSilent(ln) == ln.op = "get_json" /\ ln.silent
JCache(ln)  == ln.op = "json" \/ ln.cache
LoadsForm(c, ln) == ln.op \in {"form", "files"} \/ (ln.op = "values" /\ c.method # "GET")
                    \/ ln.op = "data" \/ (ln.op = "get_data" /\ ln.pfd)
\* where the next read of "the data" comes from: the data cache if there is one, else the stream
Src(cs) == IF cs.dc # None THEN cs.dc ELSE cs.pos
JsonTries(c, ln) == JForce(ln) \/ IsJson(c)

---------------------------------------------------------------------------
(* Calls whose outcome no documentation sentence decides (not judged; they end the documented part  *)
(* of the history):                                                                                *)
(*  - request_data.rst: "Also you can *either* read the stream *or* call get_data()": what a direct *)
(*    stream read returns after get_data() cached the body is open (the code hands the cached bytes *)
(*    out again through a BytesIO when the form parser left them unread: get_data(); form;          *)
(*    stream.read() on a non-form content type).                                                    *)
(*  - get_json(force=True) on a form content type: "Parse :attr:`data` as JSON" (data "Will be      *)
(*    empty if the request represents form data") vs. the code parsing get_data().                  *)
(* OpenAfter: the call is judged, the state after it is open:                                       *)
(*  - get_json(cache=False) that reads the stream: "cache: Store the parsed JSON to return for       *)
(*    subsequent calls" does not say whether the *data* read for it is kept ("Parse data as JSON"    *)
(*    names the cached attribute, the code reads get_data(cache=cache)).                            *)
Undocumented(c, cs, ln) ==
  \/ ln.op = "stream_read" /\ cs.dc # None /\ ln.rb # <<>>
  \/ ln.op \in JsonOps /\ JForce(ln) /\ IsForm(c) /\ ~c.shallow
\* the call itself is decided (its result is judged), what the request holds afterwards is not
OpenAfter(c, cs, ln) ==
  ln.op \in JsonOps /\ ~JCache(ln) /\ JsonTries(c, ln) /\ cs.dc = None /\ ~c.shallow /\ cs.pos < c.n

---------------------------------------------------------------------------
(* Universal clauses: hold after any history, also an undocumented one.                            *)
Universal(c, cs, ln) ==
  LET took == Took(cs, ln)
      sl   == Slice(c, cs.pos, ln.wpos)
  IN
  (* stream: "Unlike input_stream, this stream guards against infinite streams or reading past       *)
  (*  content_length or max_content_length."                                                         *)
  IF ln.wpos > c.n \/ took < 0 THEN "NoOverRead"
  (* Request(shallow): "Makes reading from stream (and any method that would read from it) raise a   *)
  (*  RuntimeError. Useful to prevent consuming the form data in middleware, which would make it     *)
  (*  unavailable to the final application."                                                         *)
  ELSE IF c.shallow /\ ln.wpos # 0 THEN "ShallowNeverConsumes"
  ELSE IF c.shallow /\ ln.op \in BodyOps /\ ~IsExc(ln, "RuntimeError") THEN "ShallowMustRaise"
  (* stream: "This stream can only be consumed once." -- the bytes a call takes from the input go to  *)
  (*  exactly one taker: the direct reader gets exactly them; get_data()/data return exactly them     *)
  (*  unless the form parser handled them (get_data: "the return value of this method will be an      *)
  (*  empty string if the form parser handles the data"); the form parser is fed exactly them         *)
  (*  (request_data.rst: "the stream will be empty and form will contain the regular POST / PUT data"). *)
  ELSE IF took > 0 /\ ln.op = "stream_read" /\ ~(ln.rk = "bytes" /\ ln.rb = sl) THEN "TakenBytesDelivered"
  ELSE IF took > 0 /\ ln.op \in {"get_data", "data"} /\ ~Raised(ln)
          /\ ~(IF ln.rk = "text" THEN (Ascii(sl) => ln.rb = sl) ELSE ln.rb = sl)
          /\ ~(IsForm(c) /\ (ln.op = "data" \/ ln.pfd) /\ ln.rb = <<>>) THEN "TakenBytesDelivered"
  ELSE IF took > 0 /\ ln.op \in {"form", "values"} /\ ~Raised(ln)
          /\ ~(ln.items = (IF ln.op = "values" THEN c.args ELSE <<>>) \o c.formref[cs.pos + 1]) THEN "TakenBytesParsed"
  ELSE IF took > 0 /\ ln.op = "files" /\ ~Raised(ln) /\ FileNames(ln.fl) # FileNames(c.filesref[cs.pos + 1]) THEN "TakenBytesParsed"
  ELSE IF took > 0 /\ ln.op \in JsonOps /\ ln.rk = "json" /\ c.jsonref[cs.pos + 1].ok
          /\ ln.rb # c.jsonref[cs.pos + 1].v THEN "TakenBytesParsed"
  ELSE IF took > 0 /\ ln.op \in {"input_stream", "wfdp", "close"} THEN "AccessorMustNotRead"
  (* wrappers.rst: "The request object is immutable."; Request: "The data in requests object is       *)
  (*  read-only."; get_data: "By default this is cached": reading the same attribute twice gives the   *)
  (*  same value.                                                                                     *)
  ELSE IF ln.op = "data" /\ ~Raised(ln) /\ cs.sData # <<>> /\ cs.sData[1] # ln.rb THEN "StableData"
  ELSE IF ln.op = "form" /\ ~Raised(ln) /\ cs.sForm # <<>> /\ cs.sForm[1] # ln.items THEN "StableForm"
  ELSE IF ln.op = "values" /\ ~Raised(ln) /\ cs.sValues # <<>> /\ cs.sValues[1] # ln.items THEN "StableValues"
  ELSE IF ln.op = "files" /\ ~Raised(ln) /\ cs.sFiles # <<>> /\ cs.sFiles[1] # FileNames(ln.fl) THEN "StableFiles"
  (* input_stream: "The raw WSGI input stream, without any safety checks."                            *)
  ELSE IF ln.op = "input_stream" /\ ~(ln.rk = "obj" /\ ln.same) THEN "InputStreamIsWsgiInput"
  (* want_form_data_parsed: "By default this is true if a Content-Type is sent."                      *)
  ELSE IF ln.op = "wfdp" /\ ~(ln.rk = "bool" /\ ln.same = (c.ctype # "none")) THEN "WantFormDataParsed"
  (* close: "Closes associated resources of this request object.  This closes all file handles        *)
  (*  explicitly.  You can also use the request object in a with statement which will automatically   *)
  (*  close it."                                                                                      *)
  ELSE IF ln.op = "close" /\ ~(ln.rk = "none" /\ ln.known_closed = ln.known) THEN "CloseClosesFiles"
  ELSE "ok"

---------------------------------------------------------------------------
(* The documented model: expected outcome of one call in contract state cs.                         *)
TextOrBytes(ln, b) == IF ln.op = "get_data" /\ ln.text
                      THEN ln.rk = "text" /\ (Ascii(b) => ln.rb = b)     \* get_data: "If as_text is set to True the return value will be a decoded string."
                      ELSE ln.rk = "bytes" /\ ln.rb = b

DocStream(c, cs, ln) ==
  (* request_data.rst: "This one is either an empty stream (if the form data was parsed) or a limited   *)
  (*  stream with the contents of the input stream."; stream: "This stream can only be consumed once."  *)
  IF cs.dc # None THEN "ok"      \* either/or rule: only an empty result is stated; a non-empty one is Undocumented
  ELSE LET want == Slice(c, cs.pos, IF ln.n < 0 THEN c.n ELSE Min2(c.n, cs.pos + ln.n)) IN
       IF ln.rk = "bytes" /\ ln.rb = want /\ ln.wpos = cs.pos + Len(want) THEN "ok"
       ELSE IF Raised(ln) THEN "UnexpectedException" ELSE "StreamContents"

DocData(c, cs, ln) ==
  LET pfd == ln.op = "data" \/ ln.pfd IN
  IF Raised(ln) THEN "UnexpectedException"
  (* get_data: "If as_text is set to True the return value will be a decoded string."; otherwise "one bytes object" *)
  ELSE IF ln.rk # (IF ln.op = "get_data" /\ ln.text THEN "text" ELSE "bytes") THEN "AsTextDecodes"
  ELSE IF cs.dc # None THEN
       (* get_data: "By default this is cached"; "if the whole data is cached (which is the default) the   *)
       (*  form parser will used the cached data"; with parse_form_data on form data "the return value ... *)
       (*  will be an empty string if the form parser handles the data" -- both sentences apply: either.    *)
       IF TextOrBytes(ln, Suffix(c, cs.dc)) \/ (pfd /\ IsForm(c) /\ TextOrBytes(ln, <<>>)) THEN
          (IF ln.wpos = cs.pos THEN "ok" ELSE "CachedDataRereadsStream")
       ELSE "DataCached"
  ELSE IF pfd /\ IsForm(c) THEN
       (* data: "Will be empty if the request represents form data."; get_data: "To implicitly invoke form  *)
       (*  data parsing function set parse_form_data to True.  When this is done the return value of this   *)
       (*  method will be an empty string if the form parser handles the data."                             *)
       IF ~TextOrBytes(ln, <<>>) THEN "ParsedFormDataIsEmpty"
       ELSE IF ln.wpos # c.n THEN "FormEmptiesStream" ELSE "ok"
  ELSE (* get_data: "This reads the buffered incoming data from the client into one bytes object."; "Note  *)
       (*  that if the form data was already parsed this method will not return anything as form data       *)
       (*  parsing does not cache the data like this method does."; data: "The raw data read from stream."  *)
       IF ~TextOrBytes(ln, Suffix(c, cs.pos)) THEN "DataIsRestOfStream"
       ELSE IF ln.wpos # c.n THEN "DataReadsAll" ELSE "ok"

\* form / files / values
FormExpected(c, cs) == IF cs.fl THEN cs.fk ELSE IF IsForm(c) THEN Src(cs) ELSE None
DocForm(c, cs, ln) ==
  LET k == FormExpected(c, cs)
      loads == ~cs.fl /\ LoadsForm(c, ln)
  IN
  IF c.shallow THEN
     (* shallow: "(and any method that would read from it) raise a RuntimeError": a form content type    *)
     (*  would be read; for other types nothing would be read, either outcome is accepted.               *)
     IF IsExc(ln, "RuntimeError") THEN "ok"
     ELSE IF Raised(ln) THEN "UnexpectedException"
     ELSE IF IsForm(c) /\ LoadsForm(c, ln) THEN "ShallowMustRaise"
     ELSE IF ln.op = "values" /\ ln.items = c.args THEN "ok"
     ELSE IF ln.op = "form" /\ ln.items = <<>> THEN "ok"
     ELSE IF ln.op = "files" /\ ln.fl = <<>> THEN "ok" ELSE "NoFormForOtherTypes"
  ELSE IF Raised(ln) THEN (IF RefRaised(c, k) THEN "ok" ELSE "UnexpectedException")   \* FormDataParser: "silent: If set to False parsing errors will not be caught." (default True)
  (* values: "For GET requests, only args are present, not form."                                         *)
  ELSE IF ln.op = "values" /\ c.method = "GET" THEN (IF ln.items = c.args THEN "ok" ELSE "ValuesGetArgsOnly")
  (* request_data.rst "How does it Parse?": multipart: "the stream will be empty and form will contain the *)
  (*  regular POST / PUT data, files will contain the uploaded files"; urlencoded: "Then the stream will be *)
  (*  empty and form will contain the regular POST / PUT data and files will be empty."; neither: "stream  *)
  (*  points to a LimitedStream with the input data for further processing."  get_data: "if the whole data *)
  (*  is cached (which is the default) the form parser will used the cached data to parse the form data."   *)
  (*  values: "A CombinedMultiDict that combines args and form."                                           *)
  ELSE IF ln.op = "form" /\ ln.items # FormVal(c, k) THEN
       (IF cs.fl THEN "StableForm" ELSE IF ~IsForm(c) THEN "NoFormForOtherTypes" ELSE IF cs.dc # None THEN "FormFromCachedData" ELSE "FormFromStream")
  ELSE IF ln.op = "values" /\ ln.items # c.args \o FormVal(c, k) THEN "ValuesCombineArgsAndForm"
  ELSE IF ln.op = "files" /\ FileNames(ln.fl) # FileNames(FilesVal(c, k)) THEN
       (IF ~IsForm(c) THEN "NoFormForOtherTypes" ELSE IF cs.dc # None THEN "FormFromCachedData" ELSE "FormFromStream")
  ELSE IF ln.op = "files" /\ \E i \in 1..Len(ln.fl) : ~ln.fl[i].closed /\ ln.fl[i].data # FilesVal(c, k)[i].data THEN "FileContents"
  ELSE IF loads /\ IsForm(c) /\ cs.dc = None /\ ln.wpos # c.n THEN "FormEmptiesStream"
  ELSE IF loads /\ ~(IsForm(c) /\ cs.dc = None) /\ ln.wpos # cs.pos THEN "FormLeavesStream"
  ELSE "ok"

\* json / get_json
SlotOf(cs, ln) == IF JSilent(ln) THEN cs.jS ELSE cs.jN
SlotMatches(c, slot, ln) == IF slot = None THEN ln.rk = "json" /\ ln.rb = NullText
                            ELSE ln.rk = "json" /\ ln.rb = c.jsonref[slot + 1].v
DocJson(c, cs, ln) ==
  LET slot   == SlotOf(cs, ln)
      cached == JCache(ln) /\ slot # Unset            \* get_json: "cache: Store the parsed JSON to return for subsequent calls."
      k      == Src(cs)
      jr     == c.jsonref[k + 1]
  IN
  IF ~JsonTries(c, ln) THEN
     (* json: "If the request content type is not application/json, this will raise a 415 Unsupported Media  *)
     (*  Type error."; get_json: "If the mimetype does not indicate JSON (application/json, see is_json), or  *)
     (*  parsing fails, on_json_loading_failed() is called ... By default this raises a 415 Unsupported Media *)
     (*  Type resp."; "silent: Silence mimetype and parsing errors, and return None instead."; a value stored *)
     (*  by an earlier forced call may be returned instead ("cache: Store the parsed JSON to return for       *)
     (*  subsequent calls").                                                                                   *)
     IF cached /\ SlotMatches(c, slot, ln) THEN "ok"
     ELSE IF c.shallow /\ IsExc(ln, "RuntimeError") THEN "ok"
     ELSE IF JSilent(ln) THEN (IF ln.rk = "json" /\ ln.rb = NullText THEN "ok" ELSE "SilentReturnsNone")
     ELSE IF IsExc(ln, "UnsupportedMediaType") /\ ln.code = 415 THEN "ok" ELSE "NotJsonRaises415"
  ELSE IF c.shallow THEN (IF IsExc(ln, "RuntimeError") THEN "ok" ELSE "ShallowMustRaise")
  ELSE IF cached THEN (IF SlotMatches(c, slot, ln) /\ ln.wpos = cs.pos THEN "ok" ELSE "JsonCached")
  (* get_json: "Parse data as JSON."; "force: Ignore the mimetype and always try to parse JSON.";            *)
  (*  on_json_loading_failed: "The default implementation raises BadRequest."                                *)
  ELSE IF ~Raised(ln) /\ ln.wpos # (IF cs.dc = None THEN c.n ELSE cs.pos) THEN "JsonReadsData"
  ELSE IF jr.ok THEN (IF ln.rk = "json" /\ ln.rb = jr.v THEN "ok" ELSE "JsonOfData")
  ELSE IF JSilent(ln) THEN (IF ln.rk = "json" /\ ln.rb = NullText THEN "ok" ELSE "SilentReturnsNone")
  ELSE IF IsExc(ln, "BadRequest") /\ ln.code = 400 THEN "ok" ELSE "BadJsonRaises400"

Documented(c, cs, ln) ==
  CASE ln.op = "stream_read"          -> (IF c.shallow THEN "ok" ELSE DocStream(c, cs, ln))
    [] ln.op \in {"get_data", "data"} -> (IF c.shallow THEN "ok" ELSE DocData(c, cs, ln))
    [] ln.op \in FormOps              -> DocForm(c, cs, ln)
    [] ln.op \in JsonOps              -> DocJson(c, cs, ln)
    [] OTHER                          -> "ok"

Verdict(c, cs, ln) ==
  LET u == Universal(c, cs, ln) IN
  IF u # "ok" THEN u
  ELSE IF cs.taint \/ Undocumented(c, cs, ln) THEN "ok"
  ELSE Documented(c, cs, ln)

---------------------------------------------------------------------------
(* Contract state after the call (from the documented model; the wire position and the first values   *)
(* seen are taken from the recorded line).                                                             *)
CNext(c, cs, ln) ==
  LET okc    == ~Raised(ln)
      reads  == ~c.shallow
      loads  == reads /\ ~cs.fl /\ LoadsForm(c, ln) /\ ~(ln.op \in {"data", "get_data"} /\ cs.dc # None)
      jtries == reads /\ ln.op \in JsonOps /\ JsonTries(c, ln) /\ ~(JCache(ln) /\ SlotOf(cs, ln) # Unset)
      dcaches == \/ reads /\ ln.op = "data"
                 \/ reads /\ ln.op = "get_data" /\ ln.cache
                 \/ jtries /\ JCache(ln)
      k      == Src(cs)
      jok    == jtries /\ c.jsonref[k + 1].ok
  IN [taint |-> cs.taint \/ Undocumented(c, cs, ln) \/ OpenAfter(c, cs, ln),
      pos   |-> ln.wpos,
      dc    |-> IF cs.dc = None /\ dcaches
                THEN (IF loads /\ IsForm(c) THEN c.n ELSE cs.pos) ELSE cs.dc,
      fl    |-> cs.fl \/ loads,
      fk    |-> IF loads THEN (IF IsForm(c) THEN k ELSE None) ELSE cs.fk,
      jN    |-> IF jok /\ JCache(ln) THEN k ELSE cs.jN,
      jS    |-> IF jok /\ JCache(ln) THEN k
                ELSE IF jtries /\ ~jok /\ JSilent(ln) /\ JCache(ln) THEN None ELSE cs.jS,
      closed |-> cs.closed \/ ln.op = "close",
      sData   |-> IF ln.op = "data" /\ okc /\ cs.sData = <<>> THEN <<ln.rb>> ELSE cs.sData,
      sForm   |-> IF ln.op = "form" /\ okc /\ cs.sForm = <<>> THEN <<ln.items>> ELSE cs.sForm,
      sValues |-> IF ln.op = "values" /\ okc /\ cs.sValues = <<>> THEN <<ln.items>> ELSE cs.sValues,
      sFiles  |-> IF ln.op = "files" /\ okc /\ cs.sFiles = <<>> THEN <<FileNames(ln.fl)>> ELSE cs.sFiles]
=============================================================================
