CONSTANTS
  Variant = "ok"
  Scenarios <- ScX
  Sizes <- SizesQ
  MaxOps = 3
INIT Init
NEXT Next
INVARIANT ExportHist
