------------------------------ MODULE ReqData ------------------------------
(* X03 -- implementation-shaped model of the request-body access protocol of                   *)
(* werkzeug.wrappers.Request (src/werkzeug/wrappers/request.py): one action per accessor call,  *)
(* state like the code:                                                                         *)
(*   wpos            bytes taken from wsgi.input (= LimitedStream._pos)                          *)
(*   sk, sb, sp      what __dict__["stream"] is: the LimitedStream ("lim") or the BytesIO that   *)
(*                   _get_stream_for_parsing built over the cached data body[sb:] ("bio"), read  *)
(*                   up to offset sp                                                             *)
(*   cd              _cached_data (None or k: the bytes body[k:])                                *)
(*   loaded, fk      "form" in __dict__; the form / files are the parse of body[fk:] (None: empty)*)
(*   dprop           the cached_property value of .data (Unset or k)                             *)
(*   jN, jS          _cached_json[False], _cached_json[True] (Unset | None | k: JSON of body[k:]) *)
(*   fclosed, seen   close() ran over loaded files; the caller has obtained the FileStorages      *)
(*   ts, td, tf      bytes taken from wsgi.input by the direct stream reader / get_data / the     *)
(*                   form parser;  replay: a BytesIO handed cached bytes to a direct reader       *)
(* Parsers are not modelled: the form / JSON value of body[k:] is the k-th entry of the          *)
(* scenario's reference tables (symbolic, pairwise different values in the bounded model; the    *)
(* real one-shot results in recorded traces).                                                    *)
(*                                                                                               *)
(* TLC checks every history of <= MaxOps calls over Calls x Scenarios against                    *)
(* ReqContract!Verdict and the byte-accounting invariants below.  Variant "ok" = the code;        *)
(* "nocache" (get_data never stores), "form_replay" (form parsing leaves the parsed bytes         *)
(* readable on .stream again), "data_raw" (.data does not go through the form parser),            *)
(* "shallow_leak" (a shallow request parses the form) are deliberately broken and must fail.      *)
EXTENDS ReqContract, TLC, Json, SequencesExt

CONSTANTS Scenarios, Sizes, MaxOps, Variant
VARIABLES ci, s, nops, last, pst, cst, hist
vars == <<ci, s, nops, last, pst, cst, hist>>
ViewNoHist == <<ci, s, nops, last, pst, cst>>
\* the scenario is kept as an index: the records carry the reference tables (TLC evaluates ScSeq once)
ScSeq == SetToSeq(Scenarios)
c == ScSeq[ci]

S0 == [wpos |-> 0, sk |-> "lim", sb |-> 0, sp |-> 0, cd |-> None, loaded |-> FALSE, fk |-> None, dprop |-> Unset,
       jN |-> Unset, jS |-> Unset, fclosed |-> FALSE, seen |-> FALSE, ts |-> 0, td |-> 0, tf |-> 0, replay |-> FALSE]
NoLine == [op |-> "none"]

CallRec(op, n, cache, text, pfd, force, silent, via) ==
  [op |-> op, n |-> n, cache |-> cache, text |-> text, pfd |-> pfd, force |-> force, silent |-> silent, via |-> via]
Calls ==
  {CallRec("stream_read", m, TRUE, FALSE, FALSE, FALSE, FALSE, "") : m \in Sizes}
  \cup {CallRec("get_data", 0 - 1, ca, FALSE, pf, FALSE, FALSE, "") : ca \in BOOLEAN, pf \in BOOLEAN}
  \cup {CallRec("get_data", 0 - 1, TRUE, TRUE, FALSE, FALSE, FALSE, "")}
  \cup {CallRec(op, 0 - 1, TRUE, FALSE, FALSE, FALSE, FALSE, "") : op \in {"data", "form", "files", "values", "json", "input_stream", "wfdp"}}
  \cup {CallRec("get_json", 0 - 1, ca, FALSE, FALSE, fo, si, "") : ca \in BOOLEAN, fo \in BOOLEAN, si \in BOOLEAN}
  \cup {CallRec("close", 0 - 1, TRUE, FALSE, FALSE, FALSE, FALSE, via) : via \in {"close", "with"}}

\* ---- the stream object ------------------------------------------------------------------------
Abs(x) == IF x.sk = "lim" THEN x.wpos ELSE x.sb + x.sp
RS(x, m) ==                       \* self.stream.read(m)
  LET a == Abs(x)
      avail == c.n - a
      k == IF m < 0 THEN avail ELSE Min2(m, avail)
  IN [a |-> a, k |-> k, out |-> Slice(c, a, a + k),
      x2 |-> IF x.sk = "lim" THEN [x EXCEPT !.wpos = @ + k]
             ELSE [x EXCEPT !.sp = @ + k, !.replay = @ \/ k > 0]]

\* ---- _load_form_data --------------------------------------------------------------------------
Load(x) ==
  IF x.loaded THEN x
  ELSE IF c.ctype = "none" THEN [x EXCEPT !.loaded = TRUE, !.fk = None]          \* want_form_data_parsed is False
  ELSE LET fromcache == x.cd # None
           a == IF fromcache THEN x.cd ELSE Abs(x)
       IN IF IsForm(c)
          THEN IF fromcache THEN [x EXCEPT !.loaded = TRUE, !.fk = a, !.sk = "bio", !.sb = a, !.sp = c.n - a]
               ELSE IF Variant = "form_replay"
               THEN [x EXCEPT !.loaded = TRUE, !.fk = a, !.wpos = c.n, !.tf = @ + (c.n - a), !.sk = "bio", !.sb = a, !.sp = 0]
               ELSE [x EXCEPT !.loaded = TRUE, !.fk = a, !.wpos = c.n, !.tf = @ + (c.n - a)]
          ELSE IF fromcache THEN [x EXCEPT !.loaded = TRUE, !.fk = None, !.sk = "bio", !.sb = a, !.sp = 0]   \* parser returns the BytesIO unread
               ELSE [x EXCEPT !.loaded = TRUE, !.fk = None]

\* ---- get_data(cache, parse_form_data): [k: the result is body[k:], x2] ---------------------------
GetData(x, cache, pfd) ==
  IF x.cd # None THEN [k |-> x.cd, x2 |-> x]
  ELSE LET x1 == IF pfd THEN Load(x) ELSE x
           r  == RS(x1, 0 - 1)
           x2 == IF x1.sk = "lim" THEN [r.x2 EXCEPT !.td = @ + r.k] ELSE r.x2
       IN [k |-> r.a, x2 |-> IF cache /\ Variant # "nocache" THEN [x2 EXCEPT !.cd = r.a] ELSE x2]

\* ---- result lines -------------------------------------------------------------------------------
Known(x) == IF x.seen THEN Len(FilesVal(c, x.fk)) ELSE 0
L(call, rk, rb, rx, code, items, fl, same, fsrc, jsrc, x2) ==
  [op |-> call.op, n |-> call.n, cache |-> call.cache, text |-> call.text, pfd |-> call.pfd, force |-> call.force,
   silent |-> call.silent, via |-> call.via, rk |-> rk, rb |-> rb, rx |-> rx, code |-> code, items |-> items, fl |-> fl,
   wpos |-> x2.wpos, known |-> Known(x2), known_closed |-> IF x2.fclosed THEN Known(x2) ELSE 0, same |-> same,
   fsrc |-> fsrc, jsrc |-> jsrc]
Exc(call, name, code, x2)  == L(call, "exc", <<>>, name, code, <<>>, <<>>, FALSE, Unset, Unset, x2)
BytesR(call, rk, b, x2)    == L(call, rk, b, "", 0, <<>>, <<>>, FALSE, Unset, Unset, x2)
JsonR(call, k, x2)         == L(call, "json", IF k = None THEN NullText ELSE c.jsonref[k + 1].v, "", 0, <<>>, <<>>, FALSE, Unset, k, x2)
FilesOut(x2) == LET f == FilesVal(c, x2.fk) IN
  [i \in 1..Len(f) |-> [f[i] EXCEPT !.closed = x2.fclosed, !.data = IF x2.fclosed THEN <<>> ELSE @]]
Res(x2, ln) == [x2 |-> x2, ln |-> ln]

ShallowStop == c.shallow /\ Variant # "shallow_leak"

\* ---- one call -----------------------------------------------------------------------------------
JStep(x, call) ==
  LET force  == call.op = "get_json" /\ call.force
      silent == call.op = "get_json" /\ call.silent
      cache  == call.op = "json" \/ call.cache
      slot   == IF silent THEN x.jS ELSE x.jN
  IN IF cache /\ slot # Unset THEN Res(x, JsonR(call, slot, x))
     ELSE IF ~(force \/ IsJson(c)) THEN (IF silent THEN Res(x, JsonR(call, None, x)) ELSE Res(x, Exc(call, "UnsupportedMediaType", 415, x)))
     ELSE IF c.shallow THEN Res(x, Exc(call, "RuntimeError", 0, x))
     ELSE LET g  == GetData(x, cache, FALSE)
              jr == c.jsonref[g.k + 1]
          IN IF jr.ok THEN LET x2 == IF cache THEN [g.x2 EXCEPT !.jN = g.k, !.jS = g.k] ELSE g.x2 IN Res(x2, JsonR(call, g.k, x2))
             ELSE IF silent THEN LET x2 == IF cache THEN [g.x2 EXCEPT !.jS = None] ELSE g.x2 IN Res(x2, JsonR(call, None, x2))
             ELSE Res(g.x2, Exc(call, "BadRequest", 400, g.x2))

Step(x, call) ==
  CASE call.op = "stream_read" ->
         IF c.shallow THEN Res(x, Exc(call, "RuntimeError", 0, x))
         ELSE LET r == RS(x, call.n)
                  x2 == IF x.sk = "lim" THEN [r.x2 EXCEPT !.ts = @ + r.k] ELSE r.x2
              IN Res(x2, BytesR(call, "bytes", r.out, x2))
    [] call.op = "get_data" ->
         IF c.shallow THEN Res(x, Exc(call, "RuntimeError", 0, x))
         ELSE LET g == GetData(x, call.cache, call.pfd) IN
              Res(g.x2, BytesR(call, IF call.text THEN "text" ELSE "bytes", Suffix(c, g.k), g.x2))
    [] call.op = "data" ->
         IF c.shallow THEN Res(x, Exc(call, "RuntimeError", 0, x))
         ELSE IF x.dprop # Unset THEN Res(x, BytesR(call, "bytes", Suffix(c, x.dprop), x))
         ELSE LET g == GetData(x, TRUE, Variant # "data_raw")
                  x2 == [g.x2 EXCEPT !.dprop = g.k]
              IN Res(x2, BytesR(call, "bytes", Suffix(c, g.k), x2))
    [] call.op \in {"form", "files"} \/ (call.op = "values" /\ c.method # "GET") ->
         IF ShallowStop THEN Res(x, Exc(call, "RuntimeError", 0, x))
         ELSE LET x1 == Load(x)
                  x2 == IF call.op = "files" THEN [x1 EXCEPT !.seen = TRUE] ELSE x1
              IN IF call.op = "files" THEN Res(x2, L(call, "files", <<>>, "", 0, <<>>, FilesOut(x2), FALSE, x2.fk, Unset, x2))
                 ELSE Res(x2, L(call, "form", <<>>, "", 0, (IF call.op = "values" THEN c.args ELSE <<>>) \o FormVal(c, x2.fk),
                                <<>>, FALSE, x2.fk, Unset, x2))
    [] call.op = "values" -> Res(x, L(call, "form", <<>>, "", 0, c.args, <<>>, FALSE, None, Unset, x))
    [] call.op \in {"json", "get_json"} -> JStep(x, call)
    [] call.op = "input_stream" -> Res(x, L(call, "obj", <<>>, "", 0, <<>>, <<>>, TRUE, Unset, Unset, x))
    [] call.op = "wfdp" -> Res(x, L(call, "bool", <<>>, "", 0, <<>>, <<>>, c.ctype # "none", Unset, Unset, x))
    [] call.op = "close" -> LET x2 == [x EXCEPT !.fclosed = @ \/ x.loaded] IN
                            Res(x2, L(call, "none", <<>>, "", 0, <<>>, <<>>, FALSE, Unset, Unset, x2))

\* what the history keeps of a line: everything but the symbolic form / files values
HistLine(ln) == [op |-> ln.op, n |-> ln.n, cache |-> ln.cache, text |-> ln.text, pfd |-> ln.pfd, force |-> ln.force,
                 silent |-> ln.silent, via |-> ln.via, rk |-> ln.rk, rb |-> ln.rb, rx |-> ln.rx, code |-> ln.code,
                 wpos |-> ln.wpos, known |-> ln.known, known_closed |-> ln.known_closed, same |-> ln.same,
                 fsrc |-> ln.fsrc, jsrc |-> ln.jsrc]

Init == /\ ci \in 1..Len(ScSeq)
        /\ s = S0 /\ nops = 0 /\ last = NoLine /\ pst = St0 /\ cst = St0 /\ hist = <<>>

Do(call) == /\ nops < MaxOps
            /\ LET r == Step(s, call) IN
               /\ s' = r.x2 /\ last' = r.ln /\ pst' = cst /\ cst' = CNext(c, cst, r.ln)
               /\ hist' = Append(hist, HistLine(r.ln)) /\ nops' = nops + 1 /\ ci' = ci

Next == \E call \in Calls : Do(call)

----------------------------------------------------------------------------
\* the contract, on the model
Contract == last.op = "none" \/ Verdict(c, pst, last) = "ok"
\* stream: "This stream can only be consumed once": the bytes taken from wsgi.input are split between the
\* direct reader, get_data and the form parser (each call takes the next slice: a partition of the prefix)
Partition == s.ts + s.td + s.tf = s.wpos /\ s.wpos <= c.n
\* cached bytes reach a direct stream reader again only in the undocumented corner the contract names
\* (get_data() cached the body, then the form was loaded for a non-form content type)
ReplayOnlyUndocumented == s.replay => (s.cd # None /\ ~IsForm(c))
\* the contract's expectation of the caches never drifts from the code's while the history is documented
CachesAgree == cst.taint \/ c.shallow \/ (cst.dc = s.cd /\ cst.fl = s.loaded /\ (s.loaded => cst.fk = s.fk) /\ cst.jN = s.jN /\ cst.jS = s.jS)
ShallowInert == c.shallow => s = S0 \/ (s.wpos = 0 /\ s.cd = None /\ ~s.loaded)

\* spec -> code: every behaviour of MaxOps calls
ExportHist == (nops = MaxOps) => PrintT(ToJson([sc |-> [body |-> c.bname, ctype |-> c.ctype, method |-> c.method, shallow |-> c.shallow], hist |-> hist]))
=============================================================================
