CONSTANTS
  Variant = "fixed"
  Hosts <- Hosts3
  Paths <- Paths2
  Names <- Names1
  DomAttrs <- DomAll
  PathAttrs <- PathFoo
  Kinds <- KSetDel
  Codes <- CodesJar
  Locs <- LocsLocal
  Methods <- MGet
  Schemes <- SHttp
  Reads <- RNo
  Allows <- ANo
  MaxOpens = 3
  MaxResp = 2
  MaxSC = 1
  Label = TRUE
INIT Init
NEXT Next
VIEW View
ACTION_CONSTRAINT Export
