CONSTANTS
  Variant = "fixed"
  Hosts <- Hosts3
  Paths <- Paths3
  Names <- Names1
  DomAttrs <- DomAll
  PathAttrs <- PathFoo
  Kinds <- KSetDel
  Codes <- CodesLoop4
  Locs <- LocsHosts
  Methods <- MGetPost
  Schemes <- SHttp
  Reads <- RNo
  Allows <- ABoth
  MaxOpens = 2
  MaxResp = 2
  MaxSC = 1
  Label = TRUE
INIT Init
NEXT Next
VIEW View
ACTION_CONSTRAINT Export
