CONSTANTS
  Variant = "fixed"
  Hosts <- Hosts3
  Paths <- Paths2
  Names <- Names1
  DomAttrs <- DomPlain
  PathAttrs <- PathNone
  Kinds <- KSet
  Codes <- CodesAll
  Locs <- LocsAll
  Methods <- MAll
  Schemes <- SBoth
  Reads <- RBoth
  Allows <- ABoth
  MaxOpens = 1
  MaxResp = 3
  MaxSC = 1
  Label = FALSE
INIT Init
NEXT Next
VIEW View
INVARIANT KeysUnique
INVARIANT JarAgrees
INVARIANT AllRequestsOK
INVARIANT HopsBounded
INVARIANT TypeOK
INVARIANT SentOK
INVARIANT MethodBodyOK
INVARIANT HostOK
INVARIANT FollowOK
INVARIANT LoopOK
