----------------------------- MODULE ClientTrace -----------------------------
(* Trace judge for werkzeug.test.Client as a user agent (X02).  One trace = one history on one Client  *)
(* against a scripted WSGI application that logs every request it receives.  Only the CONTRACT half of *)
(* Client.tla is used: the judge keeps the contract's jar and the request the contract expects next.   *)
(*                                                                                                      *)
(* Lines (ndjson, TRACE_FILE; text = code point arrays, enum tags = ASCII strings; every field of every *)
(* line is present, unused ones hold defaults):                                                         *)
(*   t, i, op                                                                                           *)
(*   op = "init"  : allow (allow_subdomain_redirects)                                                   *)
(*        "open"  : Client.open(..) is called with request q = [m, sch, host, path, qs, body, ct, tag]  *)
(*                  and follow (follow_redirects)                                                        *)
(*        "hop"   : the application received request q with Cookie pairs `cookies` and answered         *)
(*                  r = [code, loc, scs, read] (loc = [form, sch, host, path, qs]; scs = Set-Cookie     *)
(*                  headers [name, val, dom, path, ma, exp, secure]; read = it consumed the body);      *)
(*                  mdl = what the exported TLC behaviour predicted for this hop (has = FALSE: nothing) *)
(*        "end"   : Client.open returned or raised: e = [exc, status, hist, hlens, fm, fsch, fhost,     *)
(*                  fpath, fqs] (hist = (status, Location) of response.history, hlens = len(h.history)  *)
(*                  of each entry, f* = response.request) and the jar read back with get_cookie (proj)  *)
(*        "cset" / "cdel" / "cget" : Client.set_cookie / delete_cookie / get_cookie with c = [name, val,*)
(*                  dom, path, oo, ma]; cget: found, got = [val, ho]; proj as above                     *)
(* Reject records: {"reject":1, t, i, clause, tag}; tag names the input class when the clause alone     *)
(* does not ("leading-dot-domain", "consumed-body").  Drift records: {"drift":1, t, i, what}.           *)
EXTENDS Client, TLC, Json, IOUtils

Lines == ndJsonDeserialize(IOEnv.TRACE_FILE)
VARIABLES l, jar, phase, exp, hist, reqs, origin, follow, allow, dead, last, prevread, dotkeys
vars == <<l, jar, phase, exp, hist, reqs, origin, follow, allow, dead, last, prevread, dotkeys>>
\* dotkeys = the jar keys that a Set-Cookie with a leading-dot Domain attribute addressed so far (only to label rejections)

ToSet(s) == {s[k] : k \in 1..Len(s)}
NoReq == [m |-> "", sch |-> "", host |-> <<>>, path |-> <<>>, qs |-> <<>>, body |-> <<>>, ct |-> "", tag |-> ""]
Entry(r) == [code |-> r.code, loc |-> r.loc]
Seen(h, e) == \E k \in 1..Len(h) : h[k] = e
ReqId(q, S) == [m |-> q.m, sch |-> q.sch, host |-> q.host, path |-> q.path, qs |-> q.qs, body |-> q.body, cookies |-> S]
Where(q) == [sch |-> q.sch, host |-> q.host, path |-> q.path, qs |-> q.qs]

\* a request as PEP 3333 wants it; the undocumented Location forms can make the client send others (drift), which are not compared further
WellFormed(q) == q.sch # "" /\ Len(q.path) > 0 /\ q.path[1] = SLASH

\* ---------------------------------------------------------------- a request the application received
\* phase "free": the Location had a form whose resolution no werkzeug document describes -- where it went is not judged
HopClause(r) ==
  LET s == r.q  S == ToSet(r.cookies)
      ns == NotSent(jar, s.host, s.path, S) IN
  CASE phase = "idle" -> [c |-> "UnexpectedRequest", tag |-> ""]
    [] phase = "done" -> [c |-> "FollowedNonRedirect", tag |-> ""]              \* "until a non-redirect status is returned"
    [] phase = "loop" -> [c |-> "LoopNotRaised", tag |-> ""]                    \* ClientRedirectError: "If a redirect loop is detected [...] this exception is raised"
    [] phase = "runtime" -> [c |-> "ExternalFollowed", tag |-> ""]              \* "Following external redirects is not supported." / "subdomain redirects is not enabled."
    [] OTHER ->
       IF phase # "free" /\ Where(s) # Where(exp) /\ ~(phase = "net" /\ [Where(s) EXCEPT !.sch = exp.sch] = Where(exp)) THEN [c |-> "FollowTarget", tag |-> ""]
       ELSE IF s.m # exp.m THEN [c |-> "MethodRule", tag |-> ""]
       ELSE IF s.body # exp.body \/ s.ct # exp.ct THEN [c |-> "BodyRule", tag |-> IF prevread /\ s.body = <<>> /\ exp.body # <<>> THEN "consumed-body" ELSE ""]
       ELSE IF s.tag # exp.tag THEN [c |-> "HeadersKept", tag |-> ""]
       ELSE IF ~WellFormed(s) THEN [c |-> "ok", tag |-> ""]          \* an undocumented Location form made the client send a malformed request: drift, see Next
       ELSE IF ns # {} THEN [c |-> "CookieNotSent", tag |-> IF \A c \in ns : KeyOf(c) \in dotkeys THEN "leading-dot-domain" ELSE ""]
       ELSE IF Leaked(jar, s.host, s.path, S) # {} THEN [c |-> "CookieLeaked", tag |-> IF \A p \in Leaked(jar, s.host, s.path, S) : \E k \in dotkeys : k[3] = p[1] /\ DomainMatch(s.host, k[1], FALSE) /\ PathMatch(s.path, k[2]) THEN "leading-dot-domain" ELSE ""]
       ELSE [c |-> "ok", tag |-> ""]
\* the phase after the application's answer
HopPhase(r) ==
  LET s == r.q  a == r.r  tgt == Target(a.loc, s)  rel == HostRel(tgt.host, s.host) IN
  IF ~follow \/ a.code \notin RedirectCodes THEN "done"
  ELSE IF Seen(hist, Entry(a)) THEN (IF ReqId(s, ToSet(r.cookies)) \in reqs THEN "loop" ELSE "loopmay")
  ELSE IF a.loc.form \in {"rel", "query"} THEN "free"
  ELSE IF rel = "same" THEN (IF a.loc.form = "net" THEN "net" ELSE "wait")
  ELSE IF rel = "sub" THEN (IF ~allow THEN "runtime" ELSE IF a.loc.form = "net" THEN "net" ELSE "wait")
  ELSE IF allow /\ Related(tgt.host, origin) THEN "maybe" ELSE "runtime"
HopExp(r) ==
  LET s == r.q  a == r.r  tgt == Target(a.loc, s) IN
  [m |-> NextMethod(a.code, s.m), sch |-> tgt.sch, host |-> tgt.host, path |-> tgt.path, qs |-> tgt.qs,
   body |-> NextBody(a.code, s.body), ct |-> IF KeepsBody(a.code) THEN s.ct ELSE "", tag |-> s.tag]
\* RFC 3986 5.2 for the forms werkzeug does not document (drift only)
Rfc3986Path(loc, s) == IF loc.form = "query" THEN s.path ELSE IF loc.form = "rel" THEN Take(s.path, LastSlash(s.path, Len(s.path))) \o loc.path ELSE loc.path

\* ---------------------------------------------------------------- the jar read back through Client.get_cookie
PKey(p) == <<p.dom, p.path, p.name>>
ProjClause(j, proj) ==
  LET missing == {c \in j : ~c.soft /\ ~\E p \in proj : PKey(p) = KeyOf(c) /\ p.val = c.val /\ p.ho = c.ho} IN
  IF missing # {} THEN [c |-> "JarStored", tag |-> IF \A c \in missing : KeyOf(c) \in dotkeys THEN "leading-dot-domain" ELSE ""]
  ELSE IF \E p \in proj : ~\E c \in j : KeyOf(c) = PKey(p)
       THEN [c |-> "JarGhost", tag |-> IF \A p \in {x \in proj : ~\E c \in j : KeyOf(c) = PKey(x)} : <<StripDot(p.dom), p.path, p.name>> \in dotkeys THEN "leading-dot-domain" ELSE ""]
  ELSE [c |-> "ok", tag |-> ""]

\* ---------------------------------------------------------------- Client.open returned / raised
EndClause(r) ==
  LET e == r.e  ok == [c |-> "ok", tag |-> ""] IN
  CASE phase = "done" ->
         IF e.exc # "" THEN [c |-> "RaisedUnexpected", tag |-> e.exc]
         ELSE IF e.status # last.code THEN [c |-> "FinalStatus", tag |-> ""]
         \* TestResponse.history: "A list of intermediate responses. Populated when the test request is made with follow_redirects enabled."
         ELSE IF e.hist # hist \/ e.hlens # [k \in 1..Len(hist) |-> k - 1] THEN [c |-> "HistoryChain", tag |-> ""]
         \* TestResponse.request: "A request object with the environ used to make the request that resulted in this response."
         ELSE IF WellFormed(last.q) /\ [m |-> e.fm, sch |-> e.fsch, host |-> e.fhost, path |-> e.fpath, qs |-> e.fqs] # [m |-> last.q.m, sch |-> last.q.sch, host |-> last.q.host, path |-> last.q.path, qs |-> last.q.qs]
              THEN [c |-> "ResponseRequest", tag |-> ""]
         ELSE ProjClause(jar, ToSet(r.proj))
    [] phase = "loop" -> IF e.exc = "ClientRedirectError" THEN ok ELSE [c |-> "LoopNotRaised", tag |-> e.exc]
    [] phase = "loopmay" -> IF e.exc = "ClientRedirectError" THEN ok ELSE [c |-> "FollowStopped", tag |-> e.exc]
    [] phase = "runtime" -> IF e.exc = "RuntimeError" THEN ok ELSE [c |-> "ExternalNotRefused", tag |-> e.exc]
    [] phase = "maybe" -> IF e.exc = "RuntimeError" THEN ok ELSE [c |-> "FollowStopped", tag |-> e.exc]
    [] phase \in {"wait", "net", "free"} ->
         IF e.exc = "ClientRedirectError" THEN [c |-> "LoopSpurious", tag |-> ""]     \* no (Location, status) pair was repeated
         ELSE IF e.exc = "RuntimeError" THEN [c |-> "AllowedRedirectRefused", tag |-> ""]
         ELSE IF e.exc = "" THEN [c |-> "FollowStopped", tag |-> ""] ELSE [c |-> "RaisedUnexpected", tag |-> e.exc]
    [] OTHER -> [c |-> "UnexpectedEnd", tag |-> ""]

\* ---------------------------------------------------------------- Client.set_cookie / delete_cookie / get_cookie
\* Client.set_cookie: "Set a cookie to be sent in subsequent requests. [...] The client uses domain, origin_only, and path to
\*   determine which cookies to send with a request."   Client.delete_cookie: "Delete a cookie if it exists."
\* Client.get_cookie: "Return a Cookie if it exists. Cookies are uniquely identified by (domain, path, key)."
CKey(c) == <<c.dom, c.path, c.name>>
FromClient(c) == [dom |-> c.dom, ho |-> c.oo, path |-> c.path, name |-> c.name, val |-> c.val, soft |-> FALSE, dot |-> FALSE]
GetClause(r) ==
  LET hit == {c \in jar : KeyOf(c) = CKey(r.c)} IN
  IF hit = {} THEN (IF r.found THEN [c |-> "JarGhost", tag |-> IF CKey(r.c) \in dotkeys THEN "leading-dot-domain" ELSE ""] ELSE [c |-> "ok", tag |-> ""])
  ELSE LET c == CHOOSE c \in hit : TRUE IN
       IF c.soft THEN [c |-> "ok", tag |-> ""]
       ELSE IF r.found /\ r.got.val = c.val /\ r.got.ho = c.ho THEN [c |-> "ok", tag |-> ""] ELSE [c |-> "JarStored", tag |-> IF KeyOf(c) \in dotkeys THEN "leading-dot-domain" ELSE ""]

\* ---------------------------------------------------------------- one line
PostJar(r) ==
  CASE r.op = "hop" -> Apply(jar, r.q.host, r.q.path, r.r.scs)
    [] r.op = "cset" -> IF r.c.ma = "zero" THEN Remove(jar, CKey(r.c)) ELSE Put(jar, FromClient(r.c))
    [] r.op = "cdel" -> Remove(jar, CKey(r.c))
    [] r.op = "init" -> {}
    [] OTHER -> jar
OutOfContract(r) == r.op = "hop" /\ \E k \in 1..Len(r.r.scs) : ~InContract(r.q.host, r.r.scs[k])
Verdict(r) ==
  CASE r.op = "init" -> [c |-> "ok", tag |-> ""]
    [] r.op = "open" -> IF phase = "idle" THEN [c |-> "ok", tag |-> ""] ELSE [c |-> "UnexpectedOpen", tag |-> ""]
    [] r.op = "hop" -> HopClause(r)
    [] r.op = "end" -> EndClause(r)
    [] r.op = "cget" -> IF r.e.exc # "" THEN [c |-> "RaisedUnexpected", tag |-> r.e.exc] ELSE GetClause(r)
    [] r.op \in {"cset", "cdel"} -> IF r.e.exc # "" THEN [c |-> "RaisedUnexpected", tag |-> r.e.exc] ELSE ProjClause(PostJar(r), ToSet(r.proj))
    [] OTHER -> [c |-> "UnknownOp", tag |-> ""]
\* agreement of the replayed run with the exported TLC behaviour (only asked when the contract clauses hold)
ModelClause(r) ==
  IF r.op # "hop" \/ ~r.mdl.has THEN "ok"
  ELSE IF ToSet(r.cookies) # ToSet(r.mdl.sent) THEN "ModelSent"
  ELSE LET p == HopPhase(r) o == r.mdl.out IN
       IF (o = "follow" /\ p \in {"wait", "net"}) \/ (o = "done" /\ p = "done") \/ (o = "loop" /\ p \in {"loop", "loopmay"})
          \/ (o \in {"external", "subdomain"} /\ p \in {"runtime", "maybe"}) \/ o = "" THEN "ok" ELSE "ModelOutcome"
\* what no werkzeug document states and RFC 6265 / 3986 / the obvious reading would have otherwise: reported, never a verdict
Drift(r) ==
  IF r.op = "hop" THEN
    LET s == r.q  S == ToSet(r.cookies) IN
    IF \E c \in May(jar, s.host, s.path) : c.soft /\ Pair(c) \in S THEN "ExpiredCookieSent"           \* Max-Age<0 / past Expires kept (RFC 6265 5.2.2: expired)
    ELSE IF phase = "free" /\ (s.path # Rfc3986Path(last.loc, last.q) \/ s.host # last.q.host \/ s.sch # last.q.sch) THEN "RelativeReferenceNotResolved"
    ELSE IF phase = "net" /\ s.sch # exp.sch THEN "NetworkPathSchemeLost"
    ELSE IF OutOfContract(r) THEN "ForeignDomainStored"
    ELSE ""
  ELSE IF r.op = "end" THEN
    (IF phase = "loopmay" /\ r.e.exc = "ClientRedirectError" THEN "LoopKeyedByLocationText"
     ELSE IF phase = "maybe" /\ r.e.exc = "RuntimeError" THEN "ParentRedirectRefused" ELSE "")
  ELSE ""

Init == l = 1 /\ jar = {} /\ phase = "idle" /\ exp = NoReq /\ hist = <<>> /\ reqs = {} /\ origin = <<>> /\ follow = FALSE /\ allow = FALSE /\ dead = FALSE
        /\ last = [code |-> 0, q |-> NoReq, loc |-> [form |-> "none", sch |-> "", host |-> <<>>, path |-> <<>>, qs |-> <<>>]] /\ prevread = FALSE /\ dotkeys = {}
Next ==
  /\ l <= Len(Lines)
  /\ LET r == Lines[l]
         skip == r.op # "init" /\ dead
         v == IF skip THEN [c |-> "ok", tag |-> ""] ELSE Verdict(r)
         mv == IF skip \/ v.c # "ok" THEN "ok" ELSE ModelClause(r)
         d == IF skip \/ v.c # "ok" THEN "" ELSE Drift(r)
         bad == v.c # "ok" \/ mv # "ok"
     IN /\ IF v.c = "ok" THEN TRUE ELSE PrintT(ToJson([reject |-> 1, t |-> r.t, i |-> r.i, clause |-> v.c, tag |-> v.tag]))
        /\ IF mv = "ok" THEN TRUE ELSE PrintT(ToJson([reject |-> 1, t |-> r.t, i |-> r.i, clause |-> mv, tag |-> ""]))
        /\ IF d = "" THEN TRUE ELSE PrintT(ToJson([drift |-> 1, t |-> r.t, i |-> r.i, what |-> d]))
        \* after a rejection, a Set-Cookie outside the contract or a malformed request (undocumented Location form), the rest of the trace is not judged (the jar is unknown)
        /\ dead' = IF r.op = "init" THEN FALSE ELSE (dead \/ bad \/ OutOfContract(r) \/ (r.op = "hop" /\ ~WellFormed(r.q)))
        /\ jar' = IF skip THEN jar ELSE PostJar(r)
        /\ allow' = IF r.op = "init" THEN r.allow ELSE allow
        /\ follow' = IF r.op = "open" THEN r.follow ELSE follow
        /\ origin' = IF r.op = "open" THEN r.q.host ELSE origin
        /\ phase' = CASE r.op = "init" -> "idle" [] skip -> phase [] r.op = "open" -> "wait" [] r.op = "hop" -> HopPhase(r) [] r.op = "end" -> "idle" [] OTHER -> phase
        /\ exp' = CASE skip -> exp [] r.op = "open" -> r.q [] r.op = "hop" -> HopExp(r) [] OTHER -> exp
        /\ hist' = CASE skip -> hist [] r.op \in {"open", "init"} -> <<>>
                     [] r.op = "hop" /\ follow /\ r.r.code \in RedirectCodes /\ HopPhase(r) \notin {"loop", "loopmay"} -> Append(hist, Entry(r.r))
                     [] OTHER -> hist
        /\ reqs' = CASE skip -> reqs [] r.op \in {"open", "init"} -> {} [] r.op = "hop" -> reqs \cup {ReqId(r.q, ToSet(r.cookies))} [] OTHER -> reqs
        /\ last' = IF ~skip /\ r.op = "hop" THEN [code |-> r.r.code, q |-> r.q, loc |-> r.r.loc] ELSE last
        /\ dotkeys' = IF r.op = "init" THEN {} ELSE IF skip \/ r.op # "hop" THEN dotkeys
                      ELSE dotkeys \cup {KeyOf(FromResponse(r.q.host, r.q.path, r.r.scs[k], FALSE)) : k \in {n \in 1..Len(r.r.scs) : r.r.scs[n].dom # StripDot(r.r.scs[n].dom)}}
        /\ prevread' = IF ~skip /\ r.op = "hop" THEN r.r.read ELSE prevread
  /\ l' = l + 1
Done == PrintT(ToJson([judged |-> Len(Lines)])) /\ TLCGet("generated") >= 0
=============================================================================
