CONSTANTS
  Variant = "fixed"
  Hosts <- Hosts3
  Paths <- Paths3
  Names <- Names1
  DomAttrs <- DomAll
  PathAttrs <- PathFoo
  Kinds <- KSetDel
  Codes <- CodesJar
  Locs <- LocsLocal
  Methods <- MGet
  Schemes <- SHttp
  Reads <- RNo
  Allows <- ANo
  MaxOpens = 3
  MaxResp = 3
  MaxSC = 1
INIT Init
NEXT Next
VIEW View
INVARIANT KeysUnique
INVARIANT JarAgrees
INVARIANT AllRequestsOK
INVARIANT HopsBounded
INVARIANT TypeOK
PROPERTY SentOK
PROPERTY MethodBodyOK
PROPERTY TargetOK
PROPERTY HostOK
PROPERTY FollowOK
PROPERTY LoopOK
PROPERTY HistoryOK
