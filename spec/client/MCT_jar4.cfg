CONSTANTS
  Variant = "fixed"
  Hosts <- Hosts3
  Paths <- Paths3
  Names <- Names1
  DomAttrs <- DomAll
  PathAttrs <- PathFooS
  Kinds <- KAll
  Codes <- CodesJar
  Locs <- LocsLocal
  Methods <- MGet
  Schemes <- SHttp
  Reads <- RNo
  Allows <- ANo
  MaxOpens = 4
  MaxResp = 4
  MaxSC = 1
  Label = FALSE
INIT Init
NEXT Next
VIEW View
INVARIANT KeysUnique
INVARIANT JarAgrees
INVARIANT AllRequestsOK
INVARIANT HopsBounded
INVARIANT TypeOK
INVARIANT SentOK
INVARIANT MethodBodyOK
INVARIANT HostOK
INVARIANT FollowOK
INVARIANT LoopOK
