------------------------------ MODULE MCClient ------------------------------
(* Bounded exploration of the test client as a user agent: every history of `Open` (a call of         *)
(* Client.open(.., follow_redirects=True)) and `Respond` (the application answers the request that is *)
(* under way: Set-Cookie headers, status, Location, and whether it consumed the request body) over a  *)
(* small universe of hosts, paths, cookie names, Set-Cookie shapes, status codes and Location values. *)
(*                                                                                                    *)
(* The transition relation is IMPLEMENTATION-SHAPED (Client.tla, second half: Cookie._matches_request,*)
(* _from_response_header, resolve_redirect, the loop set of Client.open); alongside, `cjar` evolves   *)
(* by the CONTRACT (Client.tla, first half).  TLC checks the contract on every transition and state:  *)
(*   SentOK        the Cookie header of every request (first or followed) = projection of the jar by  *)
(*                 the match rule, computed after the Set-Cookie headers of the redirect response     *)
(*   AllRequestsOK the same for every request of every reachable jar, not only the ones taken         *)
(*   JarAgrees     the implementation's jar is the contract's jar (keys unique, deletes delete)       *)
(*   MethodBodyOK  301/302/303/305 -> GET (HEAD stays HEAD) without body, 307/308 keep both            *)
(*   TargetOK / HostOK / FollowOK   where a followed redirect goes, and that it stays on the host or  *)
(*                 (only when allowed) goes to a subdomain                                            *)
(*   LoopOK / HopsBounded   following terminates or raises: the chain is never longer than the number *)
(*                 of distinct (Location, status) values                                              *)
(*   HistoryOK     the history chain is the sequence of redirect responses                            *)
EXTENDS Client, TLC, Json

CONSTANTS Hosts, Paths, Names, DomAttrs, PathAttrs, Kinds, Codes, Locs, Methods, Schemes, Reads, Allows, MaxOpens, MaxResp, MaxSC, Label
VARIABLES jar, cjar, phase, cur, hist, origin, allow, nopen, nresp, bad, act
vars == <<jar, cjar, phase, cur, hist, origin, allow, nopen, nresp, bad, act>>
View == <<jar, cjar, phase, cur, hist, origin, allow, nopen, nresp, bad>>

\* ---------------------------------------------------------------- the universe (code points)
H_ex == <<101,120,97,109,112,108,101,46,99,111,109>>                        \* example.com
H_sub == <<115,117,98,46,101,120,97,109,112,108,101,46,99,111,109>>         \* sub.example.com
H_evil == <<101,118,105,108,45,101,120,97,109,112,108,101,46,99,111,109>>   \* evil-example.com  (look-alike: string suffix, no label boundary)
D_dot == <<46,101,120,97,109,112,108,101,46,99,111,109>>                    \* .example.com
P_root == <<47>>                                                            \* /
P_foo == <<47,102,111,111>>                                                 \* /foo
P_foobar == <<47,102,111,111,98,97,114>>                                    \* /foobar   (look-alike: string prefix, no segment boundary)
P_foo_bar == <<47,102,111,111,47,98,97,114>>                                \* /foo/bar
P_fooS == <<47,102,111,111,47>>                                             \* /foo/
N_a == <<97>>
N_b == <<98>>
B_xy == <<120,121>>
Hosts3 == {H_ex, H_sub, H_evil}
Hosts2 == {H_ex, H_sub}
HostsEvil == {H_ex, H_evil}
Hosts1 == {H_ex}
Paths3 == {P_foo, P_foobar, P_foo_bar}
Paths2 == {P_foo, P_foobar}
Paths1 == {P_foo}
Paths4 == {P_root, P_foo, P_foobar, P_foo_bar}
Names1 == {N_a}
Names2 == {N_a, N_b}
DomNone == {<<>>}
DomPlain == {<<>>, H_ex}
DomEx == {H_ex}
DomAll == {<<>>, H_ex, D_dot}
PathNone == {<<>>}
PathFoo == {<<>>, P_foo}
PathFooS == {<<>>, P_foo, P_fooS}
KSet == {"set"}
KSetDel == {"set", "del0"}
KAll == {"set", "del0", "delepoch"}
NoLoc == [form |-> "none", sch |-> "", host |-> <<>>, path |-> <<>>, qs |-> <<>>]
LPath(p) == [form |-> "path", sch |-> "", host |-> <<>>, path |-> p, qs |-> <<>>]
LAbs(s, h, p) == [form |-> "abs", sch |-> s, host |-> h, path |-> p, qs |-> <<>>]
LocsLocal == {LPath(P_foo), LPath(P_foobar)}
LocsLocal3 == {LPath(P_foo), LPath(P_foobar), LPath(P_foo_bar)}
LocsX == {LPath(P_foobar), LAbs("http", H_sub, P_foo), LAbs("http", H_evil, P_foo)}
LocsHosts == {LPath(P_foo), LAbs("http", H_sub, P_foo), LAbs("http", H_evil, P_foo), LAbs("https", H_ex, P_foobar)}
LocsAll == {LPath(P_foo), LPath(P_foobar), LAbs("http", H_sub, P_foo), LAbs("http", H_evil, P_foo), LAbs("https", H_ex, P_foo_bar), LAbs("http", H_ex, P_foo)}
CodesJar == {200}
CodesOne == {200, 302}
CodesBody == {200, 302, 303, 307}
CodesAll == {200, 301, 302, 303, 305, 307, 308}
CodesLoop == {200, 302, 307}
CodesLoop4 == {200, 302, 303, 307}
MGet == {"GET"}
MAll == {"GET", "POST", "HEAD"}
MGetPost == {"GET", "POST"}
MPostHead == {"POST", "HEAD"}
SHttp == {"http"}
SBoth == {"http", "https"}
RNo == {FALSE}
RBoth == {FALSE, TRUE}
ANo == {FALSE}
ABoth == {FALSE, TRUE}
AYes == {TRUE}

BodyOf(m) == IF m = "POST" THEN B_xy ELSE <<>>
\* the value written by the k-th response is the digit k: an overwrite always changes the value
ValAt(k) == <<49 + k>>
Life(kind) == CASE kind = "set" -> [ma |-> "none", exp |-> "none"] [] kind = "del0" -> [ma |-> "zero", exp |-> "none"]
                [] kind = "delepoch" -> [ma |-> "none", exp |-> "epoch"] [] OTHER -> [ma |-> "none", exp |-> "none"]
SC1(host) == {[name |-> n, val |-> ValAt(nresp), dom |-> d, path |-> p, ma |-> Life(k).ma, exp |-> Life(k).exp, secure |-> FALSE] :
              n \in Names, d \in {d \in DomAttrs : d = <<>> \/ DomainMatch(host, StripDot(d), FALSE)}, p \in PathAttrs, k \in Kinds}
SCSeqs(host) == {<<>>} \cup {<<s>> : s \in SC1(host)} \cup (IF MaxSC >= 2 THEN {<<p[1], p[2]>> : p \in {q \in SC1(host) \X SC1(host) : q[1].name # q[2].name}} ELSE {})
Responses(host) == UNION {{[scs |-> scs, code |-> c, loc |-> l, read |-> rd] : scs \in SCSeqs(host),
                              l \in (IF c \in RedirectCodes THEN Locs ELSE {NoLoc}), rd \in (IF c \in {307, 308} THEN Reads ELSE {FALSE})} : c \in Codes}
NoReq == [m |-> "", sch |-> "", host |-> <<>>, path |-> <<>>, qs |-> <<>>, body |-> <<>>]
AllHosts == Hosts \cup {l.host : l \in {m \in Locs : m.form = "abs"}}
\* the host relation of redirects, tabulated once (TLCEval forces the explicit table; a plain function definition stays lazy)
RelITab == TLCEval([p \in AllHosts \X AllHosts |-> HostRelI(p[1], p[2])])
RelCTab == TLCEval([p \in AllHosts \X AllHosts |-> HostRel(p[1], p[2])])
MaxChain == Cardinality(Locs) * Cardinality(Codes \cap RedirectCodes)

\* ---------------------------------------------------------------- the state machine
\* `bad` collects the names of the contract clauses that the transition just taken violates (always {} for a conforming
\* implementation shape, so it does not multiply states); one invariant per clause names the failure.
Init == allow \in Allows /\ jar = {} /\ cjar = {} /\ phase = "idle" /\ cur = NoReq /\ hist = <<>> /\ origin = <<>> /\ nopen = 0 /\ nresp = 0
        /\ bad = {} /\ act = [op |-> "init"]

Open == /\ phase = "idle" /\ nopen < MaxOpens
        /\ \E m \in Methods, s \in Schemes, h \in Hosts, p \in Paths :
             LET q == [m |-> m, sch |-> s, host |-> h, path |-> p, qs |-> <<>>, body |-> BodyOf(m)]
                 sent == SendI(jar, h, p) IN
             /\ cur' = q /\ phase' = "wait" /\ hist' = <<>> /\ origin' = h /\ nopen' = nopen + 1
             /\ UNCHANGED <<jar, cjar, nresp, allow>>
             /\ bad' = IF sent = Project(cjar, h, p) THEN {} ELSE {"SentOK"}
             /\ act' = IF Label THEN [op |-> "open", req |-> q, sent |-> sent] ELSE [op |-> "open"]

Seen(h, r) == \E k \in 1..Len(h) : h[k].code = r.code /\ h[k].loc = r.loc
Respond == /\ phase = "wait" /\ nresp < MaxResp
           /\ \E r \in Responses(cur.host) :
                LET j2 == ApplyI(jar, cur.host, cur.path, r.scs)
                    cj2 == Apply(cjar, cur.host, cur.path, r.scs)
                    redirect == r.code \in RedirectCodes
                    tgt == Target(r.loc, cur)
                    \* ---- implementation shape (Client.open / resolve_redirect)
                    rel == RelITab[<<tgt.host, cur.host>>]
                    out == IF ~redirect THEN "done"
                           ELSE IF Variant # "noloop" /\ Seen(hist, r) THEN "loop"
                           ELSE IF rel = "other" THEN "external"
                           ELSE IF rel = "sub" /\ ~allow THEN "subdomain" ELSE "follow"
                    follow == out = "follow"
                    nxt == [m |-> NextMethodI(r.code, cur.m), sch |-> tgt.sch, host |-> tgt.host, path |-> tgt.path, qs |-> tgt.qs,
                            body |-> NextBodyI(r.code, cur.body, r.read)]
                    h2 == Append(hist, [code |-> r.code, loc |-> r.loc])
                    sent == IF follow THEN SendI(IF Variant = "stale" THEN jar ELSE j2, tgt.host, tgt.path) ELSE {}
                    \* ---- contract
                    relC == RelCTab[<<tgt.host, cur.host>>]
                    hostC == CASE relC = "same" -> "follow" [] relC = "sub" -> (IF allow THEN "follow" ELSE "subdomain") [] OTHER -> "external"
                    viol == (IF follow /\ sent # Project(cj2, tgt.host, tgt.path) THEN {"SentOK"} ELSE {})        \* cookies set on the redirect response go to the next hop
                      \cup (IF follow /\ (nxt.m # NextMethod(r.code, cur.m) \/ nxt.body # NextBody(r.code, cur.body)) THEN {"MethodBodyOK"} ELSE {})
                      \cup (IF redirect /\ out # "loop" /\ out # hostC THEN {"HostOK"} ELSE {})
                      \cup (IF (out = "done") # ~redirect THEN {"FollowOK"} ELSE {})                           \* "until a non-redirect status is returned"
                      \cup (IF redirect /\ ((out = "loop") # Seen(hist, r)) THEN {"LoopOK"} ELSE {})
                IN /\ jar' = j2 /\ cjar' = cj2
                   /\ nresp' = nresp + 1 /\ nopen' = nopen /\ allow' = allow
                   /\ IF follow THEN cur' = nxt /\ phase' = "wait" /\ hist' = h2 /\ origin' = origin
                      ELSE cur' = NoReq /\ phase' = "idle" /\ hist' = <<>> /\ origin' = <<>>
                   /\ bad' = viol
                   /\ act' = IF Label THEN [op |-> "resp", resp |-> r, out |-> out, history |-> IF follow THEN h2 ELSE hist, sent |-> sent] ELSE [op |-> "resp"]
Next == Open \/ Respond

\* ---------------------------------------------------------------- the contract
KeysUnique == \A c, d \in jar : KeyOf(c) = KeyOf(d) => c = d
JarAgrees == jar = cjar
AllRequestsOK == \A h \in Hosts, p \in Paths : SendI(jar, h, p) = Project(cjar, h, p)
HopsBounded == Len(hist) <= MaxChain
TypeOK == phase \in {"idle", "wait"} /\ (phase = "wait" => cur.host \in AllHosts)
SentOK == "SentOK" \notin bad
MethodBodyOK == "MethodBodyOK" \notin bad
HostOK == "HostOK" \notin bad
FollowOK == "FollowOK" \notin bad
LoopOK == "LoopOK" \notin bad

Export == PrintT(ToJson([pre |-> [allow |-> allow, jar |-> jar, phase |-> phase, cur |-> cur, hist |-> hist, nopen |-> nopen, nresp |-> nresp], act |-> act',
                         post |-> [allow |-> allow', jar |-> jar', phase |-> phase', cur |-> cur', hist |-> hist', nopen |-> nopen', nresp |-> nresp']]))
=============================================================================
