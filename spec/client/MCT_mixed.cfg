CONSTANTS
  Variant = "fixed"
  Hosts <- Hosts3
  Paths <- Paths2
  Names <- Names1
  DomAttrs <- DomAll
  PathAttrs <- PathFoo
  Kinds <- KSetDel
  Codes <- CodesLoop
  Locs <- LocsHosts
  Methods <- MAll
  Schemes <- SHttp
  Reads <- RBoth
  Allows <- ABoth
  MaxOpens = 2
  MaxResp = 4
  MaxSC = 1
  Label = FALSE
INIT Init
NEXT Next
VIEW View
INVARIANT KeysUnique
INVARIANT JarAgrees
INVARIANT AllRequestsOK
INVARIANT HopsBounded
INVARIANT TypeOK
INVARIANT SentOK
INVARIANT MethodBodyOK
INVARIANT HostOK
INVARIANT FollowOK
INVARIANT LoopOK
