CONSTANTS
  Variant = "keepdeleted"
  Hosts <- Hosts3
  Paths <- Paths3
  Names <- Names1
  DomAttrs <- DomAll
  PathAttrs <- PathFoo
  Kinds <- KSetDel
  Codes <- CodesJar
  Locs <- LocsLocal
  Methods <- MGet
  Schemes <- SHttp
  Reads <- RNo
  Allows <- ANo
  MaxOpens = 2
  MaxResp = 2
  MaxSC = 1
  Label = FALSE
INIT Init
NEXT Next
VIEW View
INVARIANT JarAgrees
