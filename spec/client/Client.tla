------------------------------- MODULE Client -------------------------------
(* X02 -- werkzeug.test.Client as a stateful user agent: the cookie jar and redirect following.      *)
(*                                                                                                    *)
(* This module holds the CONTRACT operators (transcribed from werkzeug's documentation and, where    *)
(* the documentation says "domain and path matching", from RFC 6265) and the IMPLEMENTATION-SHAPED   *)
(* operators (transcribed from src/werkzeug/test.py: Cookie._matches_request,                        *)
(* Cookie._from_response_header, Client.resolve_redirect, Client.open), parameterised by `Variant`   *)
(* so that hand-broken variants can be shown to fail.  MCClient.tla explores the state machine,      *)
(* ClientTrace.tla judges recorded executions of the real Client with the contract operators only.   *)
(*                                                                                                    *)
(* Text (host names, paths, cookie names and values, bodies) is a sequence of code points.           *)
(* Every clause carries the sentence it comes from.  What no document states is DRIFT (reported by   *)
(* the judge as {"drift":1,..}), never a verdict; the deliberate simplifications of werkzeug are     *)
(* listed at the end of this header.                                                                  *)
(*                                                                                                    *)
(* Variant: "fixed"  = the implementation shape that meets the contract (the tree since the commits  *)
(*                     of fixes/X02-*.diff: c8a85da, e0d8c2e)                                         *)
(*          "orig"   = the tree before them: a leading "." of the Domain attribute is kept (the cookie is *)
(*                     then sent to nobody) and a 307/308 redirect re-sends only what the application *)
(*                     left unread of the request body                                                *)
(*          "suffix" = domain match by plain string suffix (evil-example.com receives example.com's  *)
(*                     cookies), "prefix" = path match by plain string prefix (/foobar receives       *)
(*                     /foo's cookies), "body303" = a 303 keeps the body, "headget" = HEAD becomes    *)
(*                     GET, "noloop" = no loop detection, "stale" = the next hop is sent the cookies  *)
(*                     of the previous request, "extsuffix" = the subdomain test of redirects is a    *)
(*                     string suffix test, "keepdeleted" = Max-Age=0 does not delete                  *)
(*                                                                                                    *)
(* Deliberate simplifications of werkzeug (documented: "Domain and path matching is supported, but   *)
(* other cookie parameters are ignored", Client docstring; "It does not use other cookie parameters  *)
(* that browsers use, since they're not applicable in tests", Client.set_cookie):                    *)
(*   - Secure / HttpOnly / SameSite never influence what is sent (so the scheme is irrelevant);      *)
(*   - no clock: Max-Age > 0 and Expires in the future never expire a cookie;                        *)
(* and undocumented ones, which this spec therefore treats as drift (both outcomes accepted):        *)
(*   - Max-Age < 0 and a past Expires other than the epoch do not delete (RFC 6265 5.2.2: they do);  *)
(*   - a Domain attribute that does not cover the responding host is stored (RFC 6265 5.3 step 6:    *)
(*     the cookie is ignored);                                                                       *)
(*   - loop detection is keyed by the literal (Location, status) pair, so a chain may be cut although *)
(*     the resolved request differs (other host or method);                                          *)
(*   - a redirect from a subdomain back to its parent is refused as "external";                      *)
(*   - path-relative, query-only and scheme-less Location values are not resolved per RFC 3986 5.2.  *)
EXTENDS Integers, Sequences, FiniteSets, Bytes

CONSTANT Variant

DOT == 46
SLASH == 47

EndsWith(s, suf) == Len(s) >= Len(suf) /\ Drop(s, Len(s) - Len(suf)) = suf          \* Python str.endswith
StripDot(d) == IF Len(d) > 0 /\ d[1] = DOT THEN Tail(d) ELSE d

\* ================================================================ CONTRACT: cookie matching
\* RFC 6265 5.1.3 "A string domain-matches a given domain string if at least one of the following conditions hold: The domain
\*   string and the string are identical. [...] All of the following: The domain string is a suffix of the string. The last
\*   character of the string that is not included in the domain string is a %x2E (".") character. The string is a host name".
\* Client.set_cookie: "domain: Send this cookie with requests that match this domain. If origin_only is true, it must be an
\*   exact match, otherwise it may be a suffix match."   Cookie.origin_only: "Whether the cookie will be sent for exact domain
\*   matches only. This is True if the Domain parameter was not present."
DomainMatch(host, dom, ho) ==
  host = dom \/ (~ho /\ Len(dom) > 0 /\ Len(host) > Len(dom) /\ Drop(host, Len(host) - Len(dom)) = dom /\ host[Len(host) - Len(dom)] = DOT)
\* RFC 6265 5.1.4 "A request-path path-matches a given cookie-path if at least one of the following conditions holds: The
\*   cookie-path and the request-path are identical. The cookie-path is a prefix of the request-path, and the last character of
\*   the cookie-path is %x2F ("/"). The cookie-path is a prefix of the request-path, and the first character of the request-path
\*   that is not included in the cookie-path is a %x2F ("/") character."
\* Client.set_cookie: "path: Send this cookie with requests that match this path either exactly or as a prefix."
PathMatch(rp, cp) ==
  rp = cp \/ (Len(cp) > 0 /\ Len(rp) > Len(cp) /\ IsPrefixOf(cp, rp) /\ (cp[Len(cp)] = SLASH \/ rp[Len(cp) + 1] = SLASH))
\* RFC 6265 5.1.4 default-path: "If the uri-path is empty or if the first character of the uri-path is not a %x2F ("/")
\*   character, output %x2F ("/") [...] If the uri-path contains no more than one %x2F ("/") character, output %x2F ("/") [...]
\*   Output the characters of the uri-path from the first character up to, but not including, the right-most %x2F ("/")."
RECURSIVE LastSlash(_, _)
LastSlash(s, p) == IF p = 0 THEN 0 ELSE IF s[p] = SLASH THEN p ELSE LastSlash(s, p - 1)
DefaultPath(rp) == LET i == LastSlash(rp, Len(rp)) IN IF i <= 1 THEN <<SLASH>> ELSE Take(rp, i - 1)

\* ================================================================ CONTRACT: the jar
\* Client.get_cookie / delete_cookie: "Cookies are uniquely identified by (domain, path, key)."
\* A stored cookie: [dom, path, name, val, ho, soft, dot]
\*   ho   = host-only (werkzeug: origin_only)
\*   soft = the documents disagree whether this cookie exists (see Fate below): it may or may not be sent
\*   dot  = it was set with a Domain attribute that starts with "." (only used to label a rejection)
KeyOf(c) == <<c.dom, c.path, c.name>>
Put(j, c) == {d \in j : KeyOf(d) # KeyOf(c)} \cup {c}
Remove(j, k) == {d \in j : KeyOf(d) # k}
\* A Set-Cookie header `sc`: [name, val, dom, path, ma, exp, secure]   dom / path = <<>> when the attribute is absent;
\*   ma \in {"none", "zero", "neg", "pos"}  exp \in {"none", "epoch", "past", "future"}
\* RFC 6265 5.2.3 "If the first character of the attribute-value string is %x2E ("."): Let cookie-domain be the attribute-value
\*   without the leading %x2E (".") character."   5.3 step 6 "set the cookie's host-only-flag to false" when a Domain attribute
\*   is given, else "set the cookie's host-only-flag to true. Set the cookie's domain to the canonicalized request-host".
\* Cookie.domain: "The domain that the cookie was set for, or the request domain if not set."
\* 5.2.4 / 5.3 step 7: the Path attribute, else the default-path of the request.   Cookie.path "The path that the cookie was set for."
CookieDomain(sc) == StripDot(sc.dom)
HasDomain(sc) == CookieDomain(sc) # <<>>
FromResponse(host, rp, sc, soft) ==
  [dom |-> IF HasDomain(sc) THEN CookieDomain(sc) ELSE host, ho |-> ~HasDomain(sc), path |-> IF sc.path = <<>> THEN DefaultPath(rp) ELSE sc.path,
   name |-> sc.name, val |-> sc.val, soft |-> soft, dot |-> sc.dom # CookieDomain(sc)]
\* RFC 6265 5.3 step 6: "If the canonicalized request-host does not domain-match the domain-attribute: Ignore the cookie entirely".
\* werkzeug stores such a cookie; no werkzeug document says so: outside the contract (the judge stops judging that trace).
InContract(host, sc) == ~HasDomain(sc) \/ DomainMatch(host, CookieDomain(sc), FALSE)
\* Deleting.  Response.delete_cookie: "Delete a cookie. Fails silently if key doesn't exist." -- it emits Max-Age=0 and
\*   Expires=<the epoch>; CHANGES 0.15.2 (#1491) expects a logout done this way to work with the test client.
\* RFC 6265 5.2.2 "If delta-seconds is less than or equal to zero (0), let expiry-time be the earliest representable date and
\*   time."  5.3 step 3: Max-Age has precedence over Expires.  5.3 step 11.3 / end: expired cookies are evicted, never sent.
RfcDead(sc) == IF sc.ma # "none" THEN sc.ma \in {"zero", "neg"} ELSE sc.exp \in {"epoch", "past"}
DocDelete(sc) == sc.ma = "zero" \/ sc.exp = "epoch"
\* "delete": both documents say the key is gone; "store": both say it is kept (5.3 step 11: "If the cookie store contains a
\*   cookie with the same name, domain, and path as the newly created cookie: [...] Remove the old-cookie from the cookie
\*   store." then "Insert the newly created cookie"); "soft": undocumented by werkzeug, RFC says gone -> either.
Fate(sc) == IF RfcDead(sc) /\ DocDelete(sc) THEN "delete" ELSE IF ~RfcDead(sc) /\ ~DocDelete(sc) THEN "store" ELSE "soft"
ApplyOne(j, host, rp, sc) ==
  LET c == FromResponse(host, rp, sc, Fate(sc) = "soft") IN IF Fate(sc) = "delete" THEN Remove(j, KeyOf(c)) ELSE Put(j, c)
RECURSIVE Apply(_, _, _, _)
Apply(j, host, rp, scs) == IF scs = <<>> THEN j ELSE Apply(ApplyOne(j, host, rp, Head(scs)), host, rp, Tail(scs))

\* ================================================================ CONTRACT: what a request carries
\* Client: "use_cookies: Persist cookies from Set-Cookie response headers to the Cookie header in subsequent requests. Domain
\*   and path matching is supported, but other cookie parameters are ignored."
\* Client._add_cookies_to_wsgi: "set the Cookie header in the environ to the cookies that are applicable to the request host and path."
\* RFC 6265 5.4: the Cookie header holds exactly the cookies whose domain and path match the request.
Matches(c, host, rp) == DomainMatch(host, c.dom, c.ho) /\ PathMatch(rp, c.path)
Must(j, host, rp) == {c \in j : ~c.soft /\ Matches(c, host, rp)}
May(j, host, rp) == {c \in j : Matches(c, host, rp)}
Pair(c) == <<c.name, c.val>>
\* S = set of (name, value) pairs seen by the application, n = number of pairs in the header
NotSent(j, host, rp, S) == {c \in Must(j, host, rp) : Pair(c) \notin S}
Leaked(j, host, rp, S) == {p \in S : ~\E c \in May(j, host, rp) : Pair(c) = p}
Project(j, host, rp) == {Pair(c) : c \in Must(j, host, rp)}                \* exact when the jar has no soft cookie

\* ================================================================ CONTRACT: redirect following
\* Client.open: "follow_redirects: Make additional requests to follow HTTP redirects until a non-redirect status is returned.
\*   TestResponse.history lists the intermediate responses."
RedirectCodes == {301, 302, 303, 305, 307, 308}
\* CHANGES 0.15.0 (#1402): "The HEAD method is not changed to GET." / "307 and 308 codes preserve the method and body. All
\*   others ignore the body and related headers." / "Headers are passed to the new request for all codes, following what browsers do."
\* (RFC 7231 6.4.4: a 303 is retrieved with GET; 6.4.7 / RFC 7538: 307 and 308 must not change the method.)
NextMethod(code, m) == IF code \in {307, 308} THEN m ELSE IF m = "HEAD" THEN "HEAD" ELSE "GET"
KeepsBody(code) == code \in {307, 308}
NextBody(code, body) == IF KeepsBody(code) THEN body ELSE <<>>
\* A Location value `loc`: [form, sch, host, path, qs]; form = "abs" (scheme://host/path?qs) | "path" (/path?qs) |
\*   "net" (//host/path) | "rel" (path without leading slash) | "query" (?qs)
\* Client.resolve_redirect: "Perform a new request to the location given by the redirect response to the previous request."
\*   CHANGES 0.12 (#879): "test.Client now properly handles Location headers with relative URLs".  resolve_redirect: "A local
\*   redirect with autocorrect_location_header=False doesn't have a host, so use the request's host."
Documented(loc) == loc.form \in {"abs", "path"}
Target(loc, cur) == IF loc.form = "abs" THEN [sch |-> loc.sch, host |-> loc.host, path |-> loc.path, qs |-> loc.qs]
                    ELSE IF loc.form = "net" THEN [sch |-> cur.sch, host |-> loc.host, path |-> loc.path, qs |-> loc.qs]
                    ELSE [sch |-> cur.sch, host |-> cur.host, path |-> loc.path, qs |-> loc.qs]
\* Client: "allow_subdomain_redirects: Allow requests to follow redirects to subdomains. Enable this if the application handles
\*   subdomains and redirects between them."  resolve_redirect raises RuntimeError("Following subdomain redirects is not
\*   enabled.") / RuntimeError("Following external redirects is not supported.")
IsSubdomain(to, from) == Len(from) > 0 /\ Len(to) > Len(from) /\ Drop(to, Len(to) - Len(from)) = from /\ to[Len(to) - Len(from)] = DOT
HostRel(to, from) == IF to = from THEN "same" ELSE IF IsSubdomain(to, from) THEN "sub" ELSE "other"
\* "other" hosts that are a parent / sibling below the host of the first request: "redirects between them" leaves open whether
\*   those are followed (werkzeug refuses): both outcomes accepted
Related(to, origin) == to = origin \/ IsSubdomain(to, origin) \/ IsSubdomain(origin, to)
\* ClientRedirectError: "If a redirect loop is detected when using follow_redirects=True with the Client, then this exception
\*   is raised."  The message states the criterion: "Loop detected: A {status} redirect to {location} was already made."

\* ================================================================ IMPLEMENTATION SHAPE (src/werkzeug/test.py)
\* Cookie._matches_request
DomainMatchI(host, c) ==
  host = c.dom \/ (~c.ho /\ EndsWith(host, c.dom) /\ (Variant = "suffix" \/ EndsWith(Take(host, Len(host) - Len(c.dom)), <<DOT>>)))
PathMatchI(rp, cp) ==
  rp = cp \/ (IsPrefixOf(cp, rp) /\ (Variant = "prefix" \/ IsPrefixOf(<<SLASH>>, Drop(rp, Len(cp) - (IF EndsWith(cp, <<SLASH>>) THEN 1 ELSE 0)))))
\* Cookie._from_response_header: domain = params.get("domain") or server_name; origin_only = "domain" not in params;
\*   path = params.get("path") or path.rpartition("/")[0] or "/"
RPartHead(rp) == LET i == LastSlash(rp, Len(rp)) IN IF i = 0 THEN <<>> ELSE Take(rp, i - 1)
FromResponseI(host, rp, sc) ==
  LET d == IF Variant = "orig" THEN sc.dom ELSE StripDot(sc.dom) IN
  [dom |-> IF d # <<>> THEN d ELSE host, ho |-> sc.dom = <<>>, path |-> IF sc.path # <<>> THEN sc.path ELSE IF RPartHead(rp) # <<>> THEN RPartHead(rp) ELSE <<SLASH>>,
   name |-> sc.name, val |-> sc.val, soft |-> FALSE, dot |-> sc.dom # StripDot(sc.dom)]
\* Cookie._should_delete: max_age == 0 or expires.timestamp() == 0
ShouldDeleteI(sc) == Variant # "keepdeleted" /\ (sc.ma = "zero" \/ sc.exp = "epoch")
ApplyOneI(j, host, rp, sc) == LET c == FromResponseI(host, rp, sc) IN IF ShouldDeleteI(sc) THEN Remove(j, KeyOf(c)) ELSE Put(j, c)
RECURSIVE ApplyI(_, _, _, _)
ApplyI(j, host, rp, scs) == IF scs = <<>> THEN j ELSE ApplyI(ApplyOneI(j, host, rp, Head(scs)), host, rp, Tail(scs))
\* Client._add_cookies_to_wsgi
SendI(j, host, rp) == {Pair(c) : c \in {d \in j : DomainMatchI(host, d) /\ PathMatchI(rp, d.path)}}
\* Client.resolve_redirect: to_name_parts = netloc.split(":", 1)[0].split("."); from_name_parts = builder.server_name.split(".")
RECURSIVE SplitDot(_)
SplitDot(s) == LET p == FindFrom(s, <<DOT>>, 1) IN IF p = 0 THEN <<s>> ELSE <<Take(s, p - 1)>> \o SplitDot(Drop(s, p))
LastN(s, n) == IF n >= Len(s) THEN s ELSE SubSeq(s, Len(s) - n + 1, Len(s))     \* Python s[-n:]
HostRelI(to, from) ==
  IF Variant = "extsuffix" THEN (IF to = from THEN "same" ELSE IF EndsWith(to, from) THEN "sub" ELSE "other")
  ELSE LET tp == SplitDot(to) fp == SplitDot(from) IN IF tp = fp THEN "same" ELSE IF LastN(tp, Len(fp)) = fp THEN "sub" ELSE "other"
NextMethodI(code, m) == IF code \in {307, 308} THEN m ELSE IF m = "HEAD" /\ Variant # "headget" THEN "HEAD" ELSE "GET"
\* `read`: the application consumed the request body before it answered (get_environ re-sends stream.tell()..end)
NextBodyI(code, body, read) ==
  IF code \in {307, 308} \/ (Variant = "body303" /\ code = 303) THEN (IF Variant = "orig" /\ read THEN <<>> ELSE body) ELSE <<>>
=============================================================================
