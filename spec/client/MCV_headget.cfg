CONSTANTS
  Variant = "headget"
  Hosts <- Hosts2
  Paths <- Paths2
  Names <- Names1
  DomAttrs <- DomPlain
  PathAttrs <- PathNone
  Kinds <- KSet
  Codes <- CodesBody
  Locs <- LocsX
  Methods <- MAll
  Schemes <- SHttp
  Reads <- RBoth
  Allows <- ABoth
  MaxOpens = 1
  MaxResp = 3
  MaxSC = 1
  Label = FALSE
INIT Init
NEXT Next
VIEW View
INVARIANT MethodBodyOK
