CONSTANTS
  Variant = "fixed"
  Hosts <- Hosts2
  Paths <- Paths1
  Names <- Names1
  DomAttrs <- DomPlain
  PathAttrs <- PathNone
  Kinds <- KSet
  Codes <- CodesLoop4
  Locs <- LocsX
  Methods <- MPostHead
  Schemes <- SHttp
  Reads <- RNo
  Allows <- ABoth
  MaxOpens = 1
  MaxResp = 2
  MaxSC = 1
  Label = TRUE
INIT Init
NEXT Next
VIEW View
ACTION_CONSTRAINT Export
