CONSTANTS
  Variant = "fixed"
  Hosts <- Hosts3
  Paths <- Paths3
  Names <- Names2
  DomAttrs <- DomAll
  PathAttrs <- PathFoo
  Kinds <- KSetDel
  Codes <- CodesJar
  Locs <- LocsLocal
  Methods <- MGet
  Schemes <- SHttp
  Reads <- RNo
  Allows <- ANo
  MaxOpens = 2
  MaxResp = 2
  MaxSC = 2
  Label = FALSE
INIT Init
NEXT Next
VIEW View
INVARIANT KeysUnique
INVARIANT JarAgrees
INVARIANT AllRequestsOK
INVARIANT HopsBounded
INVARIANT TypeOK
INVARIANT SentOK
INVARIANT MethodBodyOK
INVARIANT HostOK
INVARIANT FollowOK
INVARIANT LoopOK
