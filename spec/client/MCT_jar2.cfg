CONSTANTS
  Variant = "fixed"
  Hosts <- Hosts3
  Paths <- Paths3
  Names <- Names2
  DomAttrs <- DomAll
  PathAttrs <- PathFoo
  Kinds <- KSetDel
  Codes <- CodesJar
  Locs <- LocsLocal
  Methods <- MGet
  Schemes <- SHttp
  Reads <- RNo
  Allows <- ANo
  MaxOpens = 2
  MaxResp = 2
  MaxSC = 2
INIT Init
NEXT Next
VIEW View
INVARIANT KeysUnique
INVARIANT JarAgrees
INVARIANT AllRequestsOK
INVARIANT HopsBounded
INVARIANT TypeOK
PROPERTY SentOK
PROPERTY MethodBodyOK
PROPERTY TargetOK
PROPERTY HostOK
PROPERTY FollowOK
PROPERTY LoopOK
PROPERTY HistoryOK
