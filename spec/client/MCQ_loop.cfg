CONSTANTS
  Variant = "fixed"
  Hosts <- Hosts1
  Paths <- Paths2
  Names <- Names1
  DomAttrs <- DomNone
  PathAttrs <- PathNone
  Kinds <- KSet
  Codes <- CodesLoop
  Locs <- LocsLocal
  Methods <- MGet
  Schemes <- SHttp
  Reads <- RNo
  Allows <- ANo
  MaxOpens = 1
  MaxResp = 6
  MaxSC = 1
  Label = FALSE
INIT Init
NEXT Next
VIEW View
INVARIANT KeysUnique
INVARIANT JarAgrees
INVARIANT AllRequestsOK
INVARIANT HopsBounded
INVARIANT TypeOK
INVARIANT SentOK
INVARIANT MethodBodyOK
INVARIANT HostOK
INVARIANT FollowOK
INVARIANT LoopOK
