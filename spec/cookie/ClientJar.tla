------------------------------ MODULE ClientJar ------------------------------
(* C13 growth -- the test client's cookie jar as a state machine.                                   *)
(*                                                                                                  *)
(* State: the set of stored cookies keyed by (domain, path, name) and a model clock.  Actions: a    *)
(* request to (host, path) whose response may carry one Set-Cookie (set / overwrite / delete via    *)
(* Max-Age=0 or Expires=epoch / already expired), a request answered by a redirect that is          *)
(* followed, Client.set_cookie / delete_cookie / get_cookie, and a clock step.                      *)
(*                                                                                                  *)
(* Contract (what C13's statement supports): a cookie that was set and has neither expired nor been *)
(* deleted comes back unchanged on every matching request (NotSent), nothing is ever sent to a      *)
(* non-matching origin / path and nothing that was deleted or never set is sent (Leaked), and       *)
(* get_cookie shows exactly the requested attributes (Stored).  Expired cookies and Secure cookies  *)
(* on plain http may or may not be sent (the documentation says the client ignores what is not      *)
(* applicable in tests).                                                                            *)
(* Implementation-shaped part: ImplSend (matching like Cookie._matches_request, no clock, no        *)
(* Secure check), parameterised by Variant for non-vacuity runs.                                    *)
(* Times are integer ticks of the model clock; -1 = absent, -2 = the Unix epoch (Expires=0).        *)
EXTENDS Integers, Sequences, FiniteSets, Bytes

CONSTANT Variant          \* "real" | "nodot" (suffix match without the label boundary) | "noslash" (prefix match without the segment boundary) | "keepdeleted"

ABSENT == 0 - 1
EPOCH == 0 - 2
SLASH == 47
DOT == 46

\* ---------------------------------------------------------------- matching (RFC 6265 5.1.3 / 5.1.4, = Client docs)
DomainMatchC(host, dom, hostonly) ==
  host = dom \/ (~hostonly /\ Len(host) > Len(dom) /\ Len(dom) > 0 /\ Drop(host, Len(host) - Len(dom)) = dom /\ host[Len(host) - Len(dom)] = DOT)
PathMatchC(rp, cp) ==
  rp = cp \/ (Len(cp) > 0 /\ Len(rp) > Len(cp) /\ IsPrefixOf(cp, rp) /\ (cp[Len(cp)] = SLASH \/ rp[Len(cp) + 1] = SLASH))
\* the variants used to show that TLC would notice a wrong matcher
DomainMatchI(host, dom, hostonly) ==
  IF Variant = "nodot" THEN host = dom \/ (~hostonly /\ Len(host) > Len(dom) /\ Len(dom) > 0 /\ Drop(host, Len(host) - Len(dom)) = dom)
  ELSE DomainMatchC(host, dom, hostonly)
PathMatchI(rp, cp) ==
  IF Variant = "noslash" THEN rp = cp \/ (Len(cp) > 0 /\ Len(rp) > Len(cp) /\ IsPrefixOf(cp, rp)) ELSE PathMatchC(rp, cp)

RECURSIVE LastSlash(_, _)
LastSlash(s, p) == IF p = 0 THEN 0 ELSE IF s[p] = SLASH THEN p ELSE LastSlash(s, p - 1)
DefaultPath(rp) == LET i == LastSlash(rp, Len(rp)) IN IF i <= 1 THEN <<SLASH>> ELSE Take(rp, i - 1)

\* ---------------------------------------------------------------- cookies
\* stored cookie: [dom, path, name, val, ho, secure, httponly, ss, ma, exp, expat]
\*   ma = Max-Age in ticks or ABSENT; exp = Expires (tick, EPOCH) or ABSENT; expat = tick at which it stops being live or ABSENT
KeyOf(c) == <<c.dom, c.path, c.name>>
Put(j, c) == {d \in j : KeyOf(d) # KeyOf(c)} \cup {c}
Remove(j, k) == {d \in j : KeyOf(d) # k}
Live(c, now) == c.expat = ABSENT \/ now < c.expat
ExpAt(ma, exp, now) == IF ma # ABSENT THEN now + ma ELSE IF exp = EPOCH THEN 0 ELSE exp
\* a Set-Cookie / Client.set_cookie request `a`: [name, val, domattr, pathattr, ma, exp, secure, httponly, ss]
Deletes(a) == a.ma = 0 \/ a.exp = EPOCH
Mk(dom, ho, path, a, now) ==
  [dom |-> dom, ho |-> ho, path |-> path, name |-> a.name, val |-> a.val, secure |-> a.secure, httponly |-> a.httponly,
   ss |-> a.ss, ma |-> a.ma, exp |-> a.exp, expat |-> ExpAt(a.ma, a.exp, now)]
FromResponse(host, rp, a, now) ==
  Mk(IF a.domattr = <<>> THEN host ELSE a.domattr, a.domattr = <<>>, IF a.pathattr = <<>> THEN DefaultPath(rp) ELSE a.pathattr, a, now)
FromClient(a, now) == Mk(a.dom, a.oo, a.path, a, now)
Update(j, c, a) == IF Deletes(a) THEN (IF Variant = "keepdeleted" THEN j ELSE Remove(j, KeyOf(c))) ELSE Put(j, c)
\* a Set-Cookie whose Domain attribute does not cover the responding host is outside the contract (browsers reject it)
InContract(host, a) == a.domattr = <<>> \/ DomainMatchC(host, a.domattr, FALSE)

\* ---------------------------------------------------------------- what a request carries
ImplSend(j, host, rp) == {<<c.name, c.val>> : c \in {d \in j : DomainMatchI(host, d.dom, d.ho) /\ PathMatchI(rp, d.path)}}
\* contract: cookies that must be in the request / pairs that must not
NotSent(j, host, rp, https, now, S) ==
  {c \in j : Live(c, now) /\ (c.secure => https) /\ DomainMatchC(host, c.dom, c.ho) /\ PathMatchC(rp, c.path) /\ <<c.name, c.val>> \notin S}
Leaked(j, host, rp, S) ==
  {p \in S : ~\E c \in j : c.name = p[1] /\ c.val = p[2] /\ DomainMatchC(host, c.dom, c.ho) /\ PathMatchC(rp, c.path)}
SendOK(j, host, rp, https, now, S) == NotSent(j, host, rp, https, now, S) = {} /\ Leaked(j, host, rp, S) = {}
=============================================================================
