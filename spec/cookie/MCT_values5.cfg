CONSTANTS
  EscHi = 31
  Alpha = {34, 59, 92, 32, 10, 26, 127, 233, 128512, 97}
  MaxLen = 5
  Sweep = FALSE
  AttrMode = "none"
  ValMode = "alpha"
INIT Init
NEXT Next
INVARIANT Escaped
INVARIANT RoundTripPair
INVARIANT RoundTripFull
INVARIANT AttrsExact
