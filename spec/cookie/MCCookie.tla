------------------------------ MODULE MCCookie ------------------------------
(* Bounded instances for C13: every value over a representative alphabet (plus a sweep of every   *)
(* single byte value and the class boundary code points) x attribute products, pushed through the *)
(* implementation-shaped DumpCookie / ParseCookie model and checked against the contract.         *)
EXTENDS Cookie, TLC, Json

CONSTANTS Alpha,      \* value alphabet (code points)
          MaxLen,     \* values of length 0..MaxLen over Alpha
          Sweep,      \* TRUE: add every one-character value over SweepSet (alone and between two letters)
          AttrMode,   \* "none" | "A" (path x domain x samesite x flags) | "B" (max-age x expires x flags) | "full"
          ValMode     \* "alpha" | "few"
VARIABLES x
vars == <<x>>

SweepSet == 0..255 \cup {2047, 2048, 5760, 8191, 8192, 8202, 8203, 8232, 8233, 12288, 55295, 57344, 65533, 65535, 65536, 1114111}
Few3 == {<<97,59,98>>, <<233,32,34,113,34>>, <<59,32,83,101,99,117,114,101>>}
FewValues == {<<118>>, <<97,59,98>>, <<233,32,34,113,34>>, <<59,32,83,101,99,117,114,101>>, <<>>,
              <<120,13,10,83,101,116,45,67,111,111,107,105,101,58,32,121,61,122>>}
Values == (IF ValMode = "alpha" THEN SeqsUpTo(Alpha, MaxLen) ELSE IF ValMode = "few3" THEN Few3 ELSE IF ValMode = "one" THEN {<<59,32,83,101,99,117,114,101>>} ELSE FewValues)
          \cup (IF Sweep THEN {<<c>> : c \in SweepSet} \cup {<<97, c, 98>> : c \in SweepSet} ELSE {})
Keys == IF ValMode \in {"alpha", "few3", "one"} THEN {<<107>>} ELSE {<<107>>, <<80,97,116,104>>, <<97,45,98>>}

None == <<>>
PathsS == {<<47>>, <<47,97,32,98>>, <<47,59,120>>, <<47,233>>, <<47,37,52,49>>, <<47,97,44,98,61,99>>, <<47,112,10>>}
DomainsS == {<<101,120,97,109,112,108,101,46,99,111,109>>, <<46,101,120,97,109,112,108,101,46,99,111,109>>,
             <<101,120,97,109,112,108,101,46,99,111,109,58,56,48,56,48>>, <<9731,46,99,111,109>>,
             <<115,117,98,46,98,252,99,104,101,114,46,101,120,97,109,112,108,101>>, <<108,111,99,97,108,104,111,115,116>>}
SameSitesS == {<<115,116,114,105,99,116>>, <<76,65,88>>, <<78,111,110,101>>, <<98,97,100>>, <<83,116,114,105,99,116,59,32,83,101,99,117,114,101>>}
ExpStr == <<84,104,117,44,32,48,49,32,74,97,110,32,50,48,51,48,32,48,48,58,48,48,58,48,48,32,71,77,84>>

PathOpts == {[set |-> FALSE, p |-> None]} \cup {[set |-> TRUE, p |-> p] : p \in PathsS}
DomOpts == {[set |-> FALSE, d |-> None]} \cup {[set |-> TRUE, d |-> d] : d \in DomainsS}
SSOpts == {[set |-> FALSE, s |-> None]} \cup {[set |-> TRUE, s |-> s] : s \in SameSitesS}
MaOpts == {[kind |-> "none", neg |-> FALSE, ds |-> <<0>>], [kind |-> "int", neg |-> FALSE, ds |-> <<0>>],
           [kind |-> "int", neg |-> FALSE, ds |-> <<3,6,0,0>>], [kind |-> "td", neg |-> FALSE, ds |-> <<8,6,4,0,1>>],
           [kind |-> "int", neg |-> TRUE, ds |-> <<5>>], [kind |-> "int", neg |-> FALSE, ds |-> <<9,9,9,9,9,9,9,9,9,9,9,9>>]}
\* 18262 = 2020-01-01 ; 2932896 = 9999-12-31 ; 11016 = 2000-02-29 ; 0 = epoch
ExpOpts == {[kind |-> "none", d |-> 0, s |-> 0, t |-> None], [kind |-> "dt", d |-> 18262, s |-> 11045, t |-> None],
            [kind |-> "ts", d |-> 0, s |-> 0, t |-> None], [kind |-> "ts", d |-> 11016, s |-> 86399, t |-> None],
            [kind |-> "dt", d |-> 2932896, s |-> 86399, t |-> None], [kind |-> "str", d |-> 0, s |-> 0, t |-> ExpStr]}

Mk(po, do, so, mo, eo, sec, ho, part) ==
  [path_set |-> po.set, path |-> po.p, dom_set |-> do.set, domain |-> do.d, ma_kind |-> mo.kind, ma_neg |-> mo.neg,
   ma_digits |-> mo.ds, exp_kind |-> eo.kind, exp_days |-> eo.d, exp_secs |-> eo.s, exp_text |-> eo.t, sync |-> FALSE,
   secure |-> sec, httponly |-> ho, ss_set |-> so.set, samesite |-> so.s, partitioned |-> part, idna |-> <<>>]
NoPath == [set |-> FALSE, p |-> None]
Slash == [set |-> TRUE, p |-> <<47>>]
NoDom == [set |-> FALSE, d |-> None]
NoSS == [set |-> FALSE, s |-> None]
NoMa == [kind |-> "none", neg |-> FALSE, ds |-> <<0>>]
NoExp == [kind |-> "none", d |-> 0, s |-> 0, t |-> None]
AttrSets ==
  IF AttrMode = "none" THEN {Mk(NoPath, NoDom, NoSS, NoMa, NoExp, FALSE, FALSE, FALSE), Mk(Slash, NoDom, NoSS, NoMa, NoExp, FALSE, FALSE, FALSE)}
  ELSE IF AttrMode = "A" THEN {Mk(po, do, so, NoMa, NoExp, sec, FALSE, part) : po \in PathOpts, do \in DomOpts, so \in SSOpts, sec \in BOOLEAN, part \in BOOLEAN}
  ELSE IF AttrMode = "B" THEN {Mk(Slash, NoDom, NoSS, mo, eo, sec, ho, FALSE) : mo \in MaOpts, eo \in ExpOpts, sec \in BOOLEAN, ho \in BOOLEAN}
  ELSE {Mk(po, do, so, mo, eo, sec, ho, part) : po \in PathOpts, do \in DomOpts, so \in SSOpts, mo \in MaOpts, eo \in ExpOpts,
                                               sec \in BOOLEAN, ho \in BOOLEAN, part \in BOOLEAN}

\* two stages so that TLC's workers share the evaluation: stage 0 = (key, value) seeds, stage 1 = one attribute set chosen
Init == x \in [k : Keys, v : Values, a : {Mk(NoPath, NoDom, NoSS, NoMa, NoExp, FALSE, FALSE, FALSE)}, stage : {0}]
Next == x.stage = 0 /\ \E a \in AttrSets : x' = [x EXCEPT !.a = a, !.stage = 1]

Raises == SameSiteBad(x.a)
Hdr == DumpCookie(x.k, x.v, x.a, None)
Exp == ExpectedAttrs(x.a, None, PathModel(x.a.path))

\* ---- the contract, checked on the implementation-shaped model
Escaped == x.stage = 0 \/ ValueOK(DumpValue(x.v), x.v)
RoundTripPair == x.stage = 0 \/ ParseCookie(DumpPair(x.k, x.v)) = <<<<x.k, x.v>>>>
RoundTripFull == x.stage = 0 \/ Raises \/ LET r == ParseCookie(Hdr) IN Len(r) = 1 + Len(Exp) /\ r[1] = <<x.k, x.v>>
AttrsExact == x.stage = 0 \/ Raises \/ (/\ IsAsciiSeq(Hdr)
                         /\ PairOf(Hdr) = DumpPair(x.k, x.v)
                         /\ AttrsOf(Hdr) = Exp
                         /\ (x.a.path_set => PathAttrOK(PathModel(x.a.path), x.a.path))
                         /\ (x.a.dom_set => DomainKnown(x.a.domain)))

Export == x.stage = 0 \/ PrintT(ToJson([key |-> x.k, value |-> x.v, a |-> x.a, raises |-> Raises, hdr |-> IF Raises THEN <<>> ELSE Hdr]))
=============================================================================
