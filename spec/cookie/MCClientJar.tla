----------------------------- MODULE MCClientJar -----------------------------
(* Bounded exploration of the jar state machine: every history up to MaxSteps over small alphabets. *)
EXTENDS ClientJar, TLC, Json

CONSTANTS Hosts, ReqPaths, CookiePaths, Names, DomAttrs, Lives, MaxSteps, MaxClock, WithRedirect
VARIABLES jar, now, steps, act
vars == <<jar, now, steps, act>>
View == <<jar, now, steps>>

H_a == <<97,46,116,101,115,116>>                     \* a.test
H_sub == <<115,117,98,46,97,46,116,101,115,116>>     \* sub.a.test
H_ba == <<98,97,46,116,101,115,116>>                 \* ba.test
P_root == <<47>>
P_app == <<47,97,112,112>>                           \* /app
P_appx == <<47,97,112,112,47,120>>                   \* /app/x
P_apple == <<47,97,112,112,108,101>>                 \* /apple
N_n == <<110>>
N_m == <<109>>
Hosts2 == {H_a, H_sub}
Hosts3 == {H_a, H_sub, H_ba}
ReqPaths2 == {P_root, P_appx}
ReqPaths3 == {P_root, P_appx, P_apple}
CookiePaths2 == {P_root, P_app}
Names1 == {N_n}
Names2 == {N_n, N_m}
DomAttrs1 == {<<>>, H_a}
\* lifetimes: <<ma, exp>> ; exp "past" = tick 0 (the clock starts at 1)
L_session == <<ABSENT, ABSENT>>
L_del_ma == <<0, ABSENT>>
L_del_epoch == <<ABSENT, EPOCH>>
L_short == <<1, ABSENT>>
L_past == <<ABSENT, 0>>
L_future == <<ABSENT, 3>>
Lives3 == {L_session, L_del_ma, L_short}
Lives6 == {L_session, L_del_ma, L_del_epoch, L_short, L_past, L_future}

\* the value written at step s is the digit s: an overwrite always changes the value
ValAt(s) == <<49 + s>>
SCs(host) == {[name |-> n, val |-> ValAt(steps), domattr |-> d, pathattr |-> p, ma |-> l[1], exp |-> l[2], secure |-> FALSE,
               httponly |-> FALSE, ss |-> <<>>] : n \in Names, d \in {d \in DomAttrs : d = <<>> \/ DomainMatchC(host, d, FALSE)},
               p \in {<<>>} \cup (CookiePaths \ {P_root}), l \in Lives}
NoSC == [name |-> <<>>, val |-> <<>>, domattr |-> <<>>, pathattr |-> <<>>, ma |-> ABSENT, exp |-> ABSENT, secure |-> FALSE, httponly |-> FALSE, ss |-> <<>>]
NoCookie == [found |-> FALSE]

Init == jar = {} /\ now = 1 /\ steps = 0 /\ act = [op |-> "init"]
Req == \E h \in Hosts, rp \in ReqPaths :
         \/ /\ jar' = jar
            /\ act' = [op |-> "req", host |-> h, rp |-> rp, has_sc |-> FALSE, sc |-> NoSC, sent |-> ImplSend(jar, h, rp)]
         \/ \E a \in SCs(h) :
            /\ jar' = Update(jar, FromResponse(h, rp, a, now), a)
            /\ act' = [op |-> "req", host |-> h, rp |-> rp, has_sc |-> TRUE, sc |-> a, sent |-> ImplSend(jar, h, rp)]
Redir == WithRedirect /\ \E h \in Hosts, rp2 \in ReqPaths : \E a \in SCs(h) :
         LET j2 == Update(jar, FromResponse(h, P_root, a, now), a) IN
         /\ jar' = j2
         /\ act' = [op |-> "redir", host |-> h, rp |-> P_root, rp2 |-> rp2, sc |-> a, sent |-> ImplSend(jar, h, P_root), sent2 |-> ImplSend(j2, h, rp2)]
CSet == \E n \in Names, d \in Hosts, oo \in BOOLEAN, p \in CookiePaths, l \in Lives :
         LET a == [name |-> n, val |-> ValAt(steps), dom |-> d, oo |-> oo, path |-> p, ma |-> l[1], exp |-> l[2], secure |-> FALSE, httponly |-> FALSE, ss |-> <<>>] IN
         /\ jar' = Update(jar, FromClient(a, now), a)
         /\ act' = [op |-> "cset", a |-> a]
CDel == \E n \in Names, d \in Hosts, p \in CookiePaths :
         /\ jar' = Remove(jar, <<d, p, n>>)
         /\ act' = [op |-> "cdel", name |-> n, dom |-> d, path |-> p]
Tick == now < MaxClock /\ now' = now + 1 /\ jar' = jar /\ steps' = steps + 1 /\ act' = [op |-> "tick"]
Next == /\ steps < MaxSteps
        /\ \/ (Req \/ Redir \/ CSet \/ CDel) /\ now' = now /\ steps' = steps + 1
           \/ Tick

\* ---- the contract on every transition (action property) and on every state
StepOK ==
  CASE act'.op = "req" -> SendOK(jar, act'.host, act'.rp, FALSE, now, act'.sent)
    [] act'.op = "redir" -> SendOK(jar, act'.host, act'.rp, FALSE, now, act'.sent) /\ SendOK(jar', act'.host, act'.rp2, FALSE, now, act'.sent2)
    [] OTHER -> TRUE
ContractSteps == [][StepOK]_vars
\* a delete (Set-Cookie or client side) leaves no cookie under that key; keys are unique
DeleteOK ==
  CASE act'.op = "req" /\ act'.has_sc /\ Deletes(act'.sc) -> ~\E c \in jar' : KeyOf(c) = KeyOf(FromResponse(act'.host, act'.rp, act'.sc, now))
    [] act'.op = "cdel" -> ~\E c \in jar' : KeyOf(c) = <<act'.dom, act'.path, act'.name>>
    [] act'.op = "cset" /\ Deletes(act'.a) -> ~\E c \in jar' : KeyOf(c) = <<act'.a.dom, act'.a.path, act'.a.name>>
    [] OTHER -> TRUE
DeleteSteps == [][DeleteOK]_vars
KeysUnique == \A c, d \in jar : KeyOf(c) = KeyOf(d) => c = d
\* every request of every reachable state, not only the ones taken: the implementation-shaped sender meets the contract
AllRequestsOK == \A h \in Hosts, rp \in ReqPaths : SendOK(jar, h, rp, FALSE, now, ImplSend(jar, h, rp))

Export == PrintT(ToJson([pre |-> [jar |-> jar, now |-> now, steps |-> steps], act |-> act', post |-> [jar |-> jar', now |-> now', steps |-> steps']]))
=============================================================================
