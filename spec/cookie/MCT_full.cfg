CONSTANTS
  EscHi = 31
  Alpha = {34, 59, 44, 92, 61, 32, 9, 13, 10, 0, 25, 26, 31, 127, 37, 233, 128512, 97}
  MaxLen = 0
  Sweep = FALSE
  AttrMode = "full"
  ValMode = "few3"
INIT Init
NEXT Next
INVARIANT Escaped
INVARIANT RoundTripPair
INVARIANT RoundTripFull
INVARIANT AttrsExact
