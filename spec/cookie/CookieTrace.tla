----------------------------- MODULE CookieTrace -----------------------------
(* Trace judge for C13.  Lines (ndjson, TRACE_FILE), text as code point arrays:                         *)
(*  dump: [t, i, op, flow, key, value, a, exc, hdr, t0d, t0s, t1d, t1s, full, req, ps, pe, perr, jx]    *)
(*        a    = the attribute record of Cookie.tla (what was requested)                                 *)
(*        hdr  = string returned by dump_cookie / the Set-Cookie header of Response.set_cookie           *)
(*        t0*, t1* = clock (days, seconds of day) before / after the call (clock-derived Expires)        *)
(*        full = sansio parse_cookie(hdr) pairs; req = the Cookie header a user agent derives (text up   *)
(*        to the first ';'); ps / pe = sansio / environ-level parse_cookie(req) pairs; perr = exception  *)
(*  jar : [t, i, op, key, value, a, host, exc, found, dk, dv, echoed, jsecure, jhttponly, jss_set,       *)
(*         jsamesite, jpath, jdomain, jma_set, jma_neg, jma_digits]   test client: Set-Cookie -> jar ->  *)
(*        Cookie header of the next request -> request.cookies                                           *)
(*  parse: [t, i, op, hdr, got, perr]   an arbitrary Cookie header and the pairs sansio parse_cookie       *)
(*        returned (no verdict; compared with the scanner model, drift only)                              *)
EXTENDS Cookie, TLC, Json, IOUtils

Lines == ndJsonDeserialize(IOEnv.TRACE_FILE)
VARIABLES l
vars == <<l>>

InDomain(r) == IsToken(r.key) /\ IsText(r.value) /\ (r.a.dom_set => DomainKnownT(r.a.domain, r.a.idna)) /\ IsText(r.a.path)

\* candidates for a clock-derived Expires: clock in [t0 - 1, t1 + 1] shifted by max-age
SyncOK(txt, r) == LET n == MaxAgeNum(r.a) span == (r.t1d - r.t0d) * 86400 + (r.t1s - r.t0s) IN
  span < 0 \/ span > 3600 \/          \* clock stepped or the process was stalled: not judgeable
  \E d \in 0..(span + 2) : LET t == Shift(r.t0d, r.t0s, n + d - 1) IN txt = HttpDate(t[1], t[2])

AttrClause(r) ==
  LET a == r.a
      got == AttrsOf(r.hdr)
      n == Len(ExpectedAttrs(a, <<>>, <<>>))
      synctext == IF SyncExpires(a) /\ Len(got) >= ExpiresIndex(a) THEN Drop(got[ExpiresIndex(a)], Len(S_Expires)) ELSE <<>>
      pathtext == IF a.path_set /\ Len(got) >= PathIndex(a) THEN Drop(got[PathIndex(a)], Len(S_Path)) ELSE <<>>
  IN IF Len(got) # n THEN "AttrCount"
     ELSE IF SyncExpires(a) /\ ~(Len(a.ma_digits) <= 8 => SyncOK(synctext, r)) THEN "ExpiresFromMaxAge"
     ELSE IF a.path_set /\ ~(IsPrefixOf(S_Path, got[PathIndex(a)]) /\ PathAttrOK(pathtext, a.path)) THEN "PathAttr"
     ELSE IF got # ExpectedAttrs(a, synctext, pathtext) THEN "AttrSpellingOrOrder"
     ELSE "ok"

JudgeDump(r) ==
  IF ~InDomain(r) THEN "ok"
  ELSE IF SameSiteBad(r.a) THEN (IF r.exc = "ValueError" THEN "ok" ELSE "SameSiteNotValidated")
  ELSE IF r.exc # "" THEN "DumpRaised"
  ELSE IF ~IsAsciiSeq(r.hdr) THEN "HeaderNotAscii"
  ELSE LET pair == PairOf(r.hdr)
           enc == Drop(pair, Len(r.key) + 1)
           vc == ValueClause(enc, r.value)
           ac == AttrClause(r)
           want == <<<<r.key, r.value>>>>
       IN IF ~IsPrefixOf(r.key \o <<EQ>>, pair) THEN "PairKey"
          ELSE IF vc # "ok" THEN vc
          ELSE IF ac # "ok" THEN ac
          ELSE IF r.perr # "" THEN "ParseRaised"
          ELSE IF r.ps # want THEN "RoundTripSansio"
          ELSE IF r.pe # want THEN "RoundTripEnviron"
          ELSE IF Len(r.full) = 0 \/ r.full[1] # want[1] THEN "RoundTripFullHeader"
          ELSE IF Len(r.full) # 1 + Len(AttrsOf(r.hdr)) THEN "FullHeaderPairCount"
          ELSE "ok"

ShouldDelete(a) == (a.ma_kind # "none" /\ (\A i \in 1..Len(a.ma_digits) : a.ma_digits[i] = 0)) \/ (a.exp_kind \in {"dt", "ts"} /\ a.exp_days = 0 /\ a.exp_secs = 0)
\* Client.set_cookie (flow "client" with a jar lookup): what the jar stored, read with Client.get_cookie
\*  r.jx = [want, has, exp_set, exp_days, exp_secs, ma_set, ma_neg, ma_digits]   (instant of Cookie.expires as UTC day number / second of day)
JudgeStored(r) == LET a == r.a j == r.jx IN
  IF ~InDomain(r) \/ SameSiteBad(a) \/ r.exc # "" \/ ~j.want \/ ShouldDelete(a) THEN "ok"
  ELSE IF ~j.has THEN "JarStoredMissing"
  ELSE IF a.exp_kind \in {"dt", "ts"} /\ ~(j.exp_set /\ j.exp_days = a.exp_days /\ j.exp_secs = a.exp_secs) THEN "JarStoredExpires"
  ELSE IF SyncExpires(a) /\ Len(a.ma_digits) <= 8 /\ ~(j.exp_set /\ SyncOK(HttpDate(j.exp_days, j.exp_secs), r)) THEN "JarStoredExpires"
  ELSE IF ~HasExpires(a) /\ j.exp_set THEN "JarStoredExpires"
  ELSE IF j.ma_set # (a.ma_kind # "none") \/ (j.ma_set /\ (j.ma_neg # a.ma_neg \/ j.ma_digits # a.ma_digits)) THEN "JarStoredMaxAge"
  ELSE "ok"

JudgeJar(r) ==
  IF ~InDomain(r) \/ SameSiteBad(r.a) \/ ShouldDelete(r.a) THEN "ok"
  ELSE IF r.exc # "" THEN "JarFlowRaised"
  ELSE IF ~r.found THEN "JarCookieMissing"
  ELSE IF r.dk # r.key \/ r.dv # r.value THEN "JarDecodedValue"
  ELSE IF r.echoed # <<<<r.key, r.value>>>> THEN "JarEcho"
  ELSE IF r.jsecure # (r.a.secure \/ r.a.partitioned) \/ r.jhttponly # r.a.httponly THEN "JarFlags"
  ELSE IF r.jss_set # r.a.ss_set \/ (r.a.ss_set /\ r.jsamesite # SameSiteCanon(r.a.samesite)) THEN "JarSameSite"
  ELSE IF r.a.path_set /\ PctDecode(r.jpath) # PctDecode(Utf8Enc(r.a.path)) THEN "JarPath"
  ELSE IF r.jdomain # (IF r.a.dom_set THEN DomainCanonT(r.a.domain, r.a.idna) ELSE r.host) THEN "JarDomain"
  ELSE IF r.jma_set # (r.a.ma_kind # "none") \/ (r.jma_set /\ (r.jma_neg # r.a.ma_neg \/ r.jma_digits # r.a.ma_digits)) THEN "JarMaxAge"
  ELSE "ok"

Verdict(r) == CASE r.op = "dump" -> (IF JudgeDump(r) # "ok" THEN JudgeDump(r) ELSE JudgeStored(r)) [] r.op = "jar" -> JudgeJar(r) [] OTHER -> "ok"

\* the MultiDict returned by parse_cookie groups repeated keys (first occurrence order)
RECURSIVE GroupPairs(_)
GroupPairs(ps) == IF ps = <<>> THEN <<>>
                  ELSE LET k == Head(ps)[1] IN SelectSeq(ps, LAMBDA p : p[1] = k) \o GroupPairs(SelectSeq(Tail(ps), LAMBDA p : p[1] # k))
\* model drift: the implementation-shaped model predicts the exact header and the exact parse results
DriftDump(r) ==
  \/ ~InDomain(r) \/ SameSiteBad(r.a) \/ r.exc # "" \/ Len(r.hdr) > 400
  \/ LET got == AttrsOf(r.hdr)
         synctext == IF SyncExpires(r.a) /\ Len(got) >= ExpiresIndex(r.a) THEN Drop(got[ExpiresIndex(r.a)], Len(S_Expires)) ELSE <<>>
     IN /\ r.hdr = DumpCookie(r.key, r.value, r.a, synctext)
        /\ r.req = PairOf(r.hdr)
        /\ (r.perr # "" \/ (r.ps = GroupPairs(ParseCookie(r.req)) /\ r.full = GroupPairs(ParseCookie(r.hdr))))
\* parse: any Cookie header string; the scanner model must predict the real parser's pairs
DriftParse(r) == r.perr # "" \/ Len(r.hdr) > 200 \/ ~IsText(r.hdr) \/ r.got = GroupPairs(ParseCookie(r.hdr))
Drift(r) == CASE r.op = "dump" -> DriftDump(r) [] r.op = "parse" -> DriftParse(r) [] OTHER -> TRUE

Init == l = 1
Next == /\ l <= Len(Lines)
        /\ LET r == Lines[l] v == Verdict(r) IN
           /\ IF v = "ok" THEN TRUE ELSE PrintT(ToJson([reject |-> 1, t |-> r.t, i |-> r.i, clause |-> v]))
           /\ IF Drift(r) THEN TRUE ELSE PrintT(ToJson([drift |-> 1, t |-> r.t, i |-> r.i, what |-> r.op]))
        /\ l' = l + 1
Done == PrintT(ToJson([judged |-> Len(Lines)])) /\ TLCGet("generated") >= 0
=============================================================================
