CONSTANTS
  EscHi = 25
  Alpha = {34, 59, 44, 92, 61, 32, 9, 13, 10, 0, 25, 26, 31, 127, 37, 233, 128512, 97}
  MaxLen = 1
  Sweep = FALSE
  AttrMode = "none"
  ValMode = "alpha"
INIT Init
NEXT Next
INVARIANT Escaped
INVARIANT RoundTripPair
INVARIANT RoundTripFull
INVARIANT AttrsExact
