------------------------------- MODULE Cookie -------------------------------
(* C13 -- cookie values round-trip and cannot inject attributes.                              *)
(*                                                                                            *)
(* Part 1 (contract): relations over observables that every correct implementation of        *)
(* dump_cookie / parse_cookie satisfies: the emitted value is an ASCII rendering of the text  *)
(* in which every octet outside the RFC 6265 cookie-octet set sits inside double quotes and   *)
(* is escaped; the header is the pair followed by exactly the requested attributes in the     *)
(* canonical spelling and order.                                                              *)
(* Part 2 (implementation-shaped model): DumpValue / DumpCookie / ParseCookie written like    *)
(* the code (escape class parameter EscHi, the _cookie_re scanner with its backtracking       *)
(* behaviour, strip, unslash), model-checked against part 1 and used for drift reports only.  *)
(* Text = code point sequences, bytes = 0..255 sequences (DESIGN.md section 5).               *)
EXTENDS Integers, Sequences, Text

CONSTANT EscHi      \* highest control byte the escaping class covers: 25 at the pinned commit, 31 repaired

DQ == 34
BSL == 92
SEMI == 59
EQ == 61
COMMA == 44

\* ---------------------------------------------------------------- character classes
\* RFC 6265: cookie-octet = %x21 / %x23-2B / %x2D-3A / %x3C-5B / %x5D-7E
CookieOctet(c) == c = 33 \/ (c >= 35 /\ c <= 43) \/ (c >= 45 /\ c <= 58) \/ (c >= 60 /\ c <= 91) \/ (c >= 93 /\ c <= 126)
\* RFC 7230 token
TokenChar(c) == IsAlnum(c) \/ c \in {33, 35, 36, 37, 38, 39, 42, 43, 45, 46, 94, 95, 96, 124, 126}
IsToken(s) == Len(s) > 0 /\ \A i \in 1..Len(s) : TokenChar(s[i])
IsOct(c, hi) == c >= 48 /\ c <= 48 + hi
IsText(s) == \A i \in 1..Len(s) : IsScalar(s[i])

\* ---------------------------------------------------------------- contract: value rendering
\* Decode the body of a quoted value strictly: raw cookie-octets (and SP, which the documented
\* behaviour leaves raw inside quotes: tests/test_http.py test_dump_cookie), \" , \\ , \ooo.
\* Result <<ok, bytes>>.
RECURSIVE BodyBytes(_, _)
BodyBytes(s, p) ==
  IF p > Len(s) THEN <<TRUE, <<>>>>
  ELSE IF s[p] = BSL THEN
         IF p + 1 <= Len(s) /\ s[p + 1] \in {DQ, BSL}
         THEN LET r == BodyBytes(s, p + 2) IN <<r[1], <<s[p + 1]>> \o r[2]>>
         ELSE IF p + 3 <= Len(s) /\ IsOct(s[p + 1], 3) /\ IsOct(s[p + 2], 7) /\ IsOct(s[p + 3], 7)
         THEN LET r == BodyBytes(s, p + 4) IN
              <<r[1], <<(s[p + 1] - 48) * 64 + (s[p + 2] - 48) * 8 + (s[p + 3] - 48)>> \o r[2]>>
         ELSE <<FALSE, <<>>>>
  ELSE IF CookieOctet(s[p]) \/ s[p] = SP
       THEN LET r == BodyBytes(s, p + 1) IN <<r[1], <<s[p]>> \o r[2]>>
  ELSE <<FALSE, <<>>>>

IsQuoted(e) == Len(e) >= 2 /\ e[1] = DQ /\ e[Len(e)] = DQ
\* which clause of the value contract fails ("ok" if none)
ValueClause(enc, v) ==
  IF ~IsAsciiSeq(enc) THEN "ValueNotAscii"
  ELSE IF IsQuoted(enc) THEN
         LET r == BodyBytes(Sub(enc, 2, Len(enc) - 1), 1) IN
         IF ~r[1] THEN "ValueOctetNotEscaped"
         ELSE IF r[2] # Utf8Enc(v) THEN "ValueBytesDiffer" ELSE "ok"
  ELSE IF \E i \in 1..Len(enc) : ~CookieOctet(enc[i]) THEN "ValueOctetOutsideQuotes"
  ELSE IF enc # v THEN "ValueBytesDiffer" ELSE "ok"
ValueOK(enc, v) == ValueClause(enc, v) = "ok"

\* ---------------------------------------------------------------- contract: attributes
S_Domain == <<68,111,109,97,105,110,61>>
S_Expires == <<69,120,112,105,114,101,115,61>>
S_MaxAge == <<77,97,120,45,65,103,101,61>>
S_Secure == <<83,101,99,117,114,101>>
S_HttpOnly == <<72,116,116,112,79,110,108,121>>
S_Path == <<80,97,116,104,61>>
S_SameSite == <<83,97,109,101,83,105,116,101,61>>
S_Partitioned == <<80,97,114,116,105,116,105,111,110,101,100>>
S_Strict == <<83,116,114,105,99,116>>
S_Lax == <<76,97,120>>
S_None == <<78,111,110,101>>
S_GMT == <<32,71,77,84>>
DayNames == <<<<84,104,117>>, <<70,114,105>>, <<83,97,116>>, <<83,117,110>>, <<77,111,110>>, <<84,117,101>>, <<87,101,100>>>>
MonNames == <<<<74,97,110>>, <<70,101,98>>, <<77,97,114>>, <<65,112,114>>, <<77,97,121>>, <<74,117,110>>, <<74,117,108>>, <<65,117,103>>, <<83,101,112>>, <<79,99,116>>, <<78,111,118>>, <<68,101,99>>>>

Lower(c) == IF c >= 65 /\ c <= 90 THEN c + 32 ELSE c
Upper(c) == IF c >= 97 /\ c <= 122 THEN c - 32 ELSE c
LowerSeq(s) == [i \in 1..Len(s) |-> Lower(s[i])]
\* SameSite: any letter case of strict / lax / none is accepted and spelled canonically
SameSiteCanon(s) == LET l == LowerSeq(s) IN
  IF l = LowerSeq(S_Strict) THEN S_Strict ELSE IF l = LowerSeq(S_Lax) THEN S_Lax
  ELSE IF l = LowerSeq(S_None) THEN S_None ELSE <<>>

\* decimal rendering
RECURSIVE DecDigits(_)
DecDigits(n) == IF n < 10 THEN <<48 + n>> ELSE DecDigits(n \div 10) \o <<48 + (n % 10)>>
Pad2(n) == <<48 + (n \div 10), 48 + (n % 10)>>
Pad4(n) == <<48 + (n \div 1000), 48 + ((n \div 100) % 10), 48 + ((n \div 10) % 10), 48 + (n % 10)>>
RECURSIVE NumOf(_, _)
NumOf(ds, acc) == IF ds = <<>> THEN acc ELSE NumOf(Tail(ds), acc * 10 + Head(ds))
DigitChars(ds) == [i \in 1..Len(ds) |-> 48 + ds[i]]

\* proleptic Gregorian date of a day number (days since 1970-01-01), <<y, m, d>>
Civil(days) ==
  LET z == days + 719468
      era == z \div 146097
      doe == z - era * 146097
      yoe == (doe - doe \div 1460 + doe \div 36524 - doe \div 146096) \div 365
      doy == doe - (365 * yoe + yoe \div 4 - yoe \div 100)
      mp == (5 * doy + 2) \div 153
      d == doy - (153 * mp + 2) \div 5 + 1
      m == IF mp < 10 THEN mp + 3 ELSE mp - 9
      y == yoe + era * 400 + (IF m <= 2 THEN 1 ELSE 0)
  IN <<y, m, d>>
\* IMF-fixdate (RFC 7231) of the instant <<days, secs>>, 0 <= secs < 86400, year 0..9999
HttpDate(days, secs) ==
  LET c == Civil(days) IN
  DayNames[(days % 7) + 1] \o <<COMMA, SP>> \o Pad2(c[3]) \o <<SP>> \o MonNames[c[2]] \o <<SP>> \o Pad4(c[1]) \o <<SP>>
  \o Pad2(secs \div 3600) \o <<58>> \o Pad2((secs \div 60) % 60) \o <<58>> \o Pad2(secs % 60) \o S_GMT
\* the instant n seconds after <<days, secs>> (n may be negative; \div is floor division)
Shift(days, secs, n) == LET t == secs + n IN <<days + t \div 86400, t % 86400>>

\* Domain: port and leading dots dropped, every label to its IDNA A-label.  IDNA of a non-ASCII label is
\* an uninterpreted function realised as a table of well-known pairs; ASCII labels are unchanged.
IdnaTable == { <<<<9731>>, <<120,110,45,45,110,51,104>>>>,                                        \* snowman
               <<<<98,252,99,104,101,114>>, <<120,110,45,45,98,99,104,101,114,45,107,118,97>>>>,   \* buecher
               <<<<20363,12360>>, <<120,110,45,45,114,56,106,122,52,53,103>>>>,
               <<<<109,252,110,99,104,101,110>>, <<120,110,45,45,109,110,99,104,101,110,45,51,121,97>>>> }
\* A trace may additionally log, per non-ASCII label of the BARE host, the result of the IDNA codec (trusted input, a sequence
\* of <<label, A-label>> pairs); the logged pairs take precedence over the built-in table.
LoggedIdna(tbl) == {<<tbl[i][1], tbl[i][2]>> : i \in 1..Len(tbl)}
IdnaPairs(l, tbl) == LET g == {p \in LoggedIdna(tbl) : p[1] = l /\ IsAsciiSeq(p[2])} IN IF g # {} THEN g ELSE {p \in IdnaTable : p[1] = l}
IdnaKnownT(l, tbl) == IsAsciiSeq(l) \/ IdnaPairs(l, tbl) # {}
IdnaLabelT(l, tbl) == IF IsAsciiSeq(l) THEN l ELSE (CHOOSE p \in IdnaPairs(l, tbl) : TRUE)[2]
RECURSIVE LStripDots(_)
LStripDots(s) == IF s # <<>> /\ Head(s) = 46 THEN LStripDots(Tail(s)) ELSE s
HostPart(d) == LET c == FindFrom(d, <<58>>, 1) IN LStripDots(IF c = 0 THEN d ELSE Take(d, c - 1))
\* canonical Domain attribute: port dropped, leading dots dropped, every label to its A-label (ASCII labels unchanged, also their case)
DomainKnownT(d, tbl) == LET ls == SplitOn(HostPart(d), 46, <<>>) IN \A i \in 1..Len(ls) : IdnaKnownT(ls[i], tbl)
DomainCanonT(d, tbl) == LET ls == SplitOn(HostPart(d), 46, <<>>) IN JoinWith([i \in 1..Len(ls) |-> IdnaLabelT(ls[i], tbl)], 46)
DomainKnown(d) == DomainKnownT(d, <<>>)
DomainCanon(d) == DomainCanonT(d, <<>>)

\* Path: contract = printable ASCII without ';' (RFC 6265 path-value, no CTLs) and without SP, carrying the same
\* path once percent-decoded; the implementation-shaped rendering quotes everything outside PathSafe.
PathSafe == {c \in 33..126 : IsAlnum(c)} \cup {33, 36, 37, 38, 39, 40, 41, 42, 43, 44, 45, 46, 47, 58, 61, 64, 95, 126}
PathModel(p) == PctEncode(Utf8Enc(p), PathSafe)
PathAttrOK(txt, p) == /\ \A i \in 1..Len(txt) : txt[i] >= 33 /\ txt[i] <= 126 /\ txt[i] # SEMI
                      /\ PctDecode(txt) = PctDecode(Utf8Enc(p))

\* the attribute record `a` (same shape in the model and in recorded traces):
\*  path_set, path, dom_set, domain, ma_kind ("none"|"int"|"td"), ma_neg, ma_digits, exp_kind ("none"|"dt"|"ts"|"str"),
\*  exp_days, exp_secs, exp_text, sync, secure, httponly, ss_set, samesite, partitioned, idna (logged <<label, A-label>> pairs, may be <<>>)
MaxAgeText(a) == (IF a.ma_neg THEN <<45>> ELSE <<>>) \o DigitChars(a.ma_digits)
MaxAgeNum(a) == (IF a.ma_neg THEN 0 - 1 ELSE 1) * NumOf(a.ma_digits, 0)
SameSiteBad(a) == a.ss_set /\ SameSiteCanon(a.samesite) = <<>>
SyncExpires(a) == a.exp_kind = "none" /\ a.ma_kind # "none" /\ a.sync
HasExpires(a) == a.exp_kind # "none" \/ SyncExpires(a)
ExpiresText(a, synctext) == IF a.exp_kind = "str" THEN a.exp_text
                            ELSE IF a.exp_kind \in {"dt", "ts"} THEN HttpDate(a.exp_days, a.exp_secs) ELSE synctext
\* canonical attribute list: fixed order Domain, Expires, Max-Age, Secure, HttpOnly, Path, SameSite, Partitioned.
\* `synctext` stands for the Expires value when it is derived from the clock; `pathtext` for the rendering of the path
ExpectedAttrs(a, synctext, pathtext) ==
     (IF a.dom_set THEN <<S_Domain \o DomainCanonT(a.domain, a.idna)>> ELSE <<>>)
  \o (IF HasExpires(a) THEN <<S_Expires \o ExpiresText(a, synctext)>> ELSE <<>>)
  \o (IF a.ma_kind # "none" THEN <<S_MaxAge \o MaxAgeText(a)>> ELSE <<>>)
  \o (IF a.secure \/ a.partitioned THEN <<S_Secure>> ELSE <<>>)
  \o (IF a.httponly THEN <<S_HttpOnly>> ELSE <<>>)
  \o (IF a.path_set THEN <<S_Path \o pathtext>> ELSE <<>>)
  \o (IF a.ss_set THEN <<S_SameSite \o SameSiteCanon(a.samesite)>> ELSE <<>>)
  \o (IF a.partitioned THEN <<S_Partitioned>> ELSE <<>>)
ExpiresIndex(a) == IF a.dom_set THEN 2 ELSE 1
PathIndex(a) == 1 + (IF a.dom_set THEN 1 ELSE 0) + (IF HasExpires(a) THEN 1 ELSE 0) + (IF a.ma_kind # "none" THEN 1 ELSE 0)
                  + (IF a.secure \/ a.partitioned THEN 1 ELSE 0) + (IF a.httponly THEN 1 ELSE 0)

\* a Set-Cookie header as a user agent sees it: split on ';', one leading SP per attribute
HeaderSegs(h) == SplitOn(h, SEMI, <<>>)
AttrOfSeg(s) == IF s # <<>> /\ Head(s) = SP THEN Tail(s) ELSE <<0>> \o s          \* <<0>>: marks the missing space
AttrsOf(h) == LET g == HeaderSegs(h) IN [i \in 1..(Len(g) - 1) |-> AttrOfSeg(g[i + 1])]
PairOf(h) == HeaderSegs(h)[1]
AfterEq(s) == LET e == FindFrom(s, <<EQ>>, 1) IN IF e = 0 THEN <<>> ELSE Drop(s, e)

\* ---------------------------------------------------------------- implementation-shaped model
Octal(b) == <<BSL, 48 + (b \div 64), 48 + ((b \div 8) % 8), 48 + (b % 8)>>
EscByte(b) == IF b = DQ THEN <<BSL, DQ>> ELSE IF b = BSL THEN <<BSL, BSL>>
              ELSE IF b <= EscHi \/ b = COMMA \/ b = SEMI \/ b >= 127 THEN Octal(b) ELSE <<b>>
RECURSIVE EscBytes(_)
EscBytes(bs) == IF bs = <<>> THEN <<>> ELSE EscByte(Head(bs)) \o EscBytes(Tail(bs))
DumpValue(v) == IF \A i \in 1..Len(v) : CookieOctet(v[i]) THEN v ELSE <<DQ>> \o EscBytes(Utf8Enc(v)) \o <<DQ>>
DumpPair(k, v) == k \o <<EQ>> \o DumpValue(v)
RECURSIVE JoinSemiSp(_)
JoinSemiSp(ss) == IF ss = <<>> THEN <<>> ELSE <<SEMI, SP>> \o Head(ss) \o JoinSemiSp(Tail(ss))
\* (the clock-derived Expires is not modelled: synctext given)
DumpCookie(k, v, a, synctext) == DumpPair(k, v) \o JoinSemiSp(ExpectedAttrs(a, synctext, PathModel(a.path)))

\* --- the request cookie parser: _cookie_re.findall(cookie + ";"), strip, unslash
IsReWs(c) == c \in {32, 9, 10, 11, 12, 13}                       \* \s under re.ASCII
IsPyWs(c) == c \in {9, 10, 11, 12, 13, 28, 29, 30, 31, 32, 133, 160, 5760, 8232, 8233, 8239, 8287, 12288} \/ (c >= 8192 /\ c <= 8202)
RECURSIVE SkipWs(_, _)
SkipWs(s, p) == IF p <= Len(s) /\ IsReWs(s[p]) THEN SkipWs(s, p + 1) ELSE p
RECURSIVE KeyEnd(_, _)
KeyEnd(s, p) == IF p > Len(s) \/ s[p] \in {EQ, SEMI} THEN p ELSE KeyEnd(s, p + 1)
\* position of the closing quote of "(?:[^\\"]|\\.)*" opened at p - 1, 0 if it does not match
RECURSIVE QuotedEnd(_, _)
QuotedEnd(s, p) == IF p > Len(s) THEN 0
                   ELSE IF s[p] = DQ THEN p
                   ELSE IF s[p] = BSL THEN (IF p + 1 <= Len(s) /\ s[p + 1] # 10 THEN QuotedEnd(s, p + 2) ELSE 0)
                   ELSE QuotedEnd(s, p + 1)
RECURSIVE RStripRe(_)
RStripRe(s) == IF s # <<>> /\ IsReWs(s[Len(s)]) THEN RStripRe(Take(s, Len(s) - 1)) ELSE s
RECURSIVE StripPyL(_)
StripPyL(s) == IF s # <<>> /\ IsPyWs(Head(s)) THEN StripPyL(Tail(s)) ELSE s
RECURSIVE StripPyR(_)
StripPyR(s) == IF s # <<>> /\ IsPyWs(s[Len(s)]) THEN StripPyR(Take(s, Len(s) - 1)) ELSE s
StripPy(s) == StripPyR(StripPyL(s))

\* one attempt of the pattern at p (s ends with ';'): [ok, k, v, nxt]
Fail == [ok |-> FALSE, k |-> <<>>, v |-> <<>>, nxt |-> 0]
MatchAt(s, p) ==
  LET ke == KeyEnd(s, p) key == Sub(s, p, ke - 1) IN
  IF ke > Len(s) THEN Fail
  ELSE IF s[ke] = SEMI THEN [ok |-> TRUE, k |-> key, v |-> <<>>, nxt |-> SkipWs(s, ke + 1)]
  ELSE LET vs == SkipWs(s, ke + 1)
           qe == IF vs <= Len(s) /\ s[vs] = DQ THEN QuotedEnd(s, vs + 1) ELSE 0
           qa == IF qe > 0 THEN SkipWs(s, qe + 1) ELSE 0
           sc == FindFrom(s, <<SEMI>>, vs)
           lazy == RStripRe(Sub(s, vs, sc - 1))
       IN IF qe > 0 /\ qa <= Len(s) /\ s[qa] = SEMI
          THEN [ok |-> TRUE, k |-> key, v |-> Sub(s, vs, qe), nxt |-> SkipWs(s, qa + 1)]
          ELSE IF sc > 0 /\ \A i \in 1..Len(lazy) : lazy[i] # 10
          THEN [ok |-> TRUE, k |-> key, v |-> lazy, nxt |-> SkipWs(s, sc + 1)]
          ELSE Fail
RECURSIVE ScanPairs(_, _)
ScanPairs(s, p) == IF p > Len(s) THEN <<>>
                   ELSE LET m == MatchAt(s, p) IN
                        IF m.ok THEN <<<<m.k, m.v>>>> \o ScanPairs(s, m.nxt) ELSE ScanPairs(s, p + 1)
\* _cookie_unslash_re over bytes: \ooo | \. (the dot does not match LF)
RECURSIVE Unslash(_, _)
Unslash(b, p) == IF p > Len(b) THEN <<>>
  ELSE IF b[p] = BSL /\ p + 3 <= Len(b) /\ IsOct(b[p + 1], 3) /\ IsOct(b[p + 2], 7) /\ IsOct(b[p + 3], 7)
       THEN <<(b[p + 1] - 48) * 64 + (b[p + 2] - 48) * 8 + (b[p + 3] - 48)>> \o Unslash(b, p + 4)
  ELSE IF b[p] = BSL /\ p + 1 <= Len(b) /\ b[p + 1] # 10 THEN <<b[p + 1]>> \o Unslash(b, p + 2)
  ELSE <<b[p]>> \o Unslash(b, p + 1)
Unquote(v) == IF IsQuoted(v) THEN Utf8Dec(Unslash(Utf8Enc(Sub(v, 2, Len(v) - 1)), 1)) ELSE v
RECURSIVE Cook(_)
Cook(ps) == IF ps = <<>> THEN <<>>
            ELSE LET k == StripPy(Head(ps)[1]) v == StripPy(Head(ps)[2]) IN
                 (IF k = <<>> THEN <<>> ELSE <<<<k, Unquote(v)>>>>) \o Cook(Tail(ps))
ParseCookie(h) == IF h = <<>> THEN <<>> ELSE Cook(ScanPairs(h \o <<SEMI>>, 1))
=============================================================================
