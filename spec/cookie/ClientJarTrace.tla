--------------------------- MODULE ClientJarTrace ---------------------------
(* Trace judge for the test client's jar (C13 growth).  One trace = one history on one Client.       *)
(* Lines (ndjson, TRACE_FILE; text as code point arrays, times in ticks, -1 absent, -2 epoch):        *)
(*  [t, i, op, a, sent, sent2, found, got, proj, exc]                                                  *)
(*   op   = "init" | "req" | "redir" | "cset" | "cdel" | "cget" | "tick"                               *)
(*          | "reqm" / "setcm" / "setc": a response with several Set-Cookie headers (request + first   *)
(*          header, middle headers, last header; the jar is projected after the last one)              *)
(*   a    = [host, rp, rp2, https, has_sc, name, val, domattr, pathattr, ma, exp, secure, httponly,    *)
(*           ss, dom, path, oo]   (every field always present)                                         *)
(*   sent / sent2 = (name, value) pairs request.cookies showed in the (follow-up) request              *)
(*   found, got   = result of Client.get_cookie (op cget)                                              *)
(*   proj = the jar after the step, read with get_cookie over candidate keys:                          *)
(*           records [dom, path, name, val, ho, secure, httponly, ss, ma (seconds), exp (tick)]        *)
EXTENDS ClientJar, TLC, Json, IOUtils

Lines == ndJsonDeserialize(IOEnv.TRACE_FILE)
VARIABLES l, jar, now, dead
vars == <<l, jar, now, dead>>

CONSTANT Tick          \* seconds per time unit of the recorded trace (3600 for model-driven histories, 1 for repository-test sessions)
TICK == Tick
ToSet(s) == {s[i] : i \in 1..Len(s)}
SCof(a) == [name |-> a.name, val |-> a.val, domattr |-> a.domattr, pathattr |-> a.pathattr, ma |-> a.ma, exp |-> a.exp,
            secure |-> a.secure, httponly |-> a.httponly, ss |-> a.ss]
CAof(a) == [name |-> a.name, val |-> a.val, dom |-> a.dom, path |-> a.path, oo |-> a.oo, ma |-> a.ma, exp |-> a.exp,
            secure |-> a.secure, httponly |-> a.httponly, ss |-> a.ss]
PostJar(r) == LET a == r.a IN
  CASE r.op = "init" -> {}
    [] r.op \in {"req", "reqm"} /\ a.has_sc -> Update(jar, FromResponse(a.host, a.rp, SCof(a), now), SCof(a))
    [] r.op \in {"setc", "setcm"} -> Update(jar, FromResponse(a.host, a.rp, SCof(a), now), SCof(a))
    [] r.op = "redir" -> Update(jar, FromResponse(a.host, a.rp, SCof(a), now), SCof(a))
    [] r.op = "cset" -> Update(jar, FromClient(CAof(a), now), CAof(a))
    [] r.op = "cdel" -> Remove(jar, <<a.dom, a.path, a.name>>)
    [] OTHER -> jar
PostNow(r) == IF r.op = "init" THEN 1 ELSE IF r.op = "tick" THEN now + 1 ELSE now
OutOfContract(r) == r.op \in {"req", "redir", "reqm", "setc", "setcm"} /\ r.a.has_sc /\ ~InContract(r.a.host, SCof(r.a))

SameAttrs(c, p) == /\ p.val = c.val /\ p.ho = c.ho /\ p.secure = c.secure /\ p.httponly = c.httponly /\ p.ss = c.ss
                   /\ p.ma = (IF c.ma = ABSENT THEN ABSENT ELSE c.ma * TICK)
                   /\ (c.exp # ABSENT => p.exp = c.exp)
PKey(p) == <<p.dom, p.path, p.name>>
StoredClause(j, nw, proj) ==
  IF \E c \in j : Live(c, nw) /\ ~\E p \in proj : PKey(p) = KeyOf(c) /\ SameAttrs(c, p) THEN "JarSMStored"
  ELSE IF \E p \in proj : ~\E c \in j : KeyOf(c) = PKey(p) THEN "JarSMGhost"
  ELSE "ok"
SendClause(j, host, rp, https, nw, S) ==
  IF NotSent(j, host, rp, https, nw, S) # {} THEN "JarSMNotSent"
  ELSE IF Leaked(j, host, rp, S) # {} THEN "JarSMLeaked" ELSE "ok"
GetClause(r) == LET k == <<r.a.dom, r.a.path, r.a.name>> IN
  IF \E c \in jar : KeyOf(c) = k
  THEN LET c == CHOOSE c \in jar : KeyOf(c) = k IN
       IF ~Live(c, now) THEN "ok" ELSE IF r.found /\ PKey(r.got) = k /\ SameAttrs(c, r.got) THEN "ok" ELSE "JarSMStored"
  ELSE IF r.found THEN "JarSMGhost" ELSE "ok"

RECURSIVE First(_)
First(cs) == IF cs = <<>> THEN "ok" ELSE IF Head(cs) # "ok" THEN Head(cs) ELSE First(Tail(cs))
Verdict(r) == LET a == r.a pj == PostJar(r) IN
  IF r.op = "init" THEN "ok"
  ELSE IF r.exc # "" THEN "JarSMRaised"
  ELSE CASE r.op = "req" -> IF SendClause(jar, a.host, a.rp, a.https, now, ToSet(r.sent)) # "ok" THEN SendClause(jar, a.host, a.rp, a.https, now, ToSet(r.sent))
                              ELSE StoredClause(pj, now, ToSet(r.proj))
         [] r.op = "redir" -> IF SendClause(jar, a.host, a.rp, a.https, now, ToSet(r.sent)) # "ok" THEN SendClause(jar, a.host, a.rp, a.https, now, ToSet(r.sent))
                              ELSE IF SendClause(pj, a.host, a.rp2, a.https, now, ToSet(r.sent2)) # "ok" THEN SendClause(pj, a.host, a.rp2, a.https, now, ToSet(r.sent2))
                              ELSE StoredClause(pj, now, ToSet(r.proj))
         [] r.op = "reqm" -> SendClause(jar, a.host, a.rp, a.https, now, ToSet(r.sent))   \* further Set-Cookie headers of the same response follow
         [] r.op = "setcm" -> "ok"
         [] r.op = "cget" -> GetClause(r)
         [] OTHER -> StoredClause(pj, PostNow(r), ToSet(r.proj))

\* drift: the implementation-shaped sender and store predict the observations exactly
Drift(r) == LET a == r.a pj == PostJar(r) IN
  \/ r.op = "init" \/ r.exc # ""
  \/ /\ (r.op \in {"req", "redir", "reqm"} => ToSet(r.sent) = ImplSend(jar, a.host, a.rp))
     /\ (r.op = "redir" => ToSet(r.sent2) = ImplSend(pj, a.host, a.rp2))
     /\ (r.op \notin {"reqm", "setcm"} => {PKey(p) : p \in ToSet(r.proj)} = {KeyOf(c) : c \in pj})

Init == l = 1 /\ jar = {} /\ now = 1 /\ dead = FALSE
Next == /\ l <= Len(Lines)
        /\ LET r == Lines[l]
               skip == r.op # "init" /\ (dead \/ OutOfContract(r))
               v == IF skip THEN "ok" ELSE Verdict(r)
           IN /\ IF v = "ok" THEN TRUE ELSE PrintT(ToJson([reject |-> 1, t |-> r.t, i |-> r.i, clause |-> v]))
              /\ IF skip \/ Drift(r) THEN TRUE ELSE PrintT(ToJson([drift |-> 1, t |-> r.t, i |-> r.i, what |-> r.op]))
              /\ dead' = skip
              /\ jar' = IF skip THEN jar ELSE PostJar(r)
              /\ now' = PostNow(r)
        /\ l' = l + 1
Done == PrintT(ToJson([judged |-> Len(Lines)])) /\ TLCGet("generated") >= 0
=============================================================================
