CONSTANTS
  Variant = "real"
  Hosts <- Hosts3
  ReqPaths <- ReqPaths3
  CookiePaths <- CookiePaths2
  Names <- Names1
  DomAttrs <- DomAttrs1
  Lives <- Lives3
  MaxSteps = 2
  MaxClock = 3
  WithRedirect = TRUE
INIT Init
NEXT Next
VIEW View
ACTION_CONSTRAINT Export
