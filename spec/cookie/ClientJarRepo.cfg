CONSTANTS
  Variant = "real"
  Tick = 1
INIT Init
NEXT Next
POSTCONDITION Done
CHECK_DEADLOCK FALSE
