------------------------------- MODULE Bytes -------------------------------
(* Byte / code point sequence helpers shared by all specs.  Positions are 1-based.       *)
(* Nothing here is werkzeug specific.                                                     *)
EXTENDS Naturals, Sequences

Sub(s, a, b) == IF a <= b /\ a >= 1 /\ b <= Len(s) THEN SubSeq(s, a, b)
                ELSE IF a <= b /\ a >= 1 /\ a <= Len(s) THEN SubSeq(s, a, Len(s)) ELSE <<>>
Drop(s, n) == IF n >= Len(s) THEN <<>> ELSE SubSeq(s, n + 1, Len(s))
Take(s, n) == IF n <= 0 THEN <<>> ELSE IF n >= Len(s) THEN s ELSE SubSeq(s, 1, n)

StartsAt(s, p, pat) == /\ p >= 1
                       /\ p + Len(pat) - 1 <= Len(s)
                       /\ \A i \in 1..Len(pat) : s[p + i - 1] = pat[i]

\* least q >= p such that pat occurs at q, 0 if none
RECURSIVE FindFrom(_, _, _)
FindFrom(s, pat, p) == IF p + Len(pat) - 1 > Len(s) THEN 0
                       ELSE IF StartsAt(s, p, pat) THEN p ELSE FindFrom(s, pat, p + 1)
Contains(s, pat) == FindFrom(s, pat, 1) > 0

IsPrefixOf(a, b) == Len(a) <= Len(b) /\ \A i \in 1..Len(a) : a[i] = b[i]

\* 0-based index of the last occurrence of c, Len(s) if there is none (Python: rindex / except)
RECURSIVE RIdxFrom(_, _, _)
RIdxFrom(s, c, p) == IF p = 0 THEN Len(s) ELSE IF s[p] = c THEN p - 1 ELSE RIdxFrom(s, c, p - 1)
RIdx0(s, c) == RIdxFrom(s, c, Len(s))

Min2(a, b) == IF a <= b THEN a ELSE b
Max2(a, b) == IF a >= b THEN a ELSE b

RECURSIVE Concat(_)
Concat(ss) == IF ss = <<>> THEN <<>> ELSE Head(ss) \o Concat(Tail(ss))

RECURSIVE SumSeq(_)
SumSeq(ns) == IF ns = <<>> THEN 0 ELSE Head(ns) + SumSeq(Tail(ns))

\* all sequences over S of length exactly n / at most n
RECURSIVE SeqsLen(_, _)
SeqsLen(S, n) == IF n = 0 THEN {<<>>} ELSE {<<x>> \o r : x \in S, r \in SeqsLen(S, n - 1)}
SeqsUpTo(S, n) == UNION {SeqsLen(S, k) : k \in 0..n}

CR == 13
LF == 10
DASH == 45
SP == 32
TAB == 9
=============================================================================
