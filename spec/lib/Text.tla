-------------------------------- MODULE Text --------------------------------
(* Code points, UTF-8 and percent-coding over integer sequences (DESIGN.md section 5).     *)
(* Text is a sequence of code points (0..1114111 minus surrogates), bytes a Seq(0..255).    *)
EXTENDS Naturals, Sequences, Bytes

IsSurrogate(c) == c >= 55296 /\ c <= 57343
IsScalar(c) == c >= 0 /\ c <= 1114111 /\ ~IsSurrogate(c)

Utf8Of(c) ==
  IF c < 128 THEN <<c>>
  ELSE IF c < 2048 THEN <<192 + (c \div 64), 128 + (c % 64)>>
  ELSE IF c < 65536 THEN <<224 + (c \div 4096), 128 + ((c \div 64) % 64), 128 + (c % 64)>>
  ELSE <<240 + (c \div 262144), 128 + ((c \div 4096) % 64), 128 + ((c \div 64) % 64), 128 + (c % 64)>>

RECURSIVE Utf8Enc(_)
Utf8Enc(t) == IF t = <<>> THEN <<>> ELSE Utf8Of(Head(t)) \o Utf8Enc(Tail(t))

IsCont(b) == b >= 128 /\ b <= 191
\* strict decoder of one scalar at p: <<ok, codepoint, length>>
Utf8At(s, p) ==
  LET b == s[p] n == Len(s) IN
  IF b < 128 THEN <<TRUE, b, 1>>
  ELSE IF b >= 194 /\ b <= 223 /\ p + 1 <= n /\ IsCont(s[p + 1])
       THEN <<TRUE, (b - 192) * 64 + (s[p + 1] - 128), 2>>
  ELSE IF b >= 224 /\ b <= 239 /\ p + 2 <= n /\ IsCont(s[p + 1]) /\ IsCont(s[p + 2])
       THEN LET c == (b - 224) * 4096 + (s[p + 1] - 128) * 64 + (s[p + 2] - 128) IN
            IF c >= 2048 /\ ~IsSurrogate(c) THEN <<TRUE, c, 3>> ELSE <<FALSE, 0, 1>>
  ELSE IF b >= 240 /\ b <= 244 /\ p + 3 <= n /\ IsCont(s[p + 1]) /\ IsCont(s[p + 2]) /\ IsCont(s[p + 3])
       THEN LET c == (b - 240) * 262144 + (s[p + 1] - 128) * 4096 + (s[p + 2] - 128) * 64 + (s[p + 3] - 128) IN
            IF c >= 65536 /\ c <= 1114111 THEN <<TRUE, c, 4>> ELSE <<FALSE, 0, 1>>
  ELSE <<FALSE, 0, 1>>

RECURSIVE Utf8Valid(_, _)
Utf8Valid(s, p) == IF p > Len(s) THEN TRUE ELSE LET r == Utf8At(s, p) IN r[1] /\ Utf8Valid(s, p + r[3])
\* decode with U+FFFD for every undecodable byte (one replacement per bad byte: an approximation
\* of Python's "replace"; only used on valid input by the contracts)
RECURSIVE Utf8DecFrom(_, _)
Utf8DecFrom(s, p) == IF p > Len(s) THEN <<>>
                     ELSE LET r == Utf8At(s, p) IN
                          <<IF r[1] THEN r[2] ELSE 65533>> \o Utf8DecFrom(s, p + r[3])
Utf8Dec(s) == Utf8DecFrom(s, 1)

\* ---- hex / percent coding ----
HexDigit(n) == IF n < 10 THEN 48 + n ELSE 55 + n                 \* upper case
HexVal(c) == IF c >= 48 /\ c <= 57 THEN c - 48
             ELSE IF c >= 65 /\ c <= 70 THEN c - 55
             ELSE IF c >= 97 /\ c <= 102 THEN c - 87 ELSE 99
IsHex(c) == HexVal(c) < 16
PCT == 37
PLUS == 43

IsAlnum(c) == (c >= 48 /\ c <= 57) \/ (c >= 65 /\ c <= 90) \/ (c >= 97 /\ c <= 122)
Unreserved(c) == IsAlnum(c) \/ c \in {45, 46, 95, 126}            \* - . _ ~

\* percent-encode bytes, leaving bytes in `safe` (a set) alone
RECURSIVE PctEncode(_, _)
PctEncode(bs, safe) == IF bs = <<>> THEN <<>>
  ELSE LET b == Head(bs) IN
       (IF b \in safe THEN <<b>> ELSE <<PCT, HexDigit(b \div 16), HexDigit(b % 16)>>) \o PctEncode(Tail(bs), safe)

\* percent-decode to bytes; malformed escapes stay literal
RECURSIVE PctDecodeFrom(_, _)
PctDecodeFrom(s, p) == IF p > Len(s) THEN <<>>
  ELSE IF s[p] = PCT /\ p + 2 <= Len(s) /\ IsHex(s[p + 1]) /\ IsHex(s[p + 2])
       THEN <<HexVal(s[p + 1]) * 16 + HexVal(s[p + 2])>> \o PctDecodeFrom(s, p + 3)
  ELSE <<s[p]>> \o PctDecodeFrom(s, p + 1)
PctDecode(s) == PctDecodeFrom(s, 1)

IsAsciiSeq(s) == \A i \in 1..Len(s) : s[i] < 128

\* split a sequence at every occurrence of the element sep
RECURSIVE SplitOn(_, _, _)
SplitOn(s, sep, cur) == IF s = <<>> THEN <<cur>>
                        ELSE IF Head(s) = sep THEN <<cur>> \o SplitOn(Tail(s), sep, <<>>)
                        ELSE SplitOn(Tail(s), sep, Append(cur, Head(s)))
RECURSIVE JoinWith(_, _)
JoinWith(ss, sep) == IF ss = <<>> THEN <<>> ELSE IF Len(ss) = 1 THEN ss[1]
                     ELSE ss[1] \o <<sep>> \o JoinWith(Tail(ss), sep)
=============================================================================
