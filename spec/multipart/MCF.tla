---- MODULE MCF ----
EXTENDS MCForm
BndB == <<98>>
====
