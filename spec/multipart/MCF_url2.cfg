CONSTANTS
  Variant = "fixed"
  EncoderVariant = "fixed"
  Boundary <- BndB
  Alpha = {120}
  MaxPay = 0
  PartCounts = {0}
  MaxFrags = 1
  Mode = "url"
  CpAlpha = {97, 32, 43, 37, 38, 61, 233, 128512}
  MaxPairs = 2
  MaxText = 1
INIT Init
NEXT NoNext
INVARIANT UrlInverse
