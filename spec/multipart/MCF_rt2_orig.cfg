CONSTANTS
  Variant = "fixed"
  EncoderVariant = "orig"
  Boundary <- BndB
  Alpha = {13, 10, 45, 98, 120}
  MaxPay = 1
  PartCounts = {2}
  MaxFrags = 2
  Mode = "multipart"
  CpAlpha = {97}
  MaxPairs = 0
  MaxText = 0
INIT Init
NEXT NoNext
INVARIANT RoundTrip
