CONSTANTS
  Variant = "fixed"
  Boundary <- BndB
  Alpha = {13, 10, 45, 98, 120}
  MaxPay = 4
  PartCounts = {1}
  Styles = {"crlf"}
  Pres <- Empty
  Epis <- Empty
  Leads = {FALSE}
  MaxChunks = 2
  MaxMem = 54
  MaxPartsLim <- NoLim
INIT Init
NEXT Next
INVARIANT OnlyTooLarge
INVARIANT BufBound
INVARIANT PartsBound
INVARIANT GuardPurity
INVARIANT PrefixOfRef
