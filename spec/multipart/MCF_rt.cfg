CONSTANTS
  Variant = "fixed"
  EncoderVariant = "fixed"
  Boundary <- BndB
  Alpha = {13, 10, 45, 98, 120}
  MaxPay = 4
  PartCounts = {0, 1}
  MaxFrags = 3
  Mode = "multipart"
  CpAlpha = {97}
  MaxPairs = 0
  MaxText = 0
INIT Init
NEXT NoNext
INVARIANT RoundTrip
