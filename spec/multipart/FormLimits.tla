----------------------------- MODULE FormLimits -----------------------------
(* C10 at request level: an implementation-shaped model of Request.form under the three      *)
(* limits, composed of                                                                       *)
(*   get_input_stream  (which stream the parser reads: declared-too-large check, maximum     *)
(*                      limit on a terminated stream, Content-Length limit, empty fallback),  *)
(*   LimitedStream     (abstracted to what a sequence of read(size) / read() calls returns),  *)
(*   MultiPartParser   (the _chunk_iter loop feeding the decoder model of Multipart.tla, the   *)
(*                      accumulated field-size check) / the urlencoded reader,                *)
(* checked against the contract of the property (the clauses the trace judge applies to the   *)
(* real code: DeclaredTooLargeUnread, ConsumedBound, OnlyTooLarge, LimitNotEnforced,          *)
(* GuardPurity, EmptyWithoutLength).                                                          *)
EXTENDS Multipart

CONSTANT ModelVariant   \* "ok" | "term_first" | "no_field_check"  (the last two are deliberately broken)
NoneV == 0 - 1

\* ---- get_input_stream ----------------------------------------------------------------------
\* result: <<"too_large">> | <<"empty">> | <<"raw">> | <<"lim", L>> | <<"max", M>>
InputStream(n, hasCL, term, mcl) ==
  LET cl == IF hasCL THEN n ELSE NoneV IN
  IF ModelVariant = "term_first" /\ term THEN (IF mcl # NoneV THEN <<"max", mcl>> ELSE <<"raw">>)
  ELSE IF cl # NoneV /\ mcl # NoneV /\ cl > mcl THEN <<"too_large">>
  ELSE IF term THEN (IF mcl # NoneV THEN <<"max", mcl>> ELSE <<"raw">>)
  ELSE IF cl = NoneV THEN <<"empty">>
  ELSE <<"lim", cl>>

\* one read(size) at position pos of a body of n bytes: [k |-> bytes returned, err]
ReadAt(st, n, pos, size) ==
  CASE st[1] = "empty" -> [k |-> 0, err |-> ""]
    [] st[1] = "raw"   -> [k |-> Min2(size, n - pos), err |-> ""]
    [] st[1] = "lim"   -> [k |-> Min2(size, Min2(st[2], n) - pos), err |-> ""]
    [] st[1] = "max"   -> IF pos >= st[2] THEN [k |-> 0, err |-> "too_large"]        \* on_exhausted
                          ELSE [k |-> Min2(size, Min2(st[2], n) - pos), err |-> ""]

\* ---- MultiPartParser.parse over that stream ---------------------------------------------------
FieldTooBig(ev, maxmem) == ModelVariant # "no_field_check" /\ maxmem # NoneV /\ \E i \in 1..Len(PartsOf(ev)) : Len(PartsOf(ev)[i].data) > maxmem

RECURSIVE ParseLoop(_, _, _, _, _, _, _, _)
\* returns [err, ev, consumed]
ParseLoop(st, wire, bnd, pos, d, bufsize, maxmem, maxparts) ==
  LET r == ReadAt(st, Len(wire), pos, bufsize) IN
  IF r.err # "" THEN [err |-> r.err, ev |-> d.ev, consumed |-> pos]
  ELSE IF r.k = 0 THEN
       LET e == FeedEOF(d, bnd, maxparts) IN
       [err |-> IF e.err = "value" THEN "silent" ELSE e.err, ev |-> e.ev, consumed |-> pos]
  ELSE LET d2 == Feed(d, SubSeq(wire, pos + 1, pos + r.k), bnd, maxmem, maxparts) IN
       IF d2.err # "" THEN [err |-> IF d2.err = "value" THEN "silent" ELSE d2.err, ev |-> d2.ev, consumed |-> pos + r.k]
       ELSE IF FieldTooBig(d2.ev, maxmem) THEN [err |-> "too_large", ev |-> d2.ev, consumed |-> pos + r.k]
       ELSE ParseLoop(st, wire, bnd, pos + r.k, d2, bufsize, maxmem, maxparts)

\* Request.form for a multipart body: [err, parts, consumed]; "silent" = ValueError swallowed -> empty form
ReqMultipart(wire, bnd, hasCL, term, mcl, maxmem, maxparts, bufsize) ==
  LET st == InputStream(Len(wire), hasCL, term, mcl) IN
  IF st[1] = "too_large" THEN [err |-> "too_large", parts |-> <<>>, consumed |-> 0]
  ELSE LET r == ParseLoop(st, wire, bnd, 0, InitDec, bufsize, maxmem, maxparts) IN
       [err |-> IF r.err = "silent" THEN "" ELSE r.err,
        parts |-> IF r.err = "" THEN PartsOf(r.ev) ELSE <<>>, consumed |-> r.consumed]

\* ---- the contract (same clauses as JudgeReq in MultipartTrace.tla) ----------------------------
ReqClause(wire, refparts, hasCL, term, mcl, maxmem, maxparts, out) ==
  LET n      == Len(wire)
      usable == hasCL \/ term
      fieldBig == maxmem # NoneV /\ \E i \in 1..Len(refparts) : Len(refparts[i].data) > maxmem
      manyParts == maxparts # NoneV /\ Len(refparts) > maxparts
      bodyBig == mcl # NoneV /\ n > mcl /\ usable
      anyLimit == mcl # NoneV \/ maxmem # NoneV \/ maxparts # NoneV
  IN IF hasCL /\ mcl # NoneV /\ n > mcl /\ (out.err # "too_large" \/ out.consumed # 0) THEN "DeclaredTooLargeUnread"
     ELSE IF mcl # NoneV /\ out.consumed > mcl THEN "ConsumedBound"
     ELSE IF out.err \notin {"", "too_large"} THEN "OnlyTooLarge"
     ELSE IF out.err = "too_large" THEN (IF anyLimit THEN "ok" ELSE "SpuriousTooLarge")
     ELSE IF ~usable THEN (IF out.parts = <<>> THEN "ok" ELSE "EmptyWithoutLength")
     ELSE IF fieldBig \/ manyParts \/ bodyBig THEN "LimitNotEnforced"
     ELSE IF out.parts = refparts THEN "ok"
     ELSE "GuardPurity"
=============================================================================
