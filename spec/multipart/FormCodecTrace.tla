--------------------------- MODULE FormCodecTrace ---------------------------
(* Trace judge for C02.  Lines (ndjson, TRACE_FILE):                                         *)
(*  rt : [t, i, op, path, err, intended: <<part>>, parsed: <<part>>]                          *)
(*       part = [kind, name, fname, ctype, data]  (text as code points, file content as bytes) *)
(*  enc: [t, i, op, bnd, events: <<ev>>, wire]   ev = [k, hdr, data, more]   (drift only)      *)
(*  qs : [t, i, op, pairs, encoded, decoded, err]                                             *)
EXTENDS FormCodec, TLC, Json, IOUtils

Lines == ndJsonDeserialize(IOEnv.TRACE_FILE)
VARIABLES l
vars == <<l>>

\* domain predicates of the quantifier, evaluated on the intended parts
BadNameChar(c) == c \in {34, 92, 13, 10}
HasPct22(s) == Contains(s, <<37, 50, 50>>)
NameOK(s) == (\A i \in 1..Len(s) : ~BadNameChar(s[i]) /\ IsScalar(s[i])) /\ ~HasPct22(s)
InDomain(ps) == \A i \in 1..Len(ps) : NameOK(ps[i].name) /\ NameOK(ps[i].fname)

PayloadsOK(r) == r.bnd = <<>> \/ \A i \in 1..Len(r.intended) : PayloadOK(r.intended[i].data, r.bnd)
JudgeRT(r) == IF ~InDomain(r.intended) \/ ~PayloadsOK(r) THEN "ok"
              ELSE IF r.err # "" THEN "RoundTripError"
              ELSE IF Len(r.parsed) # Len(r.intended) THEN "RoundTripCount"
              ELSE IF \E i \in 1..Len(r.parsed) : r.parsed[i].name # r.intended[i].name \/ r.parsed[i].kind # r.intended[i].kind THEN "RoundTripName"
              ELSE IF \E i \in 1..Len(r.parsed) : r.parsed[i].fname # r.intended[i].fname \/ r.parsed[i].ctype # r.intended[i].ctype THEN "RoundTripFileMeta"
              ELSE IF \E i \in 1..Len(r.parsed) : r.parsed[i].data # r.intended[i].data THEN "RoundTripData"
              ELSE "ok"

JudgeQS(r) == IF r.err # "" THEN "QueryRoundTripError"
              ELSE IF r.decoded # r.pairs THEN "QueryRoundTrip"
              ELSE IF ~IsAsciiSeq(r.encoded) THEN "QueryNotAscii"
              ELSE "ok"

ToEv(e) == IF e.k = "P" THEN <<"P", e.hdr>> ELSE IF e.k = "D" THEN <<"D", e.data, e.more>>
           ELSE IF e.k = "PRE" THEN <<"PRE", e.data>> ELSE <<"EPI", e.data>>
DriftEnc(r) == Len(r.wire) > 400 \/ EncodeEvents("PRE", [i \in 1..Len(r.events) |-> ToEv(r.events[i])], r.bnd).out = r.wire
DriftQS(r) == Len(r.encoded) > 200 \/ r.err # "" \/ (UrlEncode(r.pairs) = r.encoded /\ UrlDecode(r.encoded) = r.decoded)

Verdict(r) == CASE r.op = "rt" -> JudgeRT(r) [] r.op = "qs" -> JudgeQS(r) [] OTHER -> "ok"
Drift(r) == CASE r.op = "enc" -> DriftEnc(r) [] r.op = "qs" -> DriftQS(r) [] OTHER -> TRUE

Init == l = 1
Next == /\ l <= Len(Lines)
        /\ LET r == Lines[l] v == Verdict(r) IN
           /\ IF v = "ok" THEN TRUE ELSE PrintT(ToJson([reject |-> 1, t |-> r.t, i |-> r.i, clause |-> v]))
           /\ IF Drift(r) THEN TRUE ELSE PrintT(ToJson([drift |-> 1, t |-> r.t, i |-> r.i, what |-> r.op]))
        /\ l' = l + 1
Done == PrintT(ToJson([judged |-> Len(Lines)])) /\ TLCGet("generated") >= 0
=============================================================================
