--------------------------- MODULE MultipartTrace ---------------------------
(* Trace judge for C01 / C10 (and the decoder half of C02).                                  *)
(* Input: ndjson, TRACE_FILE.  A trace group is one "cfg" line (boundary, wire, the parts     *)
(* the real code yields when it sees the wire in one piece, the limits) followed by "run"     *)
(* lines, one per arrival schedule executed against the real decoder / form parser.           *)
(*   cfg : [t, op, bnd, wire, ref: [err, parts: <<[kind,name,hasfn,fname,hdr,off,len,lit]>>], *)
(*          formref: [err, fields, files]]                                                    *)
(*   run : [t, i, op, api, maxmem, maxparts, steps: <<[fed, buflen, ev: <<event>>]>>, err]    *)
(*   form: [t, i, op, maxmem, maxparts, res: [err, fields, files]]                            *)
(* The part-count limit is exact (a count of parts), unlike the memory limit (which depends on *)
(* what happens to be buffered): a 413 under max_parts alone although the body has no more     *)
(* parts than allowed is chunking-dependent behaviour (PartsLimitSpurious).                    *)
(* event: [k |-> "P", kind, name, hasfn, fname, hdr]  |  [k |-> "D", off, len, lit, more]     *)
(* Payload bytes are encoded as a slice (off, len) of the wire when they are one, else `lit`. *)
(* One TLC state per line; every verdict is total (REJECT line, then judging continues).      *)
EXTENDS Multipart, TLC, Json, IOUtils

Lines == ndJsonDeserialize(IOEnv.TRACE_FILE)

VARIABLES l, cfg
vars == <<l, cfg>>

Bytes(e, wire) == IF e.off >= 0 THEN Sub(wire, e.off + 1, e.off + e.len) ELSE e.lit

\* part as judged: identity (kind, name, filename, headers), payload, closed
MkPart(e) == [id |-> <<e.kind, e.name, e.hasfn, e.fname, e.hdr>>, data |-> <<>>, closed |-> FALSE]

RECURSIVE FoldEv(_, _, _)
FoldEv(parts, evs, wire) ==
  IF evs = <<>> THEN parts
  ELSE LET e == Head(evs) IN
       IF e.k = "P" THEN FoldEv(Append(parts, MkPart(e)), Tail(evs), wire)
       ELSE IF e.k = "D" /\ parts # <<>> /\ ~parts[Len(parts)].closed
            THEN FoldEv([parts EXCEPT ![Len(parts)] = [@ EXCEPT !.data = @ \o Bytes(e, wire), !.closed = ~e.more]],
                        Tail(evs), wire)
       ELSE FoldEv(Append(parts, [id |-> <<"orphan-data">>, data |-> Bytes(e, wire), closed |-> TRUE]), Tail(evs), wire)

RefParts(c) == [i \in 1..Len(c.ref.parts) |->
                  LET p == c.ref.parts[i] IN
                  [id |-> <<p.kind, p.name, p.hasfn, p.fname, p.hdr>>, data |-> Bytes(p, c.wire), closed |-> TRUE]]

PrefixOK(ps, ref) ==
  /\ Len(ps) <= Len(ref)
  /\ \A i \in 1..Len(ps) :
       /\ ps[i].id = ref[i].id
       /\ IF ps[i].closed THEN ps[i].data = ref[i].data
          ELSE IsPrefixOf(ps[i].data, ref[i].data) /\ i = Len(ps)

PayloadLen(ps) == SumSeq([i \in 1..Len(ps) |-> Len(ps[i].data)])

\* fold over the steps of one run; returns the first failing clause or "ok"
RECURSIVE JudgeSteps(_, _, _, _)
JudgeSteps(c, r, i, parts) ==
  IF i > Len(r.steps) THEN
       IF c.ref.err # "" THEN "ok"                          \* outside the domain: nothing claimed
       ELSE IF r.err = "" THEN
            (IF parts = RefParts(c) THEN "ok"
             ELSE IF r.maxmem >= 0 \/ r.maxparts >= 0 THEN "GuardPurity" ELSE "DoneEqualsRef")
       ELSE IF r.err = "too_large" /\ r.maxmem < 0 /\ r.maxparts >= Len(c.ref.parts) THEN "PartsLimitSpurious"
       ELSE IF r.err = "too_large" /\ (r.maxmem >= 0 \/ r.maxparts >= 0) THEN "ok"
       ELSE IF r.maxmem >= 0 \/ r.maxparts >= 0 THEN "OnlyTooLarge" ELSE "SpuriousError"
  ELSE LET s  == r.steps[i]
           ps == FoldEv(parts, s.ev, c.wire)
       IN IF r.maxmem >= 0 /\ s.buflen > r.maxmem THEN "BufBound"
          ELSE IF r.maxparts >= 0 /\ Len(ps) > r.maxparts THEN "PartsBound"
          ELSE IF c.ref.err = "" /\ ~PrefixOK(ps, RefParts(c)) THEN "PrefixOfRef"
          ELSE IF PayloadLen(ps) > s.fed THEN "PayloadBound"
          ELSE JudgeSteps(c, r, i + 1, ps)

\* ground truth for the limits, from the unlimited one-piece reference of the same body
PartLen(c, i) == IF c.ref.parts[i].off >= 0 THEN c.ref.parts[i].len ELSE Len(c.ref.parts[i].lit)
FieldTooBig(c, r) == /\ c.ctype = "multipart" /\ r.maxmem >= 0 /\ c.ref.err = ""
                     /\ \E i \in 1..Len(c.ref.parts) : c.ref.parts[i].kind = "field" /\ PartLen(c, i) > r.maxmem
TooManyParts(c, r) == c.ctype = "multipart" /\ r.maxparts >= 0 /\ c.ref.err = "" /\ Len(c.ref.parts) > r.maxparts
Limited(r) == r.maxmem >= 0 \/ r.maxparts >= 0

JudgeForm(c, r) ==
  IF c.formref.err # "" THEN "ok"
  ELSE IF r.res.err = "" THEN
       (IF FieldTooBig(c, r) \/ TooManyParts(c, r) THEN "LimitNotEnforced"
        ELSE IF r.res.fields = c.formref.fields /\ r.res.files = c.formref.files THEN "ok"
        ELSE IF Limited(r) THEN "GuardPurity" ELSE "FormEqualsRef")
  ELSE IF r.res.err = "too_large" /\ r.maxmem < 0 /\ r.maxparts >= Len(c.ref.parts) /\ c.ref.err = "" THEN "PartsLimitSpurious"
  ELSE IF r.res.err = "too_large" /\ Limited(r) THEN "ok"
  ELSE IF Limited(r) THEN "OnlyTooLarge" ELSE "SpuriousError"

\* request level (C10): Request.form/files under max_content_length / max_form_memory_size /
\* max_form_parts, with or without CONTENT_LENGTH and wsgi.input_terminated.
\* run: [mcl, maxmem, maxparts, has_cl, term, consumed, res: [err, fields, files]]
JudgeReq(c, r) ==
  LET n        == Len(c.wire)
      usable   == r.has_cl \/ r.term
      urlBig   == c.ctype = "urlencoded" /\ r.maxmem >= 0 /\ r.has_cl /\ n > r.maxmem
      bodyBig  == r.mcl >= 0 /\ n > r.mcl /\ usable
      anyLimit == Limited(r) \/ r.mcl >= 0
  IN IF r.has_cl /\ r.mcl >= 0 /\ n > r.mcl /\ (r.res.err # "too_large" \/ r.consumed # 0) THEN "DeclaredTooLargeUnread"
     ELSE IF r.mcl >= 0 /\ r.consumed > r.mcl THEN "ConsumedBound"
     ELSE IF c.formref.err # "" THEN "ok"
     ELSE IF r.res.err \notin {"", "too_large"} THEN "OnlyTooLarge"
     ELSE IF r.res.err = "too_large" /\ r.maxmem < 0 /\ r.mcl < 0 /\ c.ctype = "multipart" /\ c.ref.err = ""
             /\ r.maxparts >= Len(c.ref.parts) THEN "PartsLimitSpurious"
     ELSE IF r.res.err = "too_large" THEN (IF anyLimit THEN "ok" ELSE "SpuriousTooLarge")
     ELSE IF ~usable THEN (IF r.res.fields = <<>> /\ r.res.files = <<>> THEN "ok" ELSE "EmptyWithoutLength")
     ELSE IF FieldTooBig(c, r) \/ TooManyParts(c, r) \/ urlBig \/ bodyBig THEN "LimitNotEnforced"
     ELSE IF r.res.fields = c.formref.fields /\ r.res.files = c.formref.files THEN "ok"
     ELSE "GuardPurity"

\* model drift (never a verdict): the TLA+ decoder model, fed the same wire in one piece,
\* yields the payloads the real decoder yielded.  Only evaluated for small wires.
ModelPayloads(c) == LET o == OneShot(c.wire, c.bnd) ps == PartsOf(o.ev) IN
                    [err |-> o.err, data |-> [i \in 1..Len(ps) |-> ps[i].data]]
RealPayloads(c) == [err |-> IF c.ref.err = "" THEN "" ELSE "value",
                    data |-> [i \in 1..Len(c.ref.parts) |-> Bytes(c.ref.parts[i], c.wire)]]
DriftOK(c) == Len(c.wire) > 120 \/ c.modelhdr = FALSE \/ c.ctype # "multipart" \/
              LET m == ModelPayloads(c) r == RealPayloads(c) IN
              IF r.err # "" THEN m.err # "" ELSE m = r

\* a recorded execution that stopped before the end of the body (the repository's tests do that): only
\* the per-step clauses apply (the final comparison is replaced by "ok")
RECURSIVE JudgePartial(_, _, _, _)
JudgePartial(c, r, i, parts) ==
  IF i > Len(r.steps) THEN "ok"
  ELSE LET s  == r.steps[i]
           ps == FoldEv(parts, s.ev, c.wire)
       IN IF r.maxmem >= 0 /\ s.buflen > r.maxmem THEN "BufBound"
          ELSE IF r.maxparts >= 0 /\ Len(ps) > r.maxparts THEN "PartsBound"
          ELSE IF c.ref.err = "" /\ ~PrefixOK(ps, RefParts(c)) THEN "PrefixOfRef"
          ELSE IF PayloadLen(ps) > s.fed THEN "PayloadBound"
          ELSE JudgePartial(c, r, i + 1, ps)

\* model drift for request-level lines replayed from FormLimits.tla: the model's predicted outcome
\* (exp: err, consumed, nparts) vs. what the real Request did.  exp.err = "skip" for recorded-only lines.
DriftReqOK(c, r) == r.exp.err = "skip" \/ (r.exp.err = r.res.err /\ r.exp.consumed = r.consumed
                                           /\ (r.res.err # "" \/ r.exp.nparts = Len(r.res.fields) + Len(r.res.files)))

Verdict(line, c) ==
  CASE line.op = "run"  -> JudgeSteps(c, line, 1, <<>>)
    [] line.op = "runpart" -> JudgePartial(c, line, 1, <<>>)
    [] line.op = "form" -> JudgeForm(c, line)
    [] line.op = "req"  -> JudgeReq(c, line)
    [] OTHER -> "ok"

Init == l = 1 /\ cfg = [op |-> "none"]

Next == /\ l <= Len(Lines)
        /\ LET line == Lines[l] IN
           IF line.op = "cfg"
           THEN /\ cfg' = line
                /\ IF DriftOK(line) THEN TRUE ELSE PrintT(ToJson([drift |-> 1, t |-> line.t, what |-> "OneShot model vs real one-shot payloads"]))
           ELSE /\ cfg' = cfg
                /\ LET v == Verdict(line, cfg) IN
                   IF v = "ok" THEN TRUE
                   ELSE PrintT(ToJson([reject |-> 1, t |-> line.t, i |-> line.i, clause |-> v]))
                /\ IF line.op # "req" \/ DriftReqOK(cfg, line) THEN TRUE
                   ELSE PrintT(ToJson([drift |-> 1, t |-> line.t, i |-> line.i, what |-> "FormLimits model vs real Request outcome"]))
        /\ l' = l + 1

Done == PrintT(ToJson([judged |-> Len(Lines)])) /\ TLCGet("generated") >= 0
=============================================================================
