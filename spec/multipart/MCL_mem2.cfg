CONSTANTS
  Variant = "fixed"
  Boundary <- BndB
  Alpha = {13, 10, 45, 98, 120}
  MaxPay = 3
  PartCounts = {1}
  Styles = {"crlf"}
  Pres <- Empty
  Epis <- Empty
  Leads = {FALSE}
  MaxChunks = 3
  MaxMem = 30
  MaxPartsLim <- NoLim
INIT Init
NEXT Next
INVARIANT OnlyTooLarge
INVARIANT BufBound
INVARIANT PartsBound
INVARIANT GuardPurity
INVARIANT PrefixOfRef
