---- MODULE MCFL ----
EXTENDS MCFormLimits
BndB == <<98>>
====
