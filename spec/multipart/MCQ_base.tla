---- MODULE MCQ_base ----
EXTENDS MCMultipart
BndB == <<98>>
BndBnd == <<98, 110, 100>>
Empty == {<<>>}
PreX == {<<>>, <<120>>, <<120, 13, 10>>}
EpiX == {<<>>, <<120>>}
NoLim == Unlimited
====
