----------------------------- MODULE Multipart -----------------------------
(***************************************************************************)
(* Implementation-shaped model of werkzeug.sansio.multipart and the         *)
(* contract of properties C01 (chunking independence), C02 (encode->decode)  *)
(* and C10 (limits are enforced and are pure guards).                        *)
(*                                                                           *)
(* The decoder is a record                                                   *)
(*   d = [buf, st, sp, complete, nparts, err, ev]                            *)
(* buf : bytes not yet consumed       st : PRE | PART | DSTART | DATA | EPI | DONE *)
(* sp  : _search_position (0-based)   ev : events emitted so far             *)
(* err : "" | "value" (ValueError) | "too_large" (RequestEntityTooLarge)     *)
(* Every operator below is a transcription of one method / regular           *)
(* expression of the Python code; positions are 1-based unless noted.        *)
(***************************************************************************)
EXTENDS Naturals, Sequences, FiniteSets, Bytes

Unlimited == 0 - 1

HWS == {9, 11, 12, 32}                  \* [^\S\n\r] for bytes patterns
WS  == {9, 10, 11, 12, 13, 32}          \* bytes.strip()
SEARCH_EXTRA == 8

DBof(bnd) == <<DASH, DASH>> \o bnd

\* length of the line break (?:\r\n|\n|\r) at p, 0 if none
LBLen(s, p) == IF p > Len(s) \/ p < 1 THEN 0
               ELSE IF s[p] = CR THEN (IF p + 1 <= Len(s) /\ s[p + 1] = LF THEN 2 ELSE 1)
               ELSE IF s[p] = LF THEN 1 ELSE 0

RECURSIVE SkipHWS(_, _)
SkipHWS(s, p) == IF p <= Len(s) /\ s[p] \in HWS THEN SkipHWS(s, p + 1) ELSE p

\* what follows "--boundary":  (--[^\S\n\r]*LB?  |  [^\S\n\r]*LB)
\* result <<matched, endExclusive (1-based position after the match), isFinal>>
TailM(s, p) == IF StartsAt(s, p, <<DASH, DASH>>)
               THEN LET q == SkipHWS(s, p + 2) IN <<TRUE, q + LBLen(s, q), TRUE>>
               ELSE LET q == SkipHWS(s, p) IN
                    IF LBLen(s, q) > 0 THEN <<TRUE, q + LBLen(s, q), FALSE>> ELSE <<FALSE, 0, FALSE>>

\* boundary_re anchored at p:  LB -- boundary tail
BndAt(s, p, db) == LET l == LBLen(s, p) IN
    IF l > 0 /\ StartsAt(s, p + l, db) THEN TailM(s, p + l + Len(db)) ELSE <<FALSE, 0, FALSE>>

\* preamble_re anchored at p:  LB? -- boundary tail
PreAt(s, p, db) == LET l == LBLen(s, p)
                       withLB == IF l > 0 /\ StartsAt(s, p + l, db) THEN TailM(s, p + l + Len(db))
                                 ELSE <<FALSE, 0, FALSE>>
                   IN IF withLB[1] THEN withLB
                      ELSE IF StartsAt(s, p, db) THEN TailM(s, p + Len(db)) ELSE <<FALSE, 0, FALSE>>

\* leftmost p >= from at which M(s, p)[1] holds; 0 if none   (re.search)
RECURSIVE SearchBnd(_, _, _)
SearchBnd(s, p, db) == IF p > Len(s) THEN 0 ELSE IF BndAt(s, p, db)[1] THEN p ELSE SearchBnd(s, p + 1, db)
RECURSIVE SearchPre(_, _, _)
SearchPre(s, p, db) == IF p > Len(s) THEN 0 ELSE IF PreAt(s, p, db)[1] THEN p ELSE SearchPre(s, p + 1, db)

\* BLANK_LINE_RE = \r\n\r\n | \r\r | \n\n   -> length of the match at p (0 = none)
BlankAt(s, p) == IF StartsAt(s, p, <<CR, LF, CR, LF>>) THEN 4
                 ELSE IF StartsAt(s, p, <<CR, CR>>) THEN 2
                 ELSE IF StartsAt(s, p, <<LF, LF>>) THEN 2 ELSE 0
RECURSIVE SearchBlank(_, _)
SearchBlank(s, p) == IF p > Len(s) THEN 0 ELSE IF BlankAt(s, p) > 0 THEN p ELSE SearchBlank(s, p + 1)

\* --- header block -> list of stripped, non-empty lines (bytes.splitlines + strip) --------
RECURSIVE LStrip(_)
LStrip(s) == IF s # <<>> /\ Head(s) \in WS THEN LStrip(Tail(s)) ELSE s
RECURSIVE RStrip(_)
RStrip(s) == IF s # <<>> /\ s[Len(s)] \in WS THEN RStrip(SubSeq(s, 1, Len(s) - 1)) ELSE s
Strip(s) == RStrip(LStrip(s))

RECURSIVE SplitLinesFrom(_, _, _)
SplitLinesFrom(s, p, cur) ==
    IF p > Len(s) THEN (IF cur = <<>> THEN <<>> ELSE <<cur>>)
    ELSE LET l == LBLen(s, p) IN
         IF l > 0 THEN <<cur>> \o SplitLinesFrom(s, p + l, <<>>)
         ELSE SplitLinesFrom(s, p + 1, Append(cur, s[p]))
HeaderLines(block) == SelectSeq([i \in 1..Len(SplitLinesFrom(block, 1, <<>>)) |->
                                   Strip(SplitLinesFrom(block, 1, <<>>)[i])], LAMBDA x : x # <<>>)

CDPrefix == <<67,111,110,116,101,110,116,45,68,105,115,112,111,115,105,116,105,111,110,58>>  \* "Content-Disposition:"
HasCD(lines) == \E i \in 1..Len(lines) : IsPrefixOf(CDPrefix, lines[i])

\* --- _parse_data -------------------------------------------------------------------------
LastNL0(s) == Min2(RIdx0(s, LF), RIdx0(s, CR))           \* last_newline(): 0-based, Len(s) if none

\* result [data, del (number of bytes deleted from the front), more, st]
\* (1) the decoder as it was at the pinned commit (defects F1 / F2 of DESIGN.md section 7)
ParseDataOrig(buf, start, st0, db) ==
  LET ds == IF start THEN LBLen(buf, 1) ELSE 0 IN
  IF ~Contains(buf, db) THEN
     LET de0 == LastNL0(Drop(buf, ds)) + ds
         de  == IF Len(buf) - de0 > Len(db) + 1 THEN Len(buf) ELSE de0
     IN [data |-> Sub(buf, ds + 1, de), del |-> de, more |-> TRUE, st |-> st0]
  ELSE LET p == SearchBnd(buf, 1, db) IN
     IF p > 0 THEN LET m == BndAt(buf, p, db) IN
          [data |-> Sub(buf, ds + 1, p - 1), del |-> m[2] - 1, more |-> FALSE,
           st |-> IF m[3] THEN "EPI" ELSE "PART"]
     ELSE LET de == LastNL0(Drop(buf, ds)) + ds IN
          [data |-> Sub(buf, ds + 1, de), del |-> de, more |-> TRUE, st |-> st0]

\* (2) the repaired decoder: without a complete delimiter in the buffer, everything before the
\* first line break that may still turn out to begin a delimiter is data.  A line break may begin
\* a delimiter if it lies within the last Len("--boundary") + 1 bytes (the marker may be cut off;
\* deliberately conservative: what follows is not compared with the marker, which keeps the
\* event fragmentation the existing tests pin), or if it is followed by "--boundary" and an
\* undecided tail ("-" or horizontal white space up to the end of the buffer).
UndecidedTail(t) == t = <<DASH>> \/ \A i \in 1..Len(t) : t[i] \in HWS
MayBegin(s, p, db) == LET l == LBLen(s, p) rest == Drop(s, p + l - 1) IN
    /\ l > 0
    /\ \/ p >= Len(s) - Len(db)            \* a line break in the tail: the marker may be cut off
       \/ IsPrefixOf(db, rest) /\ UndecidedTail(Drop(rest, Len(db)))
RECURSIVE HoldFrom(_, _, _)
HoldFrom(s, p, db) == IF p > Len(s) THEN Len(s) ELSE IF MayBegin(s, p, db) THEN p - 1 ELSE HoldFrom(s, p + 1, db)

ParseDataFixed(buf, start, st0, db) ==
  LET ds == IF start THEN LBLen(buf, 1) ELSE 0
      p  == SearchBnd(buf, 1, db) IN
  IF p > 0 THEN LET m == BndAt(buf, p, db) IN
       [data |-> Sub(buf, ds + 1, p - 1), del |-> m[2] - 1, more |-> FALSE,
        st |-> IF m[3] THEN "EPI" ELSE "PART"]
  ELSE LET hb == HoldFrom(buf, 1, db) IN
       IF hb < ds THEN [data |-> <<>>, del |-> 0, more |-> TRUE, st |-> "DSTART"]   \* undecided
       ELSE [data |-> Sub(buf, ds + 1, hb), del |-> hb, more |-> TRUE, st |-> st0]

CONSTANT Variant    \* "orig" | "fixed"
ParseData(buf, start, st0, db) == IF Variant = "orig" THEN ParseDataOrig(buf, start, st0, db)
                                  ELSE ParseDataFixed(buf, start, st0, db)

NEED == <<"N">>

\* --- next_event(): result [d, e] -----------------------------------------------------------
NextEvent(d, bnd, maxparts) ==
  LET db == DBof(bnd)
      raw ==
        CASE d.st = "PRE" ->
               LET p == SearchPre(d.buf, d.sp + 1, db) IN
               IF p > 0 THEN
                  LET m == PreAt(d.buf, p, db) IN
                  [d |-> [d EXCEPT !.st = IF m[3] THEN "EPI" ELSE "PART",
                                   !.buf = Drop(d.buf, m[2] - 1), !.sp = 0],
                   e |-> <<"PRE">>]
               ELSE [d |-> [d EXCEPT !.sp = IF Len(d.buf) > Len(bnd) + SEARCH_EXTRA
                                              THEN Len(d.buf) - Len(bnd) - SEARCH_EXTRA ELSE 0],
                     e |-> NEED]
          [] d.st = "PART" ->
               LET p == SearchBlank(d.buf, d.sp + 1) IN
               IF p > 0 THEN
                  LET n     == BlankAt(d.buf, p)
                      lines == HeaderLines(Sub(d.buf, 1, p - 1))
                      he    == (p - 1) + (n \div 2)
                  IN IF ~HasCD(lines)
                     THEN [d |-> [d EXCEPT !.buf = Drop(d.buf, he), !.err = "value"], e |-> NEED]
                     ELSE IF maxparts # Unlimited /\ d.nparts + 1 > maxparts
                     THEN [d |-> [d EXCEPT !.buf = Drop(d.buf, he), !.err = "too_large",
                                            !.nparts = d.nparts + 1], e |-> NEED]
                     ELSE [d |-> [d EXCEPT !.buf = Drop(d.buf, he), !.st = "DSTART", !.sp = 0,
                                            !.nparts = d.nparts + 1],
                           e |-> <<"P", lines>>]
               ELSE [d |-> [d EXCEPT !.sp = IF Len(d.buf) > SEARCH_EXTRA
                                              THEN Len(d.buf) - SEARCH_EXTRA ELSE 0],
                     e |-> NEED]
          [] d.st = "DSTART" ->
               LET r == ParseData(d.buf, TRUE, "DATA", db) IN
               IF r.del = 0 THEN [d |-> d, e |-> NEED]     \* cannot tell yet whether the part has a body
               ELSE [d |-> [d EXCEPT !.buf = Drop(d.buf, r.del), !.st = r.st],
                     e |-> <<"D", r.data, r.more>>]
          [] d.st = "DATA" ->
               LET r == ParseData(d.buf, FALSE, "DATA", db) IN
               [d |-> [d EXCEPT !.buf = Drop(d.buf, r.del), !.st = r.st],
                e |-> IF r.data # <<>> \/ ~r.more THEN <<"D", r.data, r.more>> ELSE NEED]
          [] d.st = "EPI" /\ d.complete ->
               [d |-> [d EXCEPT !.buf = <<>>, !.st = "DONE"], e |-> <<"EPI">>]
          [] OTHER -> [d |-> d, e |-> NEED]
  IN IF raw.e = NEED /\ raw.d.err = "" /\ d.complete
     THEN [d |-> [raw.d EXCEPT !.err = "value"], e |-> NEED]
     ELSE raw

\* the driver loop of MultiPartParser.parse: drain events until NeedData / Epilogue / error
RECURSIVE Drain(_, _, _)
Drain(d, bnd, maxparts) ==
  LET r == NextEvent(d, bnd, maxparts) IN
  IF r.d.err # "" THEN r.d
  ELSE IF r.e = NEED THEN r.d
  ELSE IF r.e = <<"EPI">> THEN [r.d EXCEPT !.ev = Append(@, r.e)]
  ELSE Drain([r.d EXCEPT !.ev = Append(@, r.e)], bnd, maxparts)

InitDec == [buf |-> <<>>, st |-> "PRE", sp |-> 0, complete |-> FALSE, nparts |-> 0, err |-> "", ev |-> <<>>]

\* receive_data(chunk) followed by the drain loop
Feed(d, chunk, bnd, maxmem, maxparts) ==
  IF d.err # "" THEN d
  ELSE IF maxmem # Unlimited /\ Len(d.buf) + Len(chunk) > maxmem THEN [d EXCEPT !.err = "too_large"]
  ELSE Drain([d EXCEPT !.buf = d.buf \o chunk], bnd, maxparts)
\* receive_data(None) followed by the drain loop
FeedEOF(d, bnd, maxparts) == IF d.err # "" THEN d ELSE Drain([d EXCEPT !.complete = TRUE], bnd, maxparts)

OneShot(wire, bnd) == FeedEOF(Feed(InitDec, wire, bnd, Unlimited, Unlimited), bnd, Unlimited)

\* --- contract level: events -> parts -----------------------------------------------------
\* part = [hdr, data, closed]
RECURSIVE PartsOf(_)
PartsOf(ev) ==
  IF ev = <<>> THEN <<>>
  ELSE LET prev == PartsOf(SubSeq(ev, 1, Len(ev) - 1))
           e    == ev[Len(ev)]
       IN IF e[1] = "P" THEN Append(prev, [hdr |-> e[2], data |-> <<>>, closed |-> FALSE])
          ELSE IF e[1] = "D" /\ prev # <<>>
               THEN [prev EXCEPT ![Len(prev)] = [@ EXCEPT !.data = @ \o e[2], !.closed = ~e[3]]]
          ELSE prev

Outcome(d) == [err |-> d.err, parts |-> PartsOf(d.ev), done |-> d.st = "DONE"]

\* part-wise prefix: finished parts equal, the open part has equal headers and a payload prefix
PartsPrefix(ps, ref) ==
  /\ Len(ps) <= Len(ref)
  /\ \A i \in 1..Len(ps) :
       /\ ps[i].hdr = ref[i].hdr
       /\ IF ps[i].closed THEN ps[i].data = ref[i].data /\ ref[i].closed
          ELSE IsPrefixOf(ps[i].data, ref[i].data) /\ i = Len(ps)

\* --- the encoder (MultipartEncoder.send_event), used by the generator and by C02 -------------
CRLF == <<CR, LF>>
\* a model part: [hdr: sequence of header lines (each a byte sequence), data: payload]
RECURSIVE JoinLines(_, _)
JoinLines(lines, lb) == IF lines = <<>> THEN <<>> ELSE Head(lines) \o lb \o JoinLines(Tail(lines), lb)

EncodePart(p, bnd, lb) == lb \o DBof(bnd) \o lb \o JoinLines(p.hdr, lb)
                          \o (IF p.data = <<>> /\ p.bodyless THEN <<>> ELSE lb \o p.data)
RECURSIVE EncodeParts(_, _, _)
EncodeParts(ps, bnd, lb) == IF ps = <<>> THEN <<>> ELSE EncodePart(Head(ps), bnd, lb) \o EncodeParts(Tail(ps), bnd, lb)
\* whole body; `lead` = whether the first delimiter is preceded by a line break (the encoder
\* always writes one; browsers do not)
Encode(pre, ps, epi, bnd, lb, lead) ==
  LET body == EncodeParts(ps, bnd, lb) \o lb \o DBof(bnd) \o <<DASH, DASH>> \o lb \o epi
  IN pre \o (IF lead THEN body ELSE Drop(body, Len(lb)))

Intended(ps) == [i \in 1..Len(ps) |-> [hdr |-> ps[i].hdr, data |-> ps[i].data, closed |-> TRUE]]
=============================================================================
