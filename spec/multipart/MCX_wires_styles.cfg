CONSTANTS
  Variant = "fixed"
  Boundary <- BndB
  Alpha = {13, 10, 45, 98, 120}
  MaxPay = 3
  PartCounts = {1}
  Styles = {"crlf","lf","cr"}
  Pres <- PreX
  Epis <- EpiX
  Leads = {TRUE,FALSE}
  MaxChunks = 2
  MaxMem <- NoLim
  MaxPartsLim <- NoLim
INIT Init
NEXT NoNext
INVARIANT ExportWire
