--------------------------- MODULE MCFormLimits ---------------------------
(* Bounded instance of FormLimits.tla: every generator wire x every limit combination around   *)
(* its own length / field size / part count x CONTENT_LENGTH present or not x terminated or not *)
(* x buffer sizes.  Two-level Init/Next so that all workers share the evaluation.              *)
EXTENDS FormLimits, TLC, Json

CONSTANTS Boundary, Alpha, MaxPay, PartCounts, BufSizes, LongPays
VARIABLES stage, wire, c, out
vars == <<stage, wire, c, out>>

HDR == <<67,111,110,116,101,110,116,45,68,105,115,112,111,115,105,116,105,111,110,58,32,102,111,114,109,45,100,97,116,97,59,32,110,97,109,101,61,34,97,34>>
PartSet == {[hdr |-> <<HDR>>, data |-> s, bodyless |-> FALSE] : s \in SeqsUpTo(Alpha, MaxPay)}
           \cup {[hdr |-> <<HDR>>, data |-> [i \in 1..k |-> 120], bodyless |-> FALSE] : k \in LongPays}
Wires == {w \in {Encode(<<>>, ps, <<>>, Boundary, CRLF, FALSE) : ps \in UNION {SeqsLen(PartSet, k) : k \in PartCounts}} :
            LET o == OneShot(w, Boundary) IN o.err = "" /\ o.st = "DONE"}

Around(v) == {NoneV} \cup {x \in {v - 1, v, v + 1} : x >= 0}
RefParts(w) == PartsOf(OneShot(w, Boundary).ev)
MaxField(w) == LET ps == RefParts(w) IN IF ps = <<>> THEN 0 ELSE CHOOSE m \in {Len(ps[i].data) : i \in 1..Len(ps)} : \A i \in 1..Len(ps) : Len(ps[i].data) <= m

Combos(w) == [hasCL : BOOLEAN, term : BOOLEAN, mcl : Around(Len(w)),
              maxmem : {NoneV, MaxField(w), MaxField(w) + 1, Len(w) + 7} \cup (IF MaxField(w) > 0 THEN {MaxField(w) - 1} ELSE {}),
              maxparts : Around(Len(RefParts(w))), buf : BufSizes \cup {Len(w) + 1}]

Init == stage = 0 /\ wire \in Wires /\ c = [hasCL |-> TRUE, term |-> FALSE, mcl |-> NoneV, maxmem |-> NoneV, maxparts |-> NoneV, buf |-> 1]
        /\ out = [err |-> "", parts |-> <<>>, consumed |-> 0]
Next == /\ stage = 0 /\ stage' = 1 /\ wire' = wire
        /\ c' \in Combos(wire)
        /\ out' = ReqMultipart(wire, Boundary, c'.hasCL, c'.term, c'.mcl, c'.maxmem, c'.maxparts, c'.buf)

Verdict == ReqClause(wire, RefParts(wire), c.hasCL, c.term, c.mcl, c.maxmem, c.maxparts, out)
ContractHolds == stage = 1 => Verdict = "ok"
\* non-vacuity: each interesting outcome class is reachable (checked by the harness from the export counts)
Export == stage = 1 => PrintT(ToJson([wire |-> wire, bnd |-> Boundary, c |-> c, out |-> [err |-> out.err, consumed |-> out.consumed, nparts |-> Len(out.parts)]]))
=============================================================================
