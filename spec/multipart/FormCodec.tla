----------------------------- MODULE FormCodec -----------------------------
(* C02: form data survives encode -> parse.                                                 *)
(*  - event-level transcription of MultipartEncoder.send_event (EncStep) and the round trip  *)
(*    through the decoder model of Multipart.tla, for every fragmentation of the payloads;    *)
(*  - application/x-www-form-urlencoded: UrlEncode / UrlDecode over code points              *)
(*    (urllib quote_plus / parse_qsl semantics as used by werkzeug) and their inverse law.   *)
EXTENDS Multipart, Text

CONSTANT EncoderVariant    \* "orig" | "fixed"  (MultipartEncoder first-Data handling)

\* ---- MultipartEncoder.send_event -----------------------------------------------------------
\* encoder state: "PRE" | "PART" | "DSTART" | "DATA" | "DONE"; event:
\*   <<"PRE", data>> | <<"P", hdrlines>> | <<"D", data, more>> | <<"EPI", data>>
\* result [st, out, ok]
EncStep(st, e, bnd) ==
  IF e[1] = "PRE" /\ st = "PRE" THEN [st |-> "PART", out |-> e[2], ok |-> TRUE]
  ELSE IF e[1] = "P" /\ st \in {"PRE", "PART", "DATA"}
       THEN [st |-> "DSTART", out |-> CRLF \o DBof(bnd) \o CRLF \o JoinLines(e[2], CRLF), ok |-> TRUE]
  ELSE IF e[1] = "D" /\ st = "DSTART"
       THEN (IF EncoderVariant = "orig"
             THEN [st |-> "DATA", out |-> IF Len(e[2]) > 0 THEN CRLF \o e[2] ELSE <<>>, ok |-> TRUE]
             ELSE IF Len(e[2]) > 0 THEN [st |-> "DATA", out |-> CRLF \o e[2], ok |-> TRUE]
             ELSE [st |-> IF e[3] THEN "DSTART" ELSE "DATA", out |-> <<>>, ok |-> TRUE])
  ELSE IF e[1] = "D" /\ st = "DATA" THEN [st |-> "DATA", out |-> e[2], ok |-> TRUE]
  ELSE IF e[1] = "EPI" THEN [st |-> "DONE", out |-> CRLF \o DBof(bnd) \o <<DASH, DASH>> \o CRLF \o e[2], ok |-> TRUE]
  ELSE [st |-> st, out |-> <<>>, ok |-> FALSE]

RECURSIVE EncodeEvents(_, _, _)
EncodeEvents(st, evs, bnd) ==
  IF evs = <<>> THEN [out |-> <<>>, ok |-> TRUE]
  ELSE LET r == EncStep(st, Head(evs), bnd) rest == EncodeEvents(r.st, Tail(evs), bnd) IN
       [out |-> r.out \o rest.out, ok |-> r.ok /\ rest.ok]

\* all ways to cut a payload into at most k consecutive Data fragments (possibly empty ones)
RECURSIVE Frags(_, _)
Frags(data, k) == IF k = 1 THEN {<<data>>}
                  ELSE UNION {{<<Take(data, i)>> \o r : r \in Frags(Drop(data, i), k - 1)} : i \in 0..Len(data)}
                       \cup {<<data>>}
DataEvents(fr) == [i \in 1..Len(fr) |-> <<"D", fr[i], i < Len(fr)>>]

\* the domain of C02: in its context the payload contains no delimiter
PayloadOK(data, bnd) == SearchBnd(CRLF \o data \o CRLF \o DBof(bnd) \o <<DASH, DASH>>, 1, DBof(bnd)) = Len(data) + 3

\* ---- urlencoded -----------------------------------------------------------------------------
UrlSafe == {c \in 0..127 : Unreserved(c)} \cup {33, 36, 39, 40, 41, 42, 44, 47, 58, 59, 63, 64}   \* urlencode(safe="!$'()*,/:;?@")
QuotePlus(text) == LET bs == Utf8Enc(text)
                       enc == PctEncode(bs, UrlSafe \cup {SP})
                   IN [i \in 1..Len(enc) |-> IF enc[i] = SP THEN PLUS ELSE enc[i]]
AMP == 38
EQ == 61
RECURSIVE UrlEncode(_)
UrlEncode(pairs) == IF pairs = <<>> THEN <<>>
                    ELSE QuotePlus(pairs[1][1]) \o <<EQ>> \o QuotePlus(pairs[1][2])
                         \o (IF Len(pairs) > 1 THEN <<AMP>> \o UrlEncode(Tail(pairs)) ELSE <<>>)

UnquotePlus(s) == Utf8Dec(PctDecode([i \in 1..Len(s) |-> IF s[i] = PLUS THEN SP ELSE s[i]]))
FirstEq(s) == FindFrom(s, <<EQ>>, 1)
DecodeField(f) == LET e == FirstEq(f) IN
                  IF e = 0 THEN <<UnquotePlus(f), <<>>>>
                  ELSE <<UnquotePlus(Take(f, e - 1)), UnquotePlus(Drop(f, e))>>
\* parse_qsl(keep_blank_values=True): split on '&', drop empty fields
UrlDecode(s) == LET fs == SelectSeq(SplitOn(s, AMP, <<>>), LAMBDA f : f # <<>>) IN
                [i \in 1..Len(fs) |-> DecodeField(fs[i])]
=============================================================================
