CONSTANTS
  Variant = "fixed"
  Boundary <- BndB
  Alpha = {13, 10, 45, 98}
  MaxPay = 2
  PartCounts = {0, 2}
  Styles = {"crlf","lf"}
  Pres <- Empty
  Epis <- Empty
  Leads = {FALSE}
  MaxChunks = 2
  MaxMem <- NoLim
  MaxPartsLim <- NoLim
INIT Init
NEXT Next
INVARIANT NoSpuriousError
INVARIANT PrefixOfRef
INVARIANT ChunkIndep
