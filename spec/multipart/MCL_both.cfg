CONSTANTS
  Variant = "fixed"
  Boundary <- BndB
  Alpha = {13, 10, 45}
  MaxPay = 1
  PartCounts = {1, 2}
  Styles = {"crlf"}
  Pres <- Empty
  Epis <- Empty
  Leads = {FALSE}
  MaxChunks = 3
  MaxMem = 60
  MaxPartsLim = 1
INIT Init
NEXT Next
INVARIANT OnlyTooLarge
INVARIANT BufBound
INVARIANT PartsBound
INVARIANT GuardPurity
INVARIANT PrefixOfRef
