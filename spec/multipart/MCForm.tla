------------------------------- MODULE MCForm -------------------------------
(* Bounded instances for C02: (1) encoder -> decoder round trip for every part list, every    *)
(* fragmentation of every payload into Data events; (2) urlencoded inverse law.               *)
EXTENDS FormCodec, TLC, Json

CONSTANTS Boundary, Alpha, MaxPay, PartCounts, MaxFrags, Mode, CpAlpha, MaxPairs, MaxText
VARIABLES x
vars == <<x>>

HDR == <<67,111,110,116,101,110,116,45,68,105,115,112,111,115,105,116,105,111,110,58,32,102,111,114,109,45,100,97,116,97,59,32,110,97,109,101,61,34,97,34>>

Payloads == {s \in SeqsUpTo(Alpha, MaxPay) : PayloadOK(s, Boundary)}
\* a generated part = sequence of Data fragments
FragSets == UNION {Frags(s, MaxFrags) : s \in Payloads}
PartLists == UNION {SeqsLen(FragSets, k) : k \in PartCounts}

RECURSIVE EventsOf(_)
EventsOf(pl) == IF pl = <<>> THEN <<>> ELSE <<<<"P", <<HDR>>>>>> \o DataEvents(Head(pl)) \o EventsOf(Tail(pl))
WireOf(pl) == EncodeEvents("PRE", <<<<"PRE", <<>>>>>> \o EventsOf(pl) \o <<<<"EPI", <<>>>>>>, Boundary)
IntendedOf(pl) == [i \in 1..Len(pl) |-> [hdr |-> <<HDR>>, data |-> Concat(pl[i]), closed |-> TRUE]]

Texts == SeqsUpTo(CpAlpha, MaxText)
PairLists == UNION {SeqsLen(Texts \X Texts, k) : k \in 0..MaxPairs}

Init == IF Mode = "multipart" THEN x \in PartLists ELSE x \in PairLists
NoNext == FALSE /\ UNCHANGED vars

RoundTrip == Mode = "multipart" =>
   LET w == WireOf(x) o == OneShot(w.out, Boundary) IN
   w.ok /\ o.err = "" /\ o.st = "DONE" /\ PartsOf(o.ev) = IntendedOf(x)

UrlInverse == Mode = "url" =>
   LET e == UrlEncode(x) IN IsAsciiSeq(e) /\ (\A i \in 1..Len(x) : x[i][1] # <<>> \/ x[i][2] # <<>> \/ TRUE) /\
   UrlDecode(e) = SelectSeq(x, LAMBDA p : TRUE)

ExportRT == PrintT(ToJson([frags |-> x, wire |-> WireOf(x).out, bnd |-> Boundary]))
=============================================================================
