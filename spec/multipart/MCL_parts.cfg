CONSTANTS
  Variant = "fixed"
  Boundary <- BndB
  Alpha = {13, 10, 45, 120}
  MaxPay = 1
  PartCounts = {0, 1, 2}
  Styles = {"crlf"}
  Pres <- Empty
  Epis <- Empty
  Leads = {FALSE}
  MaxChunks = 2
  MaxMem <- NoLim
  MaxPartsLim = 1
INIT Init
NEXT Next
INVARIANT OnlyTooLarge
INVARIANT BufBound
INVARIANT PartsBound
INVARIANT GuardPurity
INVARIANT PrefixOfRef
INVARIANT PartsLimitExact
