CONSTANTS
  ModelVariant = "ok"
  Variant = "fixed"
  Boundary <- BndB
  Alpha = {13, 45, 120}
  MaxPay = 2
  PartCounts = {0, 1, 2}
  LongPays = {60}
  BufSizes = {1, 7, 64}
INIT Init
NEXT Next
INVARIANT ContractHolds
