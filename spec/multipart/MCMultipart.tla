---------------------------- MODULE MCMultipart ----------------------------
(* Bounded instance of Multipart.tla: every wire of the generator under every arrival       *)
(* schedule of at most MaxChunks chunks (the last chunk takes the rest), then EOF.           *)
EXTENDS Multipart, TLC, Json

CONSTANTS Boundary,     \* boundary bytes
          Alpha,        \* payload alphabet (bytes)
          MaxPay,       \* maximal payload length
          PartCounts,   \* set of part counts, e.g. {0,1,2}
          Styles,       \* subset of {"crlf","lf","cr"}
          Pres, Epis,   \* sets of preamble / epilogue byte strings
          Leads,        \* subset of BOOLEAN: first delimiter preceded by a line break?
          MaxChunks,    \* schedules use at most this many chunks
          MaxMem, MaxPartsLim   \* limits (Unlimited = none)
VARIABLES wire, fed, n, d, ref

vars == <<wire, fed, n, d, ref>>

HDR == <<67,111,110,116,101,110,116,45,68,105,115,112,111,115,105,116,105,111,110,58,32,102,111,114,109,45,100,97,116,97,59,32,110,97,109,101,61,34,97,34>>

LBof(style) == CASE style = "crlf" -> <<CR, LF>> [] style = "lf" -> <<LF>> [] style = "cr" -> <<CR>>
AlphaOf(style) == CASE style = "crlf" -> Alpha [] style = "lf" -> Alpha \ {CR} [] style = "cr" -> Alpha \ {LF}

PartSet(style) == {[hdr |-> <<HDR>>, data |-> s, bodyless |-> FALSE] : s \in SeqsUpTo(AlphaOf(style), MaxPay)}
                  \cup {[hdr |-> <<HDR>>, data |-> <<>>, bodyless |-> TRUE]}

WiresOf(style) == {Encode(pre, ps, epi, Boundary, LBof(style), lead) :
                     pre \in Pres, epi \in Epis, lead \in Leads,
                     ps \in UNION {SeqsLen(PartSet(style), k) : k \in PartCounts}}

\* domain of the property: bodies the decoder accepts when it sees them in one piece
WellFormed(w) == LET o == OneShot(w, Boundary) IN o.err = "" /\ o.st = "DONE"

Wires == {w \in UNION {WiresOf(s) : s \in Styles} : WellFormed(w)}

Init == /\ wire \in Wires
        /\ fed = 0 /\ n = 0 /\ d = InitDec
        /\ ref = Outcome(OneShot(wire, Boundary))

Recv == /\ fed < Len(wire)
        /\ \E k \in 1..(Len(wire) - fed) :
             /\ (n + 1 < MaxChunks \/ k = Len(wire) - fed)
             /\ fed' = fed + k /\ n' = n + 1
             /\ d' = Feed(d, SubSeq(wire, fed + 1, fed + k), Boundary, MaxMem, MaxPartsLim)
        /\ UNCHANGED <<wire, ref>>

Eof == /\ fed = Len(wire) /\ ~d.complete /\ d.err = ""
       /\ d' = FeedEOF(d, Boundary, MaxPartsLim)
       /\ UNCHANGED <<wire, fed, n, ref>>

Next == Recv \/ Eof
NoNext == FALSE /\ UNCHANGED vars      \* export configs: initial states only
Spec == Init /\ [][Next]_vars

NoLimits == MaxMem = Unlimited /\ MaxPartsLim = Unlimited

\* ---- C01 ----
NoSpuriousError == NoLimits => d.err = ""
PrefixOfRef     == d.err = "" => PartsPrefix(PartsOf(d.ev), ref.parts)
ChunkIndep      == (d.complete /\ NoLimits) => Outcome(d) = ref
\* ---- C10 ----
OnlyTooLarge    == d.err \in {"", "too_large"}
BufBound        == (MaxMem # Unlimited /\ d.err = "") => Len(d.buf) <= MaxMem
PartsBound      == (MaxPartsLim # Unlimited /\ d.err = "") => d.nparts <= MaxPartsLim
GuardPurity     == (d.complete /\ d.err = "") => Outcome(d) = ref
\* the part-count limit alone never fires on a body with no more parts than allowed, whatever the schedule
PartsLimitExact == (MaxMem = Unlimited /\ MaxPartsLim # Unlimited /\ d.err = "too_large") => Len(ref.parts) > MaxPartsLim

\* ---- export of generator wires for replay against the real decoder ----
ExportWire == PrintT(ToJson([wire |-> wire, bnd |-> Boundary,
                             parts |-> [i \in 1..Len(ref.parts) |-> [hdr |-> ref.parts[i].hdr, data |-> ref.parts[i].data]]]))
=============================================================================
