------------------------- MODULE ConditionalTrace -------------------------
(* Trace judge for C11.  Input: ndjson (TRACE_FILE); every line is one request executed on the   *)
(* real code (harness/conditional.py run_case):                                                  *)
(*  [t, i, op |-> "call", api: "mc" | "sf" | "irm", method, shape, length,                       *)
(*   inm_p, inm, im_p, im, ims_p, ims, ifr_p, ifr, range_p, range   (header present / text),     *)
(*   etag_p, etag_opaque, etag_weak, lm_p, lm: <<Y, M, D, h, m, s, us>>, len_known,              *)
(*   status, exc, cr_n, cr, cl_n, cl, r_etag_n, r_etag, r_lm_n, r_lm, body, modified]            *)
(* Lines with op "file" (FileValidators.tla, clauses "File/..") are requests against real files,   *)
(* lines with op "etag" (clauses "EtagApi/..") exercise add_etag / set_etag / get_etag / freeze.   *)
(* Lines with op "rmc" / "rfile" / "rw" are recorded from the repository's own tests (plugin         *)
(* harness/pytest_conditional_plugin.py), same clauses, keys prefixed RepoTests/ by the harness.      *)
(* Lines with op "rc" combine Range with If-None-Match / If-Modified-Since / If-Match: judged by *)
(* VerdictRC, clauses prefixed "RangeCond/".                                                      *)
(* The judge parses the header texts itself (Conditional.tla) and names the violated clause:     *)
(* Raised, Sound304, Complete304, Sound412, Is416, Only416, FullOn200/.., RangeInsideResource,   *)
(* RangeInsideRequest, RangeBodyMatchesHeader/.., UnexpectedStatus; OutOfDomain is a harness     *)
(* error, never a verdict.  Drift records (never verdicts): a satisfiable range answered by the  *)
(* complete 200 body although the length was known; a 206 narrower than the satisfiable range.   *)
EXTENDS FileValidators, TLC, Json, IOUtils

Lines == ndJsonDeserialize(IOEnv.TRACE_FILE)

VARIABLES l
vars == <<l>>

ReqOf(ln) == [method |-> ln.method, inm_p |-> ln.inm_p, inm |-> ln.inm, im_p |-> ln.im_p, im |-> ln.im,
              ims_p |-> ln.ims_p, ims |-> ln.ims, ifr_p |-> ln.ifr_p, ifr |-> ln.ifr, range_p |-> ln.range_p, range |-> ln.range]
RepOf(ln) == [etag_p |-> ln.etag_p, etag_opaque |-> ln.etag_opaque, etag_weak |-> ln.etag_weak,
              lm_p |-> ln.lm_p, lm |-> ln.lm, length |-> ln.length, len_known |-> ln.len_known]
ObsOf(ln) == [status |-> ln.status, exc |-> ln.exc, cr_n |-> ln.cr_n, cr |-> ln.cr, cl_n |-> ln.cl_n, cl |-> ln.cl, body |-> ln.body]

\* op "stream": bodies that are wrap_file() around io objects of every seekability kind; same contract (a 206 carries exactly
\* the declared bytes, no exception while the WSGI server iterates), clauses prefixed Stream/.
\* op "pre": Response subclasses / responses that carry headers before make_conditional.  What the WSGI server
\* receives is judged as always; only a Content-Range that the application itself put on a response that is not
\* answered 206 is the application's, not the library's (ignored).
ObsPre(ln) == [ObsOf(ln) EXCEPT !.cr_n = IF ln.pre_cr /\ ln.status # 206 THEN 0 ELSE @]

JVerdict(ln) ==
  LET req == ReqOf(ln) rep == RepOf(ln) IN
  IF ln.op = "stream" THEN
     (IF ln.api # "mc" \/ ~InDomain(req, rep) \/ Len(ln.lm) # 7 THEN "OutOfDomain"
      ELSE LET v == Verdict(req, rep, ObsOf(ln)) IN IF v = "ok" THEN "ok" ELSE "Stream/" \o v)
  ELSE IF ln.op = "pre" THEN
     (IF ~(ln.api \in {"mc", "sf"}) \/ Len(ln.lm) # 7 THEN "OutOfDomain"
      ELSE LET v == IF InDomainRC(req, rep) THEN VerdictRC(req, rep, ObsPre(ln))
                    ELSE IF InDomain(req, rep) THEN Verdict(req, rep, ObsPre(ln)) ELSE "OutOfDomain" IN
           IF v = "ok" \/ v = "OutOfDomain" THEN v ELSE "Preset/" \o v)
  ELSE IF ln.op = "rw" THEN VerdictRW(ln)
  ELSE IF ln.op = "rfile" THEN (IF ~FileInDomain(ln) THEN "OutOfDomain" ELSE VerdictFileD(ln, RD(ln)))
  ELSE IF ln.op = "rmc" THEN
     (IF Len(ln.lm) # 7 THEN "OutOfDomain"
      ELSE IF InDomainRC(req, rep) THEN VerdictRCD(req, rep, ObsOf(ln), RD(ln))
      ELSE IF InDomain(req, rep) THEN VerdictD(req, rep, ObsOf(ln), RD(ln)) ELSE "OutOfDomain")
  ELSE IF ln.op = "file" THEN
     (IF ~FileInDomain(ln) THEN "OutOfDomain"
      ELSE LET v == VerdictFile(ln) IN IF v = "ok" THEN "ok" ELSE "File/" \o v)
  ELSE IF ln.op = "etag" THEN
     (LET v == VerdictEtagApi(ln) IN IF v = "ok" THEN "ok" ELSE "EtagApi/" \o v)
  ELSE IF ln.op = "rc" THEN
     (IF ~(ln.api \in {"mc", "sf"}) \/ ~InDomainRC(req, rep) \/ Len(ln.lm) # 7 THEN "OutOfDomain"
      ELSE LET v == VerdictRC(req, rep, ObsOf(ln)) IN IF v = "ok" THEN "ok" ELSE "RangeCond/" \o v)
  ELSE IF ~(ln.api \in {"mc", "sf", "irm"}) \/ ~InDomain(req, rep) \/ Len(ln.lm) # 7 THEN "OutOfDomain"
  ELSE IF ln.api = "irm" THEN (IF ln.exc # "" THEN "Raised" ELSE VerdictIRM(req, rep, ln.modified))
  ELSE Verdict(req, rep, ObsOf(ln))

Drift(ln) ==
  LET req == ReqOf(ln) rep == RepOf(ln) IN
  IF ln.op = "rw" \/ ln.op = "rmc" \/ ln.op = "pre" THEN ""
  ELSE IF ln.op = "file" \/ ln.op = "rfile" THEN (IF FileInDomain(ln) THEN FileDrift(ln) ELSE "")
  ELSE IF ln.op = "etag" THEN ""
  ELSE IF ln.op = "rc" THEN
     (IF InDomainRC(req, rep) /\ ln.method \in {"GET", "HEAD"} /\ May412(req, rep) /\ ln.status \in {200, 206, 416}
      THEN "failed If-Match with Range answered by 200 / 206 / 416 instead of 412" ELSE "")
  ELSE IF ln.api = "irm" \/ ~InDomain(req, rep) \/ ~(ln.method \in {"GET", "HEAD"}) \/ ~ln.range_p THEN ""
  ELSE LET rc == RangeClass(req, rep)
           ifr == IF ln.ifr_p THEN IfRange(req, rep) ELSE "pass" IN
       IF rc.c = "sat" /\ ifr = "pass" /\ ln.status = 200
       THEN "satisfiable range answered by the complete 200 body"
       ELSE IF rc.c = "sat" /\ ln.status = 206 /\ ln.cr_n = 1
            THEN (LET cr == ParseContentRange(ln.cr) IN
                  IF cr.ok /\ <<cr.a, cr.b + 1>> # rc.iv THEN "206 narrower than the satisfiable range" ELSE "")
       ELSE ""

\* the input class of a line (labels for the violation key; computed here, not in python)
Info(ln) ==
  LET req == ReqOf(ln) rep == RepOf(ln)
      pr == IF ln.range_p THEN ParseRange(ln.range) ELSE [class |-> "none", lenient |-> FALSE, specs |-> <<>>]
      sk == IF pr.class = "single" THEN pr.specs[1].kind ELSE "-"
      zero == pr.class = "single" /\ sk = "s" /\ pr.specs[1].a = 0
      over == pr.class = "single" /\ sk = "s" /\ pr.specs[1].a > ln.length
  IN [range |-> pr.class, spec |-> IF zero THEN "suffix0" ELSE IF over THEN "suffix>length" ELSE sk,
      ifr |-> IF ln.ifr_p THEN IfRange(req, rep) ELSE "-",
      ifrdate |-> ln.ifr_p /\ ParseDate(ln.ifr).ok,
      inm |-> IF ln.inm_p THEN ParseTags(ln.inm).kind ELSE "-",
      im |-> IF ln.im_p THEN ParseTags(ln.im).kind ELSE "-",
      ims |-> IF ln.ims_p THEN (IF ParseDate(ln.ims).ok THEN "date" ELSE "bad") ELSE "-"]

Init == l = 1
Next == /\ l <= Len(Lines)
        /\ LET ln == Lines[l]
               v == JVerdict(ln)
               d == IF v = "ok" THEN Drift(ln) ELSE "" IN
           /\ IF v = "ok" THEN TRUE
              ELSE PrintT(ToJson([reject |-> 1, t |-> ln.t, i |-> ln.i, clause |-> v,
                                  info |-> IF v = "OutOfDomain" \/ ln.op = "etag" \/ ln.op = "rw" THEN [range |-> "-"] ELSE Info(ln)]))
           /\ IF d = "" THEN TRUE
              ELSE PrintT(ToJson([drift |-> 1, t |-> ln.t, what |-> d]))
        /\ l' = l + 1

Done == PrintT(ToJson([judged |-> Len(Lines)])) /\ TLCGet("generated") >= 0
=============================================================================
