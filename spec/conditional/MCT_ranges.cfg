CONSTANTS
  Defects = {}
  MaxLen = 12
  Family = "ranges"
  Methods = {"GET", "HEAD", "POST"}
INIT Init
NEXT NoNext
CHECK_DEADLOCK FALSE
INVARIANT UniverseInDomain
INVARIANT ParsersOK
INVARIANT ImplMeetsContract
