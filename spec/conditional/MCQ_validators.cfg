CONSTANTS
  Defects = {}
  MaxLen = 3
  Family = "validators"
  Methods = {"GET", "HEAD", "POST"}
INIT Init
NEXT NoNext
CHECK_DEADLOCK FALSE
INVARIANT UniverseInDomain
INVARIANT ParsersOK
INVARIANT ImplMeetsContract
