CONSTANTS
  Defects = {}
  MaxLen = 4
  Family = "rangecond"
  Methods = {"GET", "HEAD", "POST"}
INIT Init
NEXT NoNext
CHECK_DEADLOCK FALSE
INVARIANT UniverseInDomain
INVARIANT ParsersOK
INVARIANT ImplMeetsContract
