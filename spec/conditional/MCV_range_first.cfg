CONSTANTS
  Defects = {"range_first"}
  MaxLen = 2
  Family = "rangecond"
  Methods = {"GET"}
INIT Init
NEXT NoNext
CHECK_DEADLOCK FALSE
INVARIANT UniverseInDomain
INVARIANT ParsersOK
INVARIANT ImplMeetsContract
