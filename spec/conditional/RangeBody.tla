----------------------------- MODULE RangeBody -----------------------------
(* Implementation-shaped model of werkzeug.wsgi._RangeWrapper (C11 c): one action per        *)
(* __next__ call, the state variables are the code's (read_length, end_reached, the position *)
(* of the wrapped iterable).  The wrapped body is                                             *)
(*   src = "list":  a list / generator of blocks given by their lengths (0 allowed),         *)
(*   src = "file":  a FileWrapper with buffer size bsize over n bytes; seekable or not.      *)
(* Contract: the bytes yielded are exactly the resource bytes [start, stop), no empty chunk  *)
(* is yielded, and the iteration ends.  Variant "orig" is the code as it was (an empty block *)
(* ends the body), "fixed" the repaired __next__ (skip empty blocks).                        *)
EXTENDS Naturals, Integers, Sequences, Bytes, TLC, Json

CONSTANTS MaxLen, MaxBlock, Variant, EmptyBlocks

VARIABLES src, n, blocks, bsize, seekable, start, stop,     \* the case (never changes)
          idx, pos, rl, endr,                               \* iterable position, read_length, end_reached
          out, done
vars == <<src, n, blocks, bsize, seekable, start, stop, idx, pos, rl, endr, out, done>>

RECURSIVE Comps(_)
Comps(k) == IF k = 0 THEN {<<>>} ELSE UNION {{<<b>> \o r : r \in Comps(k - b)} : b \in 1..k}
InsertZero(c) == {SubSeq(c, 1, p) \o <<0>> \o SubSeq(c, p + 1, Len(c)) : p \in 0..Len(c)}
BlockLists(k) == Comps(k) \cup (IF EmptyBlocks THEN UNION {InsertZero(c) : c \in Comps(k)} ELSE {})

St == [idx |-> idx, pos |-> pos, rl |-> rl, endr |-> endr]

\* next(self.iterable): [stop, lo, hi, st]  (chunk = resource bytes lo .. hi-1)
NextChunk(st) ==
  LET len == IF src = "list" THEN (IF st.idx < Len(blocks) THEN blocks[st.idx + 1] ELSE 0 - 1)
             ELSE (IF st.pos < n THEN Min2(bsize, n - st.pos) ELSE 0 - 1)
  IN IF len < 0 THEN [stop |-> TRUE, lo |-> 0, hi |-> 0, st |-> [st EXCEPT !.endr = TRUE]]
     ELSE [stop |-> FALSE, lo |-> st.pos, hi |-> st.pos + len,
           st |-> [st EXCEPT !.idx = @ + 1, !.pos = @ + len, !.rl = @ + len]]

\* python slices on a chunk [lo, hi)
From(lo, hi, k) == IF k < 0 THEN <<Max2(lo, hi + k), hi>> ELSE <<Min2(hi, lo + k), hi>>
UpTo(lo, hi, m) == IF m < 0 THEN <<lo, Max2(lo, hi + m)>> ELSE <<lo, Min2(hi, lo + m)>>

\* while self.read_length <= self.start_byte: chunk = self._next_chunk()
RECURSIVE SkipTo(_, _, _, _)
SkipTo(st, has, lo, hi) ==
  IF st.rl <= start THEN LET c == NextChunk(st) IN
                         IF c.stop THEN [stop |-> TRUE, has |-> FALSE, lo |-> 0, hi |-> 0, st |-> c.st]
                         ELSE SkipTo(c.st, TRUE, c.lo, c.hi)
  ELSE [stop |-> FALSE, has |-> has, lo |-> lo, hi |-> hi, st |-> st]

\* _first_iteration: [stop, has, lo, hi, ctx, st]
FirstIter(st) ==
  IF seekable THEN [stop |-> FALSE, has |-> FALSE, lo |-> 0, hi |-> 0, ctx |-> start,
                    st |-> [st EXCEPT !.pos = start, !.rl = start]]
  ELSE LET r == SkipTo(st, FALSE, 0, 0) IN
       IF r.stop THEN [stop |-> TRUE, has |-> FALSE, lo |-> 0, hi |-> 0, ctx |-> start, st |-> r.st]
       ELSE LET s == IF r.has THEN From(r.lo, r.hi, start - r.st.rl) ELSE <<0, 0>> IN
            [stop |-> FALSE, has |-> r.has, lo |-> s[1], hi |-> s[2], ctx |-> start, st |-> r.st]

\* _next: [stop, lo, hi, st]
NextInner(st) ==
  IF st.endr THEN [stop |-> TRUE, lo |-> 0, hi |-> 0, st |-> st]
  ELSE LET f == IF st.rl = 0 THEN FirstIter(st)
                ELSE [stop |-> FALSE, has |-> FALSE, lo |-> 0, hi |-> 0, ctx |-> st.rl, st |-> st] IN
       IF f.stop THEN [stop |-> TRUE, lo |-> 0, hi |-> 0, st |-> f.st]
       ELSE LET c == IF f.has THEN [stop |-> FALSE, lo |-> f.lo, hi |-> f.hi, st |-> f.st] ELSE NextChunk(f.st) IN
            IF c.stop THEN c
            ELSE IF c.st.rl >= stop
                 THEN LET s == UpTo(c.lo, c.hi, stop - f.ctx) IN
                      [stop |-> FALSE, lo |-> s[1], hi |-> s[2], st |-> [c.st EXCEPT !.endr = TRUE]]
                 ELSE c

\* __next__: [stop, lo, hi, st]
RECURSIVE NextFixed(_)
NextFixed(st) == IF st.endr THEN [stop |-> TRUE, lo |-> 0, hi |-> 0, st |-> st]
                 ELSE LET r == NextInner(st) IN
                      IF r.stop THEN r ELSE IF r.lo < r.hi THEN r ELSE NextFixed(r.st)
NextOrig(st) == LET r == NextInner(st) IN
                IF r.stop THEN r ELSE IF r.lo < r.hi THEN r
                ELSE [stop |-> TRUE, lo |-> 0, hi |-> 0, st |-> [r.st EXCEPT !.endr = TRUE]]
DunderNext(st) == IF Variant = "orig" THEN NextOrig(st) ELSE NextFixed(st)

Init == /\ n \in 1..MaxLen
        /\ \/ src = "list" /\ blocks \in BlockLists(n) /\ bsize = 0 /\ seekable = FALSE
           \/ src = "file" /\ blocks = <<>> /\ bsize \in 1..MaxBlock /\ seekable \in BOOLEAN
        /\ start \in 0..(n - 1) /\ stop \in (start + 1)..n
        /\ idx = 0 /\ pos = 0 /\ rl = 0 /\ endr = FALSE /\ out = <<>> /\ done = FALSE

Call == /\ ~done
        /\ LET r == DunderNext(St) IN
           /\ idx' = r.st.idx /\ pos' = r.st.pos /\ rl' = r.st.rl /\ endr' = r.st.endr
           /\ done' = r.stop
           /\ out' = IF r.stop THEN out ELSE out \o [i \in 1..(r.hi - r.lo) |-> r.lo + i - 1]
        /\ UNCHANGED <<src, n, blocks, bsize, seekable, start, stop>>
Next == Call

NoNext == FALSE /\ UNCHANGED vars
ExportCase == PrintT(ToJson([src |-> src, n |-> n, blocks |-> blocks, bsize |-> bsize, seekable |-> seekable, start |-> start, stop |-> stop]))

Expected == [i \in 1..(stop - start) |-> start + i - 1]
\* what has been yielded so far is a prefix of the range, and at the end it is the whole range
PrefixOK == IsPrefixOf(out, Expected)
DoneOK == done => out = Expected
\* the iteration ends: at most one call per byte plus one per block plus the final StopIteration
Terminates == Len(out) <= n
=============================================================================
