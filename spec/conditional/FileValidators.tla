--------------------------- MODULE FileValidators ---------------------------
(* C11 growth: where the validators come from.  send_file / send_from_directory /            *)
(* SharedDataMiddleware derive ETag, Last-Modified, Content-Length (and Cache-Control,        *)
(* Expires) from a real file: (path, size, mtime with sub-second part).  A line (op "file")   *)
(* is one request against the current state of the file, optionally carrying the validators   *)
(* of an earlier response (prev_*: that response's ETag / Last-Modified texts and the file    *)
(* state it was generated from).                                                               *)
(*                                                                                             *)
(* Generation rules that the property's clauses rest on (verdicts, prefix "File/"):            *)
(*   LastModified   Last-Modified = the effective modification time (stat mtime, or the value  *)
(*                  given) at one-second resolution (sub-second part dropped);                 *)
(*   ContentLength  a 200 declares Content-Length = file size (FullOn200 checks the bytes);    *)
(*   EtagStable     generated ETag (etag=True / SharedDataMiddleware): same path, size and      *)
(*                  mtime => the same tag;                                                      *)
(*   EtagFresh      size or mtime-second changed => a different tag (a change of the           *)
(*                  sub-second part alone may or may not show);                                 *)
(* then the request is judged by the contract of Conditional.tla (Sound304, Complete304,       *)
(* Is416, RangeBodyMatchesHeader.., RangeCond/..) against the validators the response itself   *)
(* carries for the *current* file -- so a 304 to validators of a visibly changed file is       *)
(* File/Sound304 (stale), a 200 to the validators of an unchanged file is File/Complete304.    *)
(* A change that is invisible at one-second resolution with equal size is accepted either way. *)
(* With conditional=False every request gets the complete 200 body (File/FullOn200/..).        *)
(* Rules the property does not name are reported as drift only (FileDrift): ETag shape         *)
(* (etag=False: none, etag=str: that strong tag, generated: one strong tag), Cache-Control     *)
(* (no max_age: no-cache; max_age N > 0: public, max-age=N; SharedDataMiddleware: public,      *)
(* max-age=timeout), Expires within [before + N, after + N], X-Sendfile = path and no body.    *)
EXTENDS Conditional

FReq(ln) == [method |-> ln.method, inm_p |-> ln.inm_p, inm |-> ln.inm, im_p |-> ln.im_p, im |-> ln.im,
             ims_p |-> ln.ims_p, ims |-> ln.ims, ifr_p |-> ln.ifr_p, ifr |-> ln.ifr, range_p |-> ln.range_p, range |-> ln.range]
FObs(ln) == [status |-> ln.status, exc |-> ln.exc, cr_n |-> ln.cr_n, cr |-> ln.cr, cl_n |-> ln.cl_n, cl |-> ln.cl, body |-> ln.body]

CurTag(ln) == IF ln.r_etag_n = 1 /\ ln.r_etag # <<>> THEN TagAt(ln.r_etag, 1)
              ELSE [ok |-> FALSE, weak |-> FALSE, opaque |-> <<>>, next |-> 1]
FRep(ln) == LET t == CurTag(ln) IN
            [etag_p |-> t.ok, etag_opaque |-> t.opaque, etag_weak |-> t.weak, lm_p |-> TRUE, lm |-> ln.lm,
             length |-> ln.length, len_known |-> TRUE]

Generated(ln) == ln.etag_mode = "auto"
SameState(ln) == ln.length = ln.prev_size /\ ln.mtime_s = ln.prev_mtime_s /\ ln.mtime_us = ln.prev_mtime_us
Visible(ln) == ln.length # ln.prev_size \/ ln.mtime_s # ln.prev_mtime_s

Epoch(d) == d.day * 86400 + d.sec

HasHeaders(ln) == ln.status \in {200, 206}

GenClause(ln) ==
  LET lmD == ParseDate(ln.r_lm) IN
  IF HasHeaders(ln) /\ (ln.r_lm_n # 1 \/ ~lmD.ok \/ ~Same(lmD, LmInstant(ln.lm))) THEN "LastModified"
  ELSE IF ln.status = 304 /\ ln.r_lm_n = 1 /\ ~(lmD.ok /\ Same(lmD, LmInstant(ln.lm))) THEN "LastModified"
  ELSE IF ln.status = 200 /\ ~(ln.cl_n = 1 /\ AllDigits(ln.cl) /\ NatVal(ln.cl) = ln.length) THEN "ContentLength"
  ELSE IF ln.prev_p /\ Generated(ln) /\ ln.status \in {200, 206, 304} /\ ln.prev_etag_n = 1
       THEN (IF SameState(ln) /\ ln.r_etag # ln.prev_etag THEN "EtagStable"
             ELSE IF Visible(ln) /\ ln.r_etag = ln.prev_etag THEN "EtagFresh" ELSE "ok")
  ELSE "ok"

VerdictFileD(ln, d) ==
  LET req == FReq(ln) rep == FRep(ln) obs == FObs(ln) IN
  IF ln.exc # "" /\ ln.status # 416 THEN "Raised"
  ELSE LET g == GenClause(ln) IN
  IF g # "ok" THEN g
  ELSE IF ~ln.conditional THEN
       (IF ln.status # 200 THEN "FullOn200/ConditionalOff"
        ELSE IF ln.xsf THEN "ok" ELSE Full200D(req, rep, obs, d))
  ELSE LET v == IF InDomainRC(req, rep) THEN VerdictRCD(req, rep, obs, d) ELSE VerdictD(req, rep, obs, d) IN
       \* a change invisible at one-second resolution (or to a date validator): either answer
       IF v = "Complete304" /\ ln.prev_p /\ ~SameState(ln) THEN "ok"
       ELSE IF ln.xsf /\ v = "FullOn200/Body" THEN "ok"
       ELSE v

VerdictFile(ln) == VerdictFileD(ln, Std(FReq(ln), FRep(ln)))

FileInDomain(ln) ==
  /\ ln.api \in {"sf", "sfd", "sdm"} /\ Len(ln.lm) = 7
  /\ ln.etag_mode \in {"auto", "off", "given"} /\ ln.max_age_mode \in {"none", "int", "callable"}
  /\ ~ln.im_p /\ ~(ln.ifr_p /\ (ln.inm_p \/ ln.ims_p))
  /\ ln.api = "sdm" => (~ln.range_p /\ ln.conditional /\ ~ln.xsf)

\* ------------------------------------------------------------------ drift only
RECURSIVE TrimAll(_)
TrimAll(ss) == IF ss = <<>> THEN <<>> ELSE <<Lower(Strip(Head(ss)))>> \o TrimAll(Tail(ss))
Directives(t) == LET ds == TrimAll(SplitAt(t, COMMA, <<>>)) IN {ds[i] : i \in 1..Len(ds)}
NOCACHE == <<110, 111, 45, 99, 97, 99, 104, 101>>
PUBLIC == <<112, 117, 98, 108, 105, 99>>
MAXAGE(n) == <<109, 97, 120, 45, 97, 103, 101, 61>> \o DigitsOf(n)

FileDrift(ln) ==
  LET t == CurTag(ln)
      ds == IF ln.cc_n = 1 THEN Directives(ln.cc) ELSE {}
      ex == ParseDate(ln.exp) IN
  IF ~HasHeaders(ln) THEN ""
  ELSE IF ln.etag_mode = "off" /\ ln.r_etag_n # 0 THEN "etag=False but an ETag header is sent"
  ELSE IF ln.etag_mode # "off" /\ ~(t.ok /\ ~t.weak /\ t.next = Len(ln.r_etag) + 1) THEN "ETag is not one strong entity tag"
  ELSE IF ln.etag_mode = "given" /\ t.opaque # ln.etag_given THEN "etag=str is not sent as given"
  ELSE IF ln.api = "sdm" THEN
       (IF ~(PUBLIC \in ds /\ MAXAGE(ln.max_age) \in ds) THEN "SharedDataMiddleware Cache-Control is not public, max-age=timeout"
        ELSE IF ln.status = 200 /\ ~(ln.exp_n = 1 /\ ex.ok /\ Epoch(ex) >= ln.t_before + ln.max_age /\ Epoch(ex) <= ln.t_after + ln.max_age)
             THEN "Expires is not now + timeout" ELSE "")
  ELSE IF ln.max_age_mode = "none" THEN
       (IF ~(NOCACHE \in ds) \/ PUBLIC \in ds \/ ln.exp_n # 0 THEN "no max_age: Cache-Control is not no-cache without Expires" ELSE "")
  ELSE IF ~(MAXAGE(ln.max_age) \in ds) THEN "max-age directive missing"
  ELSE IF ln.max_age > 0 /\ (~(PUBLIC \in ds) \/ NOCACHE \in ds) THEN "max_age > 0: Cache-Control is not public"
  ELSE IF ~(ln.exp_n = 1 /\ ex.ok /\ Epoch(ex) >= ln.t_before + ln.max_age /\ Epoch(ex) <= ln.t_after + ln.max_age)
       THEN "Expires is not now + max_age"
  ELSE IF ln.xsf /\ ~(ln.xsf_n = 1 /\ ln.xsf_v = ln.path /\ ln.body = <<>>) THEN "X-Sendfile is not the path with an empty body"
  ELSE ""
\* ------------------------------------------------------------------ add_etag / set_etag / get_etag / freeze
\* A line (op "etag"): two responses built from body1 / body2 (any chunking), each given an ETag by
\* `via` ("add_etag" [overwrite, weak], "freeze", "set_etag" [given1 / given2, weak]); `preset`: an ETag
\* "preset" was set before.  tag1 / tag2: the ETag header texts; get1_*: get_etag() of response 1;
\* status_inm / status_im: response 2 made conditional to GET + If-None-Match: tag1 / If-Match: tag1.
\* The validator must identify the representation: generated tags are equal iff the bodies are equal
\* (whatever the chunking); a kept or given tag is sent as given; the weakness asked for is the weakness
\* sent and reported; and the conditional answers follow from the two header texts alone.
PRESET == <<112, 114, 101, 115, 101, 116>>
WholeTag(t) == IF t = <<>> THEN [ok |-> FALSE, weak |-> FALSE, opaque |-> <<>>, next |-> 1]
               ELSE LET r == TagAt(t, 1) IN [r EXCEPT !.ok = r.ok /\ r.next = Len(t) + 1]
VerdictEtagApi(ln) ==
  LET t1 == WholeTag(ln.tag1) t2 == WholeTag(ln.tag2)
      kept == ln.preset /\ (ln.via = "freeze" \/ (ln.via = "add_etag" /\ ~ln.overwrite)) IN
  IF ln.exc # "" THEN "Raised"
  ELSE IF ~t1.ok \/ ~t2.ok THEN "HeaderIsOneTag"
  ELSE IF ln.get1_none \/ ln.get1_opaque # t1.opaque \/ ln.get1_weak # t1.weak THEN "GetEtag"
  ELSE IF kept /\ (t1.opaque # PRESET \/ t2.opaque # PRESET \/ t1.weak \/ t2.weak) THEN "KeepsExisting"
  ELSE IF ~kept /\ ln.via = "set_etag" /\ (t1.opaque # ln.given1 \/ t2.opaque # ln.given2) THEN "SetEtag"
  ELSE IF ~kept /\ ln.via # "freeze" /\ (t1.weak # ln.weak \/ t2.weak # ln.weak) THEN "Weakness"
  ELSE IF ~kept /\ ln.via = "freeze" /\ (t1.weak \/ t2.weak) THEN "Weakness"
  ELSE IF ~kept /\ ln.via # "set_etag" /\ ln.body1 = ln.body2 /\ t1.opaque # t2.opaque THEN "EtagStable"
  ELSE IF ~kept /\ ln.via # "set_etag" /\ ln.body1 # ln.body2 /\ t1.opaque = t2.opaque THEN "EtagFresh"
  ELSE IF t1.opaque = t2.opaque /\ ln.status_inm # 304 THEN "Complete304"
  ELSE IF t1.opaque # t2.opaque /\ ln.status_inm # 200 THEN "Sound304"
  ELSE IF ln.status_inm = 200 /\ ln.out_inm # ln.body2 THEN "FullOn200/Body"
  ELSE IF ln.status_im = 412 /\ t1.opaque = t2.opaque /\ ~t1.weak /\ ~t2.weak THEN "Sound412"
  ELSE IF ~(ln.status_im \in {200, 412}) THEN "UnexpectedStatus"
  ELSE "ok"

\* ------------------------------------------------------------------ records of the repository's own tests
\* op "rmc": Response.make_conditional, op "rfile": send_file / send_from_directory / SharedDataMiddleware
\* with a real path; both bring the resource bytes (data) when the plugin could copy them without
\* disturbing the test and say whether the recorded body is comparable (has_body).
\* op "rw": one _RangeWrapper session: pulled = the bytes it pulled from the wrapped iterable, starting at
\* resource offset base; out = the bytes it yielded; the yielded bytes are the part of [start, start + len)
\* (len < 0: to the end) that lies in what was pulled -- a prefix of it while the session is unfinished.
RD(ln) == [data |-> ln.data, hb |-> ln.has_body]
VerdictRW(ln) ==
  LET lo == Max2(ln.start - ln.base, 0)
      hi0 == IF ln.len < 0 THEN Len(ln.pulled) ELSE Min2(ln.start + ln.len - ln.base, Len(ln.pulled))
      hi == Max2(hi0, lo)
      exp == IF hi > lo THEN SubSeq(ln.pulled, lo + 1, hi) ELSE <<>> IN
  IF ln.exc # "" THEN "Raised"
  ELSE IF ~IsPrefixOf(ln.out, exp) THEN "RangeBodyMatchesHeader/Body"
  ELSE IF ln.finished /\ ln.out # exp THEN "RangeBodyMatchesHeader/Body"
  ELSE IF ln.empty_chunk THEN "RangeBodyMatchesHeader/EmptyChunk"
  ELSE "ok"
=============================================================================
