CONSTANTS
  Defects = {}
  MaxLen = 1
  Family = "rangecond"
  Methods = {"GET"}
INIT Init
NEXT NoNext
CHECK_DEADLOCK FALSE
INVARIANT UniverseInDomain
INVARIANT ParsersOK
INVARIANT ImplMeetsContract
