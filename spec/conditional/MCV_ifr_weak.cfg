CONSTANTS
  Defects = {"ifr_weak"}
  MaxLen = 3
  Family = "ranges"
  Methods = {"GET"}
INIT Init
NEXT NoNext
CHECK_DEADLOCK FALSE
INVARIANT UniverseInDomain
INVARIANT ParsersOK
INVARIANT ImplMeetsContract
