CONSTANTS
  MaxLen = 4
  MaxBlock = 2
  Variant = "fixed"
  EmptyBlocks = TRUE
INIT Init
NEXT NoNext
CHECK_DEADLOCK FALSE
INVARIANT ExportCase
