CONSTANTS
  Defects = {"im_star"}
  MaxLen = 3
  Family = "validators"
  Methods = {"GET"}
INIT Init
NEXT NoNext
CHECK_DEADLOCK FALSE
INVARIANT UniverseInDomain
INVARIANT ParsersOK
INVARIANT ImplMeetsContract
